(* C36 — proofs over C36/Model.v.
   1. witness_two_leaders: two nodes, each told by Members() that it is the coordinator, both pass the
      ActorExists check before either publishes, both start the actor, both publish with the plain overwriting
      put: at quiescence two instances run (replayed on the real SpawnSingleton by the harness).
   2. stable_safe: if every Members() answer names the same node (stable leader), at most one instance runs, at
      every moment, for any number of nodes and calls, with failures anywhere — for both publication modes. *)
From Coq Require Import List Arith Bool Lia.
From GV Require Import C30.Registry C36.Model.
Import ListNotations.

(* ================================================================== refutation *)

Definition witness_two_leaders : list label :=
  [ Call 0; Call 1;
    Adv 0 true 0;      (* node 0: Members() names node 0: local spawn *)
    Adv 1 true 1;      (* node 1: Members() names node 1: local spawn *)
    Adv 0 true 0;      (* node 0: ActorExists = false, no local instance *)
    Adv 1 true 0;      (* node 1: ActorExists = false, no local instance *)
    Adv 0 true 0;      (* node 0: the actor starts *)
    Adv 1 true 0;      (* node 1: the actor starts: TWO running instances *)
    Adv 0 true 0;      (* node 0: PutActor *)
    Adv 1 true 0 ].    (* node 1: PutActor overwrites *)

Lemma witness_eval :
  match run false state0 witness_two_leaders with
  | Some s => (running_list 2 s, r_get sk (sreg s), map ph (calls s), dws s)
  | None => ([], None, [], [])
  end = ([(0, 0); (1, 0)], Some 1, [PDone ROk; PDone ROk], []).
Proof. vm_compute. reflexivity. Qed.

Lemma in_running_list : forall nn s n i, In (n, i) (running_list nn s) -> is_running s n i.
Proof.
  intros nn s n i H. unfold running_list in H. apply in_flat_map in H. destruct H as (n' & _ & H).
  apply in_map_iff in H. destruct H as (i' & E & H). inversion E; subst.
  apply filter_In in H. destruct H as (_ & H). exact H.
Qed.

Theorem refuted_two_leaders :
  exists ls s, run false state0 ls = Some s /\ quiescent s /\ ~ at_most_one_instance s.
Proof.
  exists witness_two_leaders.
  destruct (run false state0 witness_two_leaders) as [s|] eqn:E; [|vm_compute in E; discriminate].
  exists s. split; auto. generalize witness_eval. rewrite E. intros X. inversion X as [[L R C D]].
  split.
  - split.
    + intros c I. apply (in_map ph) in I. rewrite C in I. simpl in I. destruct I as [I|[I|[]]]; eauto.
    + rewrite D. intros x [].
  - intros H.
    assert (A : is_running s 0 0) by (apply (in_running_list 2); rewrite L; simpl; auto).
    assert (B : is_running s 1 0) by (apply (in_running_list 2); rewrite L; simpl; auto).
    destruct (H 0 1 0 0 A B). discriminate.
Qed.

(* with the NX publication two instances still run for a while (both start before either publishes), and the
   loser's rollback makes the death watch remove the WINNER's record by name, so a later call elsewhere starts a
   second instance that stays: the atomic publication alone does not give the property under leadership changes *)
Definition witness_nx : list label :=
  [ Call 0; Call 1; Adv 0 true 0; Adv 1 true 1; Adv 0 true 0; Adv 1 true 0; Adv 0 true 0; Adv 1 true 0;
    Adv 0 true 0;                    (* node 0 wins PutActorIfAbsent *)
    Adv 1 true 0;                    (* node 1 loses: rollback, its instance stops, death-watch job queued *)
    Dw 0 true;                       (* node 1's death watch removes the record by name: node 0's record *)
    Adv 1 true 0;                    (* node 1's conflict handler: GetActor = NotFound *)
    Call 2; Adv 2 true 2; Adv 2 true 0; Adv 2 true 0; Adv 2 true 0 ].  (* node 2 is told it leads: exists=false, starts, wins *)

Lemma witness_nx_eval :
  match run true state0 witness_nx with
  | Some s => (running_list 3 s, r_get sk (sreg s), map ph (calls s), dws s)
  | None => ([], None, [], [])
  end = ([(0, 0); (2, 0)], Some 2, [PDone ROk; PDone RExists; PDone ROk], [(1, false)]).
Proof. vm_compute. reflexivity. Qed.

Theorem refuted_nx :
  exists ls s, run true state0 ls = Some s /\ quiescent s /\ ~ at_most_one_instance s.
Proof.
  exists witness_nx.
  destruct (run true state0 witness_nx) as [s|] eqn:E; [|vm_compute in E; discriminate].
  exists s. split; auto. generalize witness_nx_eval. rewrite E. intros X. inversion X as [[L R C D]].
  split.
  - split.
    + intros c I. apply (in_map ph) in I. rewrite C in I. simpl in I. destruct I as [I|[I|[I|[]]]]; eauto.
    + rewrite D. intros x [I|[]]. subst; reflexivity.
  - intros H.
    assert (A : is_running s 0 0) by (apply (in_running_list 3); rewrite L; simpl; auto).
    assert (B : is_running s 2 0) by (apply (in_running_list 3); rewrite L; simpl; auto).
    destruct (H 0 2 0 0 A B). discriminate.
Qed.

(* ================================================================== stable leader *)

Section Stable.
  Variable nx : bool.
  Variable ld : nat.

  Definition pcfact (s : state) (pc : fpc) : Prop :=
    match pc with
    | FExists => True
    | FStart => forall i, running (nodes s ld) i = false
    | FPublish j => tree (nodes s ld) = Some j
    end.

  Record Inv (s : state) : Prop := mkInv {
    IA : forall n i, running (nodes s n) i = true -> n = ld /\ tree (nodes s n) = Some i;
    IB : forall k c pc, nth_error (calls s) k = Some c -> ph c = PFlight pc -> cur c = ld /\ pcfact s pc;
    IC : forall k k' c c' pc pc', nth_error (calls s) k = Some c -> nth_error (calls s) k' = Some c' ->
           ph c = PFlight pc -> ph c' = PFlight pc' -> k = k'
  }.

  Lemma inv0 : Inv state0.
  Proof.
    constructor; simpl; intros.
    - unfold running in H. simpl in H. destruct i; simpl in H; discriminate.
    - destruct k; discriminate.
    - destruct k; discriminate.
  Qed.

  Lemma nth_error_set_nth_same : forall A (l : list A) i x y, nth_error l i = Some y -> nth_error (set_nth i x l) i = Some x.
  Proof. induction l; destruct i; simpl; intros; try discriminate; auto. eapply IHl; eauto. Qed.
  Lemma nth_error_set_nth_other : forall A (l : list A) i j x, i <> j -> nth_error (set_nth i x l) j = nth_error l j.
  Proof. induction l; destruct i; destruct j; simpl; intros; auto; try congruence. Qed.

  Lemma unwind_not_flight : forall st r st' p, unwind st r = (st', p) -> forall pc, p <> PFlight pc.
  Proof.
    induction st as [|a t IH]; intros r st' p H pc.
    - simpl in H. inversion H; subst; discriminate.
    - destruct t as [|b t'].
      + simpl in H. inversion H; subst; discriminate.
      + change (unwind (a :: b :: t') r) with (match r with RExists => (b :: t', PConflict) | _ => unwind (b :: t') r end) in H.
        destruct r; try (eapply IH; eauto; fail). inversion H; subst; discriminate.
  Qed.

  Lemma level_not_flight : forall st r st' p, level_result st r = (st', p) -> forall pc, p <> PFlight pc.
  Proof.
    unfold level_result; intros st r st' p H pc. destruct r; try (eapply unwind_not_flight; eauto; fail).
    inversion H; subst; discriminate.
  Qed.

  (* replacing call i by a call that is not in flight, nodes untouched *)
  Lemma inv_leave : forall s i c c' r' d',
    Inv s -> nth_error (calls s) i = Some c -> (forall pc, ph c' <> PFlight pc) ->
    Inv (mkS r' (nodes s) (set_nth i c' (calls s)) d').
  Proof.
    intros s i c c' r' d' [ia ib ic] N NF. constructor; simpl; intros.
    - eauto.
    - destruct (Nat.eq_dec k i) as [->|Hne].
      + rewrite (nth_error_set_nth_same _ _ _ _ _ N) in H. inversion H; subst. exfalso; eapply NF; eauto.
      + rewrite nth_error_set_nth_other in H by auto. destruct (ib _ _ _ H H0) as (A & B). split; auto; destruct pc; simpl in *; auto.
    - destruct (Nat.eq_dec k i) as [->|Hne].
      + rewrite (nth_error_set_nth_same _ _ _ _ _ N) in H. inversion H; subst. exfalso; eapply NF; eauto.
      + destruct (Nat.eq_dec k' i) as [->|Hne'].
        * rewrite (nth_error_set_nth_same _ _ _ _ _ N) in H0. inversion H0; subst. exfalso; eapply NF; eauto.
        * rewrite nth_error_set_nth_other in H, H0 by auto. eauto.
  Qed.

  Lemma flight_busy_false : forall s n, flight_busy s n = false ->
    forall k c pc, nth_error (calls s) k = Some c -> ph c = PFlight pc -> cur c <> n.
  Proof.
    unfold flight_busy. intros s n H k c pc N P E.
    assert (X : existsb (fun c => in_flight c n) (calls s) = true).
    { apply existsb_exists. exists c. split; [eapply nth_error_In; eauto|]. unfold in_flight. rewrite P. apply Nat.eqb_eq; auto. }
    congruence.
  Qed.

  Lemma running_app_true : forall l i, nth i (l ++ [true]) false = true -> (i < length l /\ nth i l false = true) \/ i = length l.
  Proof.
    intros l i H. destruct (lt_dec i (length l)) as [L|L].
    - left. split; auto. rewrite app_nth1 in H; auto.
    - destruct (Nat.eq_dec i (length l)); auto. rewrite nth_overflow in H; [discriminate|]. rewrite app_length; simpl; lia.
  Qed.

  Lemma nth_set_nth_false : forall l j i, nth i (set_nth j false l) false = true -> i <> j /\ nth i l false = true.
  Proof.
    induction l as [|a t IH]; intros j i H.
    - destruct j; destruct i; simpl in H; discriminate.
    - destruct j as [|j]; destruct i as [|i]; simpl in *; try discriminate.
      + split; [discriminate|assumption].
      + split; [discriminate|assumption].
      + apply IH in H. destruct H. split; [congruence|assumption].
  Qed.

  (* close a branch whose call leaves the flight / the conflict handler: S is the (simplified) step equation *)
  Ltac nf_side U := first [ eapply unwind_not_flight; exact U | eapply level_not_flight; exact U | intros; discriminate ].
  Ltac leave_tac S I N :=
    first [ match type of S with context [unwind ?a ?b] =>
              let U := fresh "U" in destruct (unwind a b) as [? ?] eqn:U; inversion S; subst;
              eapply inv_leave; [exact I | exact N | simpl; eapply unwind_not_flight; exact U] end
          | inversion S; subst; eapply inv_leave; [exact I | exact N | simpl; intros; discriminate] ].

  Lemma inv_step : forall s lb s', Inv s -> stable ld s lb = true -> step nx s lb = Some s' -> Inv s'.
  Proof.
    intros s lb s' I G S. destruct lb as [n|i ok l|k ok]; simpl in S.
    - (* Call *)
      inversion S; subst; clear S. destruct I as [ia ib ic]. constructor; simpl; intros.
      + eauto.
      + destruct (lt_dec k (length (calls s))) as [L|L].
        * rewrite nth_error_app1 in H by auto. destruct (ib _ _ _ H H0). split; auto; destruct pc; auto.
        * rewrite nth_error_app2 in H by lia. destruct (k - length (calls s)) as [|[|x]]; simpl in H; try discriminate.
          inversion H; subst. discriminate.
      + assert (X : forall k c pc, nth_error (calls s ++ [mkCall [n] PMembers]) k = Some c -> ph c = PFlight pc -> nth_error (calls s) k = Some c).
        { intros k0 c0 pc0 N P. destruct (lt_dec k0 (length (calls s))) as [L|L].
          - rewrite nth_error_app1 in N by auto. auto.
          - rewrite nth_error_app2 in N by lia. destruct (k0 - length (calls s)) as [|[|x]]; simpl in N; try discriminate.
            inversion N; subst. discriminate. }
        eapply ic; eauto.
    - (* Adv *)
      destruct (nth_error (calls s) i) as [c|] eqn:N; [|discriminate].
      destruct (ph c) as [|pc| |r] eqn:P; [| | |discriminate].
      + (* PMembers *)
        destruct ok; simpl in S.
        * simpl in G. rewrite N, P in G. apply Nat.eqb_eq in G. subst l.
          destruct (Nat.eqb_spec ld (cur c)) as [E|E].
          -- destruct (flight_busy s (cur c)) eqn:FB; [discriminate|]. inversion S; subst; clear S.
             pose proof (flight_busy_false _ _ FB) as NB. destruct I as [ia ib ic]. constructor; simpl; intros.
             ++ eauto.
             ++ destruct (Nat.eq_dec k i) as [->|Hne].
                ** rewrite (nth_error_set_nth_same _ _ _ _ _ N) in H. inversion H; subst. simpl in H0. inversion H0; subst.
                   split; [unfold cur; simpl; auto|exact Logic.I].
                ** rewrite nth_error_set_nth_other in H by auto. destruct (ib _ _ _ H H0). split; auto; destruct pc; auto.
             ++ assert (X : forall k c0 pc0, k <> i -> nth_error (calls s) k = Some c0 -> ph c0 = PFlight pc0 -> False).
                { intros k0 cx pcx _ N0 P0. destruct (ib _ _ _ N0 P0) as (A & _). eapply NB; eauto. congruence. }
                destruct (Nat.eq_dec k i) as [->|Hne]; destruct (Nat.eq_dec k' i) as [->|Hne']; auto.
                ** rewrite nth_error_set_nth_other in H0 by auto. exfalso; eapply X; eauto.
                ** rewrite nth_error_set_nth_other in H by auto. exfalso; eapply X; eauto.
                ** rewrite nth_error_set_nth_other in H, H0 by auto. exfalso; eapply X; [| exact H| exact H1]; auto.
          -- inversion S; subst; clear S. eapply inv_leave; eauto. simpl. discriminate.
        * destruct (unwind (stack c) RErr) as [st p] eqn:U. inversion S; subst; clear S.
          eapply inv_leave; eauto. simpl. eapply unwind_not_flight; eauto.
      + (* PFlight *)
        destruct (IB _ I _ _ _ N P) as (CL & PF).
        assert (CL' : hd 0 (stack c) = ld) by exact CL.
        destruct pc as [| |j].
        * (* FExists *)
          assert (GO : (forall x, running (nodes s ld) x = false) ->
                       Inv (mkS (sreg s) (nodes s) (set_nth i (mkCall (stack c) (PFlight FStart)) (calls s)) (dws s))).
          { intros NRun. destruct I as [ia ib ic]. constructor; simpl; intros.
            - eauto.
            - destruct (Nat.eq_dec k i) as [->|Hne].
              + rewrite (nth_error_set_nth_same _ _ _ _ _ N) in H. inversion H; subst. simpl in H0. inversion H0; subst.
                split; [exact CL|exact NRun].
              + rewrite nth_error_set_nth_other in H by auto. exfalso. apply Hne. eapply ic; eauto.
            - destruct (Nat.eq_dec k i) as [->|Hne]; destruct (Nat.eq_dec k' i) as [->|Hne']; auto.
              + rewrite nth_error_set_nth_other in H0 by auto. symmetry. eapply ic; eauto.
              + rewrite nth_error_set_nth_other in H by auto. eapply ic; eauto.
              + rewrite nth_error_set_nth_other in H, H0 by auto. eapply ic; eauto. }
          destruct ok; simpl in S; [|leave_tac S I N].
          destruct (r_exists sk (sreg s)); [leave_tac S I N|].
          try rewrite CL in S; try rewrite CL' in S.
          destruct (tree (nodes s ld)) as [j|] eqn:T.
          -- destruct (running (nodes s ld) j) eqn:RJ; [leave_tac S I N|].
             inversion S; subst. apply GO. intros x. destruct (running (nodes s ld) x) eqn:RX; auto.
             destruct (IA _ I _ _ RX) as (_ & A). rewrite T in A. inversion A; subst. congruence.
          -- inversion S; subst. apply GO. intros x. destruct (running (nodes s ld) x) eqn:RX; auto.
             destruct (IA _ I _ _ RX) as (_ & A). rewrite T in A. discriminate.
        * (* FStart: the instance starts *)
          simpl in PF. try rewrite CL in S; try rewrite CL' in S. inversion S; subst; clear S.
          destruct I as [ia ib ic]. constructor; simpl; intros.
          -- unfold upd_node in *. destruct (Nat.eqb_spec n ld) as [->|Hne].
             ++ split; auto. unfold running in H. simpl in H. apply running_app_true in H. destruct H as [(L & H)|H].
                ** pose proof (PF i0) as X. unfold running in X. congruence.
                ** subst. reflexivity.
             ++ eauto.
          -- destruct (Nat.eq_dec k i) as [->|Hne].
             ++ rewrite (nth_error_set_nth_same _ _ _ _ _ N) in H. inversion H; subst. simpl in H0. inversion H0; subst.
                split; [exact CL|]. simpl. unfold upd_node. rewrite Nat.eqb_refl. reflexivity.
             ++ rewrite nth_error_set_nth_other in H by auto. exfalso. apply Hne. eapply ic; eauto.
          -- destruct (Nat.eq_dec k i) as [->|Hne]; destruct (Nat.eq_dec k' i) as [->|Hne']; auto.
             ++ rewrite nth_error_set_nth_other in H0 by auto. symmetry. eapply ic; eauto.
             ++ rewrite nth_error_set_nth_other in H by auto. eapply ic; eauto.
             ++ rewrite nth_error_set_nth_other in H, H0 by auto. eapply ic; eauto.
        * (* FPublish *)
          simpl in PF. try rewrite CL in S; try rewrite CL' in S.
          assert (RB : forall st p, (forall pc, p <> PFlight pc) ->
                    Inv (mkS (sreg s) (upd_node (nodes s) ld (mkN (set_nth j false (insts (nodes s ld))) None))
                             (set_nth i (mkCall st p) (calls s)) (dws s ++ [(ld, true)]))).
          { intros st p NF.
            destruct I as [ia ib ic]. constructor; simpl; intros.
            - unfold upd_node in *. destruct (Nat.eqb_spec n ld) as [->|Hne]; [|eauto].
              exfalso. unfold running in H. simpl in H. apply nth_set_nth_false in H. destruct H as (A & B).
              destruct (ia ld i0 B) as (_ & X). rewrite PF in X. inversion X; subst. congruence.
            - destruct (Nat.eq_dec k i) as [->|Hne].
              + rewrite (nth_error_set_nth_same _ _ _ _ _ N) in H. inversion H; subst. exfalso; eapply NF; eauto.
              + rewrite nth_error_set_nth_other in H by auto. exfalso. apply Hne. eapply ic; eauto.
            - destruct (Nat.eq_dec k i) as [->|Hne].
              + rewrite (nth_error_set_nth_same _ _ _ _ _ N) in H. inversion H; subst. exfalso; eapply NF; eauto.
              + rewrite nth_error_set_nth_other in H by auto. exfalso. apply Hne. eapply ic; eauto. }
          assert (RBT : forall s1, (forall r, r = RErr \/ r = RExists ->
                      (let '(st, p) := level_result (stack c) r in
                       Some (mkS (sreg s) (upd_node (nodes s) ld (mkN (set_nth j false (insts (nodes s ld))) None))
                                 (set_nth i (mkCall st p) (calls s)) (dws s ++ [(ld, true)]))) = Some s1 -> Inv s1)).
          { intros s1 r _ H. destruct (level_result (stack c) r) as [st p] eqn:U. inversion H; subst. apply RB.
            eapply level_not_flight; eauto. }
          destruct ok; [|eapply (RBT s' RErr); auto].
          simpl negb in S. cbv iota in S.
          destruct nx.
          -- destruct (r_put_if_absent sk ld (sreg s)) as [r1 won]. destruct won.
             ++ leave_tac S I N.
             ++ eapply (RBT s' RExists); auto.
          -- leave_tac S I N.
      + (* PConflict *)
        destruct ok; simpl in S; [|leave_tac S I N].
        destruct (r_get sk (sreg s)); leave_tac S I N.
    - (* Dw *)
      destruct (nth_error (dws s) k) as [[n b]|]; [|discriminate]. destruct b; [|discriminate].
      inversion S; subst; clear S. destruct I as [ia ib ic]. constructor; simpl; intros; eauto;
        try (destruct (ib _ _ _ H H0); split; auto; destruct pc; auto).
  Qed.

  Lemma inv_run_g : forall ls s s', Inv s -> run_g nx ld s ls = Some s' -> Inv s'.
  Proof.
    induction ls as [|l t IH]; simpl; intros s s' I R.
    - inversion R; subst; auto.
    - destruct (stable ld s l) eqn:G; [|discriminate]. destruct (step nx s l) as [s1|] eqn:S; [|discriminate].
      eapply IH; [|exact R]. eapply inv_step; eauto.
  Qed.

  Theorem stable_safe : forall ls s, run_g nx ld state0 ls = Some s ->
    at_most_one_instance s /\ (forall n i, is_running s n i -> n = ld).
  Proof.
    intros ls s R. pose proof (inv_run_g _ _ _ inv0 R) as [ia _ _]. split.
    - intros n m i j A B. destruct (ia _ _ A) as (-> & TA). destruct (ia _ _ B) as (-> & TB).
      split; auto. congruence.
    - intros n i A. apply (ia _ _ A).
  Qed.
End Stable.

(* the guard is satisfiable: three nodes call concurrently, two are forwarded to the leader (node 2), one publication
   fails and is rolled back, the death watch removes the record, a later call re-creates the singleton *)
Definition stable_example : list label :=
  [ Call 0; Call 2; Adv 0 true 2; Adv 1 true 2; Adv 1 true 0; Adv 1 true 0; Adv 1 false 0;
    Adv 0 true 2; Adv 0 true 0; Adv 0 true 0; Dw 0 true; Adv 0 true 0;
    Call 1; Adv 2 true 2; Adv 2 true 2; Adv 2 true 0; Adv 2 true 0 ].

Example stable_example_runs :
  match run_g false 2 state0 stable_example with
  | Some s => (running_list 3 s, r_get sk (sreg s), map ph (calls s), dws s)
  | None => ([], None, [], [])
  end = ([(2, 1)], Some 2, [PDone ROk; PDone RErr; PDone ROk], [(2, false)]).
Proof. vm_compute. reflexivity. Qed.
