(* Bytes: byte strings as [list N] (a byte is an N; "well-formed" means < 256), big-endian
   u16/u32/u64 writers and readers, and PARTIAL slicing (an out-of-range slice is [None], which the
   models turn into an explicit [Panic] outcome, so "never reads out of range" is a theorem).   *)
From Coq Require Import NArith List Lia Bool.
Import ListNotations.
Open Scope N_scope.

Definition bytes := list N.
Definition blen (l : bytes) : N := N.of_nat (length l).

Lemma blen_app a b : blen (a ++ b) = blen a + blen b.
Proof. unfold blen. rewrite app_length. lia. Qed.
Lemma blen_nil : blen [] = 0. Proof. reflexivity. Qed.
Lemma blen_cons x l : blen (x :: l) = 1 + blen l.
Proof. unfold blen. cbn [length]. lia. Qed.

(* ---- writers: Go's PutUint16/32/64 applied to uint16(n)/uint32(n)/uint64(n) (conversion truncates) *)
Definition be16 (n : N) : bytes := [(n / 256) mod 256; n mod 256].
Definition be32 (n : N) : bytes :=
  [(n / 16777216) mod 256; (n / 65536) mod 256; (n / 256) mod 256; n mod 256].
Definition be64 (n : N) : bytes := be32 (n / 4294967296) ++ be32 n.

Lemma blen_be16 n : blen (be16 n) = 2. Proof. reflexivity. Qed.
Lemma blen_be32 n : blen (be32 n) = 4. Proof. reflexivity. Qed.
Lemma blen_be64 n : blen (be64 n) = 8. Proof. reflexivity. Qed.
Lemma length_be16 n : length (be16 n) = 2%nat. Proof. reflexivity. Qed.
Lemma length_be32 n : length (be32 n) = 4%nat. Proof. reflexivity. Qed.
Lemma length_be64 n : length (be64 n) = 8%nat. Proof. reflexivity. Qed.

(* ---- readers of the first 2/4/8 bytes of a slice (Go's Uint16/32/64 on b[0:]); None = too short *)
Definition rd16 (l : bytes) : option N :=
  match l with a :: b :: _ => Some (a * 256 + b) | _ => None end.
Definition rd32 (l : bytes) : option N :=
  match l with a :: b :: c :: d :: _ => Some (a * 16777216 + b * 65536 + c * 256 + d) | _ => None end.
Definition rd64 (l : bytes) : option N :=
  match l with
  | a :: b :: c :: d :: r =>
      match rd32 r with
      | Some lo => Some ((a * 16777216 + b * 65536 + c * 256 + d) * 4294967296 + lo)
      | None => None
      end
  | _ => None
  end.

Lemma rd16_be16_mod n r : rd16 (be16 n ++ r) = Some (n mod 65536).
Proof.
  unfold be16, rd16. cbn [app]. f_equal.
  pose proof (N.div_mod n 256 ltac:(lia)).
  pose proof (N.div_mod (n / 256) 256 ltac:(lia)).
  pose proof (N.mod_upper_bound n 256 ltac:(lia)).
  pose proof (N.mod_upper_bound (n / 256) 256 ltac:(lia)).
  apply (N.mod_unique _ _ (n / 256 / 256)); lia.
Qed.

Lemma rd16_be16 n r : n < 65536 -> rd16 (be16 n ++ r) = Some n.
Proof. intros H. rewrite rd16_be16_mod, N.mod_small; auto. Qed.

Lemma rd32_be32_mod n r : rd32 (be32 n ++ r) = Some (n mod 4294967296).
Proof.
  unfold be32, rd32. cbn [app]. f_equal.
  pose proof (N.div_mod n 256 ltac:(lia)).
  pose proof (N.div_mod (n / 256) 256 ltac:(lia)).
  pose proof (N.div_mod (n / 65536) 256 ltac:(lia)).
  pose proof (N.div_mod (n / 16777216) 256 ltac:(lia)).
  pose proof (N.mod_upper_bound n 256 ltac:(lia)).
  pose proof (N.mod_upper_bound (n / 256) 256 ltac:(lia)).
  pose proof (N.mod_upper_bound (n / 65536) 256 ltac:(lia)).
  pose proof (N.mod_upper_bound (n / 16777216) 256 ltac:(lia)).
  assert (E1 : n / 65536 = n / 256 / 256) by (rewrite N.div_div by lia; reflexivity).
  assert (E2 : n / 16777216 = n / 65536 / 256) by (rewrite N.div_div by lia; reflexivity).
  apply (N.mod_unique _ _ (n / 16777216 / 256)); lia.
Qed.

Lemma rd32_be32 n r : n < 4294967296 -> rd32 (be32 n ++ r) = Some n.
Proof. intros H. rewrite rd32_be32_mod, N.mod_small; auto. Qed.

Lemma rd64_be64_mod n r : rd64 (be64 n ++ r) = Some (n mod 18446744073709551616).
Proof.
  unfold be64. rewrite <- app_assoc.
  pose proof (rd32_be32_mod (n / 4294967296) (be32 n ++ r)) as H1.
  pose proof (rd32_be32_mod n r) as H2.
  unfold rd64. unfold be32 at 1. cbn [app].
  unfold be32 at 1 in H1. cbn [app rd32] in H1. injection H1 as H1.
  rewrite H2, H1. f_equal.
  pose proof (N.div_mod n 4294967296 ltac:(lia)).
  pose proof (N.div_mod (n / 4294967296) 4294967296 ltac:(lia)).
  pose proof (N.mod_upper_bound n 4294967296 ltac:(lia)).
  pose proof (N.mod_upper_bound (n / 4294967296) 4294967296 ltac:(lia)).
  apply (N.mod_unique _ _ (n / 4294967296 / 4294967296)); lia.
Qed.

Lemma rd64_be64 n r : n < 18446744073709551616 -> rd64 (be64 n ++ r) = Some n.
Proof. intros H. rewrite rd64_be64_mod, N.mod_small; auto. Qed.

Lemma rd16_some l : 2 <= blen l -> exists v, rd16 l = Some v.
Proof.
  destruct l as [|a [|b r]]; rewrite ?blen_cons, ?blen_nil; try lia. intros _. eexists; reflexivity.
Qed.
Lemma rd32_some l : 4 <= blen l -> exists v, rd32 l = Some v.
Proof.
  destruct l as [|a [|b [|c [|d r]]]]; rewrite ?blen_cons, ?blen_nil; try lia. intros _. eexists; reflexivity.
Qed.
Lemma rd64_some l : 8 <= blen l -> exists v, rd64 l = Some v.
Proof.
  destruct l as [|a [|b [|c [|d r]]]]; rewrite ?blen_cons, ?blen_nil; try lia. intros H.
  destruct (rd32_some r ltac:(lia)) as [v Hv]. unfold rd64. rewrite Hv. eexists; reflexivity.
Qed.

(* ---- partial slicing: Go's data[lo:hi]; None models the run-time panic *)
Definition slice (lo hi : N) (l : bytes) : option bytes :=
  if (lo <=? hi) && (hi <=? blen l)
  then Some (firstn (N.to_nat (hi - lo)) (skipn (N.to_nat lo) l))
  else None.

(* data[lo:] *)
Definition slice_from (lo : N) (l : bytes) : option bytes :=
  if lo <=? blen l then Some (skipn (N.to_nat lo) l) else None.

Lemma slice_in_range lo hi l : lo <= hi -> hi <= blen l -> exists s, slice lo hi l = Some s /\ blen s = hi - lo.
Proof.
  intros H1 H2. unfold slice.
  destruct (N.leb_spec lo hi); [|lia]. destruct (N.leb_spec hi (blen l)); [|lia]. cbn [andb].
  eexists; split; [reflexivity|]. unfold blen in *. rewrite firstn_length, skipn_length. lia.
Qed.

Lemma slice_none_iff lo hi l : slice lo hi l = None <-> ~ (lo <= hi /\ hi <= blen l).
Proof.
  unfold slice. destruct (N.leb_spec lo hi); destruct (N.leb_spec hi (blen l)); cbn [andb]; split; intros H1;
    try discriminate; try reflexivity; try lia; exfalso; apply H1; split; lia.
Qed.

Lemma slice_from_in_range lo l : lo <= blen l -> exists s, slice_from lo l = Some s /\ blen s = blen l - lo.
Proof.
  intros H. unfold slice_from. destruct (N.leb_spec lo (blen l)); [|lia].
  eexists; split; [reflexivity|]. unfold blen in *. rewrite skipn_length. lia.
Qed.

Lemma skipn_app_exact {A} (x y : list A) : skipn (length x) (x ++ y) = y.
Proof. induction x; cbn; auto. Qed.
Lemma firstn_app_exact {A} (x y : list A) : firstn (length x) (x ++ y) = x.
Proof. induction x; cbn; f_equal; auto. Qed.

(* the middle part of x ++ y ++ z *)
Lemma slice_app_mid x y z lo hi :
  lo = blen x -> hi = blen x + blen y -> slice lo hi (x ++ y ++ z) = Some y.
Proof.
  intros -> ->. unfold slice. rewrite !blen_app.
  destruct (N.leb_spec (blen x) (blen x + blen y)); [|lia].
  destruct (N.leb_spec (blen x + blen y) (blen x + (blen y + blen z))); [|lia]. cbn [andb]. f_equal.
  replace (N.to_nat (blen x)) with (length x) by (unfold blen; lia).
  replace (N.to_nat (blen x + blen y - blen x)) with (length y) by (unfold blen; lia).
  rewrite skipn_app_exact, firstn_app_exact. reflexivity.
Qed.

Lemma slice_from_app x y lo : lo = blen x -> slice_from lo (x ++ y) = Some y.
Proof.
  intros ->. unfold slice_from. rewrite blen_app. destruct (N.leb_spec (blen x) (blen x + blen y)); [|lia].
  f_equal. replace (N.to_nat (blen x)) with (length x) by (unfold blen; lia). apply skipn_app_exact.
Qed.

Lemma slice_prefix_of_app lo hi a b s : slice lo hi a = Some s -> slice lo hi (a ++ b) = Some s.
Proof.
  unfold slice. rewrite blen_app.
  destruct (N.leb_spec lo hi); cbn [andb]; [|discriminate].
  destruct (N.leb_spec hi (blen a)); [|discriminate].
  destruct (N.leb_spec hi (blen a + blen b)); [|lia]. intros Hs. injection Hs as <-. f_equal.
  assert (Hn : (N.to_nat lo <= length a)%nat) by (unfold blen in *; lia).
  rewrite skipn_app. replace (N.to_nat lo - length a)%nat with 0%nat by lia. cbn [skipn].
  rewrite firstn_app. rewrite skipn_length.
  replace (N.to_nat (hi - lo) - (length a - N.to_nat lo))%nat with 0%nat by (unfold blen in *; lia).
  cbn [firstn]. rewrite app_nil_r. reflexivity.
Qed.

Definition bytes_ok (l : bytes) : Prop := Forall (fun b => b < 256) l.
Definition bytes_okb (l : bytes) : bool := forallb (fun b => b <? 256) l.

Lemma rd32_bound l v : bytes_ok l -> rd32 l = Some v -> v < 4294967296.
Proof.
  destruct l as [|a [|b [|c [|d r]]]]; try discriminate. intros H E. injection E as <-.
  inversion H as [|? ? Ha H1]; subst. inversion H1 as [|? ? Hb H2]; subst.
  inversion H2 as [|? ? Hc H3]; subst. inversion H3 as [|? ? Hd H4]; subst. lia.
Qed.

(* equality test on byte strings *)
Fixpoint beq (a b : bytes) : bool :=
  match a, b with
  | [], [] => true
  | x :: a', y :: b' => (x =? y) && beq a' b'
  | _, _ => false
  end.
Lemma beq_spec a b : beq a b = true <-> a = b.
Proof.
  revert b. induction a as [|x a IH]; destruct b as [|y b]; cbn; split; try discriminate; auto.
  - intros H. apply andb_true_iff in H as [H1 H2]. apply N.eqb_eq in H1. apply IH in H2. congruence.
  - intros H. injection H as -> ->. rewrite N.eqb_refl. cbn. apply IH. reflexivity.
Qed.
Lemma beq_refl a : beq a a = true. Proof. apply beq_spec. reflexivity. Qed.
