(* RRCursor: theory of a round-robin cursor kept reduced modulo the pool size.
   Shared by C21 (router) and C22 (client balancer).  The two Go sites are translated by goq into
   an index function and a next-cursor function; everything below is proved for ANY pair of
   functions that satisfy the two characterising equations, so only those two equations have to be
   re-established when the Go source is rewritten. *)
From Coq Require Import ZArith Lia List Bool Permutation.
From GV Require Import Lib.GoInt.
Import ListNotations.
Open Scope Z_scope.

Definition pool_size_ok (n : Z) : Prop := 0 < n <= max_u32.

Section Cursor.
  Variable index : Z -> Z -> Z.   (* index n cursor      : slice index used by this call *)
  Variable next  : Z -> Z -> Z.   (* next  n cursor      : cursor value stored by this call *)
  Hypothesis index_char : forall n c, pool_size_ok n -> in_u32 c -> index n c = c mod n.
  Hypothesis next_char  : forall n c, pool_size_ok n -> in_u32 c -> next n c = (c mod n + 1) mod n.

  (* cursor after k calls with a fixed pool size *)
  Fixpoint run (n : Z) (k : nat) (c : Z) : Z :=
    match k with O => c | S k' => next n (run n k' c) end.

  (* calls with a pool size that changes from call to call: indices used, final cursor *)
  Fixpoint run_sizes (ns : list Z) (c : Z) : list Z * Z :=
    match ns with
    | [] => ([], c)
    | n :: ns' => let (is, c') := run_sizes ns' (next n c) in (index n c :: is, c')
    end.

  Lemma index_in_range n c : pool_size_ok n -> in_u32 c -> 0 <= index n c < n.
  Proof. intros Hn Hc. rewrite index_char by assumption. apply Z.mod_pos_bound. unfold pool_size_ok in Hn; lia. Qed.

  Lemma next_in_range n c : pool_size_ok n -> in_u32 c -> 0 <= next n c < n.
  Proof. intros Hn Hc. rewrite next_char by assumption. apply Z.mod_pos_bound. unfold pool_size_ok in Hn; lia. Qed.

  Lemma next_in_u32 n c : pool_size_ok n -> in_u32 c -> in_u32 (next n c).
  Proof. intros Hn Hc. pose proof (next_in_range n c Hn Hc). unfold pool_size_ok, in_u32 in *. lia. Qed.

  Lemma run_in_u32 n k c : pool_size_ok n -> in_u32 c -> in_u32 (run n k c).
  Proof. intros Hn Hc. induction k; simpl; [assumption|]. apply next_in_u32; assumption. Qed.

  Lemma run_mod n k c : pool_size_ok n -> in_u32 c -> (run n k c) mod n = (c + Z.of_nat k) mod n.
  Proof.
    intros Hn Hc. assert (Hpos : 0 < n) by (unfold pool_size_ok in Hn; lia).
    induction k.
    - simpl. f_equal. lia.
    - cbn [run]. rewrite next_char by (try apply run_in_u32; assumption).
      rewrite Z.mod_mod by lia. rewrite IHk. rewrite Zplus_mod_idemp_l. f_equal. lia.
  Qed.

  (* the index used by the (k+1)-th call, starting from any (possibly stale) cursor *)
  Lemma index_after n k c : pool_size_ok n -> in_u32 c -> index n (run n k c) = (c + Z.of_nat k) mod n.
  Proof. intros Hn Hc. rewrite index_char by (try apply run_in_u32; assumption). apply run_mod; assumption. Qed.

  (* the k-th call (k >= 1) of a fresh object uses index (k-1) mod n, for every k *)
  Lemma kth_call n k : pool_size_ok n -> (1 <= k)%nat ->
    index n (run n (k - 1) 0) = (Z.of_nat k - 1) mod n.
  Proof.
    intros Hn Hk. rewrite index_after; [|assumption|unfold in_u32, max_u32; lia].
    f_equal. lia.
  Qed.

  (* in range whatever the cursor holds and however the pool size changes between calls *)
  Lemma run_sizes_in_range ns : forall c, Forall pool_size_ok ns -> in_u32 c ->
    Forall2 (fun n i => 0 <= i < n) ns (fst (run_sizes ns c)) /\ in_u32 (snd (run_sizes ns c)).
  Proof.
    induction ns as [|n ns IH]; intros c Hns Hc; simpl.
    - split; [constructor|assumption].
    - inversion Hns as [|? ? Hn Hns']; subst.
      specialize (IH (next n c) Hns' (next_in_u32 n c Hn Hc)).
      destruct (run_sizes ns (next n c)) as [is c'] eqn:E. simpl in *. destruct IH as [IH1 IH2].
      split; [constructor; [apply index_in_range; assumption|exact IH1]|exact IH2].
  Qed.

  (* any n consecutive calls with a fixed pool size hit every slot exactly once *)
  Lemma window_hits_each_once n c r : pool_size_ok n -> in_u32 c -> 0 <= r < n ->
    exists j : nat, (Z.of_nat j < n) /\ index n (run n j c) = r /\
      forall j' : nat, Z.of_nat j' < n -> index n (run n j' c) = r -> j' = j.
  Proof.
    intros Hn Hc Hr. assert (Hpos : 0 < n) by (unfold pool_size_ok in Hn; lia).
    pose proof (Z.mod_pos_bound (r - c) n Hpos) as Hb.
    exists (Z.to_nat ((r - c) mod n)). rewrite Z2Nat.id by lia. split; [lia|]. split.
    - rewrite index_after by assumption. rewrite Z2Nat.id by lia. rewrite Zplus_mod_idemp_r.
      replace (c + (r - c)) with r by lia. apply Z.mod_small; lia.
    - intros j' Hj' E. rewrite index_after in E by assumption.
      assert (Hj : Z.of_nat j' = (r - c) mod n).
      { assert (E2 : (r - c) mod n = (Z.of_nat j') mod n).
        { rewrite <- E. rewrite Zminus_mod_idemp_l. f_equal. lia. }
        rewrite E2. symmetry. apply Z.mod_small. lia. }
      lia.
  Qed.
End Cursor.
