(* GoInt: Go's fixed-width integer arithmetic over Z, wrap-around written explicitly.
   Used by the definitions that tools/goq generates from /repo sources.            *)
From Coq Require Import ZArith Lia Bool.
From Coq Require Import ZifyBool.
Open Scope Z_scope.

Definition wrap_u (w x : Z) : Z := x mod 2 ^ w.
Definition wrap_s (w x : Z) : Z := (x + 2 ^ (w - 1)) mod 2 ^ w - 2 ^ (w - 1).

Definition i64 := wrap_s 64.
Definition i32 := wrap_s 32.
Definition u64 := wrap_u 64.
Definition u32 := wrap_u 32.

Definition min_i64 : Z := - 2 ^ 63.
Definition max_i64 : Z := 2 ^ 63 - 1.
Definition max_u32 : Z := 2 ^ 32 - 1.
Definition max_u64 : Z := 2 ^ 64 - 1.

Definition in_i64 (x : Z) : Prop := min_i64 <= x <= max_i64.
Definition in_u32 (x : Z) : Prop := 0 <= x <= max_u32.
Definition in_u64 (x : Z) : Prop := 0 <= x <= max_u64.

Definition in_i64b (x : Z) : bool := (min_i64 <=? x) && (x <=? max_i64).
Definition in_u32b (x : Z) : bool := (0 <=? x) && (x <=? max_u32).

(* Go shifts: the count is unsigned; a count >= width yields 0 for <<, sign fill for >> (signed). *)
Definition i64_shl (x s : Z) : Z := if s <? 64 then i64 (x * 2 ^ s) else 0.
Definition u64_shl (x s : Z) : Z := if s <? 64 then u64 (x * 2 ^ s) else 0.
Definition u32_shl (x s : Z) : Z := if s <? 32 then u32 (x * 2 ^ s) else 0.
Definition i64_shr (x s : Z) : Z := if s <? 64 then x / 2 ^ s else (if x <? 0 then -1 else 0).
Definition u64_shr (x s : Z) : Z := if s <? 64 then x / 2 ^ s else 0.
Definition u32_shr (x s : Z) : Z := if s <? 32 then x / 2 ^ s else 0.

(* Go's / and % truncate toward zero. *)
Definition go_quot (a b : Z) : Z := Z.quot a b.
Definition go_rem (a b : Z) : Z := Z.rem a b.

Lemma pow2_64 : 2 ^ 64 = 18446744073709551616. Proof. reflexivity. Qed.
Lemma pow2_63 : 2 ^ 63 = 9223372036854775808. Proof. reflexivity. Qed.
Lemma pow2_32 : 2 ^ 32 = 4294967296. Proof. reflexivity. Qed.
Lemma pow2_31 : 2 ^ 31 = 2147483648. Proof. reflexivity. Qed.

Lemma i64_id x : in_i64 x -> i64 x = x.
Proof.
  unfold in_i64, min_i64, max_i64, i64, wrap_s. intros H.
  replace (64 - 1) with 63 by reflexivity. rewrite pow2_63 in *. rewrite pow2_64.
  rewrite Z.mod_small; lia.
Qed.

Lemma i64_range x : in_i64 (i64 x).
Proof.
  unfold in_i64, min_i64, max_i64, i64, wrap_s.
  replace (64 - 1) with 63 by reflexivity. rewrite pow2_63, pow2_64.
  pose proof (Z.mod_pos_bound (x + 9223372036854775808) 18446744073709551616 ltac:(lia)). lia.
Qed.

Lemma u32_id x : in_u32 x -> u32 x = x.
Proof.
  unfold in_u32, max_u32, u32, wrap_u. rewrite pow2_32. intros H. rewrite Z.mod_small; lia.
Qed.

Lemma u32_range x : in_u32 (u32 x).
Proof.
  unfold in_u32, max_u32, u32, wrap_u. rewrite pow2_32.
  pose proof (Z.mod_pos_bound x 4294967296 ltac:(lia)). lia.
Qed.

Lemma u64_id x : in_u64 x -> u64 x = x.
Proof.
  unfold in_u64, max_u64, u64, wrap_u. rewrite pow2_64. intros H. rewrite Z.mod_small; lia.
Qed.

Lemma u64_range x : in_u64 (u64 x).
Proof.
  unfold in_u64, max_u64, u64, wrap_u. rewrite pow2_64.
  pose proof (Z.mod_pos_bound x 18446744073709551616 ltac:(lia)). lia.
Qed.

Lemma u32_add_wrap x : in_u32 x -> u32 (x + 1) = if x =? max_u32 then 0 else x + 1.
Proof.
  unfold in_u32, max_u32, u32, wrap_u. rewrite pow2_32. intros H.
  destruct (x =? 4294967296 - 1) eqn:E.
  - assert (x = 4294967295) by lia. subst. reflexivity.
  - rewrite Z.mod_small; lia.
Qed.

Lemma i64_shr_small x s : 0 <= s < 64 -> i64_shr x s = x / 2 ^ s.
Proof. intros H. unfold i64_shr. destruct (s <? 64) eqn:E; [reflexivity|lia]. Qed.

Lemma i64_shl_exact x s : 0 <= s < 64 -> in_i64 (x * 2 ^ s) -> i64_shl x s = x * 2 ^ s.
Proof.
  intros Hs Hr. unfold i64_shl. destruct (s <? 64) eqn:E; [|lia]. apply i64_id; exact Hr.
Qed.
