(* BytesPack: compact literals for test data (evaluation support only, never used in proofs).
   Byte strings are written seven bytes per primitive 63-bit integer, runs of equal bytes as (b, n). *)
From Coq Require Import NArith ZArith List Uint63.
From GV Require Import Lib.Bytes.
Import ListNotations.
Open Scope N_scope.

Definition u2n (i : int) : N := Z.to_N (Uint63.to_Z i).
Definition unpack7 (w : int) : bytes :=
  let f k := u2n (Uint63.land (Uint63.lsr w k) 255%uint63) in
  [f 48%uint63; f 40%uint63; f 32%uint63; f 24%uint63; f 16%uint63; f 8%uint63; f 0%uint63].

Inductive seg :=
| W (n : int) (ws : list int)   (* n bytes, seven per word, big-endian inside the word, last word zero padded *)
| R (b : int) (n : int).        (* n copies of byte b *)

Definition seg_bytes (s : seg) : bytes :=
  match s with
  | W n ws => firstn (N.to_nat (u2n n)) (concat (map unpack7 ws))
  | R b n => repeat (u2n b) (N.to_nat (u2n n))
  end.
Definition unpack (l : list seg) : bytes := concat (map seg_bytes l).
