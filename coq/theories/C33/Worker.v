(* C33 — the relocation worker's per-item accounting (relocationWorker.relocate, enqueueRelocation,
   sendBatches, relocateShare, recordUnsent, releaseUndeliverableLazyGrains), on top of the plan of C32.

   Oracles (all universally quantified in the theorems):
     ok_local  : does recreating / releasing this item on the leader succeed (after its retries)?
     rpc p k r : outcome of the k-th RelocateBatch (request r) sent to peer p: None = the peer is
                 unreachable (after the batch retries), Some okf = delivered, okf tells which items the
                 peer reports as recreated (the others come back in RelocateBatchResponse.failures)
     rpc2 p i k r: the same for survivor i while redistributing the unsent share of peer p
     rel_ok g  : does the leader-side release of an undeliverable lazy grain succeed?
   An RPC error is taken to mean "batch not applied" (what the mocked transport of the tie does). *)
From Coq Require Import List ZArith NArith Bool Arith.
From GV Require Import C32.Model.
Import ListNotations.

Inductive item := IA (a : wactor) | IG (g : wgrain).

Definition items_of (r : request) : list item := map IA (rq_actors r) ++ map IG (rq_grains r).
Definition items_of_reqs (rs : list request) : list item := flat_map items_of rs.

(* enqueueRelocation on the leader: every item is attempted; a failing one is recorded, never fatal *)
Definition local_run (ok_local : item -> bool) (actors : list wactor) (grains : list wgrain) : list item * list item :=
  partition ok_local (map IA actors ++ map IG grains).

(* sendBatches: in order, stop at the first peer-level error and return the unsent remainder *)
Fixpoint send_batches (rpc : nat -> request -> option (item -> bool)) (k : nat) (reqs : list request)
  : list item * list item * list request :=
  match reqs with
  | [] => ([], [], [])
  | r :: rest =>
    match rpc k r with
    | None => ([], [], r :: rest)
    | Some okf =>
      let '(p, f) := partition okf (items_of r) in
      let '(p', f', u) := send_batches rpc (S k) rest in
      (p ++ p', f ++ f', u)
    end
  end.

(* recordUnsent + releaseUndeliverableLazyGrains: actors and eager grains are failures; a lazy grain is
   released on the leader and is a failure only when that release fails *)
Definition unsent_ok (rel_ok : wgrain -> bool) (it : item) : bool :=
  match it with
  | IA _ => false
  | IG g => negb (geager g) && rel_ok g
  end.

Definition unsent_run (rel_ok : wgrain -> bool) (reqs : list request) : list item * list item :=
  partition (unsent_ok rel_ok) (items_of_reqs reqs).

Fixpoint remove_nth {A} (n : nat) (l : list A) : list A :=
  match l with
  | [] => []
  | x :: r => match n with O => r | S m => x :: remove_nth m r end
  end.

Section Worker.
  Variables (leaderRoles : list nat) (peersRoles : list (list nat)).
  Variables (ok_local : item -> bool) (rel_ok : wgrain -> bool).
  Variable rpc : nat -> nat -> request -> option (item -> bool).
  Variable rpc2 : nat -> nat -> nat -> request -> option (item -> bool).

  (* one survivor's redistributed share *)
  Definition survivor_run (p i : nat) (ashare : list wactor) (gshare : list wgrain) : list item * list item :=
    match ashare, gshare with
    | [], [] => ([], [])
    | _, _ =>
      let '(ok, f, u) := send_batches (rpc2 p i) 0 (buildRequests ashare gshare) in
      let '(h, uf) := unsent_run rel_ok u in
      (ok ++ h, f ++ uf)
    end.

  (* relocateShare after sendBatches to peer p failed with `remaining` unsent *)
  Definition redistribute (p : nat) (remaining : list request) : list item * list item :=
    let sroles := remove_nth p peersRoles in
    let '(ashares, lactors, grains, nobody) := reassignByRole remaining sroles leaderRoles in
    let '(lgrains, pgrains) := match sroles with [] => (grains, []) | _ => ([], grains) end in
    let '(lp, lf) := local_run ok_local lactors lgrains in
    let gshares := spread (length sroles) pgrains in
    let per := map (fun i => survivor_run p i (nth i ashares []) (nth i gshares [])) (seq 0 (length sroles)) in
    (lp ++ flat_map fst per, map IA nobody ++ lf ++ flat_map snd per).

  Definition peer_run (pr : nat * list request) : list item * list item :=
    let '(ok, f, u) := send_batches (rpc (fst pr)) 0 (snd pr) in
    match u with
    | [] => (ok, f)
    | _ => let '(rp, rf) := redistribute (fst pr) u in (ok ++ rp, f ++ rf)
    end.

  (* relocate: returns (handled items, failed items); RelocationFailed lists exactly the second *)
  Definition relocate (actors : list wactor) (grainsInOrder : list wgrain) (baseLoads : list Z)
    : list item * list item :=
    let pl := relocationPlan leaderRoles peersRoles actors grainsInOrder baseLoads in
    let '(lp, lf) := local_run ok_local (pl_leaderActors pl) (pl_leaderGrains pl) in
    let per := map peer_run (pl_peers pl) in
    (lp ++ flat_map fst per, map IA (pl_unplaceable pl) ++ lf ++ flat_map snd per).
End Worker.

(* the abort paths (Peers() failed, spawn failure, abnormal worker death): reportAbortedRelocation *)
Definition aborted (rel_ok : wgrain -> bool) (actors : list wactor) (grainsInOrder : list wgrain)
  : list item * list item :=
  let '(h, f) := partition (fun g => negb (geager g) && rel_ok g) (relocatableGrains grainsInOrder) in
  (map IG h, map IA actors ++ map IG f).
