(* C33 — the inductive invariant of the leader-side bookkeeping: every registered relocation job has
   exactly one owner (a queued Rebalance, a running worker, or a dead worker awaiting its Terminated),
   unregistered jobs have none, and every released job has exactly one outcome. *)
From Coq Require Import List ZArith Bool Arith Lia Permutation.
From GV Require Import C33.Model.
Import ListNotations.

Definition pair_dec : forall x y : addr * jobid, {x = y} + {x <> y}.
Proof. decide equality; apply Nat.eq_dec. Qed.

Definition cnt (l : list (addr * jobid)) (a : addr) (j : jobid) : nat := count_occ pair_dec l (a, j).
Definition oc (s : lstate) (a : addr) (j : jobid) : nat := cnt (owners s) a j.

Lemma cnt_app l1 l2 a j : cnt (l1 ++ l2) a j = cnt l1 a j + cnt l2 a j.
Proof. apply count_occ_app. Qed.

Lemma cnt_cons_eq l a j : cnt ((a, j) :: l) a j = S (cnt l a j).
Proof. unfold cnt. apply count_occ_cons_eq. reflexivity. Qed.

Lemma cnt_cons_neq l x a j : x <> (a, j) -> cnt (x :: l) a j = cnt l a j.
Proof. unfold cnt. intros H. apply count_occ_cons_neq. exact H. Qed.

Lemma cnt_single x a j : cnt [x] a j = if pair_dec x (a, j) then 1 else 0.
Proof.
  unfold cnt. destruct (pair_dec x (a, j)) as [E|E].
  - rewrite count_occ_cons_eq by exact E. reflexivity.
  - rewrite count_occ_cons_neq by exact E. reflexivity.
Qed.

Lemma rebalances_app m1 m2 : rebalances (m1 ++ m2) = rebalances m1 ++ rebalances m2.
Proof. induction m1 as [|[a j|w] r IH]; simpl; congruence. Qed.

Lemma opt_job_eqb_spec x j : opt_job_eqb x j = true <-> x = Some j.
Proof.
  destruct x as [y|]; simpl; [|split; discriminate].
  rewrite Nat.eqb_eq. split; congruence.
Qed.

Lemma upd_jobs_same f a v : upd_jobs f a v a = v.
Proof. unfold upd_jobs. now rewrite Nat.eqb_refl. Qed.
Lemma upd_jobs_other f a v x : x <> a -> upd_jobs f a v x = f x.
Proof. unfold upd_jobs. intros H. destruct (Nat.eqb_spec x a); congruence. Qed.
Lemma upd_workers_same f w v : upd_workers f w v w = v.
Proof. unfold upd_workers. now rewrite Nat.eqb_refl. Qed.
Lemma upd_workers_other f w v x : x <> w -> upd_workers f w v x = f x.
Proof. unfold upd_workers. intros H. destruct (Nat.eqb_spec x w); congruence. Qed.

(* ------------------------------------------------------------------ remove_w / find_w *)
Lemma find_w_In w x l : find_w w l = Some x -> In (w, x) l.
Proof.
  induction l as [|[y j] r IH]; simpl; [discriminate|].
  destruct (Nat.eqb_spec y w) as [->|]; [intros [= ->]; auto|auto].
Qed.

Lemma In_find_w w x l : NoDup (map fst l) -> In (w, x) l -> find_w w l = Some x.
Proof.
  induction l as [|[y j] r IH]; simpl; intros Hn H; [tauto|]. destruct H as [H|H].
  - inversion H; subst. now rewrite Nat.eqb_refl.
  - inversion Hn; subst. destruct (Nat.eqb_spec y w) as [->|]; auto.
    exfalso. apply H2. apply (in_map fst) in H. exact H.
Qed.

Lemma remove_w_perm w x l : NoDup (map fst l) -> In (w, x) l -> Permutation l ((w, x) :: remove_w w l).
Proof.
  induction l as [|[y j] r IH]; simpl; intros Hn H; [tauto|]. destruct H as [H|H].
  - inversion H; subst. rewrite Nat.eqb_refl. reflexivity.
  - inversion Hn; subst. destruct (Nat.eqb_spec y w) as [->|Hne].
    + exfalso. apply H2. apply (in_map fst) in H. exact H.
    + rewrite perm_swap. constructor. apply IH; auto.
Qed.

Lemma remove_w_subset w l y : In y (remove_w w l) -> In y l.
Proof.
  induction l as [|[z j] r IH]; simpl; auto.
  destruct (z =? w); simpl; intuition.
Qed.

Lemma remove_w_names w l : NoDup (map fst l) -> NoDup (map fst (remove_w w l)) /\ ~ In w (map fst (remove_w w l)).
Proof.
  induction l as [|[z j] r IH]; simpl; intros Hn; [split; [constructor|tauto]|].
  inversion Hn; subst. destruct (Nat.eqb_spec z w) as [->|Hne]; simpl.
  - split; auto.
  - destruct (IH H2) as (I1 & I2). split.
    + constructor; auto. intros Hin. apply H1. apply in_map_iff in Hin. destruct Hin as (y & <- & Hy).
      apply in_map. eapply remove_w_subset; eauto.
    + intros [->|Hin]; auto.
Qed.

Lemma remove_w_absent w l : ~ In w (map fst l) -> remove_w w l = l.
Proof.
  induction l as [|[z j] r IH]; simpl; auto. intros H.
  destruct (Nat.eqb_spec z w) as [->|]; [tauto|]. f_equal. apply IH. tauto.
Qed.

Lemma cnt_perm l1 l2 a j : Permutation l1 l2 -> cnt l1 a j = cnt l2 a j.
Proof.
  intros H. unfold cnt. apply Permutation_count_occ. exact H.
Qed.

Lemma cnt_remove_w w x l a j : NoDup (map fst l) -> In (w, x) l ->
  cnt (map snd l) a j = cnt (map snd (remove_w w l)) a j + (if pair_dec x (a, j) then 1 else 0).
Proof.
  intros Hn Hin. rewrite (cnt_perm _ _ a j (Permutation_map snd (remove_w_perm w x l Hn Hin))).
  simpl. change (x :: map snd (remove_w w l)) with ([x] ++ map snd (remove_w w l)).
  rewrite cnt_app, cnt_single. lia.
Qed.

(* ------------------------------------------------------------------ NoDup helpers *)
Lemma nodup_app_intro {A} (l1 l2 : list A) :
  NoDup l1 -> NoDup l2 -> (forall x, In x l1 -> ~ In x l2) -> NoDup (l1 ++ l2).
Proof.
  induction l1 as [|a r IH]; simpl; intros H1 H2 Hd; auto.
  inversion H1; subst. constructor.
  - rewrite in_app_iff. intros [H|H]; [tauto|]. apply (Hd a); auto.
  - apply IH; auto.
Qed.

Lemma nodup_app_elim {A} (l1 l2 : list A) :
  NoDup (l1 ++ l2) -> NoDup l1 /\ NoDup l2 /\ (forall x, In x l1 -> ~ In x l2).
Proof.
  induction l1 as [|a r IH]; simpl; intros H.
  - repeat split; auto. constructor.
  - inversion H; subst. destruct (IH H3) as (I1 & I2 & I3). repeat split; auto.
    + constructor; auto. intros Hin. apply H2. apply in_or_app. auto.
    + intros x [<-|Hx]; [|apply I3; auto]. intros Hin. apply H2. apply in_or_app. auto.
Qed.

Lemma NoDup_snoc {A} (l : list A) x : NoDup l -> ~ In x l -> NoDup (l ++ [x]).
Proof.
  intros Hn Hx. apply nodup_app_intro; auto.
  - repeat constructor. simpl. tauto.
  - intros y Hy [<-|[]]. exact (Hx Hy).
Qed.

(* ------------------------------------------------------------------ the invariant *)
Record Inv (s : lstate) : Prop := {
  inv_own : forall a j, oc s a j = if opt_job_eqb (jobs s a) j then 1 else 0;
  inv_fresh_jobs : forall a j, jobs s a = Some j -> j < fresh s;
  inv_ids : forall a b j, jobs s a = Some j -> jobs s b = Some j -> a = b;
  inv_fresh_owners : forall a j, In (a, j) (owners s) -> j < fresh s;
  inv_workers : forall w a j, workers s w = Some (a, j) -> j < fresh s /\ w <= seqn s;
  inv_tracked : forall w x, In (w, x) (live s ++ crashed s) -> workers s w = Some x;
  inv_names : NoDup (map fst (live s ++ crashed s));
  inv_status : forall w a j, workers s w = Some (a, j) ->
               In (w, (a, j)) (live s ++ crashed s) \/ In j (map fst (outcomes s));
  inv_term : forall w, In (TerminatedMsg w) (mailbox s) -> ~ In w (map fst (live s));
  inv_term_names : forall w, In (TerminatedMsg w) (mailbox s) -> w <= seqn s;
  inv_outcomes : NoDup (map fst (outcomes s));
  inv_released : forall j, In j (map fst (outcomes s)) -> j < fresh s /\ forall a, jobs s a <> Some j
}.

Lemma Inv_init : Inv init.
Proof.
  constructor; simpl; intros; try reflexivity; try discriminate; try tauto; try constructor.
Qed.

Lemma owner_registered s a j : Inv s -> In (a, j) (owners s) -> jobs s a = Some j.
Proof.
  intros I H. pose proof (inv_own s I a j) as Ho.
  assert (0 < oc s a j) by (unfold oc, cnt; apply count_occ_In; exact H).
  destruct (opt_job_eqb (jobs s a) j) eqn:E; [now apply opt_job_eqb_spec|lia].
Qed.

Lemma names_fresh s w x : Inv s -> In (w, x) (live s ++ crashed s) -> w <= seqn s.
Proof.
  intros I H. destruct x as [a j]. pose proof (inv_tracked s I w (a, j) H) as Hw.
  destruct (inv_workers s I w a j Hw). assumption.
Qed.

Lemma live_owner s w a j : In (w, (a, j)) (live s) -> In (a, j) (owners s).
Proof. intros H. unfold owners. rewrite !in_app_iff. right. left. apply (in_map snd) in H. exact H. Qed.

Lemma crashed_owner s w a j : In (w, (a, j)) (crashed s) -> In (a, j) (owners s).
Proof. intros H. unfold owners. rewrite !in_app_iff. right. right. apply (in_map snd) in H. exact H. Qed.

(* ------------------------------------------------------------------ NodeLeft *)
Lemma step_NodeLeft s a ok : Inv s -> Inv (step s (LNodeLeft a ok)).
Proof.
  intros I. simpl. destruct (jobs s a) as [j0|] eqn:Ej; [exact I|].
  destruct ok.
  - constructor; simpl.
    + intros x j. unfold oc, owners. simpl. rewrite rebalances_app. simpl.
      rewrite <- !app_assoc. rewrite !cnt_app.
      pose proof (inv_own s I x j) as Ho. unfold oc, owners in Ho. rewrite !cnt_app in Ho.
      unfold upd_jobs. destruct (Nat.eqb_spec x a) as [->|Hne].
      * simpl. rewrite Ej in Ho. simpl in Ho.
        destruct (Nat.eqb_spec (fresh s) j) as [<-|Hj].
        -- rewrite cnt_cons_eq. unfold cnt at 2. simpl. lia.
        -- rewrite cnt_cons_neq by congruence. unfold cnt at 2. simpl. lia.
      * rewrite cnt_cons_neq by congruence. unfold cnt at 2. simpl. lia.
    + intros x j. unfold upd_jobs. destruct (Nat.eqb_spec x a); [intros [= <-]; lia|].
      intros H. pose proof (inv_fresh_jobs s I x j H). lia.
    + intros x y j. unfold upd_jobs.
      destruct (Nat.eqb_spec x a) as [->|Hx], (Nat.eqb_spec y a) as [->|Hy]; auto.
      * intros [= <-] H. pose proof (inv_fresh_jobs s I y _ H). lia.
      * intros H [= <-]. pose proof (inv_fresh_jobs s I x _ H). lia.
      * apply (inv_ids s I).
    + intros x j. unfold owners. simpl. rewrite rebalances_app. simpl. rewrite <- app_assoc.
      intros H. apply in_app_or in H. destruct H as [H|[H|H]].
      * assert (In (x, j) (owners s)) by (unfold owners; apply in_or_app; auto).
        pose proof (inv_fresh_owners s I x j H0). lia.
      * inversion H; subst. lia.
      * assert (In (x, j) (owners s)) by (unfold owners; apply in_or_app; auto).
        pose proof (inv_fresh_owners s I x j H0). lia.
    + intros w x j H. destruct (inv_workers s I w x j H). lia.
    + apply (inv_tracked s I).
    + apply (inv_names s I).
    + apply (inv_status s I).
    + intros w H. apply in_app_or in H. destruct H as [H|[H|[]]]; [apply (inv_term s I w H)|discriminate].
    + intros w H. apply in_app_or in H. destruct H as [H|[H|[]]]; [apply (inv_term_names s I w H)|discriminate].
    + apply (inv_outcomes s I).
    + intros j H. destruct (inv_released s I j H) as (H1 & H2). split; [lia|].
      intros x. unfold upd_jobs. destruct (Nat.eqb_spec x a); [intros [= <-]; lia|apply H2].
  - constructor; simpl.
    + apply (inv_own s I).
    + intros x j H. pose proof (inv_fresh_jobs s I x j H). lia.
    + apply (inv_ids s I).
    + intros x j H. pose proof (inv_fresh_owners s I x j H). lia.
    + intros w x j H. destruct (inv_workers s I w x j H). lia.
    + apply (inv_tracked s I).
    + apply (inv_names s I).
    + apply (inv_status s I).
    + apply (inv_term s I).
    + apply (inv_term_names s I).
    + apply (inv_outcomes s I).
    + intros j H. destruct (inv_released s I j H). split; [lia|auto].
Qed.

(* ------------------------------------------------------------------ releasing a job *)
(* the unique owner of (a, j) goes away together with the registration, and an outcome is recorded *)
Lemma release_ok s s' a j p :
  Inv s -> jobs s a = Some j ->
  jobs s' = upd_jobs (jobs s) a None ->
  (forall x y, cnt (owners s') x y + (if pair_dec (a, j) (x, y) then 1 else 0) = cnt (owners s) x y) ->
  (forall w x, workers s' w = Some x -> workers s w = Some x) ->
  seqn s <= seqn s' -> fresh s' = fresh s ->
  outcomes s' = outcomes s ++ [(j, p)] ->
  (forall w x, In (w, x) (live s' ++ crashed s') -> workers s' w = Some x) ->
  NoDup (map fst (live s' ++ crashed s')) ->
  (forall w x, workers s' w = Some x -> In (w, x) (live s ++ crashed s) ->
               In (w, x) (live s' ++ crashed s') \/ x = (a, j)) ->
  (forall w, In (TerminatedMsg w) (mailbox s') -> ~ In w (map fst (live s'))) ->
  (forall w, In (TerminatedMsg w) (mailbox s') -> w <= seqn s') ->
  Inv s'.
Proof.
  intros I Hj Ejobs Hcnt Hw Hs Ef Eo Htr Hnd Hkeep Hterm Htn.
  assert (Hnew : ~ In j (map fst (outcomes s))).
  { intros H. destruct (inv_released s I j H) as (_ & H2). exact (H2 a Hj). }
  constructor.
  - intros x y. unfold oc. specialize (Hcnt x y). pose proof (inv_own s I x y) as Ho. unfold oc in Ho.
    rewrite Ejobs. unfold upd_jobs. destruct (Nat.eqb_spec x a) as [->|Hne].
    + simpl. rewrite Hj in Ho. simpl in Ho.
      destruct (pair_dec (a, j) (a, y)) as [E|E].
      * inversion E; subst. rewrite Nat.eqb_refl in Ho. lia.
      * destruct (Nat.eqb_spec j y); [congruence|lia].
    + destruct (pair_dec (a, j) (x, y)) as [E|E]; [inversion E; congruence|]. lia.
  - intros x y. rewrite Ejobs, Ef. unfold upd_jobs. destruct (Nat.eqb_spec x a); [discriminate|apply (inv_fresh_jobs s I)].
  - intros x y k. rewrite Ejobs. unfold upd_jobs.
    destruct (Nat.eqb_spec x a), (Nat.eqb_spec y a); try discriminate. apply (inv_ids s I).
  - intros x y H. rewrite Ef. apply (inv_fresh_owners s I x y).
    assert (0 < cnt (owners s') x y) by (unfold cnt; apply count_occ_In; exact H).
    specialize (Hcnt x y). unfold cnt in *. apply count_occ_In with (eq_dec := pair_dec). lia.
  - intros w x y H. rewrite Ef. destruct (inv_workers s I w x y (Hw _ _ H)). lia.
  - exact Htr.
  - exact Hnd.
  - intros w x y H. rewrite Eo. destruct (inv_status s I w x y (Hw _ _ H)) as [Hst|Hst].
    + destruct (Hkeep _ _ H Hst) as [Hk|Hk]; auto. inversion Hk; subst.
      right. rewrite map_app, in_app_iff. right. simpl. auto.
    + right. rewrite map_app, in_app_iff. auto.
  - exact Hterm.
  - exact Htn.
  - rewrite Eo, map_app. simpl. apply NoDup_snoc; [apply (inv_outcomes s I)|exact Hnew].
  - intros y. rewrite Eo, map_app, in_app_iff, Ef, Ejobs. simpl. intros [H|[<-|[]]].
    + destruct (inv_released s I y H) as (H1 & H2). split; auto.
      intros x. unfold upd_jobs. destruct (Nat.eqb_spec x a); [discriminate|apply H2].
    + split; [apply (inv_fresh_jobs s I a j Hj)|].
      intros x. unfold upd_jobs. destruct (Nat.eqb_spec x a) as [->|Hne]; [discriminate|].
      intros Hx. apply Hne. apply (inv_ids s I x a j Hx Hj).
Qed.
