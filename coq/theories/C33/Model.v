(* C33 — executable model of the leader-side relocation bookkeeping:
   actorSystem.relocationJobs (beginRelocation / relocationJob / endRelocation, actor_system.go),
   the dispatch in handleNodeLeftEvent / dispatchDerivedRebalance, the relocator actor
   (relocator.go: startWorker, handleTerminated, abortRelocation) and the completion bookkeeping of
   the relocation worker (relocation_worker.go: relocate ... finish).

   Every line between two mailbox deliveries / map operations is one labelled step; the theorems
   quantify over all label sequences (any number of departures, duplicates, reorderings, spawn
   failures, worker crashes).  A peer-state snapshot is identified by a fresh number: the Go code
   compares snapshot POINTERS (handleTerminated: registered != job.peerState). *)
From Coq Require Import List ZArith Bool Arith.
Import ListNotations.

Definition addr := nat.
Definition jobid := nat.
Definition wname := nat.

Inductive msg :=
| Rebalance (a : addr) (j : jobid)
| TerminatedMsg (w : wname).

(* what one departure ends with, as far as subscribers can see *)
Inductive pub :=
| PubNone            (* completed, nothing failed: no RelocationFailed event *)
| PubFailed          (* completed: one RelocationFailed listing exactly the failed items *)
| PubAborted         (* aborted (spawn failure, abnormal worker death, peers unavailable): one RelocationFailed listing every item *)
| PubStopping.       (* the system is stopping: job released without an event *)

Definition is_event (p : pub) : bool := match p with PubFailed | PubAborted => true | _ => false end.

Record lstate := mkL {
  jobs : addr -> option jobid;                   (* relocationJobs *)
  mailbox : list msg;                            (* the relocator's mailbox, FIFO *)
  workers : wname -> option (addr * jobid);      (* relocator.workers *)
  seqn : nat;                                    (* relocator.sequence *)
  live : list (wname * (addr * jobid));          (* worker actors that hold a Rebalance order and are still running *)
  crashed : list (wname * (addr * jobid));       (* workers that died abnormally; their Terminated is still queued *)
  outcomes : list (jobid * pub);                 (* one entry per released job, in order *)
  fresh : jobid                                  (* next snapshot identity *)
}.

Definition init : lstate :=
  mkL (fun _ => None) [] (fun _ => None) 0 [] [] [] 0.

Definition upd_jobs (f : addr -> option jobid) (a : addr) (v : option jobid) : addr -> option jobid :=
  fun x => if (x =? a)%nat then v else f x.
Definition upd_workers (f : wname -> option (addr * jobid)) (w : wname) (v : option (addr * jobid)) :=
  fun x => if (x =? w)%nat then v else f x.

Fixpoint remove_w (w : wname) (l : list (wname * (addr * jobid))) : list (wname * (addr * jobid)) :=
  match l with
  | [] => []
  | (x, j) :: r => if (x =? w)%nat then r else (x, j) :: remove_w w r
  end.

Fixpoint find_w (w : wname) (l : list (wname * (addr * jobid))) : option (addr * jobid) :=
  match l with
  | [] => None
  | (x, j) :: r => if (x =? w)%nat then Some j else find_w w r
  end.

Inductive finish_kind :=
| FinNone | FinFailed        (* normal completion without / with failed items *)
| FinPeersError              (* cluster.Peers failed: reportAbortedRelocation + finish *)
| FinStopping.               (* system.isStopping(): endRelocation only *)

Definition pub_of (k : finish_kind) : pub :=
  match k with FinNone => PubNone | FinFailed => PubFailed | FinPeersError => PubAborted | FinStopping => PubStopping end.

Inductive label :=
| LNodeLeft (a : addr) (tell_ok : bool)     (* a NodeLeft (or derived rebalance) for a reaches the leader; tell_ok: the relocator accepted the message *)
| LRelocator (spawn_ok : bool)              (* the relocator handles the next message of its mailbox *)
| LWorkerFinish (w : wname) (k : finish_kind)   (* worker w runs relocate to its end and stops *)
| LWorkerCrash (w : wname).                 (* worker w dies abnormally before releasing its job *)

(* relocator.abortRelocation: publish everything as failed, delete the snapshot, endRelocation *)
Definition abort (s : lstate) (a : addr) (j : jobid) : lstate :=
  mkL (upd_jobs (jobs s) a None) (mailbox s) (workers s) (seqn s) (live s) (crashed s)
      (outcomes s ++ [(j, PubAborted)]) (fresh s).

Definition opt_job_eqb (x : option jobid) (j : jobid) : bool :=
  match x with Some y => (y =? j)%nat | None => false end.

Definition step (s : lstate) (l : label) : lstate :=
  match l with
  | LNodeLeft a tell_ok =>
      match jobs s a with
      | Some _ => s                                              (* beginRelocation: already in flight *)
      | None =>
          let j := fresh s in
          if tell_ok
          then mkL (upd_jobs (jobs s) a (Some j)) (mailbox s ++ [Rebalance a j]) (workers s) (seqn s)
                   (live s) (crashed s) (outcomes s) (S j)
          else (* begin, failed Tell, endRelocation: nothing stays registered *)
               mkL (jobs s) (mailbox s) (workers s) (seqn s) (live s) (crashed s) (outcomes s) (S j)
      end
  | LRelocator spawn_ok =>
      match mailbox s with
      | [] => s
      | Rebalance a j :: rest =>
          let w := S (seqn s) in
          let s1 := mkL (jobs s) rest (workers s) w (live s) (crashed s) (outcomes s) (fresh s) in
          if spawn_ok
          then mkL (jobs s1) (mailbox s1) (upd_workers (workers s1) w (Some (a, j))) (seqn s1)
                   (live s1 ++ [(w, (a, j))]) (crashed s1) (outcomes s1) (fresh s1)
          else abort s1 a j
      | TerminatedMsg w :: rest =>
          let s1 := mkL (jobs s) rest (workers s) (seqn s) (live s) (crashed s) (outcomes s) (fresh s) in
          match workers s w with
          | None => s1
          | Some (a, j) =>
              let s2 := mkL (jobs s1) (mailbox s1) (upd_workers (workers s1) w None) (seqn s1) (live s1)
                            (remove_w w (crashed s1)) (outcomes s1) (fresh s1) in
              if opt_job_eqb (jobs s a) j then abort s2 a j else s2
          end
      end
  | LWorkerFinish w k =>
      match find_w w (live s) with
      | None => s
      | Some (a, j) =>
          (* publish (if any), DeletePeerState, endRelocation(address), then the actor stops -> Terminated *)
          mkL (upd_jobs (jobs s) a None) (mailbox s ++ [TerminatedMsg w]) (workers s) (seqn s)
              (remove_w w (live s)) (crashed s) (outcomes s ++ [(j, pub_of k)]) (fresh s)
      end
  | LWorkerCrash w =>
      match find_w w (live s) with
      | None => s
      | Some (a, j) =>
          mkL (jobs s) (mailbox s ++ [TerminatedMsg w]) (workers s) (seqn s)
              (remove_w w (live s)) (crashed s ++ [(w, (a, j))]) (outcomes s) (fresh s)
      end
  end.

Definition run (ls : list label) : lstate := fold_left step ls init.

(* who currently owns the job registered for an address: a queued Rebalance, a running worker, or a
   dead worker whose Terminated has not been handled yet *)
Fixpoint rebalances (m : list msg) : list (addr * jobid) :=
  match m with
  | [] => []
  | Rebalance a j :: r => (a, j) :: rebalances r
  | TerminatedMsg _ :: r => rebalances r
  end.

Definition owners (s : lstate) : list (addr * jobid) :=
  rebalances (mailbox s) ++ map snd (live s) ++ map snd (crashed s).

(* RelocationFailed events published so far, by job *)
Definition events (s : lstate) : list jobid := map fst (filter (fun o => is_event (snd o)) (outcomes s)).
