(* C33 — concrete histories and oracles: the hypotheses of the theorems are satisfiable, and the
   interesting interleavings evaluate as intended. *)
From Coq Require Import List ZArith NArith Bool Arith.
From GV Require Import C32.Model C33.Model C33.Proofs C33.Steps C33.Worker.
Import ListNotations.
Open Scope nat_scope.

(* duplicate NodeLeft while queued, while running, after completion (stale Terminated) and a crash *)
Definition ex_history : list label :=
  [LNodeLeft 0 true; LNodeLeft 0 true; LRelocator true; LNodeLeft 0 true; LWorkerFinish 1 FinNone;
   LNodeLeft 0 true; LRelocator true; LRelocator true; LWorkerCrash 2; LRelocator true;
   LNodeLeft 1 false; LNodeLeft 1 true; LRelocator false].

Example ex_history_outcomes :
  outcomes (run ex_history) = [(0, PubNone); (1, PubAborted); (3, PubAborted)] /\
  events (run ex_history) = [1; 3] /\ jobs (run ex_history) 0 = None /\ jobs (run ex_history) 1 = None.
Proof. vm_compute. repeat split; reflexivity. Qed.

Example ex_in_flight : jobs (run [LNodeLeft 0 true; LRelocator true]) 0 <> None.
Proof. vm_compute. discriminate. Qed.

(* the stale Terminated of worker 1 does not abort the newer job 1 of the same address *)
Example ex_stale_terminated :
  let s := run [LNodeLeft 0 true; LRelocator true; LWorkerFinish 1 FinFailed; LNodeLeft 0 true; LRelocator true] in
  jobs s 0 = Some 1 /\ outcomes s = [(0, PubFailed)] /\ mailbox s = [Rebalance 0 1].
Proof. vm_compute. repeat split; reflexivity. Qed.

(* worker accounting with a poisoned peer, a remote failure, a local failure and an unplaceable actor *)
Definition ex_actors : list wactor :=
  [mkActor 1%N 0 false; mkActor 2%N 0 false; mkActor 3%N 0 false; mkActor 4%N 0 false; mkActor 5%N 9 false; mkActor 6%N 0 true].
Definition ex_grains : list wgrain :=
  [mkGrain 1%N false false; mkGrain 2%N false true; mkGrain 3%N false true; mkGrain 4%N false false; mkGrain 5%N false false; mkGrain 6%N true false].
Definition is_actor (n : N) (it : item) : bool := match it with IA a => N.eqb (aid a) n | _ => false end.
Definition is_grain (n : N) (it : item) : bool := match it with IG g => N.eqb (gid g) n | _ => false end.
Definition ex_rpc (p k : nat) (r : request) : option (item -> bool) :=
  if (p =? 0)%nat && existsb (is_grain 4%N) (items_of r) then None
  else Some (fun it => negb ((p =? 1)%nat && is_actor 2%N it)).

Example ex_relocate :
  let '(handled, failed) :=
    relocate [] [[]; []] (fun it => negb (is_actor 6%N it)) (fun _ => true) ex_rpc (fun p i => ex_rpc (if (i <? p)%nat then i else S i))
             ex_actors ex_grains []%Z in
  length handled = 9 /\ length failed = 2.
Proof. vm_compute. split; reflexivity. Qed.

(* ---- the completion bookkeeping of one worker, step by step (relocationWorker.finish and
   relocator.abortRelocation): DeletePeerState, then endRelocation.  A duplicate NodeLeft handled by
   the leader reads the snapshot (GetPeerState), then asks beginRelocation: it starts a second
   relocation exactly when the snapshot is still readable and no job is registered. *)
Record fin_state := mkFin { f_registered : bool; f_snapshot : bool }.
Inductive fin_step := FDeleteSnapshot | FEndRelocation.
Definition fin_apply (s : fin_state) (x : fin_step) : fin_state :=
  match x with
  | FDeleteSnapshot => mkFin (f_registered s) false
  | FEndRelocation => mkFin false (f_snapshot s)
  end.
Definition dup_accepted (s : fin_state) : bool := f_snapshot s && negb (f_registered s).
Fixpoint fin_prefixes (s : fin_state) (l : list fin_step) : list fin_state :=
  s :: match l with [] => [] | x :: r => fin_prefixes (fin_apply s x) r end.

(* the order the code uses: at no point of the completion can a duplicate slip in *)
Lemma finish_order_safe :
  forallb (fun s => negb (dup_accepted s)) (fin_prefixes (mkFin true true) [FDeleteSnapshot; FEndRelocation]) = true.
Proof. reflexivity. Qed.

(* the opposite order opens a window *)
Lemma finish_order_reversed_unsafe :
  existsb dup_accepted (fin_prefixes (mkFin true true) [FEndRelocation; FDeleteSnapshot]) = true.
Proof. reflexivity. Qed.
