(* C33 — every step of the leader-side machine preserves the ownership invariant; consequences. *)
From Coq Require Import List ZArith Bool Arith Lia Permutation.
From GV Require Import C33.Model C33.Proofs.
Import ListNotations.

Lemma names_split s : Inv s ->
  NoDup (map fst (live s)) /\ NoDup (map fst (crashed s)) /\
  (forall w, In w (map fst (live s)) -> ~ In w (map fst (crashed s))).
Proof. intros I. pose proof (inv_names s I) as H. rewrite map_app in H. apply nodup_app_elim. exact H. Qed.

Lemma in_names {w : wname} {x : addr * jobid} {l} : In (w, x) l -> In w (map fst l).
Proof. intros H. apply (in_map fst) in H. exact H. Qed.

(* ------------------------------------------------------------------ the relocator *)
Lemma step_Relocator s ok : Inv s -> Inv (step s (LRelocator ok)).
Proof.
  intros I. simpl. destruct (mailbox s) as [|[a j|w] rest] eqn:Em; [exact I| |].
  - (* a Rebalance order: the queued message is the owner of (a, j) *)
    assert (Hown : In (a, j) (owners s)) by (unfold owners; rewrite Em; simpl; auto).
    pose proof (owner_registered s a j I Hown) as Hj.
    destruct (names_split s I) as (Nl & Nc & Nd).
    destruct ok.
    + (* worker spawned: ownership moves from the message to the running worker *)
      set (w := S (seqn s)).
      assert (Hfresh_name : forall x, ~ In (w, x) (live s ++ crashed s)).
      { intros x H. pose proof (names_fresh s w x I H). subst w. lia. }
      constructor; simpl.
      * intros x y. pose proof (inv_own s I x y) as Ho. unfold oc, owners in *. simpl. rewrite Em in Ho. simpl in Ho.
        rewrite map_app. simpl. rewrite !cnt_app in *. rewrite cnt_single.
        destruct (pair_dec (a, j) (x, y)) as [E|E].
        -- inversion E; subst. rewrite cnt_cons_eq in Ho. rewrite !cnt_app in Ho. lia.
        -- rewrite cnt_cons_neq in Ho by exact E. rewrite !cnt_app in Ho. lia.
      * apply (inv_fresh_jobs s I).
      * apply (inv_ids s I).
      * intros x y H. apply (inv_fresh_owners s I x y). unfold owners in *. simpl in H. rewrite Em. simpl.
        rewrite map_app in H. rewrite !in_app_iff in *. simpl in H.
        destruct H as [H|[[H|[H|[]]]|H]]; auto; inversion H; subst; auto.
      * intros w' x y. unfold upd_workers. fold w. destruct (Nat.eqb_spec w' w) as [->|Hne].
        -- intros [= <- <-]. split; [apply (inv_fresh_jobs s I a j Hj)|lia].
        -- intros H. destruct (inv_workers s I w' x y H). subst w. lia.
      * intros w' x H. unfold upd_workers. fold w. rewrite <- app_assoc in H. rewrite in_app_iff in H. simpl in H.
        destruct (Nat.eqb_spec w' w) as [->|Hne].
        -- destruct H as [H|[H|H]].
           ++ exfalso. apply (Hfresh_name x). apply in_or_app. auto.
           ++ inversion H; subst. reflexivity.
           ++ exfalso. apply (Hfresh_name x). apply in_or_app. auto.
        -- apply (inv_tracked s I). rewrite in_app_iff. destruct H as [H|[H|H]]; auto. inversion H; congruence.
      * rewrite <- app_assoc. rewrite map_app. simpl.
        apply nodup_app_intro; auto.
        -- constructor; auto. intros H. apply in_map_iff in H. destruct H as ([w' x] & E & Hx). simpl in E. subst w'.
           apply (Hfresh_name x). apply in_or_app. auto.
        -- intros z Hz [<-|Hc]; [|exact (Nd z Hz Hc)].
           apply in_map_iff in Hz. destruct Hz as ([w' x] & E & Hx). simpl in E. subst w'.
           apply (Hfresh_name x). apply in_or_app. auto.
      * intros w' x y. unfold upd_workers. fold w. destruct (Nat.eqb_spec w' w) as [->|Hne].
        -- intros [= <- <-]. left. rewrite <- app_assoc. rewrite in_app_iff. right. simpl. auto.
        -- intros H. destruct (inv_status s I w' x y H) as [Hs|Hs]; auto. left.
           rewrite <- app_assoc. rewrite in_app_iff in *. simpl. tauto.
      * intros w' H. rewrite map_app, in_app_iff. simpl. intros [Hl|[Hw|[]]].
        -- apply (inv_term s I w'); [rewrite Em; simpl; auto|exact Hl].
        -- (* a Terminated for a name that has not been handed out yet cannot be queued *)
           subst w'. assert (Hq : In (TerminatedMsg w) (mailbox s)) by (rewrite Em; simpl; auto).
           pose proof (inv_term_names s I w Hq). subst w. lia.
      * intros w' H. assert (Hq : In (TerminatedMsg w') (mailbox s)) by (rewrite Em; simpl; auto).
        pose proof (inv_term_names s I w' Hq). lia.
      * apply (inv_outcomes s I).
      * apply (inv_released s I).
    + (* spawn failed: abortRelocation *)
      apply (release_ok s _ a j PubAborted I Hj); simpl; auto.
      * intros x y. unfold owners. simpl. rewrite Em. simpl. rewrite !cnt_app.
        destruct (pair_dec (a, j) (x, y)) as [E|E].
        -- inversion E; subst. rewrite cnt_cons_eq. rewrite !cnt_app. lia.
        -- rewrite cnt_cons_neq by exact E. rewrite !cnt_app. lia.
      * apply (inv_tracked s I).
      * apply (inv_names s I).
      * intros w' H. apply (inv_term s I w'). rewrite Em. simpl. auto.
      * intros w' H. assert (Hq : In (TerminatedMsg w') (mailbox s)) by (rewrite Em; simpl; auto).
        pose proof (inv_term_names s I w' Hq). lia.
  - (* Terminated w *)
    assert (Hnl : ~ In w (map fst (live s))) by (apply (inv_term s I w); rewrite Em; simpl; auto).
    destruct (names_split s I) as (Nl & Nc & Nd).
    assert (Hterm' : forall w', In (TerminatedMsg w') rest -> ~ In w' (map fst (live s))).
    { intros w' H. apply (inv_term s I w'). rewrite Em. simpl. auto. }
    assert (Htn' : forall w', In (TerminatedMsg w') rest -> w' <= seqn s).
    { intros w' H. apply (inv_term_names s I w'). rewrite Em. simpl. auto. }
    destruct (workers s w) as [[a j]|] eqn:Ew.
    + destruct (opt_job_eqb (jobs s a) j) eqn:Eq.
      * (* the registered job is the dead worker's own snapshot: abnormal death, abort *)
        apply opt_job_eqb_spec in Eq.
        assert (Hc : In (w, (a, j)) (crashed s)).
        { destruct (inv_status s I w a j Ew) as [H|H].
          - apply in_app_or in H. destruct H as [H|H]; auto. exfalso. apply Hnl. exact (in_names H).
          - destruct (inv_released s I j H) as (_ & H2). exfalso. exact (H2 a Eq). }
        apply (release_ok s _ a j PubAborted I Eq); simpl; auto.
        -- intros x y. unfold owners. simpl. rewrite Em. simpl. rewrite !cnt_app.
           rewrite (cnt_remove_w w (a, j) (crashed s) x y Nc Hc). lia.
        -- intros w' x. unfold upd_workers. destruct (Nat.eqb_spec w' w); [discriminate|auto].
        -- intros w' x H. unfold upd_workers.
           destruct (Nat.eqb_spec w' w) as [->|Hne].
           ++ exfalso. apply in_app_or in H. destruct H as [H|H].
              ** apply Hnl. exact (in_names H).
              ** destruct (remove_w_names w _ Nc) as (_ & Hx). apply Hx. exact (in_names H).
           ++ apply (inv_tracked s I). apply in_app_or in H. apply in_or_app.
              destruct H as [H|H]; auto. right. eapply remove_w_subset; eauto.
        -- rewrite map_app. apply nodup_app_intro; auto.
           ++ apply (remove_w_names w _ Nc).
           ++ intros z Hz Hc'. apply (Nd z Hz). apply in_map_iff in Hc'. destruct Hc' as (y & <- & Hy).
              apply in_map. eapply remove_w_subset; eauto.
        -- intros w' x. unfold upd_workers. destruct (Nat.eqb_spec w' w) as [->|Hne]; [discriminate|].
           intros Hw' H. apply in_app_or in H. destruct H as [H|H]; [left; apply in_or_app; auto|].
           pose proof (remove_w_perm w (a, j) (crashed s) Nc Hc) as Hp.
           apply (Permutation_in _ Hp) in H. destruct H as [H|H]; [inversion H; congruence|].
           left. apply in_or_app. auto.
      * (* stale Terminated (job already released, possibly re-registered by a newer departure): untrack only *)
        assert (Hncr : ~ In w (map fst (crashed s))).
        { intros H. apply in_map_iff in H. destruct H as ([w' x] & E & Hx). simpl in E. subst w'.
          pose proof (inv_tracked s I w x (in_or_app _ _ _ (or_intror Hx))) as Hw. rewrite Ew in Hw. inversion Hw; subst.
          pose proof (owner_registered s a j I (crashed_owner s w a j Hx)) as Hj.
          apply opt_job_eqb_spec in Hj. congruence. }
        rewrite (remove_w_absent w (crashed s) Hncr).
        constructor; simpl.
        -- intros x y. pose proof (inv_own s I x y) as Ho. unfold oc, owners in *. simpl. rewrite Em in Ho. simpl in Ho. exact Ho.
        -- apply (inv_fresh_jobs s I).
        -- apply (inv_ids s I).
        -- intros x y H. apply (inv_fresh_owners s I x y). unfold owners in *. simpl in H. rewrite Em. simpl. exact H.
        -- intros w' x y. unfold upd_workers. destruct (Nat.eqb_spec w' w); [discriminate|apply (inv_workers s I)].
        -- intros w' x H. unfold upd_workers. destruct (Nat.eqb_spec w' w) as [->|Hne]; [|apply (inv_tracked s I); exact H].
           exfalso. apply in_app_or in H. destruct H as [H|H]; [apply Hnl|apply Hncr]; exact (in_names H).
        -- apply (inv_names s I).
        -- intros w' x y. unfold upd_workers. destruct (Nat.eqb_spec w' w); [discriminate|apply (inv_status s I)].
        -- exact Hterm'.
        -- exact Htn'.
        -- apply (inv_outcomes s I).
        -- apply (inv_released s I).
    + (* unknown worker: ignored *)
      constructor; simpl; try apply I.
      * intros x y. pose proof (inv_own s I x y) as Ho. unfold oc, owners in *. simpl. rewrite Em in Ho. simpl in Ho. exact Ho.
      * intros x y H. apply (inv_fresh_owners s I x y). unfold owners in *. simpl in H. rewrite Em. simpl. exact H.
      * exact Hterm'.
      * exact Htn'.
Qed.

(* ------------------------------------------------------------------ the worker *)
Lemma step_WorkerFinish s w k : Inv s -> Inv (step s (LWorkerFinish w k)).
Proof.
  intros I. simpl. destruct (find_w w (live s)) as [[a j]|] eqn:Ef; [|exact I].
  pose proof (find_w_In _ _ _ Ef) as Hl.
  destruct (names_split s I) as (Nl & Nc & Nd).
  pose proof (owner_registered s a j I (live_owner s w a j Hl)) as Hj.
  apply (release_ok s _ a j (pub_of k) I Hj); simpl; auto.
  - intros x y. unfold owners. simpl. rewrite rebalances_app. simpl. rewrite app_nil_r. rewrite !cnt_app.
    rewrite (cnt_remove_w w (a, j) (live s) x y Nl Hl). lia.
  - intros w' x H. apply (inv_tracked s I). apply in_app_or in H. apply in_or_app.
    destruct H as [H|H]; auto. left. eapply remove_w_subset; eauto.
  - rewrite map_app. apply nodup_app_intro; auto.
    + apply (remove_w_names w _ Nl).
    + intros z Hz. apply Nd. apply in_map_iff in Hz. destruct Hz as (y & <- & Hy).
      apply in_map. eapply remove_w_subset; eauto.
  - intros w' x Hw' H. apply in_app_or in H. destruct H as [H|H]; [|left; apply in_or_app; auto].
    pose proof (remove_w_perm w (a, j) (live s) Nl Hl) as Hp.
    apply (Permutation_in _ Hp) in H. destruct H as [H|H]; [inversion H; auto|].
    left. apply in_or_app. auto.
  - intros w' H Hin. apply in_app_or in H. destruct H as [H|[H|[]]].
    + apply (inv_term s I w' H). apply in_map_iff in Hin. destruct Hin as (y & <- & Hy).
      apply in_map. eapply remove_w_subset; eauto.
    + inversion H; subst. destruct (remove_w_names w' _ Nl) as (_ & Hx). exact (Hx Hin).
  - intros w' H. apply in_app_or in H. destruct H as [H|[H|[]]].
    + apply (inv_term_names s I w' H).
    + inversion H; subst. apply (names_fresh s w' (a, j) I). apply in_or_app. auto.
Qed.

Lemma step_WorkerCrash s w : Inv s -> Inv (step s (LWorkerCrash w)).
Proof.
  intros I. simpl. destruct (find_w w (live s)) as [[a j]|] eqn:Ef; [|exact I].
  pose proof (find_w_In _ _ _ Ef) as Hl.
  destruct (names_split s I) as (Nl & Nc & Nd).
  pose proof (remove_w_perm w (a, j) (live s) Nl Hl) as Hp.
  destruct (remove_w_names w _ Nl) as (Nl' & Hnot).
  constructor; simpl.
  - intros x y. pose proof (inv_own s I x y) as Ho. unfold oc, owners in *. simpl.
    rewrite rebalances_app. simpl. rewrite app_nil_r. rewrite map_app. simpl.
    rewrite !cnt_app in *. rewrite cnt_single.
    rewrite (cnt_remove_w w (a, j) (live s) x y Nl Hl) in Ho. lia.
  - apply (inv_fresh_jobs s I).
  - apply (inv_ids s I).
  - intros x y H. apply (inv_fresh_owners s I x y). unfold owners in *. simpl in H.
    rewrite rebalances_app in H. simpl in H. rewrite app_nil_r in H. rewrite map_app in H. simpl in H.
    rewrite !in_app_iff in *. simpl in H.
    destruct H as [H|[H|[H|[H|[]]]]]; auto.
    + right. left. apply in_map_iff in H. destruct H as (z & <- & Hz). apply in_map. eapply remove_w_subset; eauto.
    + right. left. inversion H; subst. apply (in_map snd) in Hl. exact Hl.
  - apply (inv_workers s I).
  - intros w' x H. apply (inv_tracked s I). rewrite !in_app_iff in *. simpl in H.
    destruct H as [H|[H|[H|[]]]]; auto.
    + left. eapply remove_w_subset; eauto.
    + inversion H; subst. auto.
  - rewrite !map_app. simpl. apply nodup_app_intro; auto.
    + apply NoDup_snoc; auto. intros H. apply (Nd w); auto. exact (in_names Hl).
    + intros z Hz Hc. rewrite in_app_iff in Hc. simpl in Hc. destruct Hc as [Hc|[<-|[]]].
      * apply (Nd z); auto. apply in_map_iff in Hz. destruct Hz as (y & <- & Hy). apply in_map. eapply remove_w_subset; eauto.
      * exact (Hnot Hz).
  - intros w' x y H. destruct (inv_status s I w' x y H) as [Hs|Hs]; auto. left.
    rewrite !in_app_iff in *. simpl. destruct Hs as [Hs|Hs]; auto.
    apply (Permutation_in _ Hp) in Hs. destruct Hs as [Hs|Hs]; auto; inversion Hs; subst; auto.
  - intros w' H Hin. apply in_app_or in H. destruct H as [H|[H|[]]].
    + apply (inv_term s I w' H). apply in_map_iff in Hin. destruct Hin as (y & <- & Hy).
      apply in_map. eapply remove_w_subset; eauto.
    + inversion H; subst. exact (Hnot Hin).
  - intros w' H. apply in_app_or in H. destruct H as [H|[H|[]]].
    + apply (inv_term_names s I w' H).
    + inversion H; subst. apply (names_fresh s w' (a, j) I). apply in_or_app. auto.
  - apply (inv_outcomes s I).
  - apply (inv_released s I).
Qed.

(* ------------------------------------------------------------------ all histories *)
Lemma step_Inv s l : Inv s -> Inv (step s l).
Proof.
  destruct l.
  - apply step_NodeLeft.
  - apply step_Relocator.
  - apply step_WorkerFinish.
  - apply step_WorkerCrash.
Qed.

Lemma run_from_Inv : forall ls s, Inv s -> Inv (fold_left step ls s).
Proof. induction ls as [|l r IH]; intros s I; simpl; auto. apply IH, step_Inv, I. Qed.

Theorem run_Inv ls : Inv (run ls).
Proof. apply run_from_Inv, Inv_init. Qed.

(* ---- consequences *)
Definition owners_of (s : lstate) (a : addr) : list (addr * jobid) :=
  filter (fun o => (fst o =? a)%nat) (owners s).

Lemma count_le_one_nodup {A} (dec : forall x y : A, {x = y} + {x <> y}) (l : list A) :
  (forall x, count_occ dec l x <= 1) -> NoDup l.
Proof. intros H. apply (NoDup_count_occ dec). exact H. Qed.

(* at most one relocation of an address is in flight, and it is the registered one *)
Theorem one_owner_per_address ls a :
  let s := run ls in
  match jobs s a with
  | Some j => owners_of s a = [(a, j)]
  | None => owners_of s a = []
  end.
Proof.
  intros s. pose proof (run_Inv ls) as I. fold s in I.
  assert (Hall : forall o, In o (owners_of s a) -> jobs s a = Some (snd o) /\ fst o = a).
  { intros [x y] H. unfold owners_of in H. apply filter_In in H. destruct H as (H & E). simpl in E.
    apply Nat.eqb_eq in E. subst x. split; auto. apply (owner_registered s a y I H). }
  assert (Hnd : NoDup (owners_of s a)).
  { apply NoDup_filter. apply (count_le_one_nodup pair_dec). intros [x y].
    pose proof (inv_own s I x y) as Ho. unfold oc, cnt in Ho. rewrite Ho. destruct (opt_job_eqb _ _); lia. }
  destruct (jobs s a) as [j|] eqn:Ej.
  - assert (Hin : In (a, j) (owners_of s a)).
    { unfold owners_of. apply filter_In. split; [|simpl; apply Nat.eqb_refl].
      pose proof (inv_own s I a j) as Ho. rewrite Ej in Ho. simpl in Ho. rewrite Nat.eqb_refl in Ho.
      unfold oc, cnt in Ho. apply (count_occ_In pair_dec). lia. }
    destruct (owners_of s a) as [|o1 [|o2 r]]; [destruct Hin| |].
    + destruct Hin as [->|[]]. reflexivity.
    + exfalso. destruct (Hall o1 (or_introl eq_refl)) as (H1 & H1').
      destruct (Hall o2 (or_intror (or_introl eq_refl))) as (H2 & H2').
      destruct o1 as [x1 y1], o2 as [x2 y2]. simpl in *. subst.
      inversion Hnd; subst. apply H3. left. congruence.
  - destruct (owners_of s a) as [|o r]; auto.
    destruct (Hall o (or_introl eq_refl)) as (H1 & _). discriminate.
Qed.

(* a duplicate notification while a relocation of the address is in flight changes nothing *)
Theorem duplicate_notification_ignored ls a ok :
  jobs (run ls) a <> None -> run (ls ++ [LNodeLeft a ok]) = run ls.
Proof.
  intros H. unfold run. rewrite fold_left_app. simpl. fold (run ls).
  destruct (jobs (run ls) a); [reflexivity|congruence].
Qed.

(* every departure job gets at most one outcome, hence at most one RelocationFailed event *)
Theorem single_outcome_per_job ls : NoDup (map fst (outcomes (run ls))).
Proof. apply (inv_outcomes _ (run_Inv ls)). Qed.

Lemma events_sub s : forall j, In j (events s) -> In j (map fst (outcomes s)).
Proof.
  intros j H. unfold events in H. apply in_map_iff in H. destruct H as (o & <- & Ho).
  apply filter_In in Ho. apply in_map. tauto.
Qed.

Lemma NoDup_map_filter {A B} (f : A -> B) (p : A -> bool) (l : list A) :
  NoDup (map f l) -> NoDup (map f (filter p l)).
Proof.
  induction l as [|x r IH]; simpl; intros H; [constructor|].
  inversion H; subst. destruct (p x); simpl; auto.
  constructor; auto. intros Hin. apply H2. apply in_map_iff in Hin. destruct Hin as (y & E & Hy).
  apply filter_In in Hy. rewrite <- E. apply in_map. tauto.
Qed.

Theorem single_event_per_job ls : NoDup (events (run ls)).
Proof. unfold events. apply NoDup_map_filter. apply single_outcome_per_job. Qed.

(* a job that is still registered has not produced any outcome yet; a released one never comes back *)
Theorem registered_job_unpublished ls a j :
  jobs (run ls) a = Some j -> ~ In j (map fst (outcomes (run ls))).
Proof.
  intros Hj H. destruct (inv_released _ (run_Inv ls) j H) as (_ & H2). exact (H2 a Hj).
Qed.
