(* C33 — per-item accounting of the relocation worker: for every oracle (local failures, peer
   failures at any batch, remote per-item failures, failures while redistributing, release failures)
   the relocatable items of the departed node are exactly handled ⊎ failed. *)
From Coq Require Import List ZArith NArith Bool Arith Lia Permutation.
From GV Require Import C32.Model C32.Proofs C32.Grains C32.Reassign C32.Plan C33.Worker.
Import ListNotations.
Open Scope nat_scope.

Definition wactor_dec : forall x y : wactor, {x = y} + {x <> y}.
Proof. decide equality; [apply Bool.bool_dec|apply Nat.eq_dec|apply N.eq_dec]. Qed.
Definition wgrain_dec : forall x y : wgrain, {x = y} + {x <> y}.
Proof. decide equality; try apply Bool.bool_dec. apply N.eq_dec. Qed.
Definition item_dec : forall x y : item, {x = y} + {x <> y}.
Proof. decide equality; [apply wactor_dec|apply wgrain_dec]. Qed.

Definition c (l : list item) (x : item) : nat := count_occ item_dec l x.

Lemma c_app l1 l2 x : c (l1 ++ l2) x = c l1 x + c l2 x.
Proof. apply count_occ_app. Qed.

Lemma c_nil x : c [] x = 0.
Proof. reflexivity. Qed.

Lemma c_perm l1 l2 : Permutation l1 l2 -> forall x, c l1 x = c l2 x.
Proof. intros H x. apply Permutation_count_occ. exact H. Qed.

Lemma perm_of_c l1 l2 : (forall x, c l1 x = c l2 x) -> Permutation l1 l2.
Proof. intros H. apply (Permutation_count_occ item_dec). exact H. Qed.

Lemma c_partition (f : item -> bool) l x :
  c (fst (partition f l)) x + c (snd (partition f l)) x = c l x.
Proof.
  induction l as [|y r IH]; simpl; auto.
  destruct (partition f r) as [p q]. simpl in *. unfold c in *.
  destruct (f y); simpl; destruct (item_dec y x); lia.
Qed.

Lemma partition_fst_true {A} (f : A -> bool) (l : list A) x : In x (fst (partition f l)) -> f x = true.
Proof.
  induction l as [|y r IH]; simpl; [tauto|].
  destruct (partition f r) as [p q]. simpl in *. destruct (f y) eqn:E; simpl; auto.
  intros [<-|H]; auto.
Qed.

Lemma c_flat_map {A} (f : A -> list item) (l : list A) x :
  c (flat_map f l) x = fold_right (fun a n => c (f a) x + n) 0 l.
Proof. induction l as [|a r IH]; simpl; auto. rewrite c_app, IH. reflexivity. Qed.

(* ------------------------------------------------------------------ items of requests *)
Lemma c_items_of_reqs rs x :
  c (items_of_reqs rs) x =
  c (map IA (concat (map rq_actors rs))) x + c (map IG (concat (map rq_grains rs))) x.
Proof.
  induction rs as [|r rest IH]; simpl; auto.
  unfold items_of at 1. rewrite !c_app, IH, !map_app, !c_app. lia.
Qed.

(* ------------------------------------------------------------------ sendBatches *)
Lemma send_batches_account rpc : forall reqs k x,
  let '(ok, f, u) := send_batches rpc k reqs in
  c ok x + c f x + c (items_of_reqs u) x = c (items_of_reqs reqs) x.
Proof.
  induction reqs as [|r rest IH]; intros k x; simpl; auto.
  destruct (rpc k r) as [okf|]; simpl.
  - pose proof (c_partition okf (items_of r) x) as Hp.
    destruct (partition okf (items_of r)) as [p q].
    specialize (IH (S k) x). destruct (send_batches rpc (S k) rest) as [[p' f'] u]. simpl in *.
    rewrite !c_app. lia.
  - rewrite !c_app. simpl. lia.
Qed.

Lemma unsent_account rel_ok reqs x :
  c (fst (unsent_run rel_ok reqs)) x + c (snd (unsent_run rel_ok reqs)) x = c (items_of_reqs reqs) x.
Proof. apply c_partition. Qed.

(* what recordUnsent reports is never a successfully released lazy grain; handled items of the unsent
   path are lazy grains only *)
Lemma unsent_handled_are_lazy rel_ok reqs it :
  In it (fst (unsent_run rel_ok reqs)) -> exists g, it = IG g /\ geager g = false /\ rel_ok g = true.
Proof.
  unfold unsent_run. intros H.
  assert (Hf : unsent_ok rel_ok it = true) by (eapply partition_fst_true; eauto).
  destruct it as [a|g]; simpl in Hf; [discriminate|].
  apply andb_true_iff in Hf. destruct Hf as (H1 & H2). exists g. repeat split; auto. now apply negb_true_iff.
Qed.

Section Account.
  Variables (leaderRoles : list nat) (peersRoles : list (list nat)).
  Variables (ok_local : item -> bool) (rel_ok : wgrain -> bool).
  Variable rpc : nat -> nat -> request -> option (item -> bool).
  Variable rpc2 : nat -> nat -> nat -> request -> option (item -> bool).

  Lemma survivor_account p i ashare gshare x :
    let '(ok, f) := survivor_run rel_ok rpc2 p i ashare gshare in
    c ok x + c f x = c (map IA ashare) x + c (map IG gshare) x.
  Proof.
    unfold survivor_run.
    assert (Hgen : let '(ok, f, u) := send_batches (rpc2 p i) 0 (buildRequests ashare gshare) in
                   let '(h, uf) := unsent_run rel_ok u in
                   c (ok ++ h) x + c (f ++ uf) x = c (map IA ashare) x + c (map IG gshare) x).
    { pose proof (send_batches_account (rpc2 p i) (buildRequests ashare gshare) 0 x) as Hs.
      destruct (send_batches (rpc2 p i) 0 (buildRequests ashare gshare)) as [[ok f] u].
      pose proof (unsent_account rel_ok u x) as Hu.
      destruct (unsent_run rel_ok u) as [h uf]. simpl in *.
      rewrite (c_items_of_reqs (buildRequests ashare gshare)) in Hs. rewrite buildRequests_actors, buildRequests_grains in Hs.
      rewrite !c_app. lia. }
    destruct ashare as [|a0 ar]; [destruct gshare as [|g0 gr]; [reflexivity|]|];
      revert Hgen; destruct (send_batches _ _ _) as [[ok f] u]; destruct (unsent_run rel_ok u) as [h uf]; auto.
  Qed.

  Lemma seq_nth_account {A} (inj : A -> item) (shares : list (list A)) n x :
    length shares = n ->
    fold_right (fun i acc => c (map inj (nth i shares [])) x + acc) 0 (seq 0 n) = c (map inj (concat shares)) x.
  Proof.
    intros <-. rewrite <- (concat_nth_seq shares (length shares) (le_n _)).
    generalize (seq 0 (length shares)). intros l. induction l as [|i r IH]; simpl; auto.
    rewrite map_app, c_app, IH. reflexivity.
  Qed.

  Lemma redistribute_account p remaining x :
    let '(ok, f) := redistribute leaderRoles peersRoles ok_local rel_ok rpc2 p remaining in
    c ok x + c f x = c (items_of_reqs remaining) x.
  Proof.
    unfold redistribute. set (sroles := remove_nth p peersRoles).
    pose proof (reassign_partition remaining sroles leaderRoles) as Hpart.
    pose proof (reassign_shares_length remaining sroles leaderRoles) as Hlen.
    pose proof (reassign_grains remaining sroles leaderRoles) as Hgr.
    destruct (reassignByRole remaining sroles leaderRoles) as [[[ashares lactors] grains] nobody].
    simpl in Hpart, Hlen, Hgr.
    set (lg := match sroles with [] => (grains, []) | _ => ([], grains) end).
    assert (Hlg : c (map IG (fst lg)) x + c (map IG (snd lg)) x = c (map IG grains) x).
    { subst lg. destruct sroles; simpl; lia. }
    assert (Hsp : length (spread (length sroles) (snd lg)) = length sroles /\
                  c (map IG (concat (spread (length sroles) (snd lg)))) x = c (map IG (snd lg)) x).
    { destruct sroles as [|s0 sr] eqn:Es.
      - subst lg. simpl. split; reflexivity.
      - destruct (spread_perm (length (s0 :: sr)) (snd lg)) as (H1 & H2); [simpl; lia|].
        split; [exact H1|]. apply c_perm. apply Permutation_map. exact H2. }
    destruct lg as [lgrains pgrains]. simpl in Hlg, Hsp. destruct Hsp as (Hsl & Hsc).
    unfold local_run. pose proof (c_partition ok_local (map IA lactors ++ map IG lgrains) x) as Hloc.
    destruct (partition ok_local (map IA lactors ++ map IG lgrains)) as [lp lf]. simpl in Hloc.
    rewrite c_app in Hloc.
    (* the survivors *)
    set (gshares := spread (length sroles) pgrains) in *.
    assert (Hper : c (flat_map fst (map (fun i => survivor_run rel_ok rpc2 p i (nth i ashares []) (nth i gshares [])) (seq 0 (length sroles)))) x +
                   c (flat_map snd (map (fun i => survivor_run rel_ok rpc2 p i (nth i ashares []) (nth i gshares [])) (seq 0 (length sroles)))) x =
                   c (map IA (concat ashares)) x + c (map IG (concat gshares)) x).
    { rewrite <- (seq_nth_account IA ashares (length sroles) x Hlen).
      rewrite <- (seq_nth_account IG gshares (length sroles) x Hsl).
      generalize (seq 0 (length sroles)). intros l. induction l as [|i r IH]; simpl; auto.
      pose proof (survivor_account p i (nth i ashares []) (nth i gshares []) x) as Hs.
      destruct (survivor_run rel_ok rpc2 p i (nth i ashares []) (nth i gshares [])) as [ok f].
      simpl. rewrite !c_app. lia. }
    rewrite !c_app.
    pose proof (c_perm _ _ (Permutation_map IA Hpart) x) as Hpa.
    rewrite !map_app, !c_app in Hpa.
    rewrite c_items_of_reqs. rewrite <- Hgr. lia.
  Qed.

  Lemma peer_account pr x :
    let '(ok, f) := peer_run leaderRoles peersRoles ok_local rel_ok rpc rpc2 pr in
    c ok x + c f x = c (items_of_reqs (snd pr)) x.
  Proof.
    unfold peer_run. pose proof (send_batches_account (rpc (fst pr)) (snd pr) 0 x) as Hs.
    destruct (send_batches (rpc (fst pr)) 0 (snd pr)) as [[ok f] u].
    destruct u as [|u0 ur].
    - simpl in Hs. lia.
    - pose proof (redistribute_account (fst pr) (u0 :: ur) x) as Hr.
      destruct (redistribute leaderRoles peersRoles ok_local rel_ok rpc2 (fst pr) (u0 :: ur)) as [rp rf].
      rewrite !c_app. lia.
  Qed.

  (* the accounting theorem: handled ⊎ failed = relocatable actors ⊎ relocatable grains *)
  Theorem relocate_accounts actors grainsInOrder baseLoads :
    let '(handled, failed) := relocate leaderRoles peersRoles ok_local rel_ok rpc rpc2 actors grainsInOrder baseLoads in
    Permutation (handled ++ failed) (map IA actors ++ map IG (relocatableGrains grainsInOrder)).
  Proof.
    unfold relocate.
    set (pl := relocationPlan leaderRoles peersRoles actors grainsInOrder baseLoads).
    pose proof (plan_actors leaderRoles peersRoles actors grainsInOrder baseLoads) as Ha. fold pl in Ha.
    pose proof (plan_grains leaderRoles peersRoles actors grainsInOrder baseLoads) as Hg. fold pl in Hg.
    unfold local_run.
    destruct (partition ok_local (map IA (pl_leaderActors pl) ++ map IG (pl_leaderGrains pl))) as [lp lf] eqn:Ep.
    apply perm_of_c. intros x.
    pose proof (c_partition ok_local (map IA (pl_leaderActors pl) ++ map IG (pl_leaderGrains pl)) x) as Hloc.
    rewrite Ep in Hloc. cbn [fst snd] in Hloc. rewrite c_app in Hloc.
    assert (Hper : c (flat_map fst (map (peer_run leaderRoles peersRoles ok_local rel_ok rpc rpc2) (pl_peers pl))) x +
                   c (flat_map snd (map (peer_run leaderRoles peersRoles ok_local rel_ok rpc rpc2) (pl_peers pl))) x =
                   c (map IA (concat (map peer_actors (pl_peers pl)))) x +
                   c (map IG (concat (map peer_grains (pl_peers pl)))) x).
    { generalize (pl_peers pl). intros l. induction l as [|pr r IH]; simpl; auto.
      pose proof (peer_account pr x) as Hp.
      destruct (peer_run leaderRoles peersRoles ok_local rel_ok rpc rpc2 pr) as [ok f].
      simpl. rewrite !map_app, !c_app. rewrite c_items_of_reqs in Hp.
      change (peer_actors pr) with (concat (map rq_actors (snd pr))).
      change (peer_grains pr) with (concat (map rq_grains (snd pr))). lia. }
    pose proof (c_perm _ _ (Permutation_map IA Ha) x) as Hca. rewrite !map_app, !c_app in Hca.
    rewrite <- Hg. rewrite !map_app, !c_app. lia.
  Qed.
End Account.

(* the abort paths report every actor and every eager grain; lazy grains are released or reported *)
Theorem aborted_accounts rel_ok actors grainsInOrder :
  let '(handled, failed) := aborted rel_ok actors grainsInOrder in
  Permutation (handled ++ failed) (map IA actors ++ map IG (relocatableGrains grainsInOrder)) /\
  (forall a, In a actors -> In (IA a) failed) /\
  (forall g, In g (relocatableGrains grainsInOrder) -> geager g = true -> In (IG g) failed).
Proof.
  unfold aborted.
  pose proof (elements_in_partition (fun g => negb (geager g) && rel_ok g) (relocatableGrains grainsInOrder)) as He.
  destruct (partition (fun g => negb (geager g) && rel_ok g) (relocatableGrains grainsInOrder)) as [h f] eqn:Ep.
  specialize (He h f eq_refl).
  assert (Hperm : Permutation (h ++ f) (relocatableGrains grainsInOrder)).
  { clear He. revert h f Ep. induction (relocatableGrains grainsInOrder) as [|g r IH]; simpl; intros h f Ep.
    - inversion Ep. constructor.
    - destruct (partition _ r) as [h' f'] eqn:E'. specialize (IH h' f' eq_refl).
      destruct (negb (geager g) && rel_ok g); inversion Ep; subst; simpl.
      + constructor. exact IH.
      + rewrite <- Permutation_middle. constructor. exact IH. }
  repeat split.
  - apply perm_of_c. intros x. pose proof (c_perm _ _ (Permutation_map IG Hperm) x) as Hc.
    rewrite map_app in Hc. rewrite !c_app in *. lia.
  - intros a Ha. apply in_or_app. left. apply in_map. exact Ha.
  - intros g Hg Heg. apply in_or_app. right. apply in_map.
    apply He in Hg. destruct Hg as [Hg|Hg]; auto.
    assert (Hb : negb (geager g) && rel_ok g = true).
    { apply (partition_fst_true (fun g => negb (geager g) && rel_ok g) (relocatableGrains grainsInOrder)). rewrite Ep. exact Hg. }
    rewrite Heg in Hb. discriminate.
Qed.
