(* C07 — proofs about the supervision model (C07/Model.v). *)
From Coq Require Import ZArith List Bool Arith Lia Permutation.
From GV Require Import C07.Model.
Import ListNotations.
Open Scope Z_scope.

(* ------------------------------------------------------------------ list updates *)

Lemma upd_length {A} (l : list A) i f : length (upd l i f) = length l.
Proof. revert i; induction l; destruct i; simpl; auto. Qed.

Lemma nth_error_upd_same {A} (l : list A) i f :
  nth_error (upd l i f) i = option_map f (nth_error l i).
Proof. revert i; induction l; destruct i; simpl; auto. Qed.

Lemma nth_error_upd_other {A} (l : list A) i j f :
  i <> j -> nth_error (upd l i f) j = nth_error l j.
Proof.
  revert i j; induction l; intros [|i] [|j] H; simpl; auto; try congruence.
  all: try (apply IHl; congruence).
Qed.

Lemma upd_comm {A} (l : list A) i j f g :
  i <> j -> upd (upd l i f) j g = upd (upd l j g) i f.
Proof.
  revert i j; induction l; intros [|i] [|j] H; simpl; auto; try congruence.
  all: try (f_equal; apply IHl; congruence).
Qed.

Lemma upd_id {A} (l : list A) i f :
  (forall x, nth_error l i = Some x -> f x = x) -> upd l i f = l.
Proof.
  revert i; induction l; intros [|i] H; simpl; auto.
  - f_equal. apply H. reflexivity.
  - f_equal. apply IHl. exact H.
Qed.

Lemma upd_many_cons {A} (l : list A) i is f :
  upd_many l (i :: is) f = upd_many (upd l i f) is f.
Proof. reflexivity. Qed.

Lemma upd_many_length {A} (l : list A) is f : length (upd_many l is f) = length l.
Proof.
  revert l; induction is; intros; simpl; auto.
  unfold upd_many in *. simpl. rewrite IHis. apply upd_length.
Qed.

Lemma nth_error_upd_many_notin {A} (l : list A) is j f :
  ~ In j is -> nth_error (upd_many l is f) j = nth_error l j.
Proof.
  revert l; induction is; intros l H; [reflexivity|].
  rewrite upd_many_cons, IHis by (intro; apply H; right; assumption).
  apply nth_error_upd_other. intro; apply H; left; assumption.
Qed.

Lemma nth_error_upd_many_in {A} (l : list A) is j f :
  NoDup is -> In j is -> nth_error (upd_many l is f) j = option_map f (nth_error l j).
Proof.
  revert l; induction is; intros l Hnd Hin; [destruct Hin|].
  inversion Hnd; subst. rewrite upd_many_cons. destruct Hin as [->|Hin].
  - rewrite nth_error_upd_many_notin by assumption. apply nth_error_upd_same.
  - rewrite IHis by assumption. f_equal. apply nth_error_upd_other. intro; subst; contradiction.
Qed.

Lemma upd_many_upd_comm {A} (l : list A) is j f g :
  ~ In j is -> upd_many (upd l j g) is f = upd (upd_many l is f) j g.
Proof.
  revert l; induction is; intros l H; [reflexivity|].
  rewrite !upd_many_cons. rewrite <- IHis by (intro; apply H; right; assumption).
  f_equal. apply upd_comm. intro; subst; apply H; left; reflexivity.
Qed.

(* the restart goroutines may run in any order *)
Lemma upd_many_remove_nth {A} (l : list A) ts k j f :
  NoDup ts -> nth_error ts k = Some j ->
  upd_many (upd l j f) (remove_nth ts k) f = upd_many l ts f.
Proof.
  revert l k; induction ts as [|x r IH]; intros l k Hnd Hk; [destruct k; discriminate|].
  inversion Hnd; subst. destruct k as [|k]; cbn [nth_error remove_nth] in *.
  - inversion Hk; subst. reflexivity.
  - rewrite !upd_many_cons.
    assert (x <> j) by (intro; subst; apply H1; eapply nth_error_In; eassumption).
    rewrite upd_comm by congruence. apply IH; assumption.
Qed.

Lemma remove_nth_length {A} (ts : list A) k :
  (k < length ts)%nat -> length (remove_nth ts k) = pred (length ts).
Proof.
  revert k; induction ts; intros [|k] H; simpl in *; try lia.
  rewrite IHts by lia. destruct ts; simpl in *; lia.
Qed.

Lemma NoDup_remove_nth {A} (ts : list A) k : NoDup ts -> NoDup (remove_nth ts k).
Proof.
  revert k; induction ts; intros [|k] H; simpl; auto; inversion H; subst; auto.
  constructor; auto. intro Hin. apply H2.
  clear - Hin. revert k Hin. induction ts; intros [|k] Hin; simpl in *; auto.
  destruct Hin; auto. right. eapply IHts; eauto.
Qed.

(* ------------------------------------------------------------------ groups *)

Lemma siblings_not_self cs i : ~ In i (siblings cs i).
Proof.
  unfold siblings. intro H. apply filter_In in H. destruct H as [_ H].
  rewrite Nat.eqb_refl in H. discriminate.
Qed.

Lemma siblings_NoDup cs i : NoDup (siblings cs i).
Proof. unfold siblings. apply NoDup_filter. apply seq_NoDup. Qed.

Lemma group_NoDup st cs i : NoDup (group st cs i).
Proof.
  destruct st; simpl.
  - constructor; [intros []|constructor].
  - constructor; [apply siblings_not_self|apply siblings_NoDup].
Qed.

Lemma group_self st cs i : In i (group st cs i).
Proof. destruct st; simpl; auto. Qed.

Lemma in_siblings cs i j :
  In j (siblings cs i) <->
  j <> i /\ exists c, nth_error cs j = Some c /\ c_status c <> Stopped.
Proof.
  unfold siblings. rewrite filter_In. split.
  - intros [Hs H]. apply andb_true_iff in H. destruct H as [H1 H2].
    apply negb_true_iff, Nat.eqb_neq in H1. split; [assumption|].
    destruct (nth_error cs j) eqn:E; [|discriminate]. exists c. split; [reflexivity|].
    apply negb_true_iff in H2. intro Hc. rewrite Hc in H2. discriminate.
  - intros [Hne [c [E Hst]]]. split.
    + apply in_seq. split; [lia|]. simpl. apply nth_error_Some. congruence.
    + apply andb_true_iff. split.
      * apply negb_true_iff, Nat.eqb_neq. assumption.
      * rewrite E. apply negb_true_iff. destruct (c_status c); simpl; congruence.
Qed.

Lemma filter_all_id {A} (p : A -> bool) l : (forall x, In x l -> p x = true) -> filter p l = l.
Proof.
  induction l; intros H; simpl; [reflexivity|].
  rewrite (H a) by (left; reflexivity). f_equal. apply IHl. intros x Hx. apply H. right. assumption.
Qed.

Lemma filter_not_self_group st cs i :
  filter (fun j => negb (Nat.eqb j i)) (group st cs i) = match st with OneForOne => [] | OneForAll => siblings cs i end.
Proof.
  destruct st; simpl; rewrite Nat.eqb_refl; simpl; [reflexivity|].
  apply filter_all_id. intros j Hj.
  apply negb_true_iff, Nat.eqb_neq. intro; subst. eapply siblings_not_self; eassumption.
Qed.

(* siblings depends only on which children are stopped *)
Lemma siblings_ext cs cs' i :
  length cs = length cs' ->
  (forall j, j <> i -> option_map (fun c => status_eqb (c_status c) Stopped) (nth_error cs j)
                       = option_map (fun c => status_eqb (c_status c) Stopped) (nth_error cs' j)) ->
  siblings cs i = siblings cs' i.
Proof.
  intros Hl H. unfold siblings. rewrite Hl. apply filter_ext_in. intros j _.
  destruct (Nat.eqb j i) eqn:E; simpl; [reflexivity|]. apply Nat.eqb_neq in E.
  specialize (H j E). destruct (nth_error cs j), (nth_error cs' j); simpl in *; congruence.
Qed.

Lemma siblings_upd_self cs i f : siblings (upd cs i f) i = siblings cs i.
Proof.
  apply siblings_ext; [apply upd_length|]. intros j Hj.
  rewrite nth_error_upd_other by congruence. reflexivity.
Qed.

Lemma group_upd_self st cs i f : group st (upd cs i f) i = group st cs i.
Proof. destruct st; simpl; [reflexivity|]. rewrite siblings_upd_self. reflexivity. Qed.

(* ------------------------------------------------------------------ refinement: one failure *)

Lemma drain_any_order keep cfg fam inbox ts picks fuel :
  NoDup ts -> (length ts <= fuel)%nat ->
  drain keep cfg (mkI fam inbox ts) picks fuel =
  mkI (mkFam (upd_many (f_children fam) ts (restart_child keep)) (f_escal fam)) inbox [].
Proof.
  revert fam ts picks. induction fuel as [|fu IH]; intros fam ts picks Hnd Hlen.
  - destruct ts; [|simpl in Hlen; lia]. simpl. destruct fam; reflexivity.
  - destruct ts as [|t ts']; [simpl; destruct fam; reflexivity|].
    set (ts := t :: ts') in *.
    cbn [drain i_tasks]. fold ts.
    set (k := match picks with [] => O | p :: _ => Nat.modulo p (length ts) end).
    assert (Hk : (k < length ts)%nat).
    { subst k. destruct picks; [subst ts; simpl; lia|]. apply Nat.mod_upper_bound. subst ts; simpl; lia. }
    destruct (nth_error ts k) as [j|] eqn:Ej; [|apply nth_error_None in Ej; lia].
    unfold impl_step. cbn [i_tasks i_fam i_inbox]. rewrite Ej.
    rewrite IH.
    + cbn [f_children f_escal]. rewrite (upd_many_remove_nth _ ts k j) by assumption. reflexivity.
    + apply NoDup_remove_nth; assumption.
    + rewrite remove_nth_length by assumption. lia.
Qed.

Lemma suspend_child_status c : c_status (suspend_child c) = Suspended.
Proof. reflexivity. Qed.

Lemma record_fault_status w n c : c_status (record_fault w n c) = c_status c.
Proof. reflexivity. Qed.

Lemma status_upd_many_record cs g w n j :
  option_map c_status (nth_error (upd_many cs g (record_fault w n)) j) = option_map c_status (nth_error cs j).
Proof.
  revert cs; induction g; intros cs; [reflexivity|].
  rewrite upd_many_cons, IHg. destruct (Nat.eq_dec a j) as [->|Hne].
  - rewrite nth_error_upd_same. destruct (nth_error cs j); reflexivity.
  - rewrite nth_error_upd_other by assumption. reflexivity.
Qed.

(* A failure handled to quiescence leaves exactly the family computed by [supervise], whatever
   the order in which the restart goroutines run. *)
Lemma quiescent_step_refines keep cfg fam f picks :
  quiescent_step keep cfg (init_istate fam) (f, picks) = init_istate (supervise keep cfg fam f).
Proof.
  unfold quiescent_step, init_istate, supervise. cbn [fst snd impl_step].
  unfold notify_parent. cbn [i_fam i_inbox i_tasks].
  destruct (is_running (f_children fam) (fl_child f)) eqn:Hrun; cbn [negb].
  2:{ cbn. destruct fam; reflexivity. }
  destruct (directive_of (cfg (fl_child f)) (fl_ety f)) as [[| | |]|] eqn:Hd.
  - (* stop *)
    cbn. rewrite group_upd_self. reflexivity.
  - (* resume *) cbn. reflexivity.
  - (* restart *)
    cbn [impl_step i_inbox app handle_panicking p_directive p_child p_sup p_strategy i_fam f_children f_escal i_tasks].
    set (cs1 := upd (f_children fam) (fl_child f) suspend_child).
    set (g := group (s_strategy (cfg (fl_child f))) cs1 (fl_child f)).
    set (cs2 := upd_many cs1 g _).
    destruct (budget_exhausted (cfg (fl_child f)) (faults_at cs2 (fl_child f))) eqn:Hb.
    + cbn [i_tasks length drain i_fam].
      f_equal. f_equal.
      assert (Hs : option_map c_status (nth_error cs2 (fl_child f)) = Some Suspended).
      { subst cs2. rewrite status_upd_many_record. subst cs1. rewrite nth_error_upd_same.
        unfold is_running in Hrun. destruct (nth_error (f_children fam) (fl_child f)); [reflexivity|discriminate]. }
      assert (Hid : upd cs2 (fl_child f) (fun c => match c_status c with Running => suspend_child c | _ => c end) = cs2).
      { apply upd_id. intros x Hx. rewrite Hx in Hs. simpl in Hs. inversion Hs as [Hs']. rewrite Hs'. reflexivity. }
      clearbody cs2. subst g. rewrite filter_not_self_group.
      destruct (s_strategy (cfg (fl_child f))); cbn [group]; rewrite upd_many_cons, Hid; reflexivity.
    + cbn [i_tasks app].
      rewrite drain_any_order; [reflexivity| subst g; apply group_NoDup | lia].
  - (* escalate *) cbn. reflexivity.
  - (* no directive *) cbn. reflexivity.
Qed.

(* every failure sequence, every restart-goroutine order *)
Lemma quiescent_run_refines keep cfg fam (fs : list (failure * list nat)) :
  fold_left (quiescent_step keep cfg) fs (init_istate fam) =
  init_istate (fold_left (supervise keep cfg) (map fst fs) fam).
Proof.
  revert fam; induction fs as [|[f p] fs IH]; intros fam; [reflexivity|].
  cbn [fold_left map fst]. rewrite quiescent_step_refines. apply IH.
Qed.

(* every sequence of failures, user messages and reinstatements *)
Lemma impl_ops_refine keep cfg fam (ops : list (op * list nat)) :
  fold_left (impl_op keep cfg) ops (init_istate fam) =
  init_istate (fold_left (spec_op keep cfg) (map fst ops) fam).
Proof.
  revert fam; induction ops as [|[o p] ops IH]; intros fam; [reflexivity|].
  cbn [fold_left map fst]. replace (impl_op keep cfg (init_istate fam) (o, p)) with (init_istate (spec_op keep cfg fam o)).
  - apply IH.
  - unfold impl_op. cbn [fst snd]. destruct o; cbn [spec_op].
    + symmetry. apply quiescent_step_refines.
    + reflexivity.
    + reflexivity.
Qed.

(* ------------------------------------------------------------------ directive lookup *)

Lemma lookup_tset_same e d t : lookup e (tset e d t) = Some d.
Proof.
  induction t as [|[k d0] r IH]; simpl; [rewrite Nat.eqb_refl; reflexivity|].
  destruct (Nat.eqb k e) eqn:E; simpl; rewrite E; auto.
Qed.

Lemma lookup_tset_other e e' d t : e <> e' -> lookup e' (tset e d t) = lookup e' t.
Proof.
  intros Hne. induction t as [|[k d0] r IH]; simpl.
  - destruct (Nat.eqb e e') eqn:E; [apply Nat.eqb_eq in E; congruence|reflexivity].
  - destruct (Nat.eqb k e) eqn:E; simpl.
    + apply Nat.eqb_eq in E; subst. destruct (Nat.eqb e e') eqn:E'; [apply Nat.eqb_eq in E'; congruence|reflexivity].
    + destruct (Nat.eqb k e'); auto.
Qed.

(* the last option that sets the rule for error type [e] *)
Fixpoint last_rule (e : ety) (opts : list sopt) (acc : option directive) : option directive :=
  match opts with
  | [] => acc
  | WithDirective k d :: r => last_rule e r (if Nat.eqb k e then Some d else acc)
  | WithAnyErrorDirective d :: r => last_rule e r (if Nat.eqb kAny e then Some d else acc)
  | _ :: r => last_rule e r acc
  end.

Lemma lookup_fold e opts s :
  lookup e (s_table (fold_left apply_opt opts s)) = last_rule e opts (lookup e (s_table s)).
Proof.
  revert s; induction opts as [|o r IH]; intros s; [reflexivity|].
  cbn [fold_left]. rewrite IH. destruct o; cbn [last_rule apply_opt s_table]; try reflexivity.
  - destruct (Nat.eqb e0 e) eqn:E.
    + apply Nat.eqb_eq in E; subst. rewrite lookup_tset_same. reflexivity.
    + apply Nat.eqb_neq in E. rewrite lookup_tset_other by assumption. reflexivity.
  - destruct (Nat.eqb kAny e) eqn:E.
    + apply Nat.eqb_eq in E; subst. rewrite lookup_tset_same. reflexivity.
    + apply Nat.eqb_neq in E. rewrite lookup_tset_other by assumption. reflexivity.
  - destruct (initialDelay <=? 0); reflexivity.
Qed.

Definition default_rule (e : ety) : option directive :=
  if Nat.eqb e kPanic then Some DStop else if Nat.eqb e kPanicNil then Some DRestart else None.

(* The directive applied for an error of type [e] by a supervisor built from [opts]:
   an any-error option (the last one given) wins over everything; otherwise the last rule given
   for [e]; otherwise the built-in defaults; otherwise none (the actor is only suspended). *)
Definition directive_spec (opts : list sopt) (e : ety) : option directive :=
  match last_rule kAny opts None with
  | Some d => Some d
  | None => match last_rule e opts None with
            | Some d => Some d
            | None => default_rule e
            end
  end.

Lemma last_rule_acc e opts acc :
  last_rule e opts acc = match last_rule e opts None with Some d => Some d | None => acc end.
Proof.
  revert acc; induction opts as [|o r IH]; intros acc; [reflexivity|].
  destruct o; cbn [last_rule]; try apply IH.
  - destruct (Nat.eqb e0 e); [rewrite (IH (Some d)); destruct (last_rule e r None); reflexivity|apply IH].
  - destruct (Nat.eqb kAny e); [rewrite (IH (Some d)); destruct (last_rule e r None); reflexivity|apply IH].
Qed.

Lemma directive_of_new_supervisor opts e :
  directive_of (new_supervisor opts) e = directive_spec opts e.
Proof.
  unfold directive_of, new_supervisor, directive_spec.
  pose proof (lookup_fold kAny opts default_sup) as HA. cbn [default_sup s_table lookup] in HA.
  replace (Nat.eqb kPanic kAny) with false in HA by reflexivity.
  replace (Nat.eqb kPanicNil kAny) with false in HA by reflexivity.
  rewrite HA. destruct (last_rule kAny opts None) as [d|] eqn:EA.
  - cbn [s_table lookup]. destruct (Nat.eqb kAny e); reflexivity.
  - rewrite HA. rewrite lookup_fold. rewrite last_rule_acc.
    destruct (last_rule e opts None); [reflexivity|].
    cbn [default_sup s_table lookup]. unfold default_rule.
    rewrite (Nat.eqb_sym kPanic e), (Nat.eqb_sym kPanicNil e).
    destruct (Nat.eqb e kPanic); [reflexivity|]. destruct (Nat.eqb e kPanicNil); reflexivity.
Qed.

(* ------------------------------------------------------------------ what each directive does *)

Definition child_at (fam : family) (j : nat) : option child := nth_error (f_children fam) j.

Lemma is_running_spec cs i : is_running cs i = true <-> exists c, nth_error cs i = Some c /\ c_status c = Running.
Proof.
  unfold is_running. destruct (nth_error cs i) as [c|]; split.
  - intros H. exists c. split; [reflexivity|]. destruct (c_status c); simpl in H; congruence.
  - intros [c' [E H]]. inversion E; subst. rewrite H. reflexivity.
  - discriminate.
  - intros [c' [E _]]. discriminate.
Qed.

(* a failure of an actor that is not running (suspended, stopped) changes nothing *)
Lemma supervise_not_running keep cfg fam f :
  is_running (f_children fam) (fl_child f) = false -> supervise keep cfg fam f = fam.
Proof. intros H. unfold supervise. rewrite H. reflexivity. Qed.

Lemma supervise_none keep cfg fam f c :
  child_at fam (fl_child f) = Some c -> c_status c = Running ->
  directive_of (cfg (fl_child f)) (fl_ety f) = None ->
  let fam' := supervise keep cfg fam f in
  child_at fam' (fl_child f) = Some (suspend_child c) /\
  f_escal fam' = f_escal fam /\
  (forall j, j <> fl_child f -> child_at fam' j = child_at fam j).
Proof.
  intros Hc Hs Hd. unfold supervise.
  assert (Hr : is_running (f_children fam) (fl_child f) = true) by (apply is_running_spec; eauto).
  rewrite Hr, Hd. cbn. unfold child_at in *. cbn. repeat split.
  - rewrite nth_error_upd_same, Hc. reflexivity.
  - intros j Hj. apply nth_error_upd_other. congruence.
Qed.

Lemma supervise_resume keep cfg fam f c :
  child_at fam (fl_child f) = Some c -> c_status c = Running ->
  directive_of (cfg (fl_child f)) (fl_ety f) = Some DResume ->
  let fam' := supervise keep cfg fam f in
  (exists c', child_at fam' (fl_child f) = Some c' /\ c_status c' = Running /\
              c_gen c' = c_gen c /\ c_mem c' = c_mem c /\ c_restarts c' = c_restarts c /\ c_posts c' = c_posts c /\
              (* it handles later messages with the state it had *)
              c_mem (ping_child c') = c_mem c + 1) /\
  f_escal fam' = f_escal fam /\
  (forall j, j <> fl_child f -> child_at fam' j = child_at fam j).
Proof.
  intros Hc Hs Hd. unfold supervise.
  assert (Hr : is_running (f_children fam) (fl_child f) = true) by (apply is_running_spec; eauto).
  rewrite Hr, Hd. cbn. unfold child_at in *. cbn. repeat split.
  - exists (set_skip c). rewrite nth_error_upd_same, Hc. unfold ping_child, set_skip. cbn. rewrite Hs. cbn. repeat split; reflexivity.
  - intros j Hj. apply nth_error_upd_other. congruence.
Qed.

Lemma supervise_escalate keep cfg fam f c :
  child_at fam (fl_child f) = Some c -> c_status c = Running ->
  directive_of (cfg (fl_child f)) (fl_ety f) = Some DEscalate ->
  let fam' := supervise keep cfg fam f in
  f_escal fam' = f_escal fam ++ [(fl_child f, fl_ety f)] /\
  child_at fam' (fl_child f) = Some (suspend_child c) /\
  (forall j, j <> fl_child f -> child_at fam' j = child_at fam j).
Proof.
  intros Hc Hs Hd. unfold supervise.
  assert (Hr : is_running (f_children fam) (fl_child f) = true) by (apply is_running_spec; eauto).
  rewrite Hr, Hd. cbn. unfold child_at in *. cbn. repeat split.
  - rewrite nth_error_upd_same, Hc. reflexivity.
  - intros j Hj. apply nth_error_upd_other. congruence.
Qed.

Lemma shutdown_child_stopped c : c_status (shutdown_child c) = Stopped.
Proof. unfold shutdown_child. destruct (c_status c) eqn:E; cbn; auto. Qed.

Lemma supervise_stop keep cfg fam f c :
  child_at fam (fl_child f) = Some c -> c_status c = Running ->
  directive_of (cfg (fl_child f)) (fl_ety f) = Some DStop ->
  let fam' := supervise keep cfg fam f in
  (* the child is stopped, PostStop ran once more *)
  (exists c', child_at fam' (fl_child f) = Some c' /\ c_status c' = Stopped /\ c_posts c' = c_posts c + 1 /\ c_gen c' = c_gen c) /\
  f_escal fam' = f_escal fam /\
  (forall j cj, j <> fl_child f -> child_at fam j = Some cj ->
     match s_strategy (cfg (fl_child f)) with
     | OneForAll => exists cj', child_at fam' j = Some cj' /\ c_status cj' = Stopped /\
                               c_posts cj' = (if status_eqb (c_status cj) Stopped then c_posts cj else c_posts cj + 1)
     | OneForOne => child_at fam' j = Some cj
     end).
Proof.
  intros Hc Hs Hd. unfold supervise.
  assert (Hr : is_running (f_children fam) (fl_child f) = true) by (apply is_running_spec; eauto).
  rewrite Hr, Hd. cbn [negb]. unfold child_at in *. cbn [f_children f_escal].
  set (i := fl_child f) in *. set (cs1 := upd (f_children fam) i suspend_child).
  set (g := group _ cs1 i).
  assert (Hnd : NoDup g) by apply group_NoDup.
  repeat split.
  - exists (shutdown_child (suspend_child c)).
    rewrite nth_error_upd_many_in by (auto; apply group_self).
    subst cs1. rewrite nth_error_upd_same, Hc. cbn. repeat split; reflexivity.
  - intros j cj Hj Hcj. subst g. destruct (s_strategy (cfg i)); cbn [group].
    + rewrite nth_error_upd_many_notin by (intros [H|[]]; congruence).
      subst cs1. rewrite nth_error_upd_other by congruence. assumption.
    + assert (Hcj1 : nth_error cs1 j = Some cj) by (subst cs1; rewrite nth_error_upd_other by congruence; assumption).
      destruct (status_eqb (c_status cj) Stopped) eqn:Est.
      * exists cj. rewrite nth_error_upd_many_notin.
        { repeat split; auto. destruct (c_status cj); simpl in Est; congruence. }
        intros [H|H]; [congruence|]. apply in_siblings in H. destruct H as [_ [c0 [E0 H0]]].
        rewrite Hcj1 in E0. inversion E0; subst. destruct (c_status c0); simpl in Est; congruence.
      * exists (shutdown_child cj). rewrite nth_error_upd_many_in; auto.
        { rewrite Hcj1. cbn. repeat split; [apply shutdown_child_stopped|].
          unfold shutdown_child. destruct (c_status cj); simpl in Est; try discriminate; reflexivity. }
        right. apply in_siblings. split; [assumption|]. exists cj. split; [assumption|].
        intro Hx. rewrite Hx in Est. discriminate.
Qed.

(* the fault counter of the failing child after recordFault *)
Definition faults_after (s : sup) (c : child) (now : Z) : Z :=
  c_faults (record_fault (window_of s) now c).

Lemma faults_at_after cfg fam f c :
  child_at fam (fl_child f) = Some c ->
  let s := cfg (fl_child f) in
  let cs1 := upd (f_children fam) (fl_child f) suspend_child in
  faults_at (upd_many cs1 (group (s_strategy s) cs1 (fl_child f)) (record_fault (window_of s) (fl_now f))) (fl_child f)
  = faults_after s c (fl_now f).
Proof.
  intros Hc s cs1. unfold faults_at, child_at in *.
  rewrite nth_error_upd_many_in by (try apply group_NoDup; apply group_self).
  subst cs1. rewrite nth_error_upd_same, Hc. reflexivity.
Qed.

Lemma supervise_restart keep cfg fam f c :
  child_at fam (fl_child f) = Some c -> c_status c = Running ->
  directive_of (cfg (fl_child f)) (fl_ety f) = Some DRestart ->
  budget_exhausted (cfg (fl_child f)) (faults_after (cfg (fl_child f)) c (fl_now f)) = false ->
  let fam' := supervise keep cfg fam f in
  (* the child runs again with fresh state: PreStart ran once more, restart count bumped *)
  (exists c', child_at fam' (fl_child f) = Some c' /\ c_status c' = Running /\
              c_gen c' = c_gen c + 1 /\ c_mem c' = 0 /\ c_restarts c' = c_restarts c + 1 /\
              c_faults c' = faults_after (cfg (fl_child f)) c (fl_now f) /\ c_last c' = fl_now f) /\
  f_escal fam' = f_escal fam /\
  (forall j cj, j <> fl_child f -> child_at fam j = Some cj ->
     match s_strategy (cfg (fl_child f)) with
     | OneForAll =>
         if status_eqb (c_status cj) Stopped then child_at fam' j = Some cj
         else exists cj', child_at fam' j = Some cj' /\ c_status cj' = Running /\ c_gen cj' = c_gen cj + 1 /\ c_mem cj' = 0 /\
                          (keep = true -> c_restarts cj' = c_restarts cj + 1)
     | OneForOne => child_at fam' j = Some cj
     end).
Proof.
  intros Hc Hs Hd Hb. unfold supervise.
  assert (Hr : is_running (f_children fam) (fl_child f) = true) by (apply is_running_spec; eauto).
  rewrite Hr, Hd. cbn [negb]. rewrite (faults_at_after cfg fam f c Hc), Hb.
  unfold child_at in *. cbn [f_children f_escal].
  set (i := fl_child f) in *. set (cs1 := upd (f_children fam) i suspend_child).
  set (g := group _ cs1 i). set (w := window_of (cfg i)).
  assert (Hnd : NoDup g) by apply group_NoDup.
  repeat split.
  - exists (restart_child keep (record_fault w (fl_now f) (suspend_child c))).
    rewrite nth_error_upd_many_in by (auto; apply group_self).
    rewrite nth_error_upd_many_in by (auto; apply group_self).
    subst cs1. rewrite nth_error_upd_same, Hc. cbn. repeat split; reflexivity.
  - intros j cj Hj Hcj. subst g. destruct (s_strategy (cfg i)); cbn [group].
    + rewrite !nth_error_upd_many_notin by (intros [H|[]]; congruence).
      subst cs1. rewrite nth_error_upd_other by congruence. assumption.
    + assert (Hcj1 : nth_error cs1 j = Some cj) by (subst cs1; rewrite nth_error_upd_other by congruence; assumption).
      destruct (status_eqb (c_status cj) Stopped) eqn:Est.
      * rewrite !nth_error_upd_many_notin; auto;
        intros [H|H]; try congruence; apply in_siblings in H; destruct H as [_ [c0 [E0 H0]]];
        rewrite Hcj1 in E0; inversion E0; subst; destruct (c_status c0); simpl in Est; congruence.
      * assert (Hin : In j (i :: siblings cs1 i)).
        { right. apply in_siblings. split; [assumption|]. exists cj. split; [assumption|].
          intro Hx. rewrite Hx in Est. discriminate. }
        exists (restart_child keep (record_fault w (fl_now f) cj)).
        rewrite !nth_error_upd_many_in by auto. rewrite Hcj1. cbn [option_map]. split; [reflexivity|].
        unfold restart_child. rewrite record_fault_status.
        destruct (c_status cj) eqn:E; simpl in Est; try discriminate; cbn; repeat split; auto.
        intros ->. reflexivity.
Qed.

Lemma supervise_budget_exhausted keep cfg fam f c :
  child_at fam (fl_child f) = Some c -> c_status c = Running ->
  directive_of (cfg (fl_child f)) (fl_ety f) = Some DRestart ->
  budget_exhausted (cfg (fl_child f)) (faults_after (cfg (fl_child f)) c (fl_now f)) = true ->
  let fam' := supervise keep cfg fam f in
  (* nobody is restarted: the child stays suspended with the state generation it had *)
  (exists c', child_at fam' (fl_child f) = Some c' /\ c_status c' = Suspended /\
              c_gen c' = c_gen c /\ c_restarts c' = c_restarts c) /\
  f_escal fam' = f_escal fam /\
  (forall j cj, j <> fl_child f -> child_at fam j = Some cj ->
     match s_strategy (cfg (fl_child f)) with
     | OneForAll => exists cj', child_at fam' j = Some cj' /\ c_status cj' <> Running /\
                               c_gen cj' = c_gen cj /\ c_restarts cj' = c_restarts cj /\
                               (c_status cj = Running -> c_status cj' = Suspended)
     | OneForOne => child_at fam' j = Some cj
     end).
Proof.
  intros Hc Hs Hd Hb. unfold supervise.
  assert (Hr : is_running (f_children fam) (fl_child f) = true) by (apply is_running_spec; eauto).
  rewrite Hr, Hd. cbn [negb]. rewrite (faults_at_after cfg fam f c Hc), Hb.
  unfold child_at in *. cbn [f_children f_escal].
  set (i := fl_child f) in *. set (cs1 := upd (f_children fam) i suspend_child).
  set (g := group _ cs1 i). set (w := window_of (cfg i)).
  set (S := fun c0 : child => match c_status c0 with Running => suspend_child c0 | _ => c0 end).
  assert (Hnd : NoDup g) by apply group_NoDup.
  repeat split.
  - exists (S (record_fault w (fl_now f) (suspend_child c))).
    rewrite nth_error_upd_many_in by (auto; apply group_self).
    rewrite nth_error_upd_many_in by (auto; apply group_self).
    subst cs1. rewrite nth_error_upd_same, Hc. cbn. repeat split; reflexivity.
  - intros j cj Hj Hcj. subst g. destruct (s_strategy (cfg i)); cbn [group].
    + rewrite !nth_error_upd_many_notin by (intros [H|[]]; congruence).
      subst cs1. rewrite nth_error_upd_other by congruence. assumption.
    + assert (Hcj1 : nth_error cs1 j = Some cj) by (subst cs1; rewrite nth_error_upd_other by congruence; assumption).
      destruct (status_eqb (c_status cj) Stopped) eqn:Est.
      * exists cj. rewrite !nth_error_upd_many_notin; auto;
        try (intros [H|H]; try congruence; apply in_siblings in H; destruct H as [_ [c0 [E0 H0]]];
             rewrite Hcj1 in E0; inversion E0; subst; destruct (c_status c0); simpl in Est; congruence).
        destruct (c_status cj); simpl in Est; try discriminate. repeat split; auto; congruence.
      * assert (Hin : In j (i :: siblings cs1 i)).
        { right. apply in_siblings. split; [assumption|]. exists cj. split; [assumption|].
          intro Hx. rewrite Hx in Est. discriminate. }
        exists (S (record_fault w (fl_now f) cj)).
        rewrite !nth_error_upd_many_in by auto. rewrite Hcj1. cbn [option_map]. split; [reflexivity|].
        unfold S. rewrite record_fault_status.
        destruct (c_status cj) eqn:E; simpl in Est; try discriminate; cbn; rewrite ?E; repeat split; auto; congruence.
Qed.

(* ------------------------------------------------------------------ the budget over unboundedly many failures *)

Lemma last_cons_default {A} (l : list A) x d d' : last (x :: l) d = last (x :: l) d'.
Proof. revert x; induction l as [|a l IH]; intros x; [reflexivity|]. change (last (a :: l) d = last (a :: l) d'). apply IH. Qed.

Lemma gtb_false a b : a <= b -> (a >? b) = false.
Proof. intros. rewrite Z.gtb_ltb. apply Z.ltb_ge. lia. Qed.
Lemma gtb_true a b : b < a -> (a >? b) = true.
Proof. intros. rewrite Z.gtb_ltb. apply Z.ltb_lt. lia. Qed.


(* consecutive failures of one one-for-one child whose error maps to Restart *)
Definition fails (i : nat) (e : ety) (nows : list Z) : list failure := map (mkFail i e) nows.

Fixpoint gaps_within (w : Z) (prev : Z) (nows : list Z) : Prop :=
  match nows with
  | [] => True
  | t :: r => 0 < t /\ t - prev <= w /\ gaps_within w t r
  end.

Definition restarted_times (c : child) (n : Z) (c' : child) : Prop :=
  c_status c' = Running /\ c_gen c' = c_gen c + n /\ c_restarts c' = c_restarts c + n /\ c_faults c' = c_faults c + n.

Lemma supervise_one_for_one_other keep cfg fam f j :
  s_strategy (cfg (fl_child f)) = OneForOne -> j <> fl_child f ->
  child_at (supervise keep cfg fam f) j = child_at fam j.
Proof.
  intros Hst Hj. unfold supervise, child_at.
  destruct (is_running (f_children fam) (fl_child f)); cbn [negb]; [|reflexivity].
  destruct (directive_of (cfg (fl_child f)) (fl_ety f)) as [[| | |]|]; cbn [f_children];
    rewrite ?Hst; cbn [group].
  - rewrite nth_error_upd_many_notin by (intros [H|[]]; congruence). apply nth_error_upd_other; congruence.
  - apply nth_error_upd_other; congruence.
  - destruct (budget_exhausted _ _); cbn [f_children];
      rewrite !nth_error_upd_many_notin by (intros [H|[]]; congruence); apply nth_error_upd_other; congruence.
  - apply nth_error_upd_other; congruence.
  - apply nth_error_upd_other; congruence.
Qed.

(* Within budget: n <= maxRetries consecutive failures, each within the window of the previous
   one, restart the child n times.  The (maxRetries+1)-th suspends it, and it stays suspended
   whatever fails afterwards. *)
Lemma budget_run keep cfg i e (s := cfg i) :
  directive_of s e = Some DRestart -> s_strategy s = OneForOne ->
  0 < s_maxRetries s -> 0 < window_of s ->
  forall nows fam c prev,
    child_at fam i = Some c -> c_status c = Running ->
    (c_last c = prev) -> gaps_within (window_of s) prev nows ->
    (0 <= c_faults c) ->
    c_faults c + Z.of_nat (length nows) <= s_maxRetries s ->
    exists c', child_at (fold_left (supervise keep cfg) (fails i e nows) fam) i = Some c' /\
               restarted_times c (Z.of_nat (length nows)) c' /\
               c_last c' = last nows prev.
Proof.
  intros Hd Hst Hm Hw nows. induction nows as [|t r IH]; intros fam c prev Hc Hs Hl Hg Hf0 Hle.
  - exists c. cbn. repeat split; auto; lia.
  - cbn [fails map fold_left]. destruct Hg as [Ht [Hgap Hg]].
    set (f := mkFail i e t).
    assert (Hfa : faults_after s c t = c_faults c + 1).
    { unfold faults_after, record_fault. cbn [c_faults].
      replace ((window_of s >? 0) && (c_last c >? 0) && (t - c_last c >? window_of s)) with false; [reflexivity|].
      symmetry. apply andb_false_iff. right. apply gtb_false. lia. }
    assert (Hb : budget_exhausted s (faults_after s c t) = false).
    { unfold budget_exhausted. rewrite Hfa. apply andb_false_iff. right. apply gtb_false.
      cbn [length] in Hle. lia. }
    destruct (supervise_restart keep cfg fam f c Hc Hs Hd Hb) as [[c1 [Hc1 [Hs1 [Hg1 [_ [Hr1 [Hf1 Hl1]]]]]]] _].
    cbn [fl_now f] in Hl1.
    specialize (IH (supervise keep cfg fam f) c1 t Hc1 Hs1 Hl1 Hg).
    assert (Hf1' : c_faults c1 = c_faults c + 1) by (rewrite Hf1; exact Hfa).
    destruct IH as [c' [Hc' [[Ha [Hb' [Hc'' Hd']]] He]]]; [lia| cbn [length] in Hle; lia |].
    exists c'. split; [exact Hc'|]. split.
    + unfold restarted_times. cbn [length]. repeat split; auto; lia.
    + cbn [last]. destruct r; [cbn in *; congruence|rewrite He; apply last_cons_default].
Qed.

Lemma budget_exhaust_next keep cfg i e fam c t (s := cfg i) :
  directive_of s e = Some DRestart ->
  0 < s_maxRetries s -> 0 < window_of s ->
  child_at fam i = Some c -> c_status c = Running ->
  0 < t -> t - c_last c <= window_of s -> c_faults c = s_maxRetries s ->
  exists c', child_at (supervise keep cfg fam (mkFail i e t)) i = Some c' /\ c_status c' = Suspended /\
             c_gen c' = c_gen c /\ c_restarts c' = c_restarts c.
Proof.
  intros Hd Hm Hw Hc Hs Ht Hgap Hf.
  assert (Hfa : faults_after s c t = c_faults c + 1).
  { unfold faults_after, record_fault. cbn [c_faults].
    replace ((window_of s >? 0) && (c_last c >? 0) && (t - c_last c >? window_of s)) with false; [reflexivity|].
    symmetry. apply andb_false_iff. right. apply gtb_false. lia. }
  assert (Hb : budget_exhausted s (faults_after s c t) = true).
  { unfold budget_exhausted. rewrite Hfa. apply andb_true_iff. split; [apply andb_true_iff; split|];
      apply gtb_true; lia. }
  destruct (supervise_budget_exhausted keep cfg fam (mkFail i e t) c Hc Hs Hd Hb) as [[c' [H1 [H2 [H3 H4]]]] _].
  exists c'. auto.
Qed.

(* once suspended, further failures of the same child are dropped: the state is absorbing *)
Lemma suspended_absorbing keep cfg i e nows fam c :
  s_strategy (cfg i) = OneForOne ->
  child_at fam i = Some c -> c_status c <> Running ->
  child_at (fold_left (supervise keep cfg) (fails i e nows) fam) i = Some c.
Proof.
  intros Hst. revert fam. induction nows as [|t r IH]; intros fam Hc Hs; [exact Hc|].
  cbn [fails map fold_left]. rewrite supervise_not_running.
  - apply IH; assumption.
  - cbn [fl_child]. unfold is_running, child_at in *. rewrite Hc.
    destruct (c_status c); simpl; congruence.
Qed.

(* without a budget (maxRetries = 0 or a non-positive window) restarts are unbounded *)
Lemma no_budget_run keep cfg i e (s := cfg i) :
  directive_of s e = Some DRestart -> s_strategy s = OneForOne ->
  (s_maxRetries s <= 0 \/ window_of s <= 0) ->
  forall nows fam c,
    child_at fam i = Some c -> c_status c = Running ->
    exists c', child_at (fold_left (supervise keep cfg) (fails i e nows) fam) i = Some c' /\
               c_status c' = Running /\ c_gen c' = c_gen c + Z.of_nat (length nows) /\
               c_restarts c' = c_restarts c + Z.of_nat (length nows).
Proof.
  intros Hd Hst Hno nows. induction nows as [|t r IH]; intros fam c Hc Hs.
  - exists c. cbn. repeat split; auto; lia.
  - cbn [fails map fold_left]. set (f := mkFail i e t).
    assert (Hb : budget_exhausted s (faults_after s c t) = false).
    { unfold budget_exhausted. destruct Hno as [H|H].
      - replace (s_maxRetries s >? 0) with false; [reflexivity|]. symmetry. apply gtb_false. lia.
      - replace (window_of s >? 0) with false; [rewrite andb_false_r; reflexivity|]. symmetry. apply gtb_false. lia. }
    destruct (supervise_restart keep cfg fam f c Hc Hs Hd Hb) as [[c1 [Hc1 [Hs1 [Hg1 [_ [Hr1 _]]]]]] _].
    destruct (IH (supervise keep cfg fam f) c1 Hc1 Hs1) as [c' [Hc' [Ha [Hb' Hc'']]]].
    exists c'. cbn [length]. repeat split; auto; lia.
Qed.

(* ------------------------------------------------------------------ overlapping failures (not quiescent) *)

(* Two one-for-all siblings fail before the parent has handled the first failure; the parent then
   handles both Panicking messages before the restart goroutines of the first run.  The second
   handling finds the budget exhausted, suspends nobody (both are still suspended) and the restart
   goroutines of the first handling then put the whole group back to running. *)
Definition overlap_sup : sup :=
  new_supervisor [WithStrategy OneForAll; WithAnyErrorDirective DRestart; WithRetry 1 3600000].

Definition overlap_run (keep : bool) : istate :=
  impl_run keep (fun _ => overlap_sup) (init_istate (fresh_family 2))
           [LFail 0%nat kPanic; LFail 1%nat kPanic; LHandle 10; LHandle 11; LTask 0%nat; LTask 0%nat].

Definition sequential_run (keep : bool) : family :=
  fold_left (supervise keep (fun _ => overlap_sup)) [mkFail 0%nat kPanic 10; mkFail 1%nat kPanic 11] (fresh_family 2).

Lemma overlap_witness keep :
  let st := overlap_run keep in
  i_inbox st = [] /\ i_tasks st = [] /\
  map c_status (f_children (i_fam st)) = [Running; Running] /\
  map c_faults (f_children (i_fam st)) = [2; 2] /\
  budget_exhausted overlap_sup 2 = true /\
  map c_status (f_children (sequential_run keep)) = [Suspended; Suspended].
Proof. destruct keep; vm_compute; repeat split; reflexivity. Qed.

(* ------------------------------------------------------------------ restart count of a running sibling *)

(* with reset() zeroing restartCount inside the Shutdown embedded in a restart (keep = false), a
   running sibling restarted for the second time still reports one restart *)
Definition sibling_count_run (keep : bool) : family :=
  fold_left (supervise keep (fun _ => new_supervisor [WithStrategy OneForAll; WithAnyErrorDirective DRestart]))
            [mkFail 0%nat kPanic 10; mkFail 0%nat kPanic 20; mkFail 0%nat kPanic 30] (fresh_family 2).

Lemma sibling_count_witness :
  map c_restarts (f_children (sibling_count_run false)) = [3; 1] /\
  map c_gen (f_children (sibling_count_run false)) = [4; 4] /\
  map c_restarts (f_children (sibling_count_run true)) = [3; 3].
Proof. vm_compute. repeat split; reflexivity. Qed.

(* ------------------------------------------------------------------ escalation chains *)

(* a failure that is not escalated by the child's supervisor does not reach the level above *)
Lemma chain_not_escalated keep cfgP cfgC eP t f :
  c_status (parent_of t) = Running ->
  directive_of (cfgC (fl_child f)) (fl_ety f) <> Some DEscalate ->
  t_top (chain_fail keep cfgP cfgC eP t f) = t_top t /\
  t_sub (chain_fail keep cfgP cfgC eP t f) = supervise keep cfgC (t_sub t) f.
Proof.
  intros Hp Hd. unfold chain_fail. rewrite Hp.
  assert (He : f_escal (supervise keep cfgC (t_sub t) f) = f_escal (t_sub t)).
  { unfold supervise. destruct (negb (is_running _ _)); [reflexivity|].
    destruct (directive_of (cfgC (fl_child f)) (fl_ety f)) as [[| | |]|]; try reflexivity; try congruence.
    destruct (budget_exhausted _ _); reflexivity. }
  rewrite He, Nat.eqb_refl. split; reflexivity.
Qed.

Lemma top_escalate keep cfgP eP top now :
  f_children top = [fresh_child] -> directive_of cfgP eP = Some DEscalate ->
  supervise keep (fun _ => cfgP) top (mkFail 0 eP now) =
  mkFam [suspend_child fresh_child] (f_escal top ++ [(0%nat, eP)]).
Proof.
  intros Htop HdP. destruct top as [cs es]. cbn in Htop. subst cs.
  unfold supervise. cbn [fl_child fl_ety f_children f_escal is_running nth_error c_status fresh_child status_eqb negb].
  rewrite HdP. reflexivity.
Qed.

(* a chain of two Escalate directives hands the failure to the handler two levels up, with the
   error the middle actor failed with; both failing actors wait suspended *)
Lemma chain_escalated_twice keep cfgP cfgC eP t f c :
  f_children (t_top t) = [fresh_child] ->
  child_at (t_sub t) (fl_child f) = Some c -> c_status c = Running ->
  directive_of (cfgC (fl_child f)) (fl_ety f) = Some DEscalate ->
  directive_of cfgP eP = Some DEscalate ->
  let t' := chain_fail keep cfgP cfgC eP t f in
  f_escal (t_top t') = f_escal (t_top t) ++ [(0%nat, eP)] /\
  f_escal (t_sub t') = f_escal (t_sub t) ++ [(fl_child f, fl_ety f)] /\
  c_status (parent_of t') = Suspended /\
  child_at (t_sub t') (fl_child f) = Some (suspend_child c).
Proof.
  intros Htop Hc Hs Hd HdP.
  destruct (supervise_escalate keep cfgC (t_sub t) f c Hc Hs Hd) as [E1 [E2 _]].
  unfold chain_fail, parent_of. rewrite Htop. cbn [nth c_status fresh_child].
  rewrite E1, app_length. cbn [length].
  replace (Nat.eqb (length (f_escal (t_sub t)) + 1) (length (f_escal (t_sub t)))) with false
    by (symmetry; apply Nat.eqb_neq; lia).
  rewrite (top_escalate keep cfgP eP (t_top t) (fl_now f) Htop HdP).
  cbn [f_children nth suspend_child c_status c_gen fresh_child t_top t_sub f_escal].
  change (1 =? 1) with true. cbn iota.
  repeat split; auto.
Qed.

(* ------------------------------------------------------------------ non-vacuity *)

Example ex_config :
  let s := new_supervisor [WithDirective 3%nat DResume; WithStrategy OneForAll; WithRetry 2 1000;
                           WithDirective 4%nat DEscalate; WithExponentialBackoff 10 40 0] in
  directive_of s 3%nat = Some DResume /\ directive_of s kPanic = Some DStop /\
  directive_of s kPanicNil = Some DRestart /\ directive_of s 5%nat = None /\
  window_of s = 40 /\ delay_of s 1 = 10 /\ delay_of s 3 = 40.
Proof. vm_compute. repeat split; reflexivity. Qed.

Example ex_any_erases :
  let s := new_supervisor [WithDirective 3%nat DResume; WithAnyErrorDirective DRestart; WithDirective 4%nat DStop] in
  s_table s = [(kAny, DRestart)] /\ directive_of s 3%nat = Some DRestart /\ directive_of s kPanic = Some DRestart.
Proof. vm_compute. repeat split; reflexivity. Qed.

Example ex_budget :
  let cfg := fun _ : nat => new_supervisor [WithAnyErrorDirective DRestart; WithRetry 2 1000] in
  let fam := fold_left (supervise true cfg) (fails 0%nat kPanic [5; 10; 15; 20]) (fresh_family 2) in
  map c_status (f_children fam) = [Suspended; Running] /\ map c_gen (f_children fam) = [3; 1].
Proof. vm_compute. repeat split; reflexivity. Qed.
