(* C07 — the arithmetic used by the supervision model is the arithmetic of the Go functions:
   delay_of / record_fault are the closed forms that C08 proves for the definitions goq regenerates
   from actor/pid.go (Gen/C08.v). *)
From Coq Require Import ZArith Bool Lia.
From GV Require Import Lib.GoInt Gen.C08 C08.Proofs C07.Model.
Open Scope Z_scope.

Lemma delay_of_is_backoffDelay s faults :
  in_i64 faults -> in_i64 (s_initialDelay s) -> in_i64 (s_maxDelay s) ->
  delay_of s faults = backoffDelay faults (s_initialDelay s) (s_maxDelay s).
Proof.
  intros Hf Hi Hm. rewrite backoffDelay_correct by assumption. reflexivity.
Qed.

Lemma record_fault_is_recordFault window now c :
  in_i64 window -> in_i64 now -> 0 <= c_last c <= now ->
  c_faults (record_fault window now c) =
  (if recordFault_resets window (c_last c) now then 0 else c_faults c) + 1.
Proof.
  intros Hw Hn Hl. rewrite recordFault_resets_correct by assumption. reflexivity.
Qed.
