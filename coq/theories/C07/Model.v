(* C07 — supervision: executable model of
     supervisor/supervisor.go  (NewSupervisor, options, Directive lookup)
     actor/pid.go              (notifyParent, handlePanicking, handleStopDirective,
                                handleRestartDirective, suspendGroup, restartChild, recordFault,
                                suspend, doReinstate, Restart/restartSubtree as far as the
                                supervised child is concerned)
     actor/supervision.go      (the shared consumer drops signals of actors that are not running)
   Definitions only; proofs are in C07/Proofs.v. *)
From Coq Require Import ZArith List Bool Arith.
Import ListNotations.
Open Scope Z_scope.

(* ------------------------------------------------------------------ configuration *)

Inductive directive := DStop | DResume | DRestart | DEscalate.
Inductive strategy := OneForOne | OneForAll.

Definition directive_eqb (a b : directive) : bool :=
  match a, b with
  | DStop, DStop | DResume, DResume | DRestart, DRestart | DEscalate, DEscalate => true
  | _, _ => false
  end.

(* Error types are the reflect type names used as map keys by the supervisor.
   0 = errors.AnyError, 1 = errors.PanicError, 2 = runtime.PanicNilError, >= 3 user error types. *)
Definition ety := nat.
Definition kAny : ety := 0%nat.
Definition kPanic : ety := 1%nat.
Definition kPanicNil : ety := 2%nat.

(* the options of supervisor.NewSupervisor, in the order given by the caller *)
Inductive sopt :=
| WithStrategy (s : strategy)
| WithDirective (e : ety) (d : directive)
| WithAnyErrorDirective (d : directive)
| WithRetry (maxRetries timeout : Z)
| WithExponentialBackoff (initialDelay maxDelay resetAfter : Z).

Record sup := mkSup {
  s_strategy : strategy;
  s_table : list (ety * directive);      (* xsync.Map[string]Directive; keys unique *)
  s_maxRetries : Z;
  s_timeout : Z;
  s_initialDelay : Z;
  s_maxDelay : Z;
  s_resetAfter : Z
}.

Fixpoint lookup (e : ety) (t : list (ety * directive)) : option directive :=
  match t with
  | [] => None
  | (k, d) :: r => if Nat.eqb k e then Some d else lookup e r
  end.

(* Map.Set: overwrite an existing key, otherwise add *)
Fixpoint tset (e : ety) (d : directive) (t : list (ety * directive)) : list (ety * directive) :=
  match t with
  | [] => [(e, d)]
  | (k, d0) :: r => if Nat.eqb k e then (k, d) :: r else (k, d0) :: tset e d r
  end.

Definition default_sup : sup :=
  mkSup OneForOne [(kPanic, DStop); (kPanicNil, DRestart)] 0 (-1) 0 0 0.

Definition apply_opt (s : sup) (o : sopt) : sup :=
  match o with
  | WithStrategy st => mkSup st (s_table s) (s_maxRetries s) (s_timeout s) (s_initialDelay s) (s_maxDelay s) (s_resetAfter s)
  | WithDirective e d => mkSup (s_strategy s) (tset e d (s_table s)) (s_maxRetries s) (s_timeout s) (s_initialDelay s) (s_maxDelay s) (s_resetAfter s)
  | WithAnyErrorDirective d => mkSup (s_strategy s) (tset kAny d (s_table s)) (s_maxRetries s) (s_timeout s) (s_initialDelay s) (s_maxDelay s) (s_resetAfter s)
  | WithRetry m t => mkSup (s_strategy s) (s_table s) m t (s_initialDelay s) (s_maxDelay s) (s_resetAfter s)
  | WithExponentialBackoff i m r =>
      if i <=? 0 then s
      else let m' := if m <? i then i else m in
           let r' := if r <=? 0 then m' else r in
           mkSup (s_strategy s) (s_table s) (s_maxRetries s) (s_timeout s) i m' r'
  end.

(* NewSupervisor: defaults, options in order, then an any-error rule erases every other rule *)
Definition new_supervisor (opts : list sopt) : sup :=
  let s := fold_left apply_opt opts default_sup in
  match lookup kAny (s_table s) with
  | Some d => mkSup (s_strategy s) [(kAny, d)] (s_maxRetries s) (s_timeout s) (s_initialDelay s) (s_maxDelay s) (s_resetAfter s)
  | None => s
  end.

(* notifyParent's lookup: the error's own type, then the any-error rule, else none (suspend) *)
Definition directive_of (s : sup) (e : ety) : option directive :=
  match lookup e (s_table s) with
  | Some d => Some d
  | None => lookup kAny (s_table s)
  end.

(* handleRestartDirective: the reset window *)
Definition window_of (s : sup) : Z :=
  if s_resetAfter s <=? 0 then s_timeout s else s_resetAfter s.

(* backoffDelay's closed form (C08 proves the Go function equal to it on int64) *)
Definition delay_of (s : sup) (faults : Z) : Z :=
  if (s_initialDelay s <=? 0) || (faults <? 1) then 0
  else Z.min (s_initialDelay s * 2 ^ (faults - 1)) (s_maxDelay s).

(* ------------------------------------------------------------------ the family *)

Inductive status := Running | Suspended | Stopped.

Definition status_eqb (a b : status) : bool :=
  match a, b with
  | Running, Running | Suspended, Suspended | Stopped, Stopped => true
  | _, _ => false
  end.

Record child := mkChild {
  c_status : status;
  c_gen : Z;         (* number of PreStart runs of the actor (its state generation) *)
  c_mem : Z;         (* actor-private state: messages handled since the last PreStart *)
  c_posts : Z;       (* number of PostStop runs *)
  c_restarts : Z;    (* pid.restartCount *)
  c_faults : Z;      (* pid.consecutiveFaults *)
  c_last : Z;        (* pid.lastFaultAtNano (0: never) *)
  c_skip : bool;     (* passivationSkipNextState *)
  c_evsusp : Z;      (* ActorSuspended events published for this actor *)
  c_evrest : Z;      (* ActorRestarted events *)
  c_evstop : Z       (* ActorStopped events *)
}.

Definition fresh_child : child := mkChild Running 1 0 0 0 0 0 false 0 0 0.

Record family := mkFam {
  f_children : list child;
  f_escal : list (nat * ety)     (* PanicSignals received by the parent's handler: (child, error type), oldest first *)
}.

Definition set_status (c : child) (s : status) : child :=
  mkChild s (c_gen c) (c_mem c) (c_posts c) (c_restarts c) (c_faults c) (c_last c) (c_skip c) (c_evsusp c) (c_evrest c) (c_evstop c).

(* pid.suspend *)
Definition suspend_child (c : child) : child :=
  mkChild Suspended (c_gen c) (c_mem c) (c_posts c) (c_restarts c) (c_faults c) (c_last c) (c_skip c) (c_evsusp c + 1) (c_evrest c) (c_evstop c).

(* pid.doReinstate *)
Definition reinstate_child (c : child) : child :=
  match c_status c with
  | Suspended => mkChild Running (c_gen c) (c_mem c) (c_posts c) (c_restarts c) (c_faults c) (c_last c) true (c_evsusp c) (c_evrest c) (c_evstop c)
  | _ => c
  end.

(* pid.Shutdown of a child whose running flag is set (running or suspended): PostStop, reset(), ActorStopped *)
Definition shutdown_child (c : child) : child :=
  match c_status c with
  | Stopped => c
  | _ => mkChild Stopped (c_gen c) (c_mem c) (c_posts c + 1) 0 (c_faults c) (c_last c) false (c_evsusp c) (c_evrest c) (c_evstop c + 1)
  end.

(* pid.Restart as run by restartChild.  restartSubtree shuts the actor down first only when
   IsRunning (a suspended actor is re-initialised without PostStop); then PreStart, running,
   not suspended, restartCount+1, ActorRestarted.
   [keep] = true models the repaired restartSubtree that carries restartCount across the
   embedded Shutdown; [keep] = false is the code where reset() zeroes it. *)
Definition restart_child (keep : bool) (c : child) : child :=
  match c_status c with
  | Running =>
      mkChild Running (c_gen c + 1) 0 (c_posts c + 1) ((if keep then c_restarts c else 0) + 1)
              (c_faults c) (c_last c) false (c_evsusp c) (c_evrest c + 1) (c_evstop c + 1)
  | Suspended =>
      mkChild Running (c_gen c + 1) 0 (c_posts c) (c_restarts c + 1)
              (c_faults c) (c_last c) (c_skip c) (c_evsusp c) (c_evrest c + 1) (c_evstop c)
  | Stopped =>
      (* not reachable from supervision: stopped children have left the tree *)
      mkChild Running (c_gen c + 1) 0 (c_posts c) (c_restarts c + 1)
              (c_faults c) (c_last c) (c_skip c) (c_evsusp c) (c_evrest c + 1) (c_evstop c)
  end.

(* pid.recordFault: the counter restarts when the previous fault is older than a positive window *)
Definition record_fault (window now : Z) (c : child) : child :=
  let resets := (window >? 0) && (c_last c >? 0) && (now - c_last c >? window) in
  let f := (if resets then 0 else c_faults c) + 1 in
  mkChild (c_status c) (c_gen c) (c_mem c) (c_posts c) (c_restarts c) f now (c_skip c) (c_evsusp c) (c_evrest c) (c_evstop c).

Definition set_skip (c : child) : child :=
  mkChild (c_status c) (c_gen c) (c_mem c) (c_posts c) (c_restarts c) (c_faults c) (c_last c) true (c_evsusp c) (c_evrest c) (c_evstop c).

(* a user message handled by a running child *)
Definition ping_child (c : child) : child :=
  match c_status c with
  | Running => mkChild Running (c_gen c) (c_mem c + 1) (c_posts c) (c_restarts c) (c_faults c) (c_last c) (c_skip c) (c_evsusp c) (c_evrest c) (c_evstop c)
  | _ => c
  end.

Fixpoint upd {A} (l : list A) (i : nat) (f : A -> A) : list A :=
  match l, i with
  | [], _ => []
  | x :: r, O => f x :: r
  | x :: r, S j => x :: upd r j f
  end.

Definition upd_many {A} (l : list A) (is : list nat) (f : A -> A) : list A :=
  fold_left (fun acc i => upd acc i f) is l.

Definition is_running (cs : list child) (i : nat) : bool :=
  match nth_error cs i with
  | Some c => status_eqb (c_status c) Running
  | None => false
  end.

(* tree.siblings(cid): the other children of the parent still in the tree (stopped ones have left it) *)
Definition siblings (cs : list child) (i : nat) : list nat :=
  filter (fun j => negb (Nat.eqb j i) &&
                   match nth_error cs j with Some c => negb (status_eqb (c_status c) Stopped) | None => false end)
         (seq 0 (length cs)).

Definition group (st : strategy) (cs : list child) (i : nat) : list nat :=
  match st with
  | OneForOne => [i]
  | OneForAll => i :: siblings cs i
  end.

Definition faults_at (cs : list child) (i : nat) : Z :=
  match nth_error cs i with Some c => c_faults c | None => 0 end.

(* ------------------------------------------------------------------ specification *)

(* One failure, handled to completion.  [i] fails with an error of type [e]; [now] is the clock
   read by recordFault. *)
Record failure := mkFail { fl_child : nat; fl_ety : ety; fl_now : Z }.

Definition budget_exhausted (s : sup) (faults : Z) : bool :=
  (s_maxRetries s >? 0) && (window_of s >? 0) && (faults >? s_maxRetries s).

Definition supervise (keep : bool) (cfg : nat -> sup) (fam : family) (f : failure) : family :=
  let i := fl_child f in
  let cs := f_children fam in
  if negb (is_running cs i) then fam else
  let s := cfg i in
  match directive_of s (fl_ety f) with
  | None => mkFam (upd cs i suspend_child) (f_escal fam)
  | Some DResume => mkFam (upd cs i set_skip) (f_escal fam)
  | Some DStop =>
      let cs1 := upd cs i suspend_child in
      mkFam (upd_many cs1 (group (s_strategy s) cs1 i) shutdown_child) (f_escal fam)
  | Some DEscalate =>
      mkFam (upd cs i suspend_child) (f_escal fam ++ [(i, fl_ety f)])
  | Some DRestart =>
      let cs1 := upd cs i suspend_child in
      let g := group (s_strategy s) cs1 i in
      let cs2 := upd_many cs1 g (record_fault (window_of s) (fl_now f)) in
      if budget_exhausted s (faults_at cs2 i)
      then mkFam (upd_many cs2 g (fun c => match c_status c with Running => suspend_child c | _ => c end)) (f_escal fam)
      else mkFam (upd_many cs2 g (restart_child keep)) (f_escal fam)
  end.

(* the delay handleRestartDirective passes to restartChild for this failure (0: immediate / no restart) *)
Definition restart_delay (cfg : nat -> sup) (fam : family) (f : failure) : Z :=
  let i := fl_child f in
  let cs := f_children fam in
  if negb (is_running cs i) then 0 else
  let s := cfg i in
  match directive_of s (fl_ety f) with
  | Some DRestart =>
      let cs1 := upd cs i suspend_child in
      let g := group (s_strategy s) cs1 i in
      let cs2 := upd_many cs1 g (record_fault (window_of s) (fl_now f)) in
      if budget_exhausted s (faults_at cs2 i) then 0 else delay_of s (faults_at cs2 i)
  | _ => 0
  end.

Definition ping_all (fam : family) : family :=
  mkFam (map ping_child (f_children fam)) (f_escal fam).

(* ------------------------------------------------------------------ implementation, step by step *)

(* commands.Panicking as sent by notifyParent *)
Record panicking := mkPanicking { p_child : nat; p_ety : ety; p_strategy : strategy; p_directive : directive; p_sup : sup }.

Record istate := mkI {
  i_fam : family;
  i_inbox : list panicking;   (* the parent's system mailbox, FIFO *)
  i_tasks : list nat          (* restartChild goroutines not yet run (child index) *)
}.

Inductive label :=
| LFail (i : nat) (e : ety)       (* a handler of child i fails; supervision.run + notifyParent *)
| LHandle (now : Z)               (* the parent handles the oldest Panicking; recordFault reads [now] *)
| LTask (k : nat)                 (* the k-th pending restartChild goroutine runs (any order) *)
| LPing.                          (* every running child handles one user message *)

Definition notify_parent (cfg : nat -> sup) (st : istate) (i : nat) (e : ety) : istate :=
  let fam := i_fam st in
  let cs := f_children fam in
  if negb (is_running cs i) then st else
  let s := cfg i in
  match directive_of s e with
  | None => mkI (mkFam (upd cs i suspend_child) (f_escal fam)) (i_inbox st) (i_tasks st)
  | Some DResume => mkI (mkFam (upd cs i set_skip) (f_escal fam)) (i_inbox st) (i_tasks st)
  | Some d => mkI (mkFam (upd cs i suspend_child) (f_escal fam))
                  (i_inbox st ++ [mkPanicking i e (s_strategy s) d s]) (i_tasks st)
  end.

Definition handle_panicking (st : istate) (m : panicking) (now : Z) (rest : list panicking) : istate :=
  let fam := i_fam st in
  let cs := f_children fam in
  let i := p_child m in
  let s := p_sup m in
  match p_directive m with
  | DStop =>
      mkI (mkFam (upd_many cs (group (p_strategy m) cs i) shutdown_child) (f_escal fam)) rest (i_tasks st)
  | DResume =>
      mkI (mkFam (upd cs i reinstate_child) (f_escal fam)) rest (i_tasks st)
  | DEscalate =>
      mkI (mkFam cs (f_escal fam ++ [(i, p_ety m)])) rest (i_tasks st)
  | DRestart =>
      let g := group (p_strategy m) cs i in
      let cs2 := upd_many cs g (record_fault (window_of s) now) in
      if budget_exhausted s (faults_at cs2 i)
      then (* suspendGroup: every member other than the faulty child that is running *)
           mkI (mkFam (upd_many cs2 (filter (fun j => negb (Nat.eqb j i)) g)
                                (fun c => match c_status c with Running => suspend_child c | _ => c end))
                      (f_escal fam)) rest (i_tasks st)
      else mkI (mkFam cs2 (f_escal fam)) rest (i_tasks st ++ g)
  end.

Fixpoint remove_nth {A} (l : list A) (k : nat) : list A :=
  match l, k with
  | [], _ => []
  | _ :: r, O => r
  | x :: r, S j => x :: remove_nth r j
  end.

Definition impl_step (keep : bool) (cfg : nat -> sup) (st : istate) (l : label) : istate :=
  match l with
  | LFail i e => notify_parent cfg st i e
  | LHandle now =>
      match i_inbox st with
      | [] => st
      | m :: rest => handle_panicking st m now rest
      end
  | LTask k =>
      match nth_error (i_tasks st) k with
      | None => st
      | Some j => mkI (mkFam (upd (f_children (i_fam st)) j (restart_child keep)) (f_escal (i_fam st)))
                      (i_inbox st) (remove_nth (i_tasks st) k)
      end
  | LPing => mkI (ping_all (i_fam st)) (i_inbox st) (i_tasks st)
  end.

Definition impl_run (keep : bool) (cfg : nat -> sup) (st : istate) (ls : list label) : istate :=
  fold_left (impl_step keep cfg) ls st.

(* a failure handled to quiescence: fail, the parent handles it, then the pending restart
   goroutines run in the order chosen by [picks] (each pick is taken modulo the number pending) *)
Fixpoint drain (keep : bool) (cfg : nat -> sup) (st : istate) (picks : list nat) (fuel : nat) : istate :=
  match fuel with
  | O => st
  | S fu =>
      match i_tasks st with
      | [] => st
      | _ :: _ =>
          let k := match picks with [] => O | p :: _ => Nat.modulo p (length (i_tasks st)) end in
          drain keep cfg (impl_step keep cfg st (LTask k)) (tl picks) fu
      end
  end.

Definition quiescent_step (keep : bool) (cfg : nat -> sup) (st : istate) (fp : failure * list nat) : istate :=
  let f := fst fp in
  let st1 := impl_step keep cfg st (LFail (fl_child f) (fl_ety f)) in
  let st2 := impl_step keep cfg st1 (LHandle (fl_now f)) in
  drain keep cfg st2 (snd fp) (length (i_tasks st2)).

Definition init_istate (fam : family) : istate := mkI fam [] [].

(* ------------------------------------------------------------------ operation sequences *)

(* what can happen to a family between failures: user messages, and the parent reinstating a
   suspended child (PID.Reinstate -> doReinstate) *)
Inductive op :=
| OFail (f : failure)
| OPing
| OReinstate (i : nat).

Definition reinstate (fam : family) (i : nat) : family :=
  mkFam (upd (f_children fam) i reinstate_child) (f_escal fam).

Definition spec_op (keep : bool) (cfg : nat -> sup) (fam : family) (o : op) : family :=
  match o with
  | OFail f => supervise keep cfg fam f
  | OPing => ping_all fam
  | OReinstate i => reinstate fam i
  end.

(* the same operation on the implementation model; [picks] orders the restart goroutines *)
Definition impl_op (keep : bool) (cfg : nat -> sup) (st : istate) (op_picks : op * list nat) : istate :=
  match fst op_picks with
  | OFail f => quiescent_step keep cfg st (f, snd op_picks)
  | OPing => impl_step keep cfg st LPing
  | OReinstate i => mkI (reinstate (i_fam st) i) (i_inbox st) (i_tasks st)
  end.

(* the observable family after every operation of a sequence *)
Fixpoint spec_trace (keep : bool) (cfg : nat -> sup) (fam : family) (ops : list op) : list family :=
  match ops with
  | [] => []
  | o :: r => let fam' := spec_op keep cfg fam o in fam' :: spec_trace keep cfg fam' r
  end.

(* ------------------------------------------------------------------ escalation chains (three levels) *)

(* G supervises P (family [t_top], one child, G's handler records P's PanicSignals); P supervises
   its own children (family [t_sub], P's handler records their PanicSignals).  P's handler reacts to
   a PanicSignal by failing itself with an error of type [eP] (ctx.Err), which G then handles with
   P's supervisor [cfgP].
   - While P is not running, a failing child can only be suspended: notifyParent's Tell to the
     parent is refused, so no directive is applied (Resume needs no parent action).
   - When G stops P, P's Shutdown stops P's children first; when G restarts P, restartSubtree
     re-initialises every descendant that is running or suspended. *)
Record tree3 := mkT { t_top : family; t_sub : family }.

Definition parent_of (t : tree3) : child := nth 0 (f_children (t_top t)) fresh_child.

Definition orphan_fail (cfgC : nat -> sup) (sub : family) (f : failure) : family :=
  let i := fl_child f in
  let cs := f_children sub in
  if negb (is_running cs i) then sub else
  match directive_of (cfgC i) (fl_ety f) with
  | Some DResume => mkFam (upd cs i set_skip) (f_escal sub)
  | _ => mkFam (upd cs i suspend_child) (f_escal sub)
  end.

Definition chain_fail (keep : bool) (cfgP : sup) (cfgC : nat -> sup) (eP : ety) (t : tree3) (f : failure) : tree3 :=
  let p := parent_of t in
  match c_status p with
  | Running =>
      let sub1 := supervise keep cfgC (t_sub t) f in
      if Nat.eqb (length (f_escal sub1)) (length (f_escal (t_sub t))) then mkT (t_top t) sub1
      else
        let top1 := supervise keep (fun _ => cfgP) (t_top t) (mkFail 0 eP (fl_now f)) in
        let p1 := nth 0 (f_children top1) fresh_child in
        let sub2 :=
          match c_status p1 with
          | Stopped => mkFam (map shutdown_child (f_children sub1)) (f_escal sub1)
          | _ => if c_gen p1 =? c_gen p
                 then sub1
                 else mkFam (map (fun c => match c_status c with Stopped => c | _ => restart_child keep c end) (f_children sub1)) (f_escal sub1)
          end in
        mkT top1 sub2
  | _ => mkT (t_top t) (orphan_fail cfgC (t_sub t) f)
  end.

Definition chain_ping (t : tree3) : tree3 := mkT (t_top t) (ping_all (t_sub t)).

Inductive cop := CFail (f : failure) | CPing.

Definition chain_op keep cfgP cfgC eP (t : tree3) (o : cop) : tree3 :=
  match o with CFail f => chain_fail keep cfgP cfgC eP t f | CPing => chain_ping t end.

Fixpoint chain_trace keep cfgP cfgC eP (t : tree3) (ops : list cop) : list tree3 :=
  match ops with
  | [] => []
  | o :: r => let t' := chain_op keep cfgP cfgC eP t o in t' :: chain_trace keep cfgP cfgC eP t' r
  end.

(* ------------------------------------------------------------------ observation (what the harness sees) *)

Definition status_code (s : status) : Z := match s with Running => 0 | Suspended => 1 | Stopped => 2 end.

Definition obs_child (c : child) : list Z :=
  [status_code (c_status c); c_gen c; c_mem c; c_posts c; c_restarts c; c_faults c; c_evsusp c; c_evrest c; c_evstop c].

Definition obs (fam : family) : list (list Z) * list (nat * ety) :=
  (map obs_child (f_children fam), f_escal fam).

Definition fresh_family (n : nat) : family := mkFam (repeat fresh_child n) [].

Definition fresh_tree (n : nat) : tree3 := mkT (fresh_family 1) (fresh_family n).
