(* C38–C40: the slot machine of go/inpkg/crdt/zz_verif_crdtvm_test.go over the model, and the
   canonical dumps compared with the implementation.  Definitions only. *)
From stdpp Require Import gmap.
From Coq Require Import ZArith.
From GV Require Import C38.Model.

Inductive tree := L (z : Z) | T (l : list tree).

Fixpoint tcmp (a b : tree) {struct a} : comparison :=
  match a, b with
  | L x, L y => Z.compare x y
  | L _, T _ => Lt
  | T _, L _ => Gt
  | T la, T lb =>
      (fix go (la lb : list tree) {struct la} : comparison :=
         match la, lb with
         | [], [] => Eq
         | [], _ :: _ => Lt
         | _ :: _, [] => Gt
         | x :: xs, y :: ys => match tcmp x y with Eq => go xs ys | c => c end
         end) la lb
  end.
Definition tleb (a b : tree) : bool := match tcmp a b with Gt => false | _ => true end.
Fixpoint tinsert (x : tree) (l : list tree) : list tree :=
  match l with [] => [x] | y :: ys => if tleb x y then x :: l else y :: tinsert x ys end.
Definition tsort (l : list tree) : list tree := foldr tinsert [] l.
Definition teqb (a b : tree) : bool := match tcmp a b with Eq => true | _ => false end.

Definition LN (n : N) : tree := L (Z.of_N n).
Definition LB (b : bool) : tree := L (if b then 1 else 0)%Z.
Definition TS (l : list tree) : tree := T (tsort l).

Definition d_nmap (m : gmap node N) : tree := TS ((λ kv : node * N, T [LN kv.1; LN kv.2]) <$> map_to_list m).
Definition d_edots (E : gset edot) : tree :=
  TS ((λ e : edot, T [LN e.1; LN e.2.1; LN e.2.2]) <$> elements E).

(* ---- level-0 values: everything except ORMap *)
Inductive val0 := VG (c : gcounter) | VPN (c : pncounter) | VF (x : flag) | VL (r : lww) | VMV (r : mvreg) | VS (s : orset).

(* x.Merge(y) with a different dynamic type returns the receiver *)
Definition merge0 (a b : val0) : val0 :=
  match a, b with
  | VG x, VG y => VG (g_merge x y)
  | VPN x, VPN y => VPN (p_merge x y)
  | VF x, VF y => VF (f_merge x y)
  | VL x, VL y => VL (l_merge x y)
  | VMV x, VMV y => VMV (mv_merge x y)
  | VS x, VS y => VS (s_merge x y)
  | _, _ => a
  end.
Definition delta0 (a : val0) : option val0 :=
  match a with
  | VG x => VG <$> g_deltaOf x | VPN x => VPN <$> p_deltaOf x | VF x => VF <$> f_deltaOf x
  | VL x => VL <$> l_deltaOf x | VMV x => VMV <$> mv_deltaOf x | VS x => VS <$> s_deltaOf x
  end.
Definition reset0 (a : val0) : val0 :=
  match a with
  | VG x => VG (g_reset x) | VPN x => VPN (p_reset x) | VF x => VF (f_reset x)
  | VL x => VL (l_reset x) | VMV x => VMV (mv_reset x) | VS x => VS (s_reset x)
  end.
Definition compact0 (a : val0) : val0 := match a with VS x => VS (s_compact x) | _ => a end.

Definition tag0 (a : val0) : Z :=
  match a with VG _ => 1 | VPN _ => 2 | VF _ => 3 | VL _ => 4 | VMV _ => 5 | VS _ => 6 end%Z.
Definition value0 (a : val0) : tree :=
  match a with
  | VG x => LN (g_value x)
  | VPN x => L (p_value x)
  | VF x => LB (f_enabled x)
  | VL x => LN (l_val x)
  | VMV x => TS (LN <$> mv_values x)
  | VS x => TS (LN <$> elements (s_elements x))
  end.
Definition s_core (x : orset) : tree := T [d_edots (s_entries x); d_nmap (s_clock x)].
Definition core0 (a : val0) : tree :=
  match a with
  | VG x => d_nmap (g_state x)
  | VPN x => T [d_nmap (g_state (p_inc x)); d_nmap (g_state (p_dec x))]
  | VF x => LB (f_enabled x)
  | VL x => T [LN (l_val x); L (l_ts x); LN (l_node x)]
  | VMV x => T [TS ((λ kv : dot * N, T [LN kv.1.1; LN kv.1.2; LN kv.2]) <$> map_to_list (mv_entries x)); d_nmap (mv_clock x)]
  | VS x => s_core x
  end.
Definition s_aux (x : orset) : tree := T [d_edots (s_added x); d_edots (s_removed x)].
Definition aux0 (a : val0) : tree :=
  match a with
  | VG x => d_nmap (g_delta x)
  | VPN x => T [d_nmap (g_delta (p_inc x)); d_nmap (g_delta (p_dec x))]
  | VF x => LB (f_dirty x)
  | VL x => LB (l_dirty x)
  | VMV x => LB (mv_dirty x)
  | VS x => s_aux x
  end.

(* ---- ORMap dumps, generic in the nested value *)
Section mdump.
  Context {V : Type} (vvalue vcore vaux : V → tree).
  Definition m_value (m : ormap V) : tree :=
    TS ((λ kv : elem * V, T [LN kv.1; vvalue kv.2]) <$> map_to_list (m_entries m)).
  Definition m_core (m : ormap V) : tree :=
    T [s_core (m_keys m); TS ((λ kv : elem * V, T [LN kv.1; vcore kv.2]) <$> map_to_list (m_vals m))].
  Definition m_aux (m : ormap V) : tree :=
    T [LB (m_dirty m); s_aux (m_keys m); TS ((λ kv : elem * V, T [LN kv.1; vaux kv.2]) <$> map_to_list (m_vals m))].
End mdump.

Definition map1 := ormap val0.
Definition merge1 : map1 → map1 → map1 := m_merge merge0.
Definition map2 := ormap map1.
Definition merge2 : map2 → map2 → map2 := m_merge merge1.

Inductive val := V0 (v : val0) | V1 (m : map1) | V2 (m : map2).

Definition vmerge (a b : val) : val :=
  match a, b with
  | V0 x, V0 y => V0 (merge0 x y)
  | V1 x, V1 y => V1 (merge1 x y)
  | V2 x, V2 y => V2 (merge2 x y)
  | _, _ => a
  end.
Definition vdelta (a : val) : option val :=
  match a with V0 x => V0 <$> delta0 x | V1 m => V1 <$> m_deltaOf m | V2 m => V2 <$> m_deltaOf m end.
Definition vreset (a : val) : val :=
  match a with V0 x => V0 (reset0 x) | V1 m => V1 (m_reset m) | V2 m => V2 (m_reset m) end.
Definition vcompact (a : val) : val :=
  match a with V0 x => V0 (compact0 x) | V1 m => V1 (m_compact m) | V2 m => V2 (m_compact m) end.

Definition value1 := m_value value0.
Definition core1 := m_core core0.
Definition aux1 := m_aux aux0.
Definition vvalue (a : val) : tree :=
  match a with V0 x => value0 x | V1 m => value1 m | V2 m => m_value value1 m end.
Definition vcore (a : val) : tree :=
  match a with V0 x => core0 x | V1 m => core1 m | V2 m => m_core core1 m end.
Definition vaux (a : val) : tree :=
  match a with V0 x => aux0 x | V1 m => aux1 m | V2 m => m_aux aux1 m end.
Definition vtag (a : val) : Z := match a with V0 x => tag0 x | _ => 7%Z end.

Definition dump (o : option val) : tree :=
  match o with None => T [] | Some a => T [L (vtag a); vvalue a; vcore a; vaux a] end.
Definition dump_vc (a : val) : tree := T [L (vtag a); vvalue a; vcore a].

(* ---- ops *)
Inductive op :=
| ONew (d : nat) (t : N)     (* 1 g 2 pn 3 f 4 l 5 mv 6 s 7 m(level 1) 8 m(level 2) *)
| OInc (d s : nat) (n : node) (v : N)
| ODec (d s : nat) (n : node) (v : N)
| OEnable (d s : nat)
| OLset (d s : nat) (n : node) (e : N) (ts : Z)
| OMvset (d s : nat) (n : node) (e : N)
| OAdd (d s : nat) (n : node) (e : N)
| ORem (d s : nat) (e : N)
| OMset (d s : nat) (n : node) (e : N) (a : nat)
| OMrem (d s : nat) (e : N)
| OMget (d s : nat) (e : N)
| OMerge (d a b : nat)
| OClone (d s : nat)
| ODelta (d s : nat)
| OReset (s : nat)
| OCompact (d s : nat)
| OLaws (a b c : nat)
| OFold (d a : nat) (l : list nat).

Definition slots := list (option val).
Definition sget (m : slots) (i : nat) : option val := mjoin (m !! i).
Fixpoint sset (m : slots) (i : nat) (v : option val) : slots :=
  match i, m with
  | O, [] => [v]
  | O, _ :: r => v :: r
  | S i', [] => None :: sset [] i' v
  | S i', x :: r => x :: sset r i' v
  end.

Definition vnew (t : N) : option val :=
  match t with
  | 1 => Some (V0 (VG g_new)) | 2 => Some (V0 (VPN p_new)) | 3 => Some (V0 (VF f_new))
  | 4 => Some (V0 (VL l_new)) | 5 => Some (V0 (VMV mv_new)) | 6 => Some (V0 (VS s_new))
  | 7 => Some (V1 m_new) | 8 => Some (V2 m_new) | _ => None
  end%N.

(* apply f to the slot when it holds a value; the Go machine leaves other slots unchanged (copies s) *)
Definition on (m : slots) (d s : nat) (f : val → val) : slots * tree :=
  let r := f <$> sget m s in (sset m d r, dump r).

Definition exec (m : slots) (o : op) : slots * tree :=
  match o with
  | ONew d t => let r := vnew t in (sset m d r, dump r)
  | OInc d s n v => on m d s (λ a, match a with V0 (VG c) => V0 (VG (g_inc c n v)) | V0 (VPN c) => V0 (VPN (p_increment c n v)) | _ => a end)
  | ODec d s n v => on m d s (λ a, match a with V0 (VPN c) => V0 (VPN (p_decrement c n v)) | _ => a end)
  | OEnable d s => on m d s (λ a, match a with V0 (VF x) => V0 (VF (f_enable x)) | _ => a end)
  | OLset d s n e ts => on m d s (λ a, match a with V0 (VL r) => V0 (VL (l_set r e ts n)) | _ => a end)
  | OMvset d s n e => on m d s (λ a, match a with V0 (VMV r) => V0 (VMV (mv_set r n e)) | _ => a end)
  | OAdd d s n e => on m d s (λ a, match a with V0 (VS x) => V0 (VS (s_add x n e)) | _ => a end)
  | ORem d s e => on m d s (λ a, match a with V0 (VS x) => V0 (VS (s_remove x e)) | _ => a end)
  | OMset d s n e a =>
      on m d s (λ x, match x, sget m a with
                     | V1 mm, Some (V0 v) => V1 (m_set merge0 mm n e v)
                     | V2 mm, Some (V1 v) => V2 (m_set merge1 mm n e v)
                     | _, _ => x end)
  | OMrem d s e => on m d s (λ a, match a with V1 mm => V1 (m_remove mm e) | V2 mm => V2 (m_remove mm e) | _ => a end)
  | OMget d s e =>
      let r := match sget m s with
               | Some (V1 mm) => V0 <$> m_get mm e
               | Some (V2 mm) => V1 <$> m_get mm e
               | _ => None end in (sset m d r, dump r)
  | OMerge d a b =>
      let r := match sget m a, sget m b with Some x, Some y => Some (vmerge x y) | x, _ => x end in
      (sset m d r, dump r)
  | OClone d s => on m d s id
  | ODelta d s => let r := sget m s ≫= vdelta in (sset m d r, dump r)
  | OReset s => let r := vreset <$> sget m s in (match r with Some _ => sset m s r | None => m end, dump r)
  | OCompact d s => on m d s vcompact
  | OLaws a b c =>
      (m, match sget m a, sget m b, sget m c with
          | Some x, Some y, Some z =>
              let xy := vmerge x y in
              T [dump_vc xy; dump_vc (vmerge y x); dump_vc (vmerge xy z); dump_vc (vmerge x (vmerge y z));
                 dump_vc (vmerge x x); dump_vc x; dump_vc (vmerge x xy)]
          | _, _, _ => T [] end)
  | OFold d a l =>
      let r := (λ acc, foldl (λ acc i, match sget m i with Some x => vmerge acc x | None => acc end) acc l) <$> sget m a in
      (sset m d r, dump r)
  end.

Fixpoint run (m : slots) (p : list op) : list tree :=
  match p with [] => [] | o :: r => let '(m', t) := exec m o in t :: run m' r end.

(* index of the first op whose output differs from the implementation's, or None *)
Fixpoint first_diff (i : nat) (got want : list tree) : option nat :=
  match got, want with
  | [], [] => None
  | g :: gs, w :: ws => if teqb g w then first_diff (S i) gs ws else Some i
  | _, _ => Some i
  end.
Definition check_prog (p : list op) (want : list tree) : option nat := first_diff 0 (run [] p) want.
