(* C38: merge is a join — clocks, GCounter, PNCounter, Flag, LWWRegister, ORSet. *)
From stdpp Require Import gmap.
From Coq Require Import ZArith Lia.
From GV Require Import C38.Model.

Local Open Scope N_scope.

(* ------------------------------------------------------------------ pointwise max of maps *)
Definition cmax (a b : gmap node N) : gmap node N := union_with (λ x y, Some (N.max x y)) a b.

Lemma lookup_cmax a b n :
  cmax a b !! n = union_with (λ x y, Some (N.max x y)) (a !! n) (b !! n).
Proof. unfold cmax. apply lookup_union_with. Qed.

Lemma cmax_comm a b : cmax a b = cmax b a.
Proof.
  apply map_eq; intros n. rewrite !lookup_cmax.
  destruct (a !! n), (b !! n); simpl; f_equal; lia.
Qed.
Lemma cmax_assoc a b c : cmax (cmax a b) c = cmax a (cmax b c).
Proof.
  apply map_eq; intros n. rewrite !lookup_cmax.
  destruct (a !! n), (b !! n), (c !! n); simpl; f_equal; lia.
Qed.
Lemma cmax_idem a : cmax a a = a.
Proof.
  apply map_eq; intros n. rewrite !lookup_cmax.
  destruct (a !! n); simpl; f_equal; lia.
Qed.
Lemma cget_cmax a b n : cget (cmax a b) n = N.max (cget a n) (cget b n).
Proof.
  unfold cget. rewrite lookup_cmax. destruct (a !! n), (b !! n); simpl; lia.
Qed.
Lemma cmax_absorb a b : cmax a (cmax a b) = cmax a b.
Proof. rewrite <- cmax_assoc, cmax_idem. reflexivity. Qed.

(* clocks never hold a zero entry (clock[n]++ and the `if c > ...` guards only write positives) *)
Definition clock_pos (c : clock) : Prop := ∀ n v, c !! n = Some v → 0 < v.

Lemma clock_pos_empty : clock_pos ∅.
Proof. intros n v H. rewrite lookup_empty in H. discriminate. Qed.
Lemma clock_pos_insert c n v : clock_pos c → 0 < v → clock_pos (<[n := v]> c).
Proof.
  intros H Hv k w. destruct (decide (k = n)) as [->|Hne].
  - rewrite lookup_insert. intros [= <-]. exact Hv.
  - rewrite lookup_insert_ne by congruence. apply H.
Qed.
Lemma clock_pos_cmax a b : clock_pos a → clock_pos b → clock_pos (cmax a b).
Proof.
  intros Ha Hb n v. rewrite lookup_cmax.
  destruct (a !! n) as [x|] eqn:Ea, (b !! n) as [y|] eqn:Eb; simpl; intros [= <-].
  - specialize (Ha _ _ Ea). lia.
  - exact (Ha _ _ Ea).
  - exact (Hb _ _ Eb).
Qed.
Lemma clock_merge_pos a b : clock_pos b → clock_merge a b = cmax a b.
Proof.
  intros Hb. unfold clock_merge, cmax. f_equal.
  apply map_eq; intros n. destruct (b !! n) as [v|] eqn:E.
  - apply map_filter_lookup_Some. split; [exact E|]. simpl. exact (Hb _ _ E).
  - apply map_filter_lookup_None. left. exact E.
Qed.

Lemma dominated_cmax d a b : dominated d (cmax a b) ↔ dominated d a ∨ dominated d b.
Proof. unfold dominated. rewrite cget_cmax. lia. Qed.

(* ------------------------------------------------------------------ GCounter *)
(* the replicated state (what State() exposes and the codec ships) is g_state; g_delta is local bookkeeping *)
Lemma g_merge_state_eq a b : g_state (g_merge a b) = cmax (g_state a) (g_state b).
Proof. reflexivity. Qed.

Lemma g_merge_comm a b : g_state (g_merge a b) = g_state (g_merge b a).
Proof. simpl. apply cmax_comm. Qed.
Lemma g_merge_assoc a b c : g_state (g_merge (g_merge a b) c) = g_state (g_merge a (g_merge b c)).
Proof. simpl. apply cmax_assoc. Qed.
Lemma g_merge_idem a : g_state (g_merge a a) = g_state a.
Proof. simpl. apply cmax_idem. Qed.
Lemma g_value_state a b : g_state a = g_state b → g_value a = g_value b.
Proof. unfold g_value. intros ->. reflexivity. Qed.
(* merging never lowers any node's count, never forgets a node *)
Lemma g_merge_inflation a b n :
  cget (g_state a) n ≤ cget (g_state (g_merge a b)) n ∧
  (is_Some (g_state a !! n) → is_Some (g_state (g_merge a b) !! n)).
Proof.
  simpl. fold (cmax (g_state a) (g_state b)). rewrite cget_cmax. split; [lia|].
  rewrite lookup_cmax. intros [x ->]. destruct (g_state b !! n); simpl; eauto.
Qed.
Lemma g_merge_absorb a b : g_state (g_merge a (g_merge a b)) = g_state (g_merge a b).
Proof. simpl. apply cmax_absorb. Qed.

(* ------------------------------------------------------------------ PNCounter *)
Definition p_core (c : pncounter) := (g_state (p_inc c), g_state (p_dec c)).
Lemma p_merge_comm a b : p_core (p_merge a b) = p_core (p_merge b a).
Proof. unfold p_core; simpl. f_equal; apply cmax_comm. Qed.
Lemma p_merge_assoc a b c : p_core (p_merge (p_merge a b) c) = p_core (p_merge a (p_merge b c)).
Proof. unfold p_core; simpl. f_equal; apply cmax_assoc. Qed.
Lemma p_merge_idem a : p_core (p_merge a a) = p_core a.
Proof. unfold p_core; simpl. f_equal; apply cmax_idem. Qed.
Lemma p_value_core a b : p_core a = p_core b → p_value a = p_value b.
Proof. unfold p_core, p_value, g_value. intros [= -> ->]. reflexivity. Qed.
Lemma p_merge_inflation a b n :
  cget (g_state (p_inc a)) n ≤ cget (g_state (p_inc (p_merge a b))) n ∧
  cget (g_state (p_dec a)) n ≤ cget (g_state (p_dec (p_merge a b))) n.
Proof. split; apply g_merge_inflation. Qed.

(* ------------------------------------------------------------------ Flag *)
Lemma f_merge_comm a b : f_merge a b = f_merge b a.
Proof. unfold f_merge. f_equal. apply orb_comm. Qed.
Lemma f_merge_assoc a b c : f_merge (f_merge a b) c = f_merge a (f_merge b c).
Proof. unfold f_merge. simpl. f_equal. symmetry. apply orb_assoc. Qed.
Lemma f_merge_idem a : f_enabled (f_merge a a) = f_enabled a.
Proof. simpl. apply orb_diag. Qed.
Lemma f_merge_inflation a b : f_enabled a = true → f_enabled (f_merge a b) = true.
Proof. simpl. intros ->. reflexivity. Qed.

(* ------------------------------------------------------------------ LWWRegister *)
Definition l_core (r : lww) := (l_val r, l_ts r, l_node r).
(* two registers are coherent when the same (timestamp, node) carries the same value *)
Definition l_coh (a b : lww) : Prop := l_ts a = l_ts b → l_node a = l_node b → l_val a = l_val b.

Lemma l_merge_core r o : l_core (l_merge r o) = if l_wins o r then l_core o else l_core r.
Proof. unfold l_merge. destruct (l_wins o r); reflexivity. Qed.

Lemma l_wins_spec o r :
  l_wins o r = true ↔ (l_ts r < l_ts o)%Z ∨ (l_ts o = l_ts r ∧ l_node r < l_node o).
Proof.
  unfold l_wins. rewrite orb_true_iff, andb_true_iff, Z.ltb_lt, Z.eqb_eq, N.ltb_lt. tauto.
Qed.

Lemma l_merge_comm a b : l_coh a b → l_core (l_merge a b) = l_core (l_merge b a).
Proof.
  intros Hc. rewrite !l_merge_core.
  destruct (l_wins b a) eqn:E1, (l_wins a b) eqn:E2; try reflexivity.
  - apply l_wins_spec in E1, E2. lia.
  - assert (¬ ((l_ts a < l_ts b)%Z ∨ (l_ts b = l_ts a ∧ l_node a < l_node b))) as N1
      by (rewrite <- l_wins_spec, E1; discriminate).
    assert (¬ ((l_ts b < l_ts a)%Z ∨ (l_ts a = l_ts b ∧ l_node b < l_node a))) as N2
      by (rewrite <- l_wins_spec, E2; discriminate).
    assert (l_ts a = l_ts b) as Ht by lia. assert (l_node a = l_node b) as Hn by lia.
    unfold l_core. rewrite (Hc Ht Hn), Ht, Hn. reflexivity.
Qed.

Lemma l_merge_idem a : l_core (l_merge a a) = l_core a.
Proof. rewrite l_merge_core. destruct (l_wins a a); reflexivity. Qed.

(* the merge result is, as far as the core goes, one of its arguments *)
Lemma l_merge_cases r o : l_core (l_merge r o) = l_core r ∨ l_core (l_merge r o) = l_core o.
Proof. rewrite l_merge_core. destruct (l_wins o r); auto. Qed.

Lemma l_wins_core o o' r r' : l_core o = l_core o' → l_core r = l_core r' → l_wins o r = l_wins o' r'.
Proof. unfold l_core, l_wins. intros [= _ -> ->] [= _ -> ->]. reflexivity. Qed.
Lemma l_merge_core_congr r r' o o' :
  l_core r = l_core r' → l_core o = l_core o' → l_core (l_merge r o) = l_core (l_merge r' o').
Proof. intros H1 H2. rewrite !l_merge_core, (l_wins_core _ _ _ _ H2 H1), H1, H2. reflexivity. Qed.

Lemma l_merge_assoc a b c :
  l_coh a b → l_coh b c → l_coh a c →
  l_core (l_merge (l_merge a b) c) = l_core (l_merge a (l_merge b c)).
Proof.
  intros Hab Hbc Hac.
  rewrite (l_merge_core (l_merge a b) c), (l_merge_core a (l_merge b c)).
  pose proof (l_merge_core a b) as Eab. pose proof (l_merge_core b c) as Ebc.
  destruct (l_wins b a) eqn:Wba; destruct (l_wins c b) eqn:Wcb.
  - (* ab = b, bc = c *)
    rewrite (l_wins_core c c (l_merge a b) b eq_refl Eab), Wcb.
    rewrite (l_wins_core (l_merge b c) c a a Ebc eq_refl).
    assert (l_wins c a = true) as ->.
    { apply l_wins_spec in Wba, Wcb. apply l_wins_spec. lia. }
    rewrite Ebc. reflexivity.
  - rewrite (l_wins_core c c (l_merge a b) b eq_refl Eab), Wcb.
    rewrite (l_wins_core (l_merge b c) b a a Ebc eq_refl), Wba. rewrite Eab, Ebc. reflexivity.
  - rewrite (l_wins_core c c (l_merge a b) a eq_refl Eab).
    rewrite (l_wins_core (l_merge b c) c a a Ebc eq_refl).
    destruct (l_wins c a); [rewrite Ebc|rewrite Eab]; reflexivity.
  - rewrite (l_wins_core c c (l_merge a b) a eq_refl Eab).
    rewrite (l_wins_core (l_merge b c) b a a Ebc eq_refl), Wba.
    destruct (l_wins c a) eqn:Wca; [|exact Eab].
    (* c beats a, b does not beat a, c does not beat b: impossible unless keys coincide *)
    assert (¬ ((l_ts a < l_ts b)%Z ∨ (l_ts b = l_ts a ∧ l_node a < l_node b))) as N1
      by (rewrite <- l_wins_spec, Wba; discriminate).
    assert (¬ ((l_ts b < l_ts c)%Z ∨ (l_ts c = l_ts b ∧ l_node b < l_node c))) as N2
      by (rewrite <- l_wins_spec, Wcb; discriminate).
    apply l_wins_spec in Wca. lia.
Qed.

(* the winner's key is the maximum: merging never goes back in (timestamp, node) order *)
Lemma l_merge_inflation r o :
  let m := l_merge r o in
  (l_ts r < l_ts m)%Z ∨ (l_ts r = l_ts m ∧ l_node r ≤ l_node m).
Proof.
  simpl. unfold l_merge. destruct (l_wins o r) eqn:W; simpl.
  - apply l_wins_spec in W. lia.
  - right. split; [reflexivity|lia].
Qed.

(* ------------------------------------------------------------------ ORSet *)
Section orset_entries.
  Implicit Types (E : gset edot) (c : clock) (e : edot).

  Lemma elem_of_s_merge_entries E1 c1 E2 c2 e :
    e ∈ s_merge_entries E1 c1 E2 c2 ↔
    (e ∈ E1 ∨ e ∈ E2) ∧ (e ∈ E1 ∨ ¬ dominated e.2 c1) ∧ (e ∈ E2 ∨ ¬ dominated e.2 c2).
  Proof.
    unfold s_merge_entries, s_keep. rewrite elem_of_union, !elem_of_filter.
    destruct (decide (e ∈ E1)), (decide (e ∈ E2)); tauto.
  Qed.

  Lemma s_merge_entries_comm E1 c1 E2 c2 : s_merge_entries E1 c1 E2 c2 = s_merge_entries E2 c2 E1 c1.
  Proof. apply set_eq; intros e. rewrite !elem_of_s_merge_entries. tauto. Qed.

  Lemma s_merge_entries_idem E c : s_merge_entries E c E c = E.
  Proof. apply set_eq; intros e. rewrite !elem_of_s_merge_entries. tauto. Qed.

  Lemma elem_of_s_merge_entries3 E1 c1 E2 c2 E3 c3 e :
    e ∈ s_merge_entries (s_merge_entries E1 c1 E2 c2) (cmax c1 c2) E3 c3 ↔
    (e ∈ E1 ∨ e ∈ E2 ∨ e ∈ E3) ∧
    (e ∈ E1 ∨ ¬ dominated e.2 c1) ∧ (e ∈ E2 ∨ ¬ dominated e.2 c2) ∧ (e ∈ E3 ∨ ¬ dominated e.2 c3).
  Proof.
    rewrite !elem_of_s_merge_entries, dominated_cmax.
    destruct (decide (e ∈ E1)), (decide (e ∈ E2)), (decide (e ∈ E3)); tauto.
  Qed.

  Lemma s_merge_entries_assoc E1 c1 E2 c2 E3 c3 :
    s_merge_entries (s_merge_entries E1 c1 E2 c2) (cmax c1 c2) E3 c3 =
    s_merge_entries E1 c1 (s_merge_entries E2 c2 E3 c3) (cmax c2 c3).
  Proof.
    apply set_eq; intros e.
    rewrite elem_of_s_merge_entries3.
    rewrite (s_merge_entries_comm E1 c1), elem_of_s_merge_entries3. tauto.
  Qed.
End orset_entries.

Definition s_wf (s : orset) : Prop := clock_pos (s_clock s).

Lemma s_merge_eq s o : s_wf o →
  s_merge s o = ORS (s_merge_entries (s_entries s) (s_clock s) (s_entries o) (s_clock o))
                    (cmax (s_clock s) (s_clock o)) ∅ ∅.
Proof. intros H. unfold s_merge. rewrite clock_merge_pos by exact H. reflexivity. Qed.

Lemma s_merge_wf s o : s_wf s → s_wf o → s_wf (s_merge s o).
Proof. intros Hs Ho. rewrite s_merge_eq by exact Ho. apply clock_pos_cmax; assumption. Qed.

(* full record equality: a merge result carries an empty delta *)
Lemma s_merge_comm a b : s_wf a → s_wf b → s_merge a b = s_merge b a.
Proof.
  intros Ha Hb. rewrite !s_merge_eq by assumption. f_equal.
  - apply s_merge_entries_comm.
  - apply cmax_comm.
Qed.
Lemma s_merge_assoc a b c : s_wf a → s_wf b → s_wf c →
  s_merge (s_merge a b) c = s_merge a (s_merge b c).
Proof.
  intros Ha Hb Hc.
  rewrite (s_merge_eq a b), (s_merge_eq b c) by assumption.
  rewrite !s_merge_eq; try assumption; simpl; [|apply clock_pos_cmax; assumption].
  f_equal; [apply s_merge_entries_assoc|apply cmax_assoc].
Qed.
Lemma s_merge_idem a : s_wf a → s_merge a a = s_reset a.
Proof.
  intros Ha. rewrite s_merge_eq by assumption. unfold s_reset. f_equal.
  - apply s_merge_entries_idem.
  - apply cmax_idem.
Qed.
(* a ⊑ a ⊔ b in the order induced by the join *)
Lemma s_merge_absorb a b : s_wf a → s_wf b → s_merge a (s_merge a b) = s_merge a b.
Proof.
  intros Ha Hb. rewrite <- s_merge_assoc by assumption. rewrite s_merge_idem by assumption.
  rewrite !s_merge_eq by assumption. reflexivity.
Qed.
(* concrete inflation: the clock only grows; an element dot of a disappears only if b has seen it
   (dominated by b's clock) and does not hold it any more (observed remove) *)
Lemma s_merge_inflation a b : s_wf b →
  (∀ n, cget (s_clock a) n ≤ cget (s_clock (s_merge a b)) n) ∧
  (∀ e, e ∈ s_entries a → e ∈ s_entries (s_merge a b) ∨ (dominated e.2 (s_clock b) ∧ e ∉ s_entries b)).
Proof.
  intros Hb. rewrite s_merge_eq by assumption. simpl. split.
  - intros n. rewrite cget_cmax. lia.
  - intros e He. rewrite elem_of_s_merge_entries.
    destruct (decide (e ∈ s_entries b)), (decide (dominated e.2 (s_clock b))); tauto.
Qed.

(* ---- every state reachable with the public operations is well formed *)
Lemma bump_pos n k acc : clock_pos acc → clock_pos (bump n k acc).
Proof.
  intros H. unfold bump. destruct (decide _) as [Hlt|]; [|exact H].
  apply clock_pos_insert; [exact H|]. lia.
Qed.
Lemma s_delta_clock_pos s : s_wf s → clock_pos (s_delta_clock s).
Proof.
  intros Hs. unfold s_delta_clock.
  apply (set_fold_ind_L (λ acc _, clock_pos acc)).
  - apply (set_fold_ind_L (λ acc _, clock_pos acc)); [apply clock_pos_empty|].
    intros e X acc _ H. destruct (s_clock s !! e.2.1); [apply bump_pos|]; exact H.
  - intros e X acc _ H. apply bump_pos. exact H.
Qed.

Inductive s_reach : orset → Prop :=
| sr_new : s_reach s_new
| sr_add s n x : s_reach s → s_reach (s_add s n x)
| sr_remove s x : s_reach s → s_reach (s_remove s x)
| sr_merge s o : s_reach s → s_reach o → s_reach (s_merge s o)
| sr_delta s d : s_reach s → s_deltaOf s = Some d → s_reach d
| sr_reset s : s_reach s → s_reach (s_reset s)
| sr_compact s : s_reach s → s_reach (s_compact s).

Lemma s_reach_wf s : s_reach s → s_wf s.
Proof.
  induction 1 as [|s n x _ IH|s x _ IH|s o _ IHs _ IHo|s d _ IH Hd|s _ IH|s _ IH]; unfold s_wf in *.
  - apply clock_pos_empty.
  - simpl. apply clock_pos_insert; [exact IH|lia].
  - unfold s_remove. destruct (decide _); [exact IH|exact IH].
  - apply s_merge_wf; assumption.
  - unfold s_deltaOf in Hd. destruct (decide _); [discriminate|]. injection Hd as <-. simpl.
    apply s_delta_clock_pos. exact IH.
  - exact IH.
  - exact IH.
Qed.

Lemma s_value_congr a b : s_entries a = s_entries b → s_elements a = s_elements b.
Proof. unfold s_elements. intros ->. reflexivity. Qed.

Lemma l_refuted : ∃ v1 v2 ts n,
  let a := l_set l_new v1 ts n in let b := l_set l_new v2 ts n in
  l_val (l_merge a b) ≠ l_val (l_merge b a).
Proof. exists 1, 2, 5%Z, 1. vm_compute. discriminate. Qed.

(* non-trivial instances of the hypotheses *)
Example l_coh_example : l_coh (l_set l_new 1 5%Z 1) (l_set l_new 2 5%Z 4) ∧ l_coh (l_set l_new 1 5%Z 1) (l_set l_new 1 5%Z 1).
Proof. split; unfold l_coh; simpl; [discriminate|reflexivity]. Qed.
Example s_reach_example :
  s_reach (s_merge (s_remove (s_add (s_add s_new 1 1) 1 2) 1) (s_add s_new 4 1)).
Proof. repeat constructor. Qed.
