(* C38, part 3: ORMap — generic in the nested value type. *)
From stdpp Require Import gmap.
From Coq Require Import ZArith Lia.
From GV Require Import C38.Model C38.Exec C38.Proofs C38.Proofs2.

Local Open Scope N_scope.

Lemma filter_key_lookup {A} (m : gmap N A) (K : gset N) k :
  filter (λ kv : N * A, kv.1 ∈ K) m !! k = if decide (k ∈ K) then m !! k else None.
Proof.
  destruct (decide (k ∈ K)) as [Hin|Hnin].
  - apply option_ext; intros v. rewrite map_filter_lookup_Some. simpl. tauto.
  - apply map_filter_lookup_None_2. right. intros x _. simpl. exact Hnin.
Qed.

Section ormap_laws.
  Context {V C : Type} (vmerge : V → V → V) (vcore : V → C) (cmerge : C → C → C) (ok : C → Prop).
  Context (hom : ∀ a b, vcore (vmerge a b) = cmerge (vcore a) (vcore b)).
  Context (ok_merge : ∀ a b, ok a → ok b → ok (cmerge a b)).
  Context (c_comm : ∀ a b, ok a → ok b → cmerge a b = cmerge b a).
  Context (c_assoc : ∀ a b c, ok a → ok b → ok c → cmerge (cmerge a b) c = cmerge a (cmerge b c)).
  Context (c_idem : ∀ a, ok a → cmerge a a = a).

  Notation omap := (ormap V).
  (* the replicated state of a map: key dots, key clock, cores of the nested values *)
  Definition mcore (m : omap) : gset (N * (N * N)) * gmap N N * gmap N C :=
    (s_entries (m_keys m), s_clock (m_keys m), vcore <$> m_vals m).
  Definition m_ok (m : omap) : Prop :=
    s_wf (m_keys m) ∧ ∀ k v, m_vals m !! k = Some v → ok (vcore v).
  (* every stored value belongs to a present key (Set/Remove/Merge keep it so) *)
  Definition m_dom (m : omap) : Prop := ∀ k, is_Some (m_vals m !! k) → k ∈ s_elements (m_keys m).

  Definition U (x y : option C) : option C := union_with (λ l r, Some (cmerge l r)) x y.
  Definition okO (x : option C) : Prop := match x with Some c => ok c | None => True end.

  Lemma U_comm x y : okO x → okO y → U x y = U y x.
  Proof. destruct x, y; simpl; intros; try reflexivity. f_equal. apply c_comm; assumption. Qed.
  Lemma U_assoc x y z : okO x → okO y → okO z → U (U x y) z = U x (U y z).
  Proof. destruct x, y, z; simpl; intros; try reflexivity. f_equal. apply c_assoc; assumption. Qed.
  Lemma U_idem x : okO x → U x x = x.
  Proof. destruct x; simpl; intros; try reflexivity. f_equal. apply c_idem; assumption. Qed.

  Lemma vals_merge_lookup (a b : omap) k :
    (vcore <$> m_vals (m_merge vmerge a b)) !! k =
    if decide (k ∈ s_elements (s_merge (m_keys a) (m_keys b)))
    then U (vcore <$> m_vals a !! k) (vcore <$> m_vals b !! k) else None.
  Proof.
    unfold m_merge. cbn [m_vals]. rewrite lookup_fmap, filter_key_lookup.
    destruct (decide _); [|reflexivity]. rewrite lookup_union_with.
    destruct (m_vals a !! k), (m_vals b !! k); simpl; try reflexivity. rewrite hom. reflexivity.
  Qed.

  Lemma vals_merge_lookup' (a b : omap) k :
    vcore <$> (m_vals (m_merge vmerge a b) !! k) =
    if decide (k ∈ s_elements (s_merge (m_keys a) (m_keys b)))
    then U (vcore <$> m_vals a !! k) (vcore <$> m_vals b !! k) else None.
  Proof. rewrite <- lookup_fmap. apply vals_merge_lookup. Qed.

  Lemma okO_lookup (m : omap) k : m_ok m → okO (vcore <$> m_vals m !! k).
  Proof. intros [_ H]. destruct (m_vals m !! k) eqn:E; simpl; [eapply H; eauto|exact I]. Qed.

  Lemma m_merge_ok a b : m_ok a → m_ok b → m_ok (m_merge vmerge a b).
  Proof.
    intros [Wa Ha] [Wb Hb]. split; [apply s_merge_wf; assumption|].
    intros k v Hv. unfold m_merge in Hv. cbn [m_vals] in Hv.
    apply map_filter_lookup_Some in Hv as [Hv _]. rewrite lookup_union_with in Hv.
    destruct (m_vals a !! k) eqn:Ea, (m_vals b !! k) eqn:Eb; simpl in Hv; try discriminate; injection Hv as <-.
    - rewrite hom. apply ok_merge; eauto.
    - eauto.
    - eauto.
  Qed.

  (* ---- commutative *)
  Theorem m_merge_comm a b : m_ok a → m_ok b → mcore (m_merge vmerge a b) = mcore (m_merge vmerge b a).
  Proof.
    intros Ha Hb. unfold mcore. cbn [m_keys m_merge].
    rewrite (s_merge_comm (m_keys a) (m_keys b)) by (apply Ha || apply Hb). f_equal.
    apply map_eq; intros k. rewrite !vals_merge_lookup.
    rewrite (s_merge_comm (m_keys a) (m_keys b)) by (apply Ha || apply Hb).
    destruct (decide _); [|reflexivity]. apply U_comm; apply okO_lookup; assumption.
  Qed.

  (* ---- idempotent *)
  Theorem m_merge_idem a : m_ok a → m_dom a → mcore (m_merge vmerge a a) = mcore a.
  Proof.
    intros Ha Hd. unfold mcore. cbn [m_keys m_merge]. rewrite s_merge_idem by apply Ha. cbn [s_reset s_entries s_clock].
    f_equal. apply map_eq; intros k. rewrite vals_merge_lookup. rewrite s_merge_idem by apply Ha.
    assert (s_elements (s_reset (m_keys a)) = s_elements (m_keys a)) as -> by reflexivity.
    rewrite (lookup_fmap vcore (m_vals a) k).
    destruct (decide _) as [Hin|Hnin].
    - apply U_idem, okO_lookup, Ha.
    - destruct (m_vals a !! k) eqn:E; [|reflexivity]. exfalso. apply Hnin, Hd. eauto.
  Qed.

  (* ---- associative, under the guard: no operand holds a value for a key that survives in the result
     while the key is absent from the partial merge that operand took part in *)
  Definition assoc_guard_at (a b c : omap) (k : N) : Prop :=
    ((is_Some (m_vals a !! k) ∨ is_Some (m_vals b !! k)) → k ∈ s_elements (s_merge (m_keys a) (m_keys b))) ∧
    ((is_Some (m_vals b !! k) ∨ is_Some (m_vals c !! k)) → k ∈ s_elements (s_merge (m_keys b) (m_keys c))).
  Definition assoc_guard (a b c : omap) : bool :=
    bool_decide (set_Forall (assoc_guard_at a b c) (s_elements (s_merge (s_merge (m_keys a) (m_keys b)) (m_keys c)))).

  Theorem m_merge_assoc_guarded a b c : m_ok a → m_ok b → m_ok c → assoc_guard a b c = true →
    mcore (m_merge vmerge (m_merge vmerge a b) c) = mcore (m_merge vmerge a (m_merge vmerge b c)).
  Proof.
    intros Ha Hb Hc Hg. apply bool_decide_eq_true in Hg.
    pose proof (s_merge_assoc (m_keys a) (m_keys b) (m_keys c) (proj1 Ha) (proj1 Hb) (proj1 Hc)) as Hk.
    unfold mcore. cbn [m_keys m_merge]. rewrite Hk. f_equal.
    apply map_eq; intros k. rewrite !vals_merge_lookup. cbn [m_keys m_merge]. rewrite Hk.
    destruct (decide (k ∈ s_elements (s_merge (m_keys a) (s_merge (m_keys b) (m_keys c))))) as [Hin|]; [|reflexivity].
    rewrite <- Hk in Hin. destruct (Hg k Hin) as [G1 G2].
    rewrite !vals_merge_lookup'.
    pose proof (okO_lookup a k Ha) as Oa. pose proof (okO_lookup b k Hb) as Ob. pose proof (okO_lookup c k Hc) as Oc.
    assert (k ∉ s_elements (s_merge (m_keys a) (m_keys b)) → m_vals a !! k = None ∧ m_vals b !! k = None) as NA.
    { intros N1. split.
      - destruct (m_vals a !! k) eqn:E; [exfalso; apply N1, G1; left; try rewrite E; eauto|reflexivity].
      - destruct (m_vals b !! k) eqn:E; [exfalso; apply N1, G1; right; try rewrite E; eauto|reflexivity]. }
    assert (k ∉ s_elements (s_merge (m_keys b) (m_keys c)) → m_vals b !! k = None ∧ m_vals c !! k = None) as NB.
    { intros N2. split.
      - destruct (m_vals b !! k) eqn:E; [exfalso; apply N2, G2; left; try rewrite E; eauto|reflexivity].
      - destruct (m_vals c !! k) eqn:E; [exfalso; apply N2, G2; right; try rewrite E; eauto|reflexivity]. }
    destruct (decide (k ∈ s_elements (s_merge (m_keys a) (m_keys b)))) as [|N1];
    destruct (decide (k ∈ s_elements (s_merge (m_keys b) (m_keys c)))) as [|N2].
    - apply U_assoc; assumption.
    - destruct (NB N2) as [Eb Ec]. rewrite Eb, Ec. simpl. destruct (vcore <$> m_vals a !! k); reflexivity.
    - destruct (NA N1) as [Ea Eb]. rewrite Ea, Eb. simpl. destruct (vcore <$> m_vals c !! k); reflexivity.
    - destruct (NA N1) as [Ea Eb]. destruct (NB N2) as [_ Ec]. rewrite Ea, Ec. reflexivity.
  Qed.

  (* the key set itself is an ORSet: its laws are unconditional for well-formed maps *)
  Theorem m_merge_keys_join a b c : m_ok a → m_ok b → m_ok c →
    m_keys (m_merge vmerge a b) = m_keys (m_merge vmerge b a) ∧
    m_keys (m_merge vmerge (m_merge vmerge a b) c) = m_keys (m_merge vmerge a (m_merge vmerge b c)).
  Proof.
    intros [Wa _] [Wb _] [Wc _]. cbn [m_keys m_merge]. split; [apply s_merge_comm|apply s_merge_assoc]; assumption.
  Qed.

  (* Set / Remove / Merge keep "every stored value belongs to a present key" *)
  Lemma m_dom_new : m_dom m_new.
  Proof. intros k [v Hv]. simpl in Hv. rewrite lookup_empty in Hv. discriminate. Qed.
  Lemma m_dom_merge a b : m_dom (m_merge vmerge a b).
  Proof.
    intros k [v Hv]. unfold m_merge in *. cbn [m_vals m_keys] in *.
    apply map_filter_lookup_Some in Hv as [_ Hv]. exact Hv.
  Qed.
  Lemma m_dom_set m n k v : m_dom m → m_dom (m_set vmerge m n k v).
  Proof.
    intros Hd j Hj. unfold m_set in *. cbn [m_vals m_keys] in *. unfold s_elements, s_add. cbn [s_entries].
    apply elem_of_map. destruct (decide (j = k)) as [->|Hne].
    - eexists (k, (n, _)). split; [reflexivity|]. apply elem_of_union. right. apply elem_of_singleton. reflexivity.
    - rewrite lookup_insert_ne in Hj by congruence. apply Hd in Hj. unfold s_elements in Hj.
      apply elem_of_map in Hj as [e [-> He]]. exists e. split; [reflexivity|]. apply elem_of_union. left. exact He.
  Qed.
End ormap_laws.

(* ------------------------------------------------------------------ instance: maps of GCounters *)
Definition gok (_ : gmap N N) : Prop := True.
Lemma g_hom a b : g_state (g_merge a b) = cmax (g_state a) (g_state b).
Proof. reflexivity. Qed.

(* the literal statement (associativity for every reachable triple) is false *)
Definition w_a : ormap val0 := m_set merge0 m_new 1 1 (VG (g_inc g_new 1 3)).
Definition w_b : ormap val0 := m_remove w_a 1.
Definition w_c : ormap val0 := m_set merge0 m_new 4 1 (VG (g_inc g_new 4 5)).
Lemma ormap_assoc_refuted :
  value1 (merge1 (merge1 w_a w_b) w_c) ≠ value1 (merge1 w_a (merge1 w_b w_c)).
Proof. vm_compute. discriminate. Qed.
(* and the guard is exactly what fails there, while it holds e.g. without the removal *)
Example ormap_guard_examples :
  assoc_guard w_a w_b w_c = false ∧ assoc_guard w_a w_a w_c = true.
Proof. vm_compute. split; reflexivity. Qed.
