(* C38–C40: executable Gallina model of /repo/crdt (GCounter, PNCounter, Flag, LWWRegister,
   MVRegister, ORSet, ORMap).  Definitions only — no proofs here.

   Go maps are std++ finite maps (gmap), Go "set of dots per element" is a finite set of
   (element, dot) pairs; node ids, elements and register values are N (the harness keeps the
   tables index <-> Go string / Go value; node index order = lexicographic order of the names,
   which is what LWWRegister.Merge compares).  uint64 arithmetic of GCounter is written with its
   wrap-around.  Dot counters (clock[n]++) are unbounded N: 2^64 operations of one node are not
   reachable.  Every Go struct field is mirrored, including the delta bookkeeping. *)
From stdpp Require Import gmap.
From Coq Require Import ZArith.

Notation node := N (only parsing).
Notation elem := N (only parsing).
Notation dot := (N * N)%type (only parsing).
Notation clock := (gmap N N) (only parsing).

Definition two64 : N := 18446744073709551616%N.
Definition u64 (x : N) : N := (x mod two64)%N.

(* reading a Go map[string]uint64: a missing key reads 0 *)
Definition cget (c : gmap node N) (n : node) : N := default 0%N (c !! n).

(* isDominated: d.counter <= clock[d.nodeID] (missing key reads 0) *)
Definition dominated (d : dot) (c : clock) : Prop := (d.2 ≤ cget c d.1)%N.
Global Instance dominated_dec d c : Decision (dominated d c).
Proof. unfold dominated. apply _. Defined.

(* the clock loop of ORSet.Merge / MVRegister.Merge:
     maps.Copy(merged, r); for n,c := range o { if c > merged[n] { merged[n] = c } }
   an entry of o is written only when it is greater than what is there (0 when absent). *)
Definition clock_merge (r o : clock) : clock :=
  union_with (λ x y, Some (N.max x y)) r (filter (λ kv, (0 < kv.2)%N) o).

(* ------------------------------------------------------------------ GCounter *)
Record gcounter := GC { g_state : gmap node N; g_delta : gmap node N }.
Definition g_new : gcounter := GC ∅ ∅.
Definition g_inc (c : gcounter) (n : node) (v : N) : gcounter :=
  GC (<[n := u64 (cget (g_state c) n + v)]> (g_state c))
     (<[n := u64 (cget (g_delta c) n + v)]> (g_delta c)).
Definition g_sum (m : gmap node N) : N := map_fold (λ _ v acc, u64 (acc + v)) 0%N m.
Definition g_value (c : gcounter) : N := g_sum (g_state c).
(* for n,remote := range o.state { if local,ok := merged[n]; !ok || remote > local { merged[n] = remote } };
   merged starts as a Clone of the receiver: its pending delta is kept *)
Definition g_merge_state (a b : gmap node N) : gmap node N :=
  union_with (λ x y, Some (N.max x y)) a b.
Definition g_merge (a b : gcounter) : gcounter := GC (g_merge_state (g_state a) (g_state b)) (g_delta a).
(* Delta: nil when no pending key; else the FULL per-node value of every pending key *)
Definition g_deltaOf (c : gcounter) : option gcounter :=
  if decide (g_delta c = ∅) then None
  else Some (GC (map_imap (λ n _, Some (cget (g_state c) n)) (g_delta c)) ∅).
Definition g_reset (c : gcounter) : gcounter := GC (g_state c) ∅.

(* ------------------------------------------------------------------ PNCounter *)
Record pncounter := PN { p_inc : gcounter; p_dec : gcounter }.
Definition p_new : pncounter := PN g_new g_new.
Definition p_increment (c : pncounter) n v := PN (g_inc (p_inc c) n v) (p_dec c).
Definition p_decrement (c : pncounter) n v := PN (p_inc c) (g_inc (p_dec c) n v).
(* int64(inc.Value()) - int64(dec.Value()) in two's complement *)
Definition to_i64 (x : Z) : Z :=
  let m := (x mod 18446744073709551616)%Z in
  if (m <? 9223372036854775808)%Z then m else (m - 18446744073709551616)%Z.
Definition p_value (c : pncounter) : Z := to_i64 (Z.of_N (g_value (p_inc c)) - Z.of_N (g_value (p_dec c))).
Definition p_merge (a b : pncounter) := PN (g_merge (p_inc a) (p_inc b)) (g_merge (p_dec a) (p_dec b)).
Definition p_deltaOf (c : pncounter) : option pncounter :=
  match g_deltaOf (p_inc c), g_deltaOf (p_dec c) with
  | None, None => None
  | di, dd => Some (PN (default g_new di) (default g_new dd))
  end.
Definition p_reset (c : pncounter) := PN (g_reset (p_inc c)) (g_reset (p_dec c)).

(* ------------------------------------------------------------------ Flag *)
Record flag := FL { f_enabled : bool; f_dirty : bool }.
Definition f_new := FL false false.
Definition f_enable (x : flag) : flag := if f_enabled x then x else FL true true.
Definition f_merge (a b : flag) : flag := FL (f_enabled a || f_enabled b) false.
Definition f_deltaOf (x : flag) : option flag := if f_dirty x then Some x else None.
Definition f_reset (x : flag) := FL (f_enabled x) false.

(* ------------------------------------------------------------------ LWWRegister *)
(* value 0 = the nil interface (zero value); node 0 = "" *)
Record lww := LW { l_val : N; l_ts : Z; l_node : node; l_dirty : bool }.
Definition l_new := LW 0%N 0%Z 0%N false.
Definition l_set (_ : lww) (v : N) (ts : Z) (n : node) : lww := LW v ts n true.
(* winner := r; if o.ts > r.ts || (o.ts == r.ts && o.nodeID > r.nodeID) { winner = o } *)
Definition l_wins (o r : lww) : bool :=
  (l_ts r <? l_ts o)%Z || ((l_ts o =? l_ts r)%Z && (l_node r <? l_node o)%N).
Definition l_merge (r o : lww) : lww :=
  let w := if l_wins o r then o else r in LW (l_val w) (l_ts w) (l_node w) false.
Definition l_deltaOf (r : lww) : option lww := if l_dirty r then Some r else None.
Definition l_reset (r : lww) := LW (l_val r) (l_ts r) (l_node r) false.

(* ------------------------------------------------------------------ MVRegister *)
(* entries: []mvEntry{value,dot}, deduplicated by dot (appendMVEntryUnique) = finite map dot -> value;
   the list order is not observable after canonicalisation (Values() compared as a multiset) *)
Record mvreg := MV { mv_entries : gmap dot N; mv_clock : clock; mv_dirty : bool }.
Definition mv_new := MV ∅ ∅ false.
Definition mv_set (r : mvreg) (n : node) (v : N) : mvreg :=
  let c := (cget (mv_clock r) n + 1)%N in
  MV {[ (n, c) := v ]} (<[n := c]> (mv_clock r)) true.
Definition mv_keep (oe : gmap dot N) (oc : clock) (kv : dot * N) : Prop :=
  ¬ dominated kv.1 oc ∨ is_Some (oe !! kv.1).
Global Instance mv_keep_dec oe oc kv : Decision (mv_keep oe oc kv).
Proof. unfold mv_keep. apply _. Defined.
(* r's survivors first, then o's survivors not already present by dot: left-biased union *)
Definition mv_merge (r o : mvreg) : mvreg :=
  MV (filter (mv_keep (mv_entries o) (mv_clock o)) (mv_entries r) ∪
      filter (mv_keep (mv_entries r) (mv_clock r)) (mv_entries o))
     (clock_merge (mv_clock r) (mv_clock o)) false.
Definition mv_deltaOf (r : mvreg) : option mvreg := if mv_dirty r then Some r else None.
Definition mv_reset (r : mvreg) := MV (mv_entries r) (mv_clock r) false.
Definition mv_values (r : mvreg) : list N := (map_to_list (mv_entries r)).*2.

(* ------------------------------------------------------------------ ORSet *)
Notation edot := (N * (N * N))%type (only parsing).
Record orset := ORS {
  s_entries : gset edot;     (* entries map[any][]dot  as the set of (element, dot) *)
  s_clock   : clock;
  s_added   : gset edot;     (* delta.added *)
  s_removed : gset edot      (* delta.removed *)
}.
Definition s_new := ORS ∅ ∅ ∅ ∅.
Definition s_add (s : orset) (n : node) (x : elem) : orset :=
  let c := (cget (s_clock s) n + 1)%N in
  ORS (s_entries s ∪ {[ (x, (n, c)) ]}) (<[n := c]> (s_clock s)) (s_added s ∪ {[ (x, (n, c)) ]}) (s_removed s).
Definition s_dots_of (x : elem) (E : gset edot) : gset edot := filter (λ e, e.1 = x) E.
(* Remove: no-op (returns the receiver) when the element has no entry *)
Definition s_remove (s : orset) (x : elem) : orset :=
  let D := s_dots_of x (s_entries s) in
  if decide (D = ∅) then s
  else ORS (s_entries s ∖ D) (s_clock s) (s_added s) (s_removed s ∪ D).
Definition s_elements (s : orset) : gset elem := set_map fst (s_entries s).
Definition s_contains (s : orset) (x : elem) : bool := bool_decide (x ∈ s_elements s).
(* a dot of s is kept iff !isDominated(d, o.clock) || containsDot(o.entries[elem], d) *)
Definition s_keep (oe : gset edot) (oc : clock) (e : edot) : Prop := ¬ dominated e.2 oc ∨ e ∈ oe.
Global Instance s_keep_dec oe oc e : Decision (s_keep oe oc e).
Proof. unfold s_keep. apply _. Defined.
Definition s_merge_entries (se : gset edot) (sc : clock) (oe : gset edot) (oc : clock) : gset edot :=
  filter (s_keep oe oc) se ∪ filter (s_keep se sc) oe.
Definition s_merge (s o : orset) : orset :=
  ORS (s_merge_entries (s_entries s) (s_clock s) (s_entries o) (s_clock o))
      (clock_merge (s_clock s) (s_clock o)) ∅ ∅.
(* Delta(): entries = delta.added (whatever happened to those dots since);
   clock[n] = s.clock[n] for every node n that has an added dot (the WHOLE node clock),
   raised to the counter of every removed dot. *)
Definition bump (n : node) (k : N) (acc : clock) : clock :=
  if decide (cget acc n < k)%N then <[n := k]> acc else acc.
Definition s_delta_clock (s : orset) : clock :=
  let c1 := set_fold (λ (e : edot) acc,
              match s_clock s !! e.2.1 with Some k => bump e.2.1 k acc | None => acc end) ∅ (s_added s) in
  set_fold (λ (e : edot) acc, bump e.2.1 e.2.2 acc) c1 (s_removed s).
Definition s_deltaOf (s : orset) : option orset :=
  if decide (s_added s = ∅ ∧ s_removed s = ∅) then None
  else Some (ORS (s_added s) (s_delta_clock s) ∅ ∅).
Definition s_reset (s : orset) := ORS (s_entries s) (s_clock s) ∅ ∅.
(* Compact: per element keep, for each node, only the dot with the highest counter; fresh delta *)
Definition s_is_highest (E : gset edot) (e : edot) : Prop :=
  set_Forall (λ e' : edot, e'.1 = e.1 → e'.2.1 = e.2.1 → (e'.2.2 ≤ e.2.2)%N) E.
Global Instance s_is_highest_dec E e : Decision (s_is_highest E e).
Proof. unfold s_is_highest. apply _. Defined.
Definition s_compact (s : orset) : orset :=
  ORS (filter (s_is_highest (s_entries s)) (s_entries s)) (s_clock s) ∅ ∅.

(* ------------------------------------------------------------------ ORMap (values of any CRDT type V) *)
Section ormap.
  Context {V : Type} (vmerge : V → V → V).
  Record ormap := ORM { m_keys : orset; m_vals : gmap elem V; m_dirty : bool }.
  Definition m_new := ORM s_new ∅ false.
  (* Set: keys.Add; values[key] = existing.Merge(value) | value.Clone() *)
  Definition m_set (m : ormap) (n : node) (k : elem) (v : V) : ormap :=
    ORM (s_add (m_keys m) n k)
        (<[k := match m_vals m !! k with Some e => vmerge e v | None => v end]> (m_vals m)) true.
  Definition m_remove (m : ormap) (k : elem) : ormap :=
    if s_contains (m_keys m) k then ORM (s_remove (m_keys m) k) (delete k (m_vals m)) true else m.
  Definition m_get (m : ormap) (k : elem) : option V :=
    if s_contains (m_keys m) k then m_vals m !! k else None.
  (* Entries(): for k in keys.Elements() with a value *)
  Definition m_entries (m : ormap) : gmap elem V :=
    filter (λ kv, kv.1 ∈ s_elements (m_keys m)) (m_vals m).
  (* Merge: keys merged as ORSet; for each surviving key the values of the sides that hold one *)
  Definition m_merge (m o : ormap) : ormap :=
    let ks := s_merge (m_keys m) (m_keys o) in
    ORM ks (filter (λ kv, kv.1 ∈ s_elements ks)
              (union_with (λ l r, Some (vmerge l r)) (m_vals m) (m_vals o))) false.
  Definition m_deltaOf (m : ormap) : option ormap := if m_dirty m then Some m else None.
  Definition m_reset (m : ormap) := ORM (s_reset (m_keys m)) (m_vals m) false.
  Definition m_compact (m : ormap) : ormap :=
    let ks := s_compact (m_keys m) in
    ORM ks (filter (λ kv, kv.1 ∈ s_elements ks) (m_vals m)) false.
End ormap.
Arguments ormap : clear implicits.
Arguments ORM {V}.
Arguments m_keys {V}. Arguments m_vals {V}. Arguments m_dirty {V}.
Arguments m_new {V}.
