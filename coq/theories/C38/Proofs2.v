(* C38, part 2: MVRegister and LWWRegister over all states reachable by a system of replicas that
   each use their own node id; ORMap (generic in the nested value). *)
From stdpp Require Import gmap.
From Coq Require Import ZArith Lia.
From GV Require Import C38.Model C38.Proofs.

Local Open Scope N_scope.

Lemma option_ext {A} (x y : option A) : (∀ v, x = Some v ↔ y = Some v) → x = y.
Proof.
  intros H. destruct x as [a|], y as [b|]; try reflexivity.
  - symmetry. exact (proj1 (H a) eq_refl).
  - pose proof (proj1 (H a) eq_refl). discriminate.
  - pose proof (proj2 (H b) eq_refl). discriminate.
Qed.

Lemma cget_insert_eq (c : gmap N N) n v : cget (<[n := v]> c) n = v.
Proof. unfold cget. rewrite lookup_insert. reflexivity. Qed.
Lemma cget_insert_ne (c : gmap N N) n m v : m ≠ n → cget (<[n := v]> c) m = cget c m.
Proof. intros H. unfold cget. rewrite lookup_insert_ne by congruence. reflexivity. Qed.

(* ------------------------------------------------------------------ MVRegister *)
(* entries seen as a set of (value, dot): the Go merge dedups by dot, which is the same thing whenever
   equal dots carry equal values (coherence) *)
Definition mv_set_of (m : gmap (N * N) N) : gset (N * (N * N)) := map_to_set (λ d v, (v, d)) m.

Lemma elem_of_mv_set_of m v d : (v, d) ∈ mv_set_of m ↔ m !! d = Some v.
Proof.
  unfold mv_set_of. rewrite elem_of_map_to_set. split.
  - intros (i & x & H & [= <- <-]). exact H.
  - intros H. exists d, v. auto.
Qed.
Lemma mv_set_of_inj m1 m2 : mv_set_of m1 = mv_set_of m2 → m1 = m2.
Proof.
  intros H. apply map_eq; intros d. apply option_ext; intros v.
  rewrite <- !elem_of_mv_set_of, H. reflexivity.
Qed.

Definition coh (m1 m2 : gmap (N * N) N) : Prop := ∀ d v w, m1 !! d = Some v → m2 !! d = Some w → v = w.
Lemma coh_refl m : coh m m.
Proof. intros d v w H1 H2. congruence. Qed.
Lemma coh_sym m1 m2 : coh m1 m2 → coh m2 m1.
Proof. intros H d v w H1 H2. symmetry. eapply H; eauto. Qed.

Definition mv_merge_entries (re : gmap (N * N) N) (rc : gmap N N) (oe : gmap (N * N) N) (oc : gmap N N) :=
  filter (mv_keep oe oc) re ∪ filter (mv_keep re rc) oe.

Lemma mv_merge_entries_set re rc oe oc : coh re oe →
  mv_set_of (mv_merge_entries re rc oe oc) = s_merge_entries (mv_set_of re) rc (mv_set_of oe) oc.
Proof.
  intros Hc. apply set_eq; intros [v d]. rewrite elem_of_s_merge_entries, !elem_of_mv_set_of. simpl.
  unfold mv_merge_entries. rewrite lookup_union_Some_raw, !map_filter_lookup_Some, map_filter_lookup_None.
  unfold mv_keep; simpl. split.
  - intros [[H1 H2]|[H0 [H1 H2]]].
    + split; [auto|]. split; [auto|]. destruct H2 as [H2|[w Hw]]; [auto|].
      left. rewrite Hw. f_equal. symmetry. eapply Hc; eauto.
    + split; [auto|]. split; [|auto]. destruct H2 as [H2|[w Hw]]; [auto|].
      left. rewrite Hw. f_equal. eapply Hc; eauto.
  - intros (H1 & H2 & H3).
    destruct (re !! d) as [x|] eqn:Er.
    + assert (x = v) as ->.
      { destruct H1 as [[= ->]|H1]; [reflexivity|]. eapply Hc; eauto. }
      left. split; [reflexivity|]. destruct H3 as [H3|H3]; [right; eauto|left; exact H3].
    + right. destruct H1 as [H1|H1]; [discriminate|]. split; [left; reflexivity|]. split; [exact H1|].
      destruct H2 as [H2|H2]; [discriminate|left; exact H2].
Qed.

Lemma mv_merge_entries_sub re rc oe oc d v :
  mv_merge_entries re rc oe oc !! d = Some v → re !! d = Some v ∨ oe !! d = Some v.
Proof.
  unfold mv_merge_entries. rewrite lookup_union_Some_raw, !map_filter_lookup_Some. tauto.
Qed.
Lemma coh_merge_l re rc oe oc m : coh re m → coh oe m → coh (mv_merge_entries re rc oe oc) m.
Proof. intros H1 H2 d v w Hv Hw. apply mv_merge_entries_sub in Hv as [Hv|Hv]; [eapply H1|eapply H2]; eauto. Qed.

Definition mv_wf (r : mvreg) : Prop := clock_pos (mv_clock r).
Definition mv_coh (a b : mvreg) : Prop := coh (mv_entries a) (mv_entries b).

Lemma mv_merge_eq r o : mv_wf o →
  mv_merge r o = MV (mv_merge_entries (mv_entries r) (mv_clock r) (mv_entries o) (mv_clock o))
                    (cmax (mv_clock r) (mv_clock o)) false.
Proof. intros H. unfold mv_merge. rewrite clock_merge_pos by exact H. reflexivity. Qed.
Lemma mv_merge_wf r o : mv_wf r → mv_wf o → mv_wf (mv_merge r o).
Proof. intros Hr Ho. rewrite mv_merge_eq by exact Ho. apply clock_pos_cmax; assumption. Qed.
Lemma mv_merge_coh r o m : mv_wf o → mv_coh r m → mv_coh o m → mv_coh (mv_merge r o) m.
Proof. intros Ho H1 H2. unfold mv_coh. rewrite mv_merge_eq by exact Ho. apply coh_merge_l; assumption. Qed.

Lemma mv_merge_comm a b : mv_wf a → mv_wf b → mv_coh a b → mv_merge a b = mv_merge b a.
Proof.
  intros Ha Hb Hc. rewrite !mv_merge_eq by assumption. f_equal; [|apply cmax_comm].
  apply mv_set_of_inj. rewrite !mv_merge_entries_set by (auto using coh_sym).
  apply s_merge_entries_comm.
Qed.
Lemma mv_merge_assoc a b c : mv_wf a → mv_wf b → mv_wf c → mv_coh a b → mv_coh b c → mv_coh a c →
  mv_merge (mv_merge a b) c = mv_merge a (mv_merge b c).
Proof.
  intros Ha Hb Hc Hab Hbc Hac.
  assert (mv_coh (mv_merge a b) c) as H1 by (apply mv_merge_coh; assumption).
  assert (mv_coh a (mv_merge b c)) as H2.
  { apply coh_sym. apply mv_merge_coh; [assumption|apply coh_sym; assumption|apply coh_sym; assumption]. }
  rewrite (mv_merge_eq (mv_merge a b) c), (mv_merge_eq a (mv_merge b c)); [|apply mv_merge_wf; assumption|assumption].
  unfold mv_coh in H1, H2. rewrite (mv_merge_eq a b) in * by assumption. rewrite (mv_merge_eq b c) in * by assumption.
  simpl in *. f_equal; [|apply cmax_assoc].
  apply mv_set_of_inj. rewrite (mv_merge_entries_set _ _ _ _ H1), (mv_merge_entries_set _ _ _ _ H2).
  rewrite !mv_merge_entries_set by assumption. apply s_merge_entries_assoc.
Qed.
Lemma mv_merge_idem a : mv_wf a → mv_merge a a = mv_reset a.
Proof.
  intros Ha. rewrite mv_merge_eq by assumption. unfold mv_reset. f_equal; [|apply cmax_idem].
  apply mv_set_of_inj. rewrite mv_merge_entries_set by apply coh_refl. apply s_merge_entries_idem.
Qed.
Lemma mv_merge_absorb a b : mv_wf a → mv_wf b → mv_coh a b → mv_merge a (mv_merge a b) = mv_merge a b.
Proof.
  intros Ha Hb Hc. rewrite <- mv_merge_assoc; try assumption; [|apply coh_refl].
  rewrite mv_merge_idem by assumption. rewrite !mv_merge_eq by assumption. reflexivity.
Qed.
Lemma mv_merge_inflation a b n : mv_wf b → cget (mv_clock a) n ≤ cget (mv_clock (mv_merge a b)) n.
Proof. intros Hb. rewrite mv_merge_eq by assumption. simpl. rewrite cget_cmax. lia. Qed.
Lemma mv_values_congr a b : mv_entries a = mv_entries b → mv_values a = mv_values b.
Proof. unfold mv_values. intros ->. reflexivity. Qed.

(* ---- a system of replicas: replica i writes with node id i; every state ever produced (current
   states, old snapshots, messages in flight, merge results) stays in the history H and may be merged
   into any replica at any later time, any number of times. *)
Definition mv_cur (cur : gmap N mvreg) (i : N) : mvreg := default mv_new (cur !! i).

Inductive mv_sys : gmap N mvreg → list mvreg → Prop :=
| mvs_init : mv_sys ∅ [mv_new]
| mvs_set cur H i v : mv_sys cur H →
    mv_sys (<[i := mv_set (mv_cur cur i) i v]> cur) (mv_set (mv_cur cur i) i v :: H)
| mvs_recv cur H i h : mv_sys cur H → h ∈ H →
    mv_sys (<[i := mv_merge (mv_cur cur i) h]> cur) (mv_merge (mv_cur cur i) h :: H)
| mvs_reset cur H i : mv_sys cur H →
    mv_sys (<[i := mv_reset (mv_cur cur i)]> cur) (mv_reset (mv_cur cur i) :: H).

Definition mv_dom (s : mvreg) : Prop := ∀ d v, mv_entries s !! d = Some v → dominated d (mv_clock s).

Record mv_inv (cur : gmap N mvreg) (H : list mvreg) : Prop := {
  mvi_wf : ∀ s, s ∈ H → mv_wf s ∧ mv_dom s;
  mvi_own : ∀ s n, s ∈ H → cget (mv_clock s) n ≤ cget (mv_clock (mv_cur cur n)) n;
  mvi_coh : ∀ s t, s ∈ H → t ∈ H → mv_coh s t;
  mvi_cur : ∀ i, mv_cur cur i ∈ H
}.

Lemma mv_cur_insert cur i s n : mv_cur (<[i := s]> cur) n = if decide (n = i) then s else mv_cur cur n.
Proof.
  unfold mv_cur. destruct (decide (n = i)) as [->|Hne]; [rewrite lookup_insert|rewrite lookup_insert_ne by congruence]; reflexivity.
Qed.

Lemma mv_sys_inv cur H : mv_sys cur H → mv_inv cur H.
Proof.
  induction 1 as [|cur H i v _ IH|cur H i h _ IH Hh|cur H i _ IH].
  - split.
    + intros s Hs. apply elem_of_list_singleton in Hs as ->. split; [apply clock_pos_empty|].
      intros d v Hv. simpl in Hv. rewrite lookup_empty in Hv. discriminate.
    + intros s n Hs. apply elem_of_list_singleton in Hs as ->. unfold mv_cur. rewrite lookup_empty. simpl. lia.
    + intros s t Hs Ht. apply elem_of_list_singleton in Hs as ->. apply elem_of_list_singleton in Ht as ->. apply coh_refl.
    + intros i. unfold mv_cur. rewrite lookup_empty. simpl. left.
  - destruct IH as [Iwf Iown Icoh Icur].
    set (ci := mv_cur cur i) in *. set (c := cget (mv_clock ci) i).
    assert (ci ∈ H) as Hci by apply Icur.
    assert (∀ t, t ∈ H → mv_entries t !! (i, c + 1) = None) as Hfresh.
    { intros t Ht. destruct (mv_entries t !! (i, c + 1)) as [w|] eqn:E; [|reflexivity].
      destruct (Iwf t Ht) as [_ Hd]. specialize (Hd _ _ E). unfold dominated in Hd. simpl in Hd.
      specialize (Iown t i Ht). fold ci in Iown. fold c in Iown. lia. }
    split.
    + intros s Hs. apply elem_of_cons in Hs as [->|Hs]; [|apply Iwf, Hs]. split.
      * unfold mv_wf. simpl. apply clock_pos_insert; [apply (Iwf ci Hci)|lia].
      * intros d w Hw. simpl in Hw. apply lookup_singleton_Some in Hw as [<- <-].
        unfold dominated. simpl. rewrite cget_insert_eq. lia.
    + intros s n Hs. rewrite mv_cur_insert. destruct (decide (n = i)) as [->|Hne].
      * apply elem_of_cons in Hs as [->|Hs]; [lia|].
        simpl. rewrite cget_insert_eq. specialize (Iown s i Hs). fold ci in Iown. fold c in Iown. lia.
      * apply elem_of_cons in Hs as [->|Hs]; [|apply Iown, Hs].
        simpl. rewrite cget_insert_ne by congruence. apply (Iown ci n Hci).
    + assert (∀ t, t ∈ H → mv_coh (mv_set ci i v) t) as Hnew.
      { intros t Ht d x w Hx Hw. simpl in Hx. apply lookup_singleton_Some in Hx as [<- <-].
        fold c in Hw. rewrite (Hfresh t Ht) in Hw. discriminate. }
      intros s t Hs Ht. apply elem_of_cons in Hs as [->|Hs]; apply elem_of_cons in Ht as [->|Ht].
      * apply coh_refl.
      * apply Hnew, Ht.
      * apply coh_sym, Hnew, Hs.
      * apply Icoh; assumption.
    + intros n. rewrite mv_cur_insert. destruct (decide (n = i)); [left|right; apply Icur].
  - destruct IH as [Iwf Iown Icoh Icur].
    set (ci := mv_cur cur i) in *.
    assert (ci ∈ H) as Hci by apply Icur.
    destruct (Iwf ci Hci) as [Wci Dci]. destruct (Iwf h Hh) as [Wh Dh].
    assert (Em : mv_merge ci h = MV (mv_merge_entries (mv_entries ci) (mv_clock ci) (mv_entries h) (mv_clock h))
                                   (cmax (mv_clock ci) (mv_clock h)) false) by (apply mv_merge_eq, Wh).
    split.
    + intros s Hs. apply elem_of_cons in Hs as [->|Hs]; [|apply Iwf, Hs]. split.
      * apply mv_merge_wf; assumption.
      * rewrite Em. intros d w Hw. simpl in *. apply dominated_cmax.
        apply mv_merge_entries_sub in Hw as [Hw|Hw]; [left; eapply Dci|right; eapply Dh]; eauto.
    + intros s n Hs. rewrite mv_cur_insert. destruct (decide (n = i)) as [->|Hne].
      * apply elem_of_cons in Hs as [->|Hs]; [lia|].
        rewrite Em. simpl. rewrite cget_cmax. specialize (Iown s i Hs). fold ci in Iown. lia.
      * apply elem_of_cons in Hs as [->|Hs]; [|apply Iown, Hs].
        rewrite Em. simpl. rewrite cget_cmax. pose proof (Iown ci n Hci). pose proof (Iown h n Hh). lia.
    + assert (∀ t, t ∈ H → mv_coh (mv_merge ci h) t) as Hnew.
      { intros t Ht. apply mv_merge_coh; [exact Wh|apply Icoh; assumption|apply Icoh; assumption]. }
      intros s t Hs Ht. apply elem_of_cons in Hs as [->|Hs]; apply elem_of_cons in Ht as [->|Ht].
      * apply coh_refl.
      * apply Hnew, Ht.
      * apply coh_sym, Hnew, Hs.
      * apply Icoh; assumption.
    + intros n. rewrite mv_cur_insert. destruct (decide (n = i)); [left|right; apply Icur].
  - destruct IH as [Iwf Iown Icoh Icur].
    set (ci := mv_cur cur i) in *.
    assert (ci ∈ H) as Hci by apply Icur.
    split.
    + intros s Hs. apply elem_of_cons in Hs as [->|Hs]; [|apply Iwf, Hs]. apply (Iwf ci Hci).
    + intros s n Hs. rewrite mv_cur_insert. destruct (decide (n = i)) as [->|Hne].
      * apply elem_of_cons in Hs as [->|Hs]; [simpl; lia|]. simpl. apply (Iown s i Hs).
      * apply elem_of_cons in Hs as [->|Hs]; [|apply Iown, Hs]. simpl. apply (Iown ci n Hci).
    + intros s t Hs Ht. apply elem_of_cons in Hs as [->|Hs]; apply elem_of_cons in Ht as [->|Ht].
      * apply coh_refl.
      * apply (Icoh ci t Hci Ht).
      * apply (Icoh s ci Hs Hci).
      * apply Icoh; assumption.
    + intros n. rewrite mv_cur_insert. destruct (decide (n = i)); [left|right; apply Icur].
Qed.

(* ------------------------------------------------------------------ LWWRegister, system level *)
(* replica i writes with node id i and a timestamp larger than any it has used before *)
Inductive l_sys : gmap N lww → list lww → Prop :=
| ls_init : l_sys ∅ [l_new]
| ls_set cur H i v ts : l_sys cur H →
    (∀ s, s ∈ H → l_node s = i → (l_ts s < ts)%Z) →
    l_sys (<[i := l_set (default l_new (cur !! i)) v ts i]> cur) (l_set (default l_new (cur !! i)) v ts i :: H)
| ls_recv cur H i h : l_sys cur H → h ∈ H →
    l_sys (<[i := l_merge (default l_new (cur !! i)) h]> cur) (l_merge (default l_new (cur !! i)) h :: H).

Lemma l_coh_core a a' b : l_core a = l_core a' → l_coh a' b → l_coh a b.
Proof. unfold l_core, l_coh. intros [= -> -> ->] H. exact H. Qed.
Lemma l_coh_sym a b : l_coh a b → l_coh b a.
Proof. unfold l_coh. intros H H1 H2. symmetry. apply H; auto. Qed.

Lemma l_sys_inv cur H : l_sys cur H →
  (∀ s t, s ∈ H → t ∈ H → l_coh s t) ∧ (∀ i, default l_new (cur !! i) ∈ H).
Proof.
  induction 1 as [|cur H i v ts _ [IH IC] Hfresh|cur H i h _ [IH IC] Hh].
  - split.
    + intros s t Hs Ht. apply elem_of_list_singleton in Hs as ->. apply elem_of_list_singleton in Ht as ->.
      unfold l_coh. reflexivity.
    + intros i. rewrite lookup_empty. simpl. left.
  - split.
    + assert (∀ t, t ∈ H → l_coh (l_set (default l_new (cur !! i)) v ts i) t) as Hnew.
      { intros t Ht Hts Hn. simpl in *. specialize (Hfresh t Ht (eq_sym Hn)). lia. }
      intros s t Hs Ht. apply elem_of_cons in Hs as [->|Hs]; apply elem_of_cons in Ht as [->|Ht].
      * unfold l_coh. reflexivity.
      * apply Hnew, Ht.
      * apply l_coh_sym, Hnew, Hs.
      * apply IH; assumption.
    + intros n. destruct (decide (n = i)) as [->|Hne]; [rewrite lookup_insert; left|].
      rewrite lookup_insert_ne by congruence. right. apply IC.
  - split.
    + set (ci := default l_new (cur !! i)) in *. assert (ci ∈ H) as Hci by apply IC.
      assert (∀ t, t ∈ H → l_coh (l_merge ci h) t) as Hnew.
      { intros t Ht. destruct (l_merge_cases ci h) as [E|E]; eapply l_coh_core; eauto. }
      intros s t Hs Ht. apply elem_of_cons in Hs as [->|Hs]; apply elem_of_cons in Ht as [->|Ht].
      * unfold l_coh. reflexivity.
      * apply Hnew, Ht.
      * apply l_coh_sym, Hnew, Hs.
      * apply IH; assumption.
    + intros n. destruct (decide (n = i)) as [->|Hne]; [rewrite lookup_insert; left|].
      rewrite lookup_insert_ne by congruence. right. apply IC.
Qed.

(* non-trivial instances of the reachability hypotheses *)
Example mv_sys_example :
  (* replica 1 writes 7, replica 2 concurrently writes 8, replica 1 receives replica 2's state: both values *)
  ∃ cur H s, mv_sys cur H ∧ s ∈ H ∧ length (mv_values s) = 2%nat.
Proof.
  eexists _, _, _. split; [|split].
  - eapply (mvs_recv _ _ 1 _).
    + eapply (mvs_set _ _ 2 8). eapply (mvs_set _ _ 1 7). apply mvs_init.
    + left.
  - left.
  - vm_compute. reflexivity.
Qed.
Example l_sys_example :
  ∃ cur H, l_sys cur H ∧ l_set l_new 3 10%Z 1 ∈ H ∧ l_set l_new 4 10%Z 2 ∈ H.
Proof.
  eexists. eexists. split.
  - eapply (ls_set _ _ 2 4 10%Z).
    + eapply (ls_set _ _ 1 3 10%Z); [apply ls_init|].
      intros s Hs Hn. apply elem_of_list_singleton in Hs as ->. discriminate.
    + intros s Hs Hn. apply elem_of_cons in Hs as [->|Hs]; [discriminate|].
      apply elem_of_list_singleton in Hs as ->. discriminate.
  - split; [right; left|left].
Qed.
