(* C37 — Spawn configuration survives the wire.
   Statements only; model in C37/Model.v, proofs in C37/Proofs.v and C37/Config.v.
   The literal property is REFUTED for supervisor backoff (the SupervisorSpec message has no field for
   initial/max delay and resetAfter): C37_backoff_refuted and its two path-level forms give the
   witness, replayed on the real code by the check. Everything else is proved: C37_partial_*.
   A second refutation concerns the request built by SpawnOn when it does not set Role
   (C37_placement_role_refuted, model flag carry_role = false); with the field set
   (carry_role = true, fixes/C37-spawnon-role.diff) the placement path coincides with the
   Spawn+WithHostAndPort path. *)
From Coq Require Import List ZArith Bool Arith.
From GV Require Import C37.Model C37.Proofs C37.Config C37.Probe.
Import ListNotations.
Open Scope Z_scope.

(* durationpb.New/AsDuration lose nothing, for every duration *)
Theorem C37_duration_roundtrip : forall d, dur_as (dur_new d) = d.
Proof. exact dur_roundtrip. Qed.

(* codec: a supervisor built by NewSupervisor from any options, without exponential backoff, decodes to
   an observationally equal supervisor: same strategy, retry budget, timeout, same directive for every
   error type (own rule, then the any-error rule), same budget decision and restart pacing *)
Theorem C37_partial_supervisor : forall opts, Forall opt_ok opts -> no_backoff (newSupervisor opts) ->
  sup_equiv (decodeSupervisor (encodeSupervisor (newSupervisor opts))) (newSupervisor opts).
Proof. exact supervisor_roundtrip_partial. Qed.

(* even with backoff configured, every field the wire schema has survives *)
Theorem C37_partial_supervisor_wire_fields : forall opts, Forall opt_ok opts ->
  let s := newSupervisor opts in
  let s' := decodeSupervisor (encodeSupervisor s) in
  s_strategy s' = s_strategy s /\ s_maxRetries s' = s_maxRetries s /\ s_timeout s' = s_timeout s /\
  forall e, directive_of s' e = directive_of s e.
Proof. exact supervisor_roundtrip_wire_fields. Qed.

(* the literal property fails: exponential backoff does not survive Encode/DecodeSupervisor *)
Theorem C37_backoff_refuted :
  exists opts, Forall opt_ok opts /\
    ~ sup_equiv (decodeSupervisor (encodeSupervisor (newSupervisor opts))) (newSupervisor opts).
Proof. exact supervisor_backoff_refuted. Qed.

Theorem C37_decoded_supervisor_has_no_backoff : forall opts, Forall opt_ok opts ->
  no_backoff (decodeSupervisor (encodeSupervisor (newSupervisor opts))).
Proof. exact decoded_has_no_backoff. Qed.

Theorem C37_partial_passivation : forall p, pass_wire_ok p -> decodePassivation (encodePassivation p) = p.
Proof. exact passivation_roundtrip. Qed.

(* reentrancy: exact up to the uint32 wire field, saturating beyond *)
Theorem C37_partial_reentrancy : forall r, reent_wf r ->
  (r_max r <= max_u32 -> decodeReentrancy (encodeReentrancy r) = r) /\
  (max_u32 < r_max r -> decodeReentrancy (encodeReentrancy r) = mkReent (r_mode r) max_u32).
Proof. intros r H. split; [apply reentrancy_roundtrip; exact H|apply reentrancy_saturates]. Qed.

(* Spawn with WithHostAndPort: what the hosting node configures equals the local configuration *)
Theorem C37_partial_remote_spawn : forall c, cfg_wf c -> cfg_no_backoff c ->
  cfg_equiv (server_config (request_hostport c)) c.
Proof. exact hostport_roundtrip_partial. Qed.

Theorem C37_remote_spawn_backoff_refuted :
  cfg_wf backoff_cfg /\ ~ cfg_equiv (server_config (request_hostport backoff_cfg)) backoff_cfg.
Proof. exact hostport_backoff_refuted. Qed.

(* SpawnOn cluster placement *)
Theorem C37_partial_placement : forall carry_role c, cfg_wf c -> cfg_no_backoff c ->
  carry_role = true \/ role_of c = 0%nat ->
  cfg_equiv (server_config (request_placement carry_role c)) c.
Proof. exact placement_roundtrip_partial. Qed.

Theorem C37_placement_role_refuted :
  cfg_wf role_witness /\ cfg_no_backoff role_witness /\
  ~ cfg_equiv (server_config (request_placement false role_witness)) role_witness.
Proof. exact placement_role_refuted. Qed.

(* relocation: toSerialize -> wireSpawnOptions -> configPID on the target node *)
Theorem C37_partial_relocation : forall defSup defPass p,
  pid_wf p -> no_backoff (p_supervisor p) -> p_relocatable p = true ->
  pid_equiv (relocated defSup defPass p) p.
Proof. exact relocation_roundtrip_partial. Qed.

Theorem C37_relocation_backoff_refuted :
  pid_wf backoff_pid /\ p_relocatable backoff_pid = true /\
  ~ pid_equiv (relocated sup_defaults (PTime 120000000000) backoff_pid) backoff_pid.
Proof. exact relocation_backoff_refuted. Qed.

Print Assumptions C37_duration_roundtrip.
Print Assumptions C37_partial_supervisor.
Print Assumptions C37_partial_supervisor_wire_fields.
Print Assumptions C37_backoff_refuted.
Print Assumptions C37_decoded_supervisor_has_no_backoff.
Print Assumptions C37_partial_passivation.
Print Assumptions C37_partial_reentrancy.
Print Assumptions C37_partial_remote_spawn.
Print Assumptions C37_remote_spawn_backoff_refuted.
Print Assumptions C37_partial_placement.
Print Assumptions C37_placement_role_refuted.
Print Assumptions C37_partial_relocation.
Print Assumptions C37_relocation_backoff_refuted.
