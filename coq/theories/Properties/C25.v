(* C25 — Message serializers round-trip and are chosen by type.  Statements only.
   Model: C25/Model.v — client.resolveSerializer, serializerDispatch.{Serialize,Deserialize} over
   abstract serializers (payload codecs — protobuf, CBOR, sonic JSON, address parsing — are
   parameters), and byte-level models of the frame layouts of the proto/CBOR/JSON serializers (shared
   layout, C23's legacy frame) and of the Terminated / PoisonPill / delivery frames.              *)
From Coq Require Import NArith List Bool Permutation.
From GV Require Import Lib.Bytes C23.Model C25.Model C25.Proofs C25.Wire.
Import ListNotations.
Open Scope N_scope.

(* Deserialize (Serialize m) = m for the composite dispatcher, under the explicit conditions:
   the accepting serializer round-trips m, no EARLIER-registered serializer accepts its frame
   (cross-acceptance), and the proto fast path, when it fires, fails or agrees *)
Theorem C25_dispatch_roundtrip : forall Msg fast es m i b,
  first_accepting Msg es m = Some (i, b) ->
  (forall e, nth_error es i = Some e -> deser (e_ser e) b = Some m) ->
  (forall j ej, (j < i)%nat -> nth_error es j = Some ej -> deser (e_ser ej) b = None) ->
  fast_harmless Msg fast es b m ->
  d_serialize Msg es m = Some b /\ d_deserialize Msg fast es b = Some m.
Proof. exact dispatch_roundtrip. Qed.

(* the real send/receive path: the serializer resolved for the message's type encodes, the composite
   dispatcher decodes *)
Theorem C25_send_receive_roundtrip : forall Msg fast es m i e b,
  nth_error es i = Some e -> resolve Msg es m = Some (e_ser e) ->
  ser (e_ser e) m = Some b -> deser (e_ser e) b = Some m ->
  (forall j ej, (j < i)%nat -> nth_error es j = Some ej -> deser (e_ser ej) b = None) ->
  fast_harmless Msg fast es b m ->
  d_deserialize Msg fast es b = Some m.
Proof. exact send_receive_roundtrip. Qed.

(* chosen by type: the first entry registered for EXACTLY the message's concrete type wins, wherever
   interface entries were registered ... *)
Theorem C25_resolve_exact_type_first : forall Msg es m i e,
  nth_error es i = Some e -> is_iface e = false -> matches e m = true ->
  (forall j ej, (j < i)%nat -> nth_error es j = Some ej -> is_iface ej = true \/ matches ej m = false) ->
  resolve Msg es m = Some (e_ser e).
Proof. exact resolve_exact_type_first. Qed.
(* ... otherwise the first registered interface the message implements ... *)
Theorem C25_resolve_then_first_interface : forall Msg es m i e,
  (forall ej, In ej es -> is_iface ej = false -> matches ej m = false) ->
  nth_error es i = Some e -> is_iface e = true -> matches e m = true ->
  (forall j ej, (j < i)%nat -> nth_error es j = Some ej -> is_iface ej = false \/ matches ej m = false) ->
  resolve Msg es m = Some (e_ser e).
Proof. exact resolve_then_first_interface. Qed.
(* ... and never anything that is not registered for the message's type *)
Theorem C25_resolve_sound : forall Msg es m s,
  resolve Msg es m = Some s -> exists e, In e es /\ matches e m = true /\ s = e_ser e.
Proof. exact resolve_sound. Qed.

(* unsupported => error, never bytes / never a message *)
Theorem C25_unsupported_serialize_error : forall Msg es m,
  (forall e, In e es -> ser (e_ser e) m = None) -> d_serialize Msg es m = None.
Proof. exact unsupported_serialize_error. Qed.
Theorem C25_unsupported_resolve_none : forall Msg es m,
  (forall e, In e es -> matches e m = false) -> resolve Msg es m = None.
Proof. exact unsupported_resolve_none. Qed.
Theorem C25_undecodable_error : forall Msg fast es data,
  (forall e, In e es -> deser (e_ser e) data = None) -> d_deserialize Msg fast es data = None.
Proof. exact undecodable_error. Qed.

(* registration order: irrelevant when the acceptors of a frame agree (no proto fast path) ... *)
Theorem C25_order_independent_partial : forall Msg fast es es' data,
  Permutation es es' -> consistent Msg es data ->
  first_proto Msg es = None -> first_proto Msg es' = None ->
  d_deserialize Msg fast es data = d_deserialize Msg fast es' data.
Proof. exact order_independent_partial. Qed.
(* ... and relevant otherwise: an earlier serializer that accepts a later one's frame changes the message *)
Theorem C25_cross_acceptance_refuted :
  resolve N [eA; eB] 5 = Some sB /\ d_serialize N [eA; eB] 5 = Some [105] /\
  d_deserialize N (fun _ => false) [eA; eB] [105] = Some 105 /\
  d_deserialize N (fun _ => false) [eB; eA] [105] = Some 5.
Proof. exact cross_acceptance_refuted. Qed.

(* an earlier interface entry no longer shadows an exact-type entry (it did before the repair of
   resolveSerializer, kept here as resolve_first_match) *)
Theorem C25_resolve_exact_beats_earlier_interface :
  resolve N [eB; eA] 50 = Some sA /\ resolve_first_match N [eB; eA] 50 = Some sB.
Proof. exact resolve_exact_beats_earlier_interface. Qed.

(* ---- the frame layouts decide most cross-acceptance questions *)
Theorem C25_shared_layout_roundtrip : forall known M dec name payload,
  8 + blen name + blen payload < 4294967296 ->
  shared_deser known M dec (shared_frame name payload) = if known name then dec name payload else None.
Proof. exact shared_roundtrip. Qed.
(* proto vs CBOR/JSON: a frame is taken by another shared-layout serializer only if its type name is
   ALSO in that serializer's registry *)
Theorem C25_shared_cross_needs_common_name : forall known M dec name payload,
  8 + blen name + blen payload < 4294967296 -> known name = false ->
  shared_deser known M dec (shared_frame name payload) = None.
Proof. exact shared_cross_needs_common_name. Qed.
Theorem C25_shared_rejects_poison : forall known M dec, shared_deser known M dec poison_ser = None.
Proof. exact shared_rejects_poison. Qed.
Theorem C25_shared_rejects_terminated : forall known M dec path nanos,
  20 + blen path < 3735923824 -> shared_deser known M dec (terminated_ser path nanos) = None.
Proof. exact shared_rejects_terminated. Qed.
Theorem C25_shared_rejects_delivery : forall known M dec env,
  8 + blen env < 4294967295 -> shared_deser known M dec (delivery_ser env) = None.
Proof. exact shared_rejects_delivery. Qed.
Theorem C25_poison_rejects_shared : forall name payload, poison_deser (shared_frame name payload) = false.
Proof. exact poison_rejects_shared. Qed.
Theorem C25_terminated_rejects_shared : forall name payload,
  8 + blen name + blen payload < 3735923824 -> terminated_deser (shared_frame name payload) = None.
Proof. exact terminated_rejects_shared. Qed.
Theorem C25_delivery_rejects_shared : forall name payload,
  8 + blen name + blen payload < 4294967295 -> delivery_deser (shared_frame name payload) = None.
Proof. exact delivery_rejects_shared. Qed.
Theorem C25_internal_formats_disjoint : forall path nanos env,
  terminated_deser poison_ser = None /\ delivery_deser poison_ser = None /\
  poison_deser (terminated_ser path nanos) = false /\ delivery_deser (terminated_ser path nanos) = None /\
  poison_deser (delivery_ser env) = false /\ terminated_deser (delivery_ser env) = None.
Proof. exact internal_formats_disjoint. Qed.
Theorem C25_terminated_roundtrip : forall path nanos,
  blen path < 4294967296 -> nanos < 18446744073709551616 ->
  terminated_deser (terminated_ser path nanos) = Some (path, nanos).
Proof. exact terminated_roundtrip. Qed.
Theorem C25_delivery_roundtrip : forall env, delivery_deser (delivery_ser env) = Some env.
Proof. exact delivery_roundtrip. Qed.
Theorem C25_frame_type_name : forall name payload,
  0 < blen name -> 8 + blen name + blen payload < 4294967296 ->
  frame_type_name (shared_frame name payload) = Some name.
Proof. exact frame_type_name_shared. Qed.

Print Assumptions C25_dispatch_roundtrip.
Print Assumptions C25_send_receive_roundtrip.
Print Assumptions C25_resolve_exact_type_first.
Print Assumptions C25_resolve_then_first_interface.
Print Assumptions C25_resolve_sound.
Print Assumptions C25_unsupported_serialize_error.
Print Assumptions C25_unsupported_resolve_none.
Print Assumptions C25_undecodable_error.
Print Assumptions C25_order_independent_partial.
Print Assumptions C25_cross_acceptance_refuted.
Print Assumptions C25_resolve_exact_beats_earlier_interface.
Print Assumptions C25_shared_layout_roundtrip.
Print Assumptions C25_shared_cross_needs_common_name.
Print Assumptions C25_shared_rejects_poison.
Print Assumptions C25_shared_rejects_terminated.
Print Assumptions C25_shared_rejects_delivery.
Print Assumptions C25_poison_rejects_shared.
Print Assumptions C25_terminated_rejects_shared.
Print Assumptions C25_delivery_rejects_shared.
Print Assumptions C25_internal_formats_disjoint.
Print Assumptions C25_terminated_roundtrip.
Print Assumptions C25_delivery_roundtrip.
Print Assumptions C25_frame_type_name.
