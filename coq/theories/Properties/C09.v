(* C09 — Stopping an actor stops its whole subtree, children first; the actor tree stays consistent.
   Statements only.  Models: C09/Model.v (actor/pid_tree.go), C09/StopModel.v (Shutdown/doStop/
   freeChildren, SpawnChild, death watch).  Proofs: C09/TreeProofs.v, C09/StopProofs.v. *)
From stdpp Require Import gmap.
From Coq Require Import ZArith List.
From GV Require Import C09.Model C09.TreeProofs C09.StopModel C09.StopProofs C09.StopAll.

(* ---- the tree (every finite sequence of tree operations, valid or not) *)

(* counter = number of registered nodes; every name-index entry points to a registered node of
   that name; watchers/watchees are mutually inverse and mention registered nodes only (so no
   deleted node remains referenced); root() is registered. *)
Theorem C09_tree_consistent : forall ops : list Model.op, tree_wf (Model.run ops empty_tree).
Proof. exact tree_wf_all_ops. Qed.

Theorem C09_tree_watch_inverse : forall ops a w, let t := Model.run ops empty_tree in
  obs_registered t a = true -> w ∈ obs_watchers t a -> obs_registered t w = true /\ a ∈ obs_watchees t w.
Proof. intros ops a w. apply wf_obs_watch_inverse, tree_wf_all_ops. Qed.

Theorem C09_tree_count : forall ops, let t := Model.run ops empty_tree in
  obs_count t = Z.of_nat (size (t_pids t)).
Proof. intros ops. apply wf_obs_count, tree_wf_all_ops. Qed.

(* ---- the stop protocol (any number of actors, any interleaving of any number of concurrent
        Shutdown callers, SpawnChild callers and the death watch) *)

(* exactly once: no PreStart / PostStop-begin / PostStop-end happens twice for an actor — no guard *)
Theorem C09_events_at_most_once : forall ws s, reach ws s -> NoDup (trace s).
Proof. exact events_at_most_once. Qed.

(* a started actor that is no longer running had its PostStop completed — no guard *)
Theorem C09_stopped_had_poststop : forall ws s c, reach ws s ->
  started (acts s c) = true -> running (acts s c) = false -> In (EPostE c) (trace s).
Proof. exact stopped_means_poststop. Qed.

(* children first, code as it is, on race-free executions (no Shutdown of a child in flight when
   its parent's disown goroutine tests it): when PostStop of a begins, PostStop of every descendant
   along the children snapshots has completed *)
Theorem C09_children_first_partial : forall s a s', reach_rf false s ->
  step false s (LPostBegin a) = Some s' ->
  forall d, chain s a d -> In (EPostE d) (trace s).
Proof. intros s a s' H. apply descendants_first_g, reach_rf_g, H. Qed.

(* ... stated on the event order itself *)
Theorem C09_children_first_order_partial : forall s a c, reach_rf false s ->
  In (EPostB a) (trace s) -> In c (snap (acts s a)) -> older (EPostE c) (EPostB a) (trace s).
Proof. intros s a c H. apply (order_g false s (reach_rf_g _ _ H)). Qed.

(* stopped on return, race-free executions *)
Theorem C09_stopped_on_return_partial : forall s a s', reach_rf false s ->
  step false s (LPostEnd a) = Some s' ->
  running (acts s' a) = false /\
  forall d, chain s' a d -> running (acts s' d) = false /\ In (EPostE d) (trace s').
Proof. intros s a s' H. apply stopped_on_return_g, reach_rf_g, H. Qed.

(* the literal property fails on the code as it is: concurrent stop of overlapping subtrees *)
Theorem C09_concurrent_stop_refuted :
  exists s, run false init witness_concurrent_stop = Some s /\ reach false s /\
    In 2 (snap (acts s 1)) /\ In (EPostB 1) (trace s) /\ In (EPostE 1) (trace s) /\
    running (acts s 1) = false /\ ~ In (EPostE 2) (trace s) /\ sp (acts s 2) = SPost.
Proof. exact concurrent_stop_refuted. Qed.

(* with the repaired disown test (fixes/C09-freechildren-wait-stopping-child.diff) children-first
   and stopped-on-return hold on EVERY execution, concurrent stops included *)
Theorem C09_children_first_repaired : forall s a s', reach true s ->
  step true s (LPostBegin a) = Some s' ->
  forall d, chain s a d -> In (EPostE d) (trace s).
Proof. intros s a s' H. apply descendants_first_g, reach_fixed_g, H. Qed.

Theorem C09_stopped_on_return_repaired : forall s a s', reach true s ->
  step true s (LPostEnd a) = Some s' ->
  running (acts s' a) = false /\
  forall d, chain s' a d -> running (acts s' d) = false /\ In (EPostE d) (trace s').
Proof. intros s a s' H. apply stopped_on_return_g, reach_fixed_g, H. Qed.

(* a SpawnChild in flight while the parent stops: a running child under a stopped parent,
   in both variants (the child is outside every children snapshot) *)
Theorem C09_spawn_race_refuted : forall ws,
  exists s, run ws init witness_spawn_race = Some s /\ reach ws s /\
    par (acts s 2) = Some 1 /\ running (acts s 2) = true /\ stopping (acts s 2) = false /\
    started (acts s 1) = true /\ running (acts s 1) = false /\ In (EPostE 1) (trace s) /\
    reg (acts s 2) = false.
Proof. exact spawn_race_refuted. Qed.

(* "stops EVERY descendant": beyond the children snapshots — every actor spawned (SpawnChild returned)
   anywhere below a has completed PostStop and is not running once PostStop of a has completed:
   code before the repair on race-free executions ... *)
Theorem C09_all_descendants_stopped_partial : forall s a, reach_rf false s -> In (EPostE a) (trace s) ->
  forall d, desc s a d -> complete (acts s d) -> running (acts s d) = false /\ In (EPostE d) (trace s).
Proof. intros s a R. apply (all_descendants_stopped false), reach_rf_s, R. Qed.

(* ... and for the repaired freeChildren on every execution in which no children snapshot is
   taken while a SpawnChild of that actor is in flight (the open spawn race), concurrent stops included *)
Theorem C09_all_descendants_stopped_repaired : forall s a, reach_ns true s -> In (EPostE a) (trace s) ->
  forall d, desc s a d -> complete (acts s d) -> running (acts s d) = false /\ In (EPostE d) (trace s).
Proof. intros s a R. apply (all_descendants_stopped true), reach_ns_s, R. Qed.

(* the driver-level function the tie evaluates only takes steps of the small-step system *)
Theorem C09_driver_within_model : forall ws gated n s d, reach ws s -> reach ws (fst (drive ws gated n s d)).
Proof. exact drive_reach. Qed.

Print Assumptions C09_tree_consistent.
Print Assumptions C09_tree_watch_inverse.
Print Assumptions C09_tree_count.
Print Assumptions C09_events_at_most_once.
Print Assumptions C09_stopped_had_poststop.
Print Assumptions C09_children_first_partial.
Print Assumptions C09_children_first_order_partial.
Print Assumptions C09_stopped_on_return_partial.
Print Assumptions C09_concurrent_stop_refuted.
Print Assumptions C09_children_first_repaired.
Print Assumptions C09_stopped_on_return_repaired.
Print Assumptions C09_spawn_race_refuted.
Print Assumptions C09_all_descendants_stopped_partial.
Print Assumptions C09_all_descendants_stopped_repaired.
Print Assumptions C09_driver_within_model.
