(* C20 — Event stream subscribers get every event once, in publish order.
   Statements only; models in C20/Model.v (internal/queue) and C20/Stream.v (eventstream),
   proofs in C20/Proofs.v. *)
From Coq Require Import List Arith Bool ZArith.
Import ListNotations.
From GV Require Import C20.Model C20.Proofs.

(* The queue as it exists (nodes recycled through sync.Pool, rc = true) loses an event: there is a
   schedule of four threads after which both Enqueue calls have returned, one value has been
   dequeued, and a Dequeue that starts afterwards finds the queue empty. Replayed on the real code
   by checks/C20.py (corpus schedule W1). *)
Theorem C20_pool_aba_refuted : exists progs sc,
  let s := run true (init progs) sc in
  all_done s 4 = true /\ enq_log s = [1; 2] /\
  thread_results s 4 = [[]; [RVal 1 1]; []; [RNone]] /\ contents s = [] /\ qlen s = 1%Z.
Proof. exists w1_progs, w1_sched. exact pool_aba_witness. Qed.

(* ... and a Dequeue can return nil for an element it has removed (W2). *)
Theorem C20_pool_value_cleared_refuted : exists progs sc,
  let s := run true (init progs) sc in
  all_done s 3 = true /\ enq_log s = [1; 2] /\
  thread_results s 3 = [[]; [RNil 1]; [RVal 2 2]] /\ contents s = [].
Proof. exists w2_progs, w2_sched. exact pool_value_cleared_witness. Qed.

Print Assumptions C20_pool_aba_refuted.
Print Assumptions C20_pool_value_cleared_refuted.
