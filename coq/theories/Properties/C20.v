(* C20 — Event stream subscribers get every event once, in publish order.
   Statements only. Models: C20/Model.v (internal/queue/queue.go at atomic-step granularity; rc = true
   is the queue whose nodes are recycled through sync.Pool, rc = false the queue that never recycles
   a node, i.e. fixes/C20-queue-no-node-recycling.diff) and C20/Stream.v (eventstream.go +
   subscriber.go at critical-section granularity). Proofs: C20/Proofs.v, Conc.v, Once.v,
   StreamProofs.v. checks/C20.py decides on every run, from the behaviour of the instrumented real
   code, which of the two queue shapes the tree has and replays its runs through that model. *)
From Coq Require Import List Arith Bool ZArith Permutation Sorted.
Import ListNotations.
From GV Require Import C20.Model C20.Stream C20.Proofs C20.Conc C20.Once C20.StreamProofs.

(* ================================================================ the queue with recycled nodes *)

(* It loses an event: a schedule of four threads after which both Enqueue calls have returned, one
   value has been dequeued, and a Dequeue that starts afterwards finds the queue empty while the
   length counter says one. (Corpus schedule W1, replayed on the real code on every run.) *)
Theorem C20_pool_aba_refuted : exists progs sc,
  let s := run true (init progs) sc in
  all_done s 4 = true /\ enq_log s = [1; 2] /\
  thread_results s 4 = [[]; [RVal 1 1]; []; [RNone]] /\ contents s = [] /\ qlen s = 1%Z.
Proof. exists w1_progs, w1_sched. exact pool_aba_witness. Qed.

(* A Dequeue can return nil for an element it has removed (W2). *)
Theorem C20_pool_value_cleared_refuted : exists progs sc,
  let s := run true (init progs) sc in
  all_done s 3 = true /\ enq_log s = [1; 2] /\
  thread_results s 3 = [[]; [RNil 1]; [RVal 2 2]] /\ contents s = [].
Proof. exists w2_progs, w2_sched. exact pool_value_cleared_witness. Qed.

(* ================================================================ the queue that never recycles *)
(* For every set of thread programs, every interleaving of their atomic steps, any length
   ([reach]: an inductive closure, no bound). Guard of the `_partial` names: rc = false. *)

(* FIFO at the linearization points: the values taken by successful head CASes, in CAS order, are
   exactly a prefix of the values linked, in link order — none lost, duplicated or reordered. *)
Theorem C20_queue_fifo_partial : forall progs s,
  reach progs s -> deq_log s = map Some (firstn (length (deq_log s)) (enq_log s)).
Proof. exact conc_fifo. Qed.

(* What a Dequeue call returns is the value of its own linearization point, never nil. *)
Theorem C20_queue_results_partial : forall progs s tid r,
  reach progs s -> In r (results (threads s tid)) ->
  match r with
  | RVal k v => 1 <= k <= length (deq_log s) /\ nth_error (enq_log s) (k - 1) = Some v
  | RNil _ => False
  | _ => True
  end.
Proof. exact conc_results. Qed.

(* Exactly once: at quiescence the values returned by all Dequeue calls are a permutation of the
   values taken at the linearization points (with the theorem above: of a prefix of the values
   enqueued). *)
Theorem C20_queue_exactly_once_partial : forall progs s,
  reach progs s -> quiescent s (length progs) ->
  Permutation (flat_map (fun tid => flat_map v_res (results (threads s tid))) (seq 0 (length progs)))
              (firstn (length (deq_log s)) (enq_log s)).
Proof. exact returned_values. Qed.

(* "Empty" is reported only at an instant at which every linked value has been taken. *)
Theorem C20_queue_empty_partial : forall progs s tid h,
  reach progs s -> tpc (threads s tid) = PDeqLoadNext h -> nnext (nodes s h) = None ->
  length (deq_log s) = length (enq_log s).
Proof. exact conc_empty. Qed.

(* Per-producer order: what a thread has linked so far (in link order), then what it is linking,
   then the Enqueue calls left in its program, is its original sequence of Enqueue calls. *)
Theorem C20_queue_producer_order_partial : forall progs s tid,
  reach progs s ->
  linked_by s tid ++ pending s (tpc (threads s tid)) ++ enq_vals (prog (threads s tid))
  = enq_vals (nth tid progs []).
Proof. exact conc_program_order. Qed.

(* ================================================================ the stream layer *)
(* For every interleaving of the stream's atomic actions (any number of publishers, subscribers,
   topics, drainers). A subscriber's queue is an atomic FIFO here — which is what the theorems above
   establish for the non-recycling queue. [have st s] = everything ever enqueued for s. *)

(* Per publisher, the events a subscriber receives carry strictly increasing publish sequence
   numbers: publish order is kept ... *)
Theorem C20_stream_publish_order : forall st s p,
  sreach st -> StronglySorted lt (seqs_of p (have st s)).
Proof. exact stream_in_order. Qed.

(* ... and no event is received twice. *)
Theorem C20_stream_at_most_once : forall st s, sreach st -> NoDup (have st s).
Proof. exact stream_at_most_once. Qed.

(* Once Publish has returned, every subscriber that was in the topic's set when the publish took its
   snapshot and is still active has the event. *)
Theorem C20_stream_delivered : forall st m snap s,
  sreach st -> In (m, snap) (snaplog st) -> In s snap ->
  ppend st (mpub m) = None -> sa (ssubs st s) = true -> In m (have st s).
Proof. exact stream_complete. Qed.

(* An event reaches only subscribers of the snapshot taken for it, and that snapshot is the topic's
   subscriber set at one instant of the run, at which the publish began. *)
Theorem C20_stream_only_subscribers : forall st s m,
  sreach st -> In m (have st s) ->
  exists snap, In (m, snap) (snaplog st) /\ In s snap /\
  exists st0, sreach st0 /\ ppend st0 (mpub m) = None /\ snap = tmap st0 (mtopic m).
Proof.
  intros st s m H Hin. destruct (stream_only_snapshot st s m H Hin) as (snap & A & B).
  exists snap. repeat split; auto.
  destruct (stream_snapshot_instant st m snap H A) as (st0 & X & Y & Z & _). exists st0. auto.
Qed.

(* After Unsubscribe's map update, and until a Subscribe update for the same subscriber and topic,
   the subscriber is in no snapshot of that topic: publishes that begin then never reach it. *)
Theorem C20_stream_unsubscribed_stays_out : forall st ls s t,
  ~ In (SMapAdd s t) ls -> ~ In s (tmap (srun (sstep st (SMapDel s t)) ls) t).
Proof. intros st ls s t H. apply stream_stays_out; auto. apply stream_unsubscribed. Qed.

Print Assumptions C20_pool_aba_refuted.
Print Assumptions C20_pool_value_cleared_refuted.
Print Assumptions C20_queue_fifo_partial.
Print Assumptions C20_queue_results_partial.
Print Assumptions C20_queue_exactly_once_partial.
Print Assumptions C20_queue_empty_partial.
Print Assumptions C20_queue_producer_order_partial.
Print Assumptions C20_stream_publish_order.
Print Assumptions C20_stream_at_most_once.
Print Assumptions C20_stream_delivered.
Print Assumptions C20_stream_only_subscribers.
Print Assumptions C20_stream_unsubscribed_stays_out.
