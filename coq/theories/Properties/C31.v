(* C31 — grain activations are ordered and single-threaded.
   Statements only; model in C31/Model.v, proofs in C31/Proofs.v. *)
From Coq Require Import List Arith Bool.
From GV Require Import C31.Model C31.Proofs.
Import ListNotations.

(* "OnActivate completes before the first OnReceive": in EVERY execution (any senders, turns, passivations, hook
   failures) every OnReceive of a grain process is preceded by a successful OnActivate of that process. *)
Theorem C31_activate_before_receive : forall ls s,
  run state0 ls = Some s -> act_before_recv [] (log s) = true.
Proof. exact act_before_recv_always. Qed.

(* "never concurrently": FALSE. passivationTry of a non-reentrant grain runs deactivate on the passivation manager's
   goroutine: there is an execution in which OnDeactivate runs while OnReceive of the same process runs. *)
Theorem C31_overlap_refuted : exists ls s, run state0 ls = Some s /\ overlap s.
Proof. exact refuted_overlap. Qed.

(* "exactly once": FALSE. passivationTry and the PoisonPill handler can both pass their `activated` gate. *)
Theorem C31_once_refuted : exists ls s, run state0 ls = Some s /\ double_deact s.
Proof. exact refuted_double. Qed.

(* "after the last OnReceive of that activation": FALSE even without direct passivation. `activated` stays true until
   deactivate returns, so a concurrent sender can enqueue while OnDeactivate runs, and the turn then delivers the
   message to the deactivated instance. *)
Theorem C31_last_receive_refuted :
  exists ls s, run state0 ls = Some s /\ stale_recv s = true /\ on_turn_all ls = true.
Proof. exact refuted_stale. Qed.

(* What holds for all executions WITHOUT direct passivation (guard on_turn_only at every step: deactivation only through
   pills handled on the grain's turn -- the path reentrancy-capable grains and shutdown use): OnDeactivate never overlaps
   an OnReceive of the same process, two OnDeactivate of one process never run at once, OnActivate precedes OnReceive. *)
Theorem C31_partial : forall ls s, run_g state0 ls = Some s ->
  ~ overlap s /\ ~ double_deact s /\ act_before_recv [] (log s) = true.
Proof. exact onturn_safe. Qed.

(* "a message sent after deactivation activates a fresh instance": once a deactivation has completed the local entry is
   gone and the activated flag is false, and a send that starts then begins the activation of a never-used process. *)
Theorem C31_deactivation_clears_entry : forall s i p s',
  nth_error (threads s) i = Some (WDeact p) \/ nth_error (threads s) i = Some (PDeact p) ->
  step s (Adv i true) = Some s' -> gmap s' = None /\ flag (pf s' p) = false.
Proof. exact deactivation_clears_entry. Qed.

Theorem C31_fresh_after_deactivation : forall s m,
  gmap s = None -> existsb in_flight (threads s) = false ->
  step s (Send m) = Some (mkS (set_pf (pf s) (nxt s) pid0) (S (nxt s)) None (threads s ++ [SAct m (nxt s)])
                              (log s ++ [EActBegin (nxt s)]) (stale_recv s)).
Proof. exact fresh_after_deactivation. Qed.

Example C31_partial_nonvacuous :
  match run_g state0 onturn_example with
  | Some s => (log s, gmap s, stale_recv s)
  | None => ([], None, true)
  end = ([EActBegin 0; EActEnd 0 false; EActBegin 1; EActEnd 1 true; ERecvBegin 1 1; ERecvEnd 1 1;
          EDeactBegin 1; EDeactEnd 1 false; EActBegin 1; EActEnd 1 true; ERecvBegin 1 2; ERecvEnd 1 2], Some 1, false).
Proof. exact onturn_example_runs. Qed.

Print Assumptions C31_activate_before_receive.
Print Assumptions C31_overlap_refuted.
Print Assumptions C31_once_refuted.
Print Assumptions C31_last_receive_refuted.
Print Assumptions C31_partial.
Print Assumptions C31_deactivation_clears_entry.
Print Assumptions C31_fresh_after_deactivation.
Print Assumptions C31_partial_nonvacuous.
