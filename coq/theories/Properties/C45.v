(* C45 — Linear stream pipelines compute exactly their list semantics. Statements only. *)
From Coq Require Import ZArith List Bool.
From GV Require Import C45.Model C45.Proofs.
Import ListNotations.
Open Scope Z_scope.

Theorem C45_sem_map : forall a b (zs : list Z),
  sem_op (OMap a b) (map VZ zs) = (map (fun z => VZ (a * z + b)) zs, None).
Proof. exact sem_map. Qed.

Print Assumptions C45_sem_map.
