(* C45 — Linear stream pipelines compute exactly their list semantics.
   Statements only; the model is C45/Model.v, the proofs are in C45/*.v.

   [reach c input ks s]: s is reachable from the wired pipeline (source Of(input), the stage actors [ks],
   a collecting sink with demand window c) by ANY number of actor steps in ANY interleaving; links are
   FIFO, a stopped actor never handles a message again. [plan fuse p] is the materializer's stage list
   for the operator description p (stage fusion on/off). [kok] names the covered stage kinds:
   flowActor (Map, TryMap incl. Resume, Filter, FlatMap, Flatten, Scan, Deduplicate, Buffer, Map-on-batches),
   fusedFlowActor without Resume, the batchFlowActor with size >= 1, and the ordered parallelMapActor
   (OrderedParallelMap: workers finish in any order, the resequencing heap restores input order).
   The unordered parallelMapActor (ParallelMap) has its own theorem below (permutation). *)
From Coq Require Import ZArith List Bool.
From GV Require Import C45.Model C45.Trace C45.Sem C45.Chain C45.StageBatch C45.StagePar C45.StageParU C45.Demand C45.Main C45.Spec C45.Proofs.
From Coq Require Import Permutation.
Import ListNotations.
Open Scope Z_scope.

(* For every pipeline depth, every input, every interleaving: what the sink has collected is a prefix of
   the list semantics; the live sink handles at most one terminal signal; once it has stopped it has
   handled exactly one, onComplete ran once, and
     - a normal completion means the sink holds EXACTLY the list semantics and no stage failed,
     - an error termination carries the error of a stage that fails under the list semantics. *)
Theorem C45_sink_receives_list_semantics :
  forall (c : cfg) (input : list val) (p : list op) (fuse : bool) (s : system),
  Forall kok (plan fuse p) -> reach c input (plan fuse p) s ->
  let S := sem p input in
  let k := y_sink s in
  prefix (k_items (n_st k)) (fst S) /\
  (terminals (n_cin k) <= 1)%nat /\
  (n_alive k = true -> terminals (n_cin k) = O /\ k_completions (n_st k) = O) /\
  (n_alive k = false ->
     terminals (n_cin k) = 1%nat /\ k_completions (n_st k) = 1%nat /\
     (k_err (n_st k) = None -> k_items (n_st k) = fst S /\ snd S = []) /\
     (forall e, k_err (n_st k) = Some e -> In e (snd S))).
Proof. exact pipeline_sound. Qed.

(* When exactly one stage fails under the list semantics, the stream ends with exactly that error. *)
Theorem C45_first_stage_error_ends_the_stream :
  forall (c : cfg) (input : list val) (p : list op) (fuse : bool) (s : system) (e0 : errc),
  Forall kok (plan fuse p) -> reach c input (plan fuse p) s ->
  snd (sem p input) = [e0] -> n_alive (y_sink s) = false ->
  k_err (n_st (y_sink s)) = Some e0.
Proof. exact single_error. Qed.

(* The same for every way of cutting the operators into stage actors (any chain of covered kinds). *)
Theorem C45_any_materialisation :
  forall (c : cfg) (input : list val) (ks : list kind) (s : system),
  Forall kok ks -> reach c input ks s ->
  SinkInv (y_sink s) /\ approx (n_cin (y_sink s)) (sem (concat (map kind_ops ks)) input).
Proof. exact materialisation_sound. Qed.

(* Stage fusion does not change the operators a plan stands for. *)
Theorem C45_plan_keeps_operators : forall fuse p, concat (map kind_ops (plan fuse p)) = p.
Proof. exact plan_ops. Qed.

(* [sem] is the familiar list computation. *)
Theorem C45_sem_map : forall a b zs, sem_op (OMap a b) (vz zs) = (vz (map (fun z => a * z + b) zs), None).
Proof. exact sem_map. Qed.
Theorem C45_sem_filter : forall m r zs,
  sem_op (OFilter m r) (vz zs) = (vz (filter (fun z => negb (z mod m =? r)) zs), None).
Proof. exact sem_filter. Qed.
Theorem C45_sem_flatmap : forall k zs, sem_op (OFlatMap k) (vz zs) = (flat_map (flat_of k) zs, None).
Proof. exact sem_flatmap. Qed.
Theorem C45_sem_scan : forall z0 zs, sem_op (OScan z0) (vz zs) = (vz (sums_from z0 zs), None).
Proof. exact sem_scan. Qed.
Theorem C45_sem_buffer : forall n xs, sem_op (OBuffer n) xs = (xs, None).
Proof. exact sem_buffer. Qed.
Theorem C45_sem_batch_then_flatten : forall n zs, (1 <= n)%nat -> sem [OBatch n; OFlatten] (vz zs) = (vz zs, []).
Proof. exact sem_batch_flatten. Qed.
Theorem C45_sem_batch_chunks : forall n, (1 <= n)%nat -> forall zs w, (length w < n)%nat ->
  exists B, chunks_from n w (vz zs) = (map VL B, None) /\ concat B = rev w ++ zs /\
            Forall (fun b => (length b <= n)%nat /\ b <> []) B.
Proof. exact chunks_concat. Qed.

(* The batch actor as it was before the repair (flush is a no-op without downstream demand) violates
   its local specification: it completes downstream having delivered [1] of the consumed [1;2].
   The witness script is replayed on the real batchFlowActor by the check. *)
Theorem C45_batch_before_repair_refuted :
  let n := run_node (KBatch0 1 default_cfg) batch0_witness in
  n_cin n = [DElem (VZ 1); DElem (VZ 2); DComplete] /\
  n_cout n = [DElem (VL [1]); DComplete] /\
  approx (n_cin n) ([VZ 1; VZ 2], []) /\
  ~ approx (n_cout n) (ksem (KBatch0 1 default_cfg) ([VZ 1; VZ 2], [])).
Proof. exact batch0_refuted. Qed.

(* ParallelMap (unordered): for every behaviour of the stage in isolation — any well-formed upstream trace,
   any downstream messages, workers finishing in ANY order — when the stage has completed downstream, the
   elements it emitted are a permutation of the images of the elements it consumed. *)
Theorem C45_parallel_unordered_is_a_permutation : forall (w : nat) (a b : Z) (n : node kstate),
  node_reach (KPar false w a b) n ->
  n_alive n = false -> term_of (n_cout n) = Some DComplete -> n_cancelled n = false ->
  Permutation (elems_of (n_cout n)) (map (pf a b) (elems_of (n_cin n))).
Proof. exact upar_spec. Qed.

(* Demand safety of the flowActor: for every message sequence with non-negative requests the stage never
   emits more elements than downstream requested, and downstreamDemand = requested - emitted >= 0. *)
Theorem C45_flow_never_emits_beyond_demand : forall o c script st' acts,
  Forall req_ok script -> flow_run o c (flow_init o) script = (st', acts) ->
  0 <= f_demand st' /\
  f_demand st' + n_elems acts = fold_right (fun m a => requested m + a) 0 script.
Proof.
  intros o c script st' acts Hok H.
  exact (flow_demand_safe o c script (flow_init o) st' acts Hok (Z.le_refl 0) H).
Qed.

Print Assumptions C45_sink_receives_list_semantics.
Print Assumptions C45_parallel_unordered_is_a_permutation.
Print Assumptions C45_flow_never_emits_beyond_demand.
Print Assumptions C45_first_stage_error_ends_the_stream.
Print Assumptions C45_any_materialisation.
Print Assumptions C45_plan_keeps_operators.
Print Assumptions C45_sem_map.
Print Assumptions C45_sem_filter.
Print Assumptions C45_sem_flatmap.
Print Assumptions C45_sem_scan.
Print Assumptions C45_sem_buffer.
Print Assumptions C45_sem_batch_then_flatten.
Print Assumptions C45_sem_batch_chunks.
Print Assumptions C45_batch_before_repair_refuted.
