(* C02 — Accepted messages to a live actor are processed exactly once; no lost wake-up.
   Statements only; model C01/Model.v (M-DISPATCH), contract C02/Contract.v, proofs C02/Proofs.v, C02/Wake.v.

   [mbox_ok M]: the mailbox contract — reserve/publish/dequeue move each message exactly once between
   "unpublished", "pending" and "handed out", and Dequeue()==nil / IsEmpty() only when the mailbox is
   empty or some enqueue is still incomplete. *)
From Coq Require Import List Arith Bool.
From GV Require Import C01.Model C01.Proofs C02.Contract C02.Proofs C02.Wake C02.Progress C02.FairStall.
Import ListNotations.

(* the contract is satisfiable: the two-phase (Vyukov-style) FIFO, bounded or not *)
Theorem C02_contract_instance : forall cap, mbox_ok (fifo2 cap).
Proof. exact fifo2_ok. Qed.

(* exactly once, safety half — for every reachable state, every mailbox pair satisfying the contract, PID
   and grain, any number of threads, any interleaving (restarts included): no message is handed to the
   handler twice, none is invented, and every accepted message is at every moment either handled or still
   held by exactly one mailbox (never dropped by the dispatch protocol). *)
Theorem C02_no_duplicate : forall MBs MBu, mbox_ok MBs -> mbox_ok MBu -> forall c (s : state MBs MBu) y,
  reach MBs MBu c s -> occ y (handled s) <= 1.
Proof. exact handled_at_most_once. Qed.

Theorem C02_handled_was_accepted : forall MBs MBu, mbox_ok MBs -> mbox_ok MBu -> forall c (s : state MBs MBu) y,
  reach MBs MBu c s -> In y (handled s) -> In y (accepted s).
Proof. exact handled_was_accepted. Qed.

Theorem C02_accepted_accounted : forall MBs MBu, mbox_ok MBs -> mbox_ok MBu -> forall c (s : state MBs MBu) y,
  reach MBs MBu c s -> In y (accepted s) ->
  occ y (mb_pend MBs (sysq s)) + occ y (mb_pend MBu (usrq s)) + occ y (handled s) = 1.
Proof. exact accepted_accounted. Qed.

(* the mailboxes are only ever dequeued by the unique turn owner *)
Theorem C02_single_consumer : forall MBs MBu c (s : state MBs MBu) i j p q,
  restart_resets c = false -> reach MBs MBu c s ->
  nth_error (ths s) i = Some p -> nth_error (ths s) j = Some q ->
  (exists n, p = WDeqSys n \/ p = WDeqUsr n) -> (exists n, q = WDeqSys n \/ q = WDeqUsr n) -> i = j.
Proof. exact single_consumer. Qed.

(* no lost wake-up: the invariant ... *)
Theorem C02_wake_invariant : forall MBs MBu, mbox_ok MBs -> mbox_ok MBu -> forall c (s : state MBs MBu),
  reach MBs MBu c s -> WakeInv MBs MBu c s.
Proof. exact reach_wake. Qed.

(* ... its consequence at quiescence: a pending message means the actor is Scheduled with its ticket queued ... *)
Theorem C02_no_lost_wakeup : forall MBs MBu, mbox_ok MBs -> mbox_ok MBu -> forall c (s : state MBs MBu),
  restart_resets c = false -> reach MBs MBu c s -> quiescent MBs MBu s -> pending MBs MBu s ->
  st s = Scheduled /\ tickets s = 1.
Proof. exact quiescent_pending_has_ticket. Qed.

(* ... no deadlock in ANY reachable state: with a pending message and a worker in the pool, some producer/worker
   step is enabled ... *)
Theorem C02_no_deadlock : forall MBs MBu, mbox_ok MBs -> mbox_ok MBu -> forall c (s : state MBs MBu),
  restart_resets c = false -> reach MBs MBu c s -> pending MBs MBu s ->
  (exists j q, nth_error (ths s) j = Some q /\ is_worker q = true) ->
  exists i p s', nth_error (ths s) i = Some p /\ is_restarter p = false /\ step MBs MBu c s (LStep i) = Some s'.
Proof. exact no_deadlock. Qed.

(* ... and progress: from every reachable quiescent state (all producers out of doReceive, all workers back in
   take) there is a finite continuation made ONLY of steps of one dispatcher worker after which every message the
   turn loop would consume has been handed to the handler (nothing handled is forgotten), and the actor is
   quiescent again — for any positive throughput budget (yield / re-push rounds included).  "Eventually" then
   needs only a fair scheduler.  (From states with operations in flight only no_deadlock is proved.) *)
Theorem C02_progress : forall MBs MBu, mbox_ok MBs -> mbox_ok MBu -> forall c w,
  restart_resets c = false -> 0 < budget c ->
  forall N (s : state MBs MBu), reach MBs MBu c s -> quiescent MBs MBu s -> nth_error (ths s) w = Some WIdle ->
  todo MBs MBu s <= N ->
  exists n s', run MBs MBu c s (repeat (LStep w) n) = Some s' /\ reach MBs MBu c s' /\ quiescent MBs MBu s' /\
               todo MBs MBu s' = 0 /\ (forall y, In y (handled s) -> In y (handled s')).
Proof. exact drain_from_quiescent. Qed.

(* the fair mailbox does not satisfy the contract: witness of the permanent stall *)
Theorem C02_fair_stall_refuted :
  mb_unpub fair1 fair_witness = [] /\ mb_pend fair1 fair_witness = [0; 1] /\
  mb_empty fair1 fair_witness = false /\ mb_deq fair1 fair_witness = (None, fair_witness) /\
  ~ mbox_ok fair1.
Proof. exact fair_stall_refuted. Qed.

(* BoundedMailbox after Dispose() with messages left breaks the contract (IsEmpty()==false, Dequeue()==nil for
   ever): a turn on the stopped actor reclaims for ever.  Replayed on real actors by the harness. *)
Theorem C02_disposed_bounded_refuted :
  mb_pend (bounded_disposable false) disposed_witness = [] /\
  mb_empty (bounded_disposable false) disposed_witness = false /\
  mb_deq (bounded_disposable false) disposed_witness = (None, disposed_witness) /\
  ~ mbox_ok (bounded_disposable false) /\
  mb_empty (bounded_disposable true) disposed_witness = true.
Proof. exact disposed_bounded_refuted. Qed.

Print Assumptions C02_contract_instance.
Print Assumptions C02_no_duplicate.
Print Assumptions C02_handled_was_accepted.
Print Assumptions C02_accepted_accounted.
Print Assumptions C02_single_consumer.
Print Assumptions C02_wake_invariant.
Print Assumptions C02_no_lost_wakeup.
Print Assumptions C02_no_deadlock.
Print Assumptions C02_progress.
Print Assumptions C02_fair_stall_refuted.
Print Assumptions C02_disposed_bounded_refuted.
