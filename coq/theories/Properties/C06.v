(* C06 — Lifecycle hooks are ordered and never overlap message handling.
   Statements only.  Model: C06/Model.v (one actor's lifecycle: init, Tell/doReceive, turns,
   PoisonPill on the turn, Shutdown from any other goroutine, tryPassivation, re-initialisation).
   Proofs: C06/Proofs.v, C06/Theorems.v.  Events are tagged with the incarnation number. *)
From Coq Require Import List Bool.
Import ListNotations.
From GV Require Import C06.Model C06.Proofs C06.Theorems.

(* Clause "PostStop runs at most once", EVERY stop path and EVERY interleaving, for
   tryPassivation re-checking the running bit under stopLocker (fixes/C06-passivation-checks-running.diff) *)
Theorem C06_poststop_at_most_once_repaired : forall s l s', reach true s -> step true s l = Some s' ->
  emits_postb s s' -> ~ In (EPostB (inc s)) (trace s).
Proof. intros s l s' R. apply poststop_at_most_once, reach_fixed_p, R. Qed.

(* the same clause for the code as it is, assuming the passivation manager never enters
   tryPassivation's critical section for an actor that is no longer running *)
Theorem C06_poststop_at_most_once_partial : forall s l s', reach_p false s -> step false s l = Some s' ->
  emits_postb s s' -> ~ In (EPostB (inc s)) (trace s).
Proof. exact (poststop_at_most_once false). Qed.

(* ... which the code as it is does not guarantee: two PostStops for one incarnation *)
Theorem C06_double_poststop_refuted : exists s, run false init witness_double_poststop = Some s /\ reach false s /\
  trace s = [EPostB 1; EPostE 1; EPostB 1; EPre 1].
Proof. exact double_poststop_refuted. Qed.

(* Clause "PreStart completes before the first Receive": every interleaving, first incarnation *)
Theorem C06_prestart_before_first_receive_spawn : forall fp s l s', reach_p fp s -> step fp s l = Some s' ->
  emits_recvb s s' -> inc s <= 1 -> In (EPre (inc s)) (trace s).
Proof. exact prestart_first_spawn. Qed.

(* every incarnation, every interleaving: never before PreStart of the incarnation began *)
Theorem C06_prestart_begun_before_receive : forall fp s l s', reach_p fp s -> step fp s l = Some s' ->
  emits_recvb s s' -> initing s = true \/ In (EPre (inc s)) (trace s).
Proof. exact prestart_begun_before_receive. Qed.

(* restart: a Receive during the second PreStart *)
Theorem C06_receive_during_restart_prestart_refuted : forall fp, exists s,
  run fp init witness_recv_during_prestart = Some s /\ reach fp s /\
  trace s = [ERecvB 2; EPostE 1; EPostB 1; EPre 1] /\ initing s = true /\ pre_done s = false.
Proof. exact recv_during_restart_prestart_refuted. Qed.

(* the literal clauses 3 and 4 fail on every off-turn stop path and for passivation *)
Theorem C06_overlap_refuted : forall fp, exists s, run fp init witness_overlap = Some s /\ reach fp s /\
  in_recv s = true /\ in_post s = true /\ cs s = Some (OffTurn, CPost).
Proof. exact overlap_refuted. Qed.
Theorem C06_overlap_passivation_refuted : forall fp, exists s, run fp init witness_overlap_passivation = Some s /\ reach fp s /\
  in_recv s = true /\ in_post s = true /\ cs s = Some (Passiv, CPost).
Proof. exact overlap_passivation_refuted. Qed.
Theorem C06_receive_after_poststop_refuted : forall fp, exists s, run fp init witness_recv_after_post = Some s /\ reach fp s /\
  trace s = [ERecvB 1; EPostB 1; EPre 1] /\ in_recv s = true /\ in_post s = true.
Proof. exact recv_after_poststop_refuted. Qed.

(* C06_partial: all four clauses when off-turn stops / passivation / re-initialisation never
   overlap a turn ("stops issued while the actor is not in a turn") *)
Theorem C06_partial : forall fp s l s', reach_q fp s -> step fp s l = Some s' ->
  (emits_recvb s s' -> In (EPre (inc s)) (trace s) /\ ~ In (EPostB (inc s)) (trace s)) /\
  (emits_postb s s' -> ~ In (EPostB (inc s)) (trace s)) /\
  in_recv s && in_post s = false.
Proof.
  intros fp s l s' R H. split; [|split].
  - intros E. split; [eapply prestart_before_receive_q; eauto|eapply no_receive_after_poststop_q; eauto].
  - intros E. eapply poststop_at_most_once; eauto. apply reach_q_p, R.
  - apply (no_overlap_q fp), R.
Qed.

(* the PoisonPill path needs no assumption: clauses 2, 3, 4 under arbitrary concurrent traffic *)
Theorem C06_poisonpill_path : forall fp s l s', reach_pill fp s -> step fp s l = Some s' ->
  (emits_recvb s s' -> ~ In (EPostB (inc s)) (trace s)) /\
  (emits_postb s s' -> ~ In (EPostB (inc s)) (trace s)) /\
  in_recv s && in_post s = false.
Proof.
  intros fp s l s' R H. split; [|split].
  - intros E. eapply no_receive_after_poststop_pill; eauto.
  - intros E. eapply poststop_at_most_once; eauto. apply reach_pill_p, R.
  - apply (no_overlap_pill fp), R.
Qed.

(* the driver-level function the tie evaluates only takes steps of the small-step system *)
Theorem C06_driver_within_model : forall fp gr s d, reach fp s -> reach fp (fst (drive fp gr s d)).
Proof. exact drive_reach. Qed.

Print Assumptions C06_poststop_at_most_once_repaired.
Print Assumptions C06_poststop_at_most_once_partial.
Print Assumptions C06_double_poststop_refuted.
Print Assumptions C06_prestart_before_first_receive_spawn.
Print Assumptions C06_prestart_begun_before_receive.
Print Assumptions C06_receive_during_restart_prestart_refuted.
Print Assumptions C06_overlap_refuted.
Print Assumptions C06_overlap_passivation_refuted.
Print Assumptions C06_receive_after_poststop_refuted.
Print Assumptions C06_partial.
Print Assumptions C06_poisonpill_path.
Print Assumptions C06_driver_within_model.
