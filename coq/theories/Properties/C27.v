(* C27 — Remote tells keep order and are never silently dropped.
   Statements only; the model is C27/Model.v (internal/remoteclient/coalescer.go as a transition system:
   bounded channel, one writer goroutine, any number of callers inside submit, close, a transport that
   delivers or fails each batch), proofs are in C27/Proofs.v. [reach c s] = s is reached by SOME finite
   sequence of atomic steps, i.e. the theorems hold for every interleaving, every number of callers and
   every fault sequence. A message is (caller, sequence number in that caller's send order). *)
From Coq Require Import List Arith Sorted.
From GV Require Import C27.Model C27.Proofs.
Import ListNotations.

(* Nothing is invented, duplicated or reordered inside the coalescer: flushed batches, the writer's current
   batch and the queue, concatenated, are exactly the accepted messages in acceptance order. *)
Theorem C27_conservation : forall c s, reach c s ->
  handled s ++ batch s ++ chan s = enq s.
Proof. exact conservation. Qed.

(* Per caller, delivery order = send order, each message at most once (strictly increasing sequence numbers). *)
Theorem C27_fifo_per_caller : forall c s t, reach c s ->
  StronglySorted lt (map snd (of_caller t (delivered s))).
Proof. exact fifo. Qed.

(* The same holds for everything that leaves the coalescer (delivered or handed to the error handler), and
   globally: what the transport delivered is an order-preserving subsequence of the acceptance order. *)
Theorem C27_fifo_per_caller_all_flushed : forall c s t, reach c s ->
  StronglySorted lt (map snd (of_caller t (handled s))).
Proof. exact fifo_handled. Qed.

Theorem C27_delivered_in_acceptance_order : forall c s, reach c s -> subseq (delivered s) (enq s).
Proof.
  intros c s H. eapply subseq_trans; [apply delivered_subseq_handled | apply (handled_subseq_enq c s H)].
Qed.

(* No message is delivered twice, dead-lettered twice, or both delivered and dead-lettered. *)
Theorem C27_at_most_once : forall c s, reach c s -> NoDup (delivered s ++ errored s).
Proof. exact at_most_once. Qed.

(* Only accepted messages ever reach the transport or the error handler. *)
Theorem C27_only_accepted : forall c s m, reach c s -> In m (handled s) -> In m (enq s).
Proof. exact handled_accepted. Qed.

(* While the writer runs nothing vanishes: an accepted message is delivered, dead-lettered, in the current
   batch or still queued. *)
Theorem C27_accepted_somewhere : forall c s m, reach c s -> In m (enq s) ->
  In m (delivered s) \/ In m (errored s) \/ In m (batch s) \/ In m (chan s).
Proof. exact accepted_somewhere. Qed.

(* Accounted, for the shutdown code that drains until empty under the submit lock (maxBatch >= 1, as
   newCoalescer guarantees): once the writer has exited — which is when close() returns — every accepted
   message has been delivered or handed to the error handler. *)
Theorem C27_accounted : forall c, barrier c = true -> drain_all c = true -> 1 <= maxBatch c ->
  forall s, reach c s -> wr s = WExited ->
  forall m, In m (enq s) -> In m (delivered s) \/ In m (errored s).
Proof. exact accounted. Qed.

(* The shutdown code before the repair loses accepted messages silently; both ways are needed: *)
Theorem C27_close_refuted_one_drain :
  exists s m, run (legacy 1) init witness_one_drain = Some s /\ lost s m.
Proof. exact legacy_refuted_one_drain. Qed.

Theorem C27_close_refuted_late_submit :
  exists s m, run (drainall_only 1) init witness_late_submit = Some s /\ lost s m.
Proof. exact late_submit_refuted. Qed.

Print Assumptions C27_conservation.
Print Assumptions C27_fifo_per_caller.
Print Assumptions C27_fifo_per_caller_all_flushed.
Print Assumptions C27_delivered_in_acceptance_order.
Print Assumptions C27_at_most_once.
Print Assumptions C27_only_accepted.
Print Assumptions C27_accepted_somewhere.
Print Assumptions C27_accounted.
Print Assumptions C27_close_refuted_one_drain.
Print Assumptions C27_close_refuted_late_submit.
