(* C10 — Each watcher receives exactly one Terminated for a watched actor.
   Statements only. Model: C10/Model.v (the tree's watcher maps as coded in actor/pid_tree.go; freeWatchers of
   actor/pid.go as three atomic steps per watcher — IsRunning check, Tell, UnWatch — after an atomic snapshot of
   tree.watchers); proofs: C10/TreeProofs.v, C10/Proofs.v.
   A history is ANY list of labels: Watch / UnWatch / spawn / attach / deleteNode / start / stop steps of any
   actors interleaved arbitrarily with the steps of the freeWatchers loops of any number of terminating actors.
   [sent] logs every Terminated told: ((actor, incarnation), watcher).
   Assumption shared with C06: freeWatchers runs at most once per incarnation (LSnapshot is a no-op when the
   loop of the current incarnation has started; LRespawn starts a new incarnation). *)
From Coq Require Import List Bool Arith.
From GV Require Import C10.Model C10.TreeProofs C10.Proofs.
Import ListNotations.

(* In every interleaving, no watcher is told twice about the same (incarnation of an) actor. *)
Theorem C10_at_most_one : forall (ls : list label) (a i w : nat),
  count_occ entry_eq_dec (sent (exec init ls)) ((a, i), w) <= 1.
Proof. intros ls a i w. exact (at_most_one ls ((a, i), w)). Qed.

(* Only members of the snapshot are told ... *)
Theorem C10_only_snapshot_members_told : forall (ls : list label) (a w : nat),
  let s := exec init ls in
  In ((a, inc s a), w) (sent s) -> In w (snap s a).
Proof. intros ls a w s. apply sent_in_snapshot, reachable_inv. Qed.

(* ... so a watcher that is not registered when the terminating actor snapshots its watchers is never
   told, whatever happens afterwards (a Watch that lands during the loop comes too late). *)
Theorem C10_not_registered_at_snapshot_never_told : forall (ls : list label) (a : nat) (ord : list nat) (post : list label) (w : nat),
  let s1 := exec init ls in
  pcs s1 a = None ->
  same_set ord (watchers_of (tr s1) a) = true ->
  ~ In w (watchers_of (tr s1) a) ->
  ~ In ((a, inc s1 a), w) (sent (exec s1 (LSnapshot a ord :: post))).
Proof. exact not_in_snapshot_never_told. Qed.

(* A watcher whose UnWatch completed before the snapshot (and that was not made a watcher again in
   between by Watch or by becoming the actor's parent) receives none. *)
Theorem C10_none_after_completed_unwatch : forall (pre mid : list label) (ord : list nat) (post : list label) (a w : nat),
  forallb (fun l => negb (adds w a l)) mid = true ->
  let s1 := exec init (pre ++ LUnWatch w a :: mid) in
  pcs s1 a = None ->
  same_set ord (watchers_of (tr s1) a) = true ->
  ~ In ((a, inc s1 a), w) (sent (exec s1 (LSnapshot a ord :: post))).
Proof. exact none_after_completed_unwatch. Qed.

(* A watcher registered before the snapshot that keeps running is told exactly once by the time the loop
   has finished — in every interleaving, including UnWatch/Watch/deleteNode steps racing the loop. *)
Theorem C10_exactly_one : forall (pre post : list label) (a w : nat),
  let s1 := exec init pre in
  is_running s1 w = true ->
  pcs s1 a = None ->
  Forall (fun l => l <> LSetRunning w false /\ l <> LRespawn a) post ->
  let s2 := exec s1 post in
  pcs s2 a = Some (Pick, []) ->
  In w (snap s2 a) ->
  count_occ entry_eq_dec (sent s2) ((a, inc s2 a), w) = 1.
Proof. exact exactly_one. Qed.

(* The snapshot is exactly the watcher set of the tree at the moment it is taken. *)
Theorem C10_snapshot_is_watcher_set : forall (ls : list label) (a : nat) (ord : list nat),
  let s := exec init ls in
  pcs s a = None -> same_set ord (watchers_of (tr s) a) = true ->
  forall w, In w (snap (step s (LSnapshot a ord)) a) <-> In w (watchers_of (tr s) a).
Proof. intros ls a ord s. apply snapshot_is_watchers, reachable_inv. Qed.

(* When the loop has finished, every member of the snapshot was either told or was seen not running. *)
Theorem C10_told_or_not_running : forall (ls : list label) (a w : nat),
  let s := exec init ls in
  pcs s a = Some (Pick, []) -> In w (snap s a) ->
  In ((a, inc s a), w) (sent s) \/ In ((a, inc s a), w) (skipped s).
Proof. intros ls a w s. apply loop_done_told_or_skipped, reachable_inv. Qed.

(* The tree's watcher sets never contain duplicates (what makes the snapshot duplicate-free). *)
Theorem C10_watcher_sets_duplicate_free : forall (ls : list label) (a : nat),
  NoDup (watchers_of (tr (exec init ls)) a).
Proof. intros ls a. apply watchers_of_NoDup. exact (i_tree _ (reachable_inv ls)). Qed.

(* UnWatch removes the watcher; afterwards only Watch / addNode / attach of that very pair can bring it back. *)
Theorem C10_unwatch_effective : forall (s : sys) (a w : nat) (mid : list label),
  forallb (fun l => negb (adds w a l)) mid = true ->
  ~ In w (watchers_of (tr (exec (step s (LUnWatch w a)) mid)) a).
Proof. intros s a w mid F. apply not_watcher_exec; [exact F|]. cbn. apply unwatch_removes. Qed.

(* KNOWN FINDING (watch:lost-after-watcher-restart). The literal statement does not survive the watcher's own
   restart: with the harness operations `2.Watch(3); Restart(2); Shutdown(3)` the watcher 2 runs, never called
   UnWatch, and is told nothing (replayed on real actors by the check). C10_exactly_one above is the strongest
   statement that holds: it is about watchers that are in the watcher set when the snapshot is taken. *)
Theorem C10_watcher_restart_refuted : exists (n : nat) (ops : list sop) (w a : nat),
  existsb is_unwatch ops = false /\ In (OWatch w a) ops /\
  let s := fold_left apply_sop ops (world0 n) in
  is_running s w = true /\ is_running s a = false /\ terminated_for s w = [].
Proof. exact watcher_restart_refuted. Qed.

Print Assumptions C10_at_most_one.
Print Assumptions C10_only_snapshot_members_told.
Print Assumptions C10_not_registered_at_snapshot_never_told.
Print Assumptions C10_none_after_completed_unwatch.
Print Assumptions C10_exactly_one.
Print Assumptions C10_snapshot_is_watcher_set.
Print Assumptions C10_told_or_not_running.
Print Assumptions C10_watcher_sets_duplicate_free.
Print Assumptions C10_unwatch_effective.
Print Assumptions C10_watcher_restart_refuted.
