(* C15 — An Ask returns its own reply or an error, and an in-time reply is never lost.
   Statements only. Model: C15/Model.v (fx = false: the Ask paths as they exist; fx = true: with
   fixes/C15-ask-reply-channel.diff). Proofs: C15/Proofs.v. checks/C15.py decides from the behaviour
   of the instrumented real code which shape the tree has, and replays its scripted runs through
   that model. *)
From Coq Require Import List Arith Bool.
Import ListNotations.
From GV Require Import C15.Model C15.Proofs C15.Fixed.

(* The code as it exists delivers a reply to a different Ask: the handler of ask 0 wins the
   responseClosed CAS and is preempted before the send; ask 0 times out and returns its channel to
   the pool; ask 1 is handed that channel; the stale send lands in it. (Script W-cross, replayed on
   the real PID.Ask / Ask / handleRemoteAsk on every run.) *)
Theorem C15_cross_refuted : exists nresps ls,
  let s := run false (init nresps) ls in results s 2 = [Some None; Some (Some 0)].
Proof. exists [1; 1], w_cross. exact cross_witness. Qed.

(* It loses a reply that was given in time: with the reply in the channel and the deadline passed,
   select may take the timer branch, which drains the reply away. (Scripts W-both-ready.) *)
Theorem C15_lost_refuted : exists nresps ls,
  let s := run false (init nresps) ls in
  results s 1 = [Some None] /\ replied_in_time (asks s 0) = true.
Proof. exists [1], w_lost. exact lost_witness. Qed.

(* And the asker's late responseClosed.Store(true) can land on a ReceiveContext that has been
   recycled and given to another Ask, whose handler then loses the CAS. (Script W-stomp.) *)
Theorem C15_ctx_reuse_refuted : exists nresps ls,
  let s := run false (init nresps) ls in
  results s 2 = [Some (Some 0); Some None] /\ replied_in_time (asks s 1) = true.
Proof. exists [1; 1], w_stomp. exact stomp_witness. Qed.

(* ================================================================ the repaired Ask paths (fx = true) *)
(* For any number of Asks, every interleaving of askers, handlers (calling Response any number of
   times), deadlines and context recycling, every answer of the channel and context pools
   ([reach]: inductive closure, no bound). Guard of the `_partial` names: fx = true, i.e. the asker
   does not touch the ReceiveContext after the enqueue, re-pools the channel only after it took the
   reply, and polls the channel on the timeout/cancel branch. *)

(* An Ask that returns a reply returns the reply to its own request. *)
Theorem C15_no_cross_delivery_partial : forall nresps s i v,
  reach nresps s -> result s i = Some (Some v) -> v = i.
Proof. exact fixed_no_cross. Qed.

(* An Ask does not fail when the handler's (first) Response call returned before the deadline. *)
Theorem C15_in_time_reply_returned_partial : forall nresps s i,
  reach nresps s -> result s i = Some None -> replied_in_time (asks s i) = false.
Proof. exact fixed_in_time. Qed.

(* Together: whatever the Ask returns after an in-time Response, it is exactly that reply. *)
Theorem C15_own_reply_partial : forall nresps s i r,
  reach nresps s -> result s i = Some r -> replied_in_time (asks s i) = true -> r = Some i.
Proof. exact fixed_reply_returned. Qed.

Print Assumptions C15_cross_refuted.
Print Assumptions C15_lost_refuted.
Print Assumptions C15_ctx_reuse_refuted.
Print Assumptions C15_no_cross_delivery_partial.
Print Assumptions C15_in_time_reply_returned_partial.
Print Assumptions C15_own_reply_partial.
