(* C15 — An Ask returns its own reply or an error, and an in-time reply is never lost.
   Statements only. Model: C15/Model.v (fx = false: the Ask paths as they exist; fx = true: with
   fixes/C15-ask-reply-channel.diff). Proofs: C15/Proofs.v. checks/C15.py decides from the behaviour
   of the instrumented real code which shape the tree has, and replays its scripted runs through
   that model. *)
From Coq Require Import List Arith Bool.
Import ListNotations.
From GV Require Import C15.Model C15.Proofs.

(* The code as it exists delivers a reply to a different Ask: the handler of ask 0 wins the
   responseClosed CAS and is preempted before the send; ask 0 times out and returns its channel to
   the pool; ask 1 is handed that channel; the stale send lands in it. (Script W-cross, replayed on
   the real PID.Ask / Ask / handleRemoteAsk on every run.) *)
Theorem C15_cross_refuted : exists nresps ls,
  let s := run false (init nresps) ls in results s 2 = [Some None; Some (Some 0)].
Proof. exists [1; 1], w_cross. exact cross_witness. Qed.

(* It loses a reply that was given in time: with the reply in the channel and the deadline passed,
   select may take the timer branch, which drains the reply away. (Scripts W-both-ready.) *)
Theorem C15_lost_refuted : exists nresps ls,
  let s := run false (init nresps) ls in
  results s 1 = [Some None] /\ replied_in_time (asks s 0) = true.
Proof. exists [1], w_lost. exact lost_witness. Qed.

(* And the asker's late responseClosed.Store(true) can land on a ReceiveContext that has been
   recycled and given to another Ask, whose handler then loses the CAS. (Script W-stomp.) *)
Theorem C15_ctx_reuse_refuted : exists nresps ls,
  let s := run false (init nresps) ls in
  results s 2 = [Some (Some 0); Some None] /\ replied_in_time (asks s 1) = true.
Proof. exists [1; 1], w_stomp. exact stomp_witness. Qed.

Print Assumptions C15_cross_refuted.
Print Assumptions C15_lost_refuted.
Print Assumptions C15_ctx_reuse_refuted.
