(* C15 — An Ask returns its own reply or an error, and an in-time reply is never lost.
   Statements only. Model: C15/Model.v (fx = false: the Ask paths as they exist; fx = true: with
   fixes/C15-ask-reply-channel.diff). Proofs: C15/Proofs.v (witnesses), C15/Fixed.v (invariant). checks/C15.py decides from the behaviour
   of the instrumented real code which shape the tree has, and replays its scripted runs through
   that model. *)
From Coq Require Import List Arith Bool.
Import ListNotations.
From GV Require Import C15.Model C15.Proofs C15.Fixed.

(* The code as it exists delivers a reply to a different Ask: the handler of ask 0 wins the
   responseClosed CAS and is preempted before the send; ask 0 times out and returns its channel to
   the pool; ask 1 is handed that channel; the stale send lands in it. (Script W-cross, replayed on
   the real PID.Ask / Ask / handleRemoteAsk on every run.) *)
Theorem C15_cross_refuted : exists nresps ls,
  let s := run false (init nresps) ls in results s 2 = [Some None; Some (Some 0)].
Proof. exists [1; 1], w_cross. exact cross_witness. Qed.

(* It loses a reply that was given in time: with the reply in the channel and the deadline passed,
   select may take the timer branch, which drains the reply away. (Scripts W-both-ready.) *)
Theorem C15_lost_refuted : exists nresps ls,
  let s := run false (init nresps) ls in
  results s 1 = [Some None] /\ replied_in_time (asks s 0) = true.
Proof. exists [1], w_lost. exact lost_witness. Qed.

(* And the asker's late responseClosed.Store(true) can land on a ReceiveContext that has been
   recycled and given to another Ask, whose handler then loses the CAS. (Script W-stomp.) *)
Theorem C15_ctx_reuse_refuted : exists nresps ls,
  let s := run false (init nresps) ls in
  results s 2 = [Some (Some 0); Some None] /\ replied_in_time (asks s 1) = true.
Proof. exists [1; 1], w_stomp. exact stomp_witness. Qed.

(* ================================================================ what does hold *)
(* For any number of Asks, every interleaving of askers, handlers (calling Response any number of
   times), deadlines and context recycling, every answer of the channel and context pools
   ([reach fx]: inductive closure of the steps [allowed fx], no bound).

   The guard of the `_partial` names is the predicate [allowed]:
     fx = false  (the Ask paths as they exist): executions in which no Ask takes the timeout/cancel
                 branch of its select, and a ReceiveContext is recycled only after its Ask has
                 returned. The three refutations above each leave this set by exactly one of these.
     fx = true   (asker does not touch the ReceiveContext after the enqueue, re-pools the channel only
                 after it took the reply, polls the channel on the timeout/cancel branch): ALL
                 executions. *)

Example C15_guard_satisfiable_as_is :
  allowed false (init [1]) (LAsker 0 None SelReply) /\ forall s l, allowed true s l.
Proof. split; [now right|intros; now left]. Qed.

(* An Ask that returns a reply returns the reply to its own request. *)
Theorem C15_no_cross_delivery_partial : forall fx nresps s i v,
  reach fx nresps s -> result s i = Some (Some v) -> v = i.
Proof. exact proto_no_cross. Qed.

(* An Ask does not fail when the handler's (first) Response call returned before the deadline. *)
Theorem C15_in_time_reply_returned_partial : forall fx nresps s i,
  reach fx nresps s -> result s i = Some None -> replied_in_time (asks s i) = false.
Proof. exact proto_in_time. Qed.

(* Together: whatever the Ask returns after an in-time Response, it is exactly that reply. *)
Theorem C15_own_reply_partial : forall fx nresps s i r,
  reach fx nresps s -> result s i = Some r -> replied_in_time (asks s i) = true -> r = Some i.
Proof. exact proto_reply_returned. Qed.

(* The Ask paths as they exist, on the guarded executions, never return an error. *)
Theorem C15_as_is_no_failure_partial : forall nresps s i,
  reach false nresps s -> result s i <> Some None.
Proof. exact asis_never_fails. Qed.

Print Assumptions C15_cross_refuted.
Print Assumptions C15_lost_refuted.
Print Assumptions C15_ctx_reuse_refuted.
Print Assumptions C15_no_cross_delivery_partial.
Print Assumptions C15_in_time_reply_returned_partial.
Print Assumptions C15_own_reply_partial.
Print Assumptions C15_as_is_no_failure_partial.
