(* C16 — Every reentrant request completes exactly once, on the requester's turn.
   Statements only; the model is C16/Model.v (one requesting actor: requestStates, inFlightCount,
   blockingCount, mailbox, reentrancy stash, the split completeRequest, cancelInFlightRequests, reset),
   proofs are in C16/Proofs.v.  [reach mx s]: s is the state after ANY finite sequence of ops
   (replies, duplicate/unknown replies, timer goroutines, Cancel, arrivals, stop / cancelInFlight /
   reset / restart, and the turn's dispatch / finish / Request / Then steps) from the initial state
   with in-flight limit mx (0 = unlimited).  The boolean z says whether cancelInFlightRequests stores 0
   into both counters after its loop: true is the code as it stands, false the code with
   fixes/C16-cancel-inflight-no-zeroing.diff; the theorems that do not fix z hold for both. *)
From Coq Require Import ZArith List Bool Arith Permutation.
From GV Require Import C16.Model C16.Proofs C16.Extra.
Import ListNotations.
Open Scope Z_scope.

(* Completion: the completed flag is monotone and the first result is kept; the continuation of a
   request is invoked at most once, only by a step of the requester's turn, and — when the turn is
   between messages — exactly once iff the request is completed, a continuation is registered and
   it was not discarded by a shutdown cancellation (which always records the cancellation outcome);
   with nothing in flight and the turn idle every request issued so far is completed. *)
Theorem C16_complete_once : forall z mx s, reach z mx s ->
  (forall r ob, get (objs s) r = Some ob ->
      (o_calls ob <= 1)%nat /\
      (turn s = TIdle -> o_calls ob = if o_completed ob && o_cb ob && negb (o_dropped ob) then 1%nat else 0%nat) /\
      (o_dropped ob = true -> o_outcome ob = Some KShutdown) /\
      (o_completed ob = true <-> o_outcome ob <> None)) /\
  (forall o r ob, get (objs s) r = Some ob ->
      exists ob', get (objs (step z s o)) r = Some ob' /\
        (o_completed ob = true -> o_completed ob' = true /\ o_outcome ob' = o_outcome ob) /\
        (o_calls ob' <> o_calls ob -> is_turn_op o = true /\ o_calls ob' = S (o_calls ob))) /\
  (turn s = TIdle -> table s = [] -> forall r ob, get (objs s) r = Some ob -> o_completed ob = true).
Proof. exact complete_once. Qed.

(* One completion, start to end: a response envelope (reply, error reply, timeout or cancellation) at the
   head of the mailbox for a request that is still in flight completes it with exactly that outcome,
   removes it from requestStates, decrements the in-flight counter, runs the registered continuation
   once; a later envelope for the same request changes nothing. *)
Theorem C16_response_completes : forall z mx s r k rest ob,
  reach z mx s -> turn s = TIdle -> mbox s = MResp r k :: rest ->
  In r (table s) -> get (objs s) r = Some ob -> o_completed ob = false ->
  let s' := step z (step z s ODispatch) OFinish in
  exists ob', get (objs s') r = Some ob' /\
    o_completed ob' = true /\ o_outcome ob' = Some k /\ o_calls ob' = (if o_cb ob then 1%nat else O) /\
    ~ In r (table s') /\ inflight s' = inflight s - 1 /\ turn s' = TIdle /\
    (forall k2, mbox s' = MResp r k2 :: tl (mbox s') ->
       objs (step z (step z s' ODispatch) OFinish) = objs s' /\ table (step z (step z s' ODispatch) OFinish) = table s').
Proof. exact response_completes. Qed.

(* Counters.  The literal clause (inFlight = |requestStates|, blocking = number of stash-mode states,
   limit respected, in every reachable state) is false for the code as it is: *)
Theorem C16_counters_exact_refuted :
  exists ops, let s := run true 1 ops in
    inflight s = -1 /\ blocking s = -1 /\ table s = [] /\ turn s = TIdle /\ ph s = PRun.
Proof. exact counters_exact_refuted. Qed.

Theorem C16_inflight_limit_refuted :
  exists ops, let s := run true 1 ops in
    maxif s = 1 /\ length (table s) = 2%nat /\ (forall r, In r (table s) -> is_completed (objs s) r = false).
Proof. exact inflight_limit_refuted. Qed.

(* ... and holds in every reachable state in which no cancelInFlightRequests ran between the
   requestState.complete and the deregisterRequestState of an on-turn completion since the last
   reset ([tainted s = false]): *)
Theorem C16_counters_exact_partial : forall z mx s, reach z mx s -> tainted s = false ->
  inflight s = Z.of_nat (length (table s)) /\
  blocking s = Z.of_nat (nstash (objs s) (table s)) /\
  0 <= blocking s <= inflight s /\
  (0 < mx -> inflight s <= mx) /\
  (table s = [] -> inflight s = 0 /\ blocking s = 0) /\
  NoDup (table s).
Proof. exact counters_exact_partial. Qed.

(* ... and in EVERY reachable state once the two Store(0) are gone (the proposed repair): *)
Theorem C16_counters_exact_repaired : forall mx s, reach false mx s ->
  inflight s = Z.of_nat (length (table s)) /\
  blocking s = Z.of_nat (nstash (objs s) (table s)) /\
  0 <= blocking s <= inflight s /\
  (0 < mx -> inflight s <= mx) /\
  (table s = [] -> inflight s = 0 /\ blocking s = 0) /\
  NoDup (table s).
Proof. exact counters_exact_repaired. Qed.

Theorem C16_stash_mode_isolation_repaired : forall mx s, reach false mx s ->
  forall o, handled (step false s o) <> handled s ->
     o = ODispatch /\ nstash (objs s) (table s) = O /\
     exists n rest, mbox s = MUser n :: rest /\ handled (step false s o) = handled s ++ [n].
Proof. exact stash_mode_isolation_repaired. Qed.

(* a reset (end of every stop) re-establishes exactness whatever happened before *)
Theorem C16_counters_zero_after_reset : forall z mx s, reach z mx s -> ph s = PCancelled ->
  let s' := step z s OReset in
  tainted s' = false /\ table s' = [] /\ inflight s' = 0 /\ blocking s' = 0.
Proof. exact counters_zero_after_reset. Qed.

(* Stash mode.  Literal clause false for the same interleaving (a blocking request is in flight,
   blockingCount is 0, the next ordinary message is handled): *)
Theorem C16_stash_mode_isolation_refuted :
  exists ops, let s := run true 1 ops in
    nstash (objs s) (table s) = 1%nat /\ (forall r, In r (table s) -> is_completed (objs s) r = false) /\
    handled (step true s ODispatch) = handled s ++ [O].
Proof. exact stash_mode_isolation_refuted. Qed.

Theorem C16_stash_mode_isolation_partial : forall z mx s, reach z mx s -> tainted s = false ->
  (forall o, handled (step z s o) <> handled s ->
     o = ODispatch /\ nstash (objs s) (table s) = O /\
     exists n rest, mbox s = MUser n :: rest /\ handled (step z s o) = handled s ++ [n]) /\
  (forall n rest, (0 < nstash (objs s) (table s))%nat -> turn s = TIdle -> mbox s = MUser n :: rest ->
     stashq (step z s ODispatch) = stashq s ++ [MUser n] /\ mbox (step z s ODispatch) = rest /\
     handled (step z s ODispatch) = handled s) /\
  (forall r k rest, turn s = TIdle -> mbox s = MResp r k :: rest ->
     stashq (step z s ODispatch) = stashq s /\ mbox (step z s ODispatch) = rest) /\
  (turn s = TIdle -> ctls (step z s OCtl) = S (ctls s)).
Proof. exact stash_mode_isolation_partial. Qed.

(* Order of the held messages.  Literal clause false (unstashAll re-enqueues at the mailbox tail;
   two rounds put held messages 3 and 1 in the stash in that order): *)
Theorem C16_stash_order_refuted :
  exists ops1 ops2,
    stashq (run true 0 ops1) = [MUser 3; MUser 1] /\ tainted (run true 0 (ops1 ++ ops2)) = false /\
    handled (run true 0 (ops1 ++ ops2)) = [0; 2; 3; 1]%nat.
Proof. exact stash_order_refuted. Qed.

(* Always: no accepted ordinary message is lost or duplicated.  And the handler sees them in arrival
   order as long as no release happened while ordinary messages were waiting in the mailbox and no
   message was handled past stranded held ones ([overtaken s = false]). *)
Theorem C16_stash_order_partial : forall z mx s, reach z mx s ->
  Permutation (handled s ++ pending s) (seq 0 (nextu s)) /\
  (overtaken s = false -> handled s ++ pending s = seq 0 (nextu s)).
Proof. exact stash_order_partial. Qed.

Print Assumptions C16_complete_once.
Print Assumptions C16_response_completes.
Print Assumptions C16_counters_exact_refuted.
Print Assumptions C16_inflight_limit_refuted.
Print Assumptions C16_counters_exact_partial.
Print Assumptions C16_counters_exact_repaired.
Print Assumptions C16_stash_mode_isolation_repaired.
Print Assumptions C16_counters_zero_after_reset.
Print Assumptions C16_stash_mode_isolation_refuted.
Print Assumptions C16_stash_mode_isolation_partial.
Print Assumptions C16_stash_order_refuted.
Print Assumptions C16_stash_order_partial.
