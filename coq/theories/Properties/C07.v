(* C07 — Failures are handled by exactly the configured supervision directive.
   Statements only; model in C07/Model.v (mirrors supervisor/supervisor.go and the supervision
   code of actor/pid.go, actor/supervision.go), proofs in C07/Proofs.v, C07/Backoff.v.
   [keep] selects the restart-count behaviour of restartSubtree: true = the count survives the
   Shutdown embedded in a restart (repaired code), false = reset() zeroes it (see
   C07_restart_count_sibling_refuted). Everything else holds for both. *)
From Coq Require Import ZArith List Bool.
From GV Require Import Lib.GoInt Gen.C08 C07.Model C07.Proofs C07.Backoff.
Import ListNotations.
Open Scope Z_scope.

(* Refinement: for every configuration (one supervisor per child), every family (any size), every
   sequence of failures each handled to quiescence, and every order in which the fire-and-forget
   restart goroutines run, the step-by-step implementation model (notifyParent -> Panicking ->
   handlePanicking -> restartChild goroutines) ends in exactly the family computed by the
   specification function [supervise], with nothing left pending. *)
Theorem C07_refines_supervise : forall keep cfg fam (fs : list (failure * list nat)),
  fold_left (quiescent_step keep cfg) fs (init_istate fam) =
  init_istate (fold_left (supervise keep cfg) (map fst fs) fam).
Proof. exact quiescent_run_refines. Qed.

(* The same with user messages and reinstatements of suspended children between the failures. *)
Theorem C07_refines_supervise_ops : forall keep cfg fam (ops : list (op * list nat)),
  fold_left (impl_op keep cfg) ops (init_istate fam) =
  init_istate (fold_left (spec_op keep cfg) (map fst ops) fam).
Proof. exact impl_ops_refine. Qed.

(* Which directive: the any-error option (last one given) wins over every other rule; otherwise
   the last rule given for the error's type; otherwise PanicError -> Stop and
   runtime.PanicNilError -> Restart; otherwise none. *)
Theorem C07_directive_lookup : forall opts e,
  directive_of (new_supervisor opts) e = directive_spec opts e.
Proof. exact directive_of_new_supervisor. Qed.

(* A failure signal of an actor that is not running (already suspended or stopped) is dropped. *)
Theorem C07_not_running_dropped : forall keep cfg fam f,
  is_running (f_children fam) (fl_child f) = false -> supervise keep cfg fam f = fam.
Proof. exact supervise_not_running. Qed.

(* No directive for the error type and no any-error directive: the child is suspended, nothing else. *)
Theorem C07_no_directive_suspends : forall keep cfg fam f c,
  child_at fam (fl_child f) = Some c -> c_status c = Running ->
  directive_of (cfg (fl_child f)) (fl_ety f) = None ->
  let fam' := supervise keep cfg fam f in
  child_at fam' (fl_child f) = Some (suspend_child c) /\
  f_escal fam' = f_escal fam /\
  (forall j, j <> fl_child f -> child_at fam' j = child_at fam j).
Proof. exact supervise_none. Qed.

(* Stop: the child is stopped (PostStop once more); under one-for-all every sibling still in the
   tree is stopped too; under one-for-one the siblings are untouched. *)
Theorem C07_stop : forall keep cfg fam f c,
  child_at fam (fl_child f) = Some c -> c_status c = Running ->
  directive_of (cfg (fl_child f)) (fl_ety f) = Some DStop ->
  let fam' := supervise keep cfg fam f in
  (exists c', child_at fam' (fl_child f) = Some c' /\ c_status c' = Stopped /\ c_posts c' = c_posts c + 1 /\ c_gen c' = c_gen c) /\
  f_escal fam' = f_escal fam /\
  (forall j cj, j <> fl_child f -> child_at fam j = Some cj ->
     match s_strategy (cfg (fl_child f)) with
     | OneForAll => exists cj', child_at fam' j = Some cj' /\ c_status cj' = Stopped /\
                               c_posts cj' = (if status_eqb (c_status cj) Stopped then c_posts cj else c_posts cj + 1)
     | OneForOne => child_at fam' j = Some cj
     end).
Proof. exact supervise_stop. Qed.

(* Restart within budget: PreStart runs once more (state generation + 1, private state fresh), the
   restart count is bumped, the child runs; under one-for-all every sibling still in the tree is
   restarted too (fresh state; restart count bumped in the repaired code). *)
Theorem C07_restart_within_budget : forall keep cfg fam f c,
  child_at fam (fl_child f) = Some c -> c_status c = Running ->
  directive_of (cfg (fl_child f)) (fl_ety f) = Some DRestart ->
  budget_exhausted (cfg (fl_child f)) (faults_after (cfg (fl_child f)) c (fl_now f)) = false ->
  let fam' := supervise keep cfg fam f in
  (exists c', child_at fam' (fl_child f) = Some c' /\ c_status c' = Running /\
              c_gen c' = c_gen c + 1 /\ c_mem c' = 0 /\ c_restarts c' = c_restarts c + 1 /\
              c_faults c' = faults_after (cfg (fl_child f)) c (fl_now f) /\ c_last c' = fl_now f) /\
  f_escal fam' = f_escal fam /\
  (forall j cj, j <> fl_child f -> child_at fam j = Some cj ->
     match s_strategy (cfg (fl_child f)) with
     | OneForAll =>
         if status_eqb (c_status cj) Stopped then child_at fam' j = Some cj
         else exists cj', child_at fam' j = Some cj' /\ c_status cj' = Running /\ c_gen cj' = c_gen cj + 1 /\ c_mem cj' = 0 /\
                          (keep = true -> c_restarts cj' = c_restarts cj + 1)
     | OneForOne => child_at fam' j = Some cj
     end).
Proof. exact supervise_restart. Qed.

(* Budget exhausted (maxRetries > 0, positive window, more than maxRetries consecutive faults):
   nobody is restarted; the child stays suspended and under one-for-all every running sibling is
   suspended as well. *)
Theorem C07_budget_exhausted_suspends : forall keep cfg fam f c,
  child_at fam (fl_child f) = Some c -> c_status c = Running ->
  directive_of (cfg (fl_child f)) (fl_ety f) = Some DRestart ->
  budget_exhausted (cfg (fl_child f)) (faults_after (cfg (fl_child f)) c (fl_now f)) = true ->
  let fam' := supervise keep cfg fam f in
  (exists c', child_at fam' (fl_child f) = Some c' /\ c_status c' = Suspended /\
              c_gen c' = c_gen c /\ c_restarts c' = c_restarts c) /\
  f_escal fam' = f_escal fam /\
  (forall j cj, j <> fl_child f -> child_at fam j = Some cj ->
     match s_strategy (cfg (fl_child f)) with
     | OneForAll => exists cj', child_at fam' j = Some cj' /\ c_status cj' <> Running /\
                               c_gen cj' = c_gen cj /\ c_restarts cj' = c_restarts cj /\
                               (c_status cj = Running -> c_status cj' = Suspended)
     | OneForOne => child_at fam' j = Some cj
     end).
Proof. exact supervise_budget_exhausted. Qed.

(* Resume: same state generation, same private state, still running, and the next message is
   handled on top of that state. *)
Theorem C07_resume_keeps_state : forall keep cfg fam f c,
  child_at fam (fl_child f) = Some c -> c_status c = Running ->
  directive_of (cfg (fl_child f)) (fl_ety f) = Some DResume ->
  let fam' := supervise keep cfg fam f in
  (exists c', child_at fam' (fl_child f) = Some c' /\ c_status c' = Running /\
              c_gen c' = c_gen c /\ c_mem c' = c_mem c /\ c_restarts c' = c_restarts c /\ c_posts c' = c_posts c /\
              c_mem (ping_child c') = c_mem c + 1) /\
  f_escal fam' = f_escal fam /\
  (forall j, j <> fl_child f -> child_at fam' j = child_at fam j).
Proof. exact supervise_resume. Qed.

(* Escalate: the failure (child, original error type) is handed to the handler one level up,
   exactly once, after everything handed up before; the child waits suspended. *)
Theorem C07_escalate : forall keep cfg fam f c,
  child_at fam (fl_child f) = Some c -> c_status c = Running ->
  directive_of (cfg (fl_child f)) (fl_ety f) = Some DEscalate ->
  let fam' := supervise keep cfg fam f in
  f_escal fam' = f_escal fam ++ [(fl_child f, fl_ety f)] /\
  child_at fam' (fl_child f) = Some (suspend_child c) /\
  (forall j, j <> fl_child f -> child_at fam' j = child_at fam j).
Proof. exact supervise_escalate. Qed.

(* Escalation chains (child -> P -> G): a failure the child's supervisor does not escalate stays at
   P's level ... *)
Theorem C07_chain_not_escalated : forall keep cfgP cfgC eP t f,
  c_status (parent_of t) = Running ->
  directive_of (cfgC (fl_child f)) (fl_ety f) <> Some DEscalate ->
  t_top (chain_fail keep cfgP cfgC eP t f) = t_top t /\
  t_sub (chain_fail keep cfgP cfgC eP t f) = supervise keep cfgC (t_sub t) f.
Proof. exact chain_not_escalated. Qed.

(* ... and two Escalate directives in a row hand it to the handler two levels up, with the error the
   middle actor failed with; both failing actors wait suspended. *)
Theorem C07_chain_escalated_twice : forall keep cfgP cfgC eP t f c,
  f_children (t_top t) = [fresh_child] ->
  child_at (t_sub t) (fl_child f) = Some c -> c_status c = Running ->
  directive_of (cfgC (fl_child f)) (fl_ety f) = Some DEscalate ->
  directive_of cfgP eP = Some DEscalate ->
  let t' := chain_fail keep cfgP cfgC eP t f in
  f_escal (t_top t') = f_escal (t_top t) ++ [(0%nat, eP)] /\
  f_escal (t_sub t') = f_escal (t_sub t) ++ [(fl_child f, fl_ety f)] /\
  c_status (parent_of t') = Suspended /\
  child_at (t_sub t') (fl_child f) = Some (suspend_child c).
Proof. exact chain_escalated_twice. Qed.

(* The budget over failure sequences of any length: with maxRetries = m > 0 and a positive window,
   n consecutive failures (each within the window of the previous one) with faults + n <= m
   restart the child n times ... *)
Theorem C07_budget_counts_restarts : forall keep cfg i e,
  directive_of (cfg i) e = Some DRestart -> s_strategy (cfg i) = OneForOne ->
  0 < s_maxRetries (cfg i) -> 0 < window_of (cfg i) ->
  forall nows fam c prev,
    child_at fam i = Some c -> c_status c = Running ->
    c_last c = prev -> gaps_within (window_of (cfg i)) prev nows ->
    0 <= c_faults c ->
    c_faults c + Z.of_nat (length nows) <= s_maxRetries (cfg i) ->
    exists c', child_at (fold_left (supervise keep cfg) (fails i e nows) fam) i = Some c' /\
               restarted_times c (Z.of_nat (length nows)) c' /\
               c_last c' = last nows prev.
Proof. exact budget_run. Qed.

(* ... the next one within the window suspends it instead of restarting it ... *)
Theorem C07_budget_then_suspends : forall keep cfg i e fam c t,
  directive_of (cfg i) e = Some DRestart ->
  0 < s_maxRetries (cfg i) -> 0 < window_of (cfg i) ->
  child_at fam i = Some c -> c_status c = Running ->
  0 < t -> t - c_last c <= window_of (cfg i) -> c_faults c = s_maxRetries (cfg i) ->
  exists c', child_at (supervise keep cfg fam (mkFail i e t)) i = Some c' /\ c_status c' = Suspended /\
             c_gen c' = c_gen c /\ c_restarts c' = c_restarts c.
Proof. exact budget_exhaust_next. Qed.

(* ... and it stays suspended whatever it is reported to fail with afterwards. *)
Theorem C07_suspended_stays_suspended : forall keep cfg i e nows fam c,
  s_strategy (cfg i) = OneForOne ->
  child_at fam i = Some c -> c_status c <> Running ->
  child_at (fold_left (supervise keep cfg) (fails i e nows) fam) i = Some c.
Proof. exact suspended_absorbing. Qed.

(* Without a budget (maxRetries = 0 or non-positive window) restarts are unbounded. *)
Theorem C07_no_budget_unbounded_restarts : forall keep cfg i e,
  directive_of (cfg i) e = Some DRestart -> s_strategy (cfg i) = OneForOne ->
  (s_maxRetries (cfg i) <= 0 \/ window_of (cfg i) <= 0) ->
  forall nows fam c,
    child_at fam i = Some c -> c_status c = Running ->
    exists c', child_at (fold_left (supervise keep cfg) (fails i e nows) fam) i = Some c' /\
               c_status c' = Running /\ c_gen c' = c_gen c + Z.of_nat (length nows) /\
               c_restarts c' = c_restarts c + Z.of_nat (length nows).
Proof. exact no_budget_run. Qed.

(* The model's delay and fault counter are those of the Go functions regenerated from actor/pid.go. *)
Theorem C07_delay_is_backoffDelay : forall s faults,
  in_i64 faults -> in_i64 (s_initialDelay s) -> in_i64 (s_maxDelay s) ->
  delay_of s faults = backoffDelay faults (s_initialDelay s) (s_maxDelay s).
Proof. exact delay_of_is_backoffDelay. Qed.

Theorem C07_fault_counter_is_recordFault : forall window now c,
  in_i64 window -> in_i64 now -> 0 <= c_last c <= now ->
  c_faults (record_fault window now c) =
  (if recordFault_resets window (c_last c) now then 0 else c_faults c) + 1.
Proof. exact record_fault_is_recordFault. Qed.

(* Refuted at full strength for failures that overlap (not handled to quiescence): two one-for-all
   siblings fail before the parent handles the first failure; the budget (maxRetries 1) is then
   exhausted by the second handling, yet the restart goroutines of the first put the whole group
   back to running, whereas the same two failures one after the other leave it suspended. *)
Theorem C07_overlapping_failures_refuted : forall keep,
  let st := overlap_run keep in
  i_inbox st = [] /\ i_tasks st = [] /\
  map c_status (f_children (i_fam st)) = [Running; Running] /\
  map c_faults (f_children (i_fam st)) = [2; 2] /\
  budget_exhausted overlap_sup 2 = true /\
  map c_status (f_children (sequential_run keep)) = [Suspended; Suspended].
Proof. exact overlap_witness. Qed.

(* "Restart bumps the restart count" refuted for a running one-for-all sibling in the code where
   reset() zeroes restartCount inside the embedded Shutdown (keep = false): after three restarts
   (four PreStart runs) the sibling reports one; the repaired code (keep = true) reports three. *)
Theorem C07_restart_count_sibling_refuted :
  map c_restarts (f_children (sibling_count_run false)) = [3; 1] /\
  map c_gen (f_children (sibling_count_run false)) = [4; 4] /\
  map c_restarts (f_children (sibling_count_run true)) = [3; 3].
Proof. exact sibling_count_witness. Qed.

Print Assumptions C07_refines_supervise.
Print Assumptions C07_refines_supervise_ops.
Print Assumptions C07_directive_lookup.
Print Assumptions C07_not_running_dropped.
Print Assumptions C07_no_directive_suspends.
Print Assumptions C07_stop.
Print Assumptions C07_restart_within_budget.
Print Assumptions C07_budget_exhausted_suspends.
Print Assumptions C07_resume_keeps_state.
Print Assumptions C07_escalate.
Print Assumptions C07_chain_not_escalated.
Print Assumptions C07_chain_escalated_twice.
Print Assumptions C07_budget_counts_restarts.
Print Assumptions C07_budget_then_suspends.
Print Assumptions C07_suspended_stays_suspended.
Print Assumptions C07_no_budget_unbounded_restarts.
Print Assumptions C07_delay_is_backoffDelay.
Print Assumptions C07_fault_counter_is_recordFault.
Print Assumptions C07_overlapping_failures_refuted.
Print Assumptions C07_restart_count_sibling_refuted.
