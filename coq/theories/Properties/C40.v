(* C40 — CRDT values survive encoding.  Statements only; proofs in C40/Proofs.v over the executable
   model C40/Model.v of internal/ddata/crdt_codec.go + the value-serializer contract + internal/codec
   keys (tied to the real codec through the protobuf wire format on every run).
   wire0 v / wire_map m = v with the delta bookkeeping the decoder builds (never shipped): same
   observable value, same causal metadata (wire0_same_value). *)
From stdpp Require Import gmap.
From Coq Require Import ZArith.
From GV Require Import C38.Model C38.Exec C40.Model C40.Proofs.

(* GCounter, PNCounter, Flag, LWWRegister, MVRegister, ORSet: whenever encoding succeeds, decoding gives
   the value back (all values, no reachability needed) with identical value, raw state and type. *)
Theorem C40_roundtrip_level0 : ∀ (v : val0) (p : pbdata), encode0 v = Some p →
  decode0 p = Some (wire0 v) ∧
  core0 (wire0 v) = core0 v ∧ value0 (wire0 v) = value0 v ∧ tag0 (wire0 v) = tag0 v.
Proof. intros v p H. split; [exact (roundtrip0 v p H)|exact (wire0_same_value v)]. Qed.

(* ORMap with ANY nested value codec that round-trips (so: maps of level-0 values, maps of maps, ...):
   keys' dots and clock identical, every nested value round-tripped. *)
Theorem C40_roundtrip_ormap : ∀ (V : Type) (venc : V → option pbdata) (vdec : pbdata → option V) (vwire : V → V),
  (∀ v p, venc v = Some p → vdec p = Some (vwire v)) →
  ∀ (m : ormap V) p, encode_map venc m = Some p → decode_map vdec p = Some (wire_map vwire m).
Proof. intros V venc vdec vwire H. exact (roundtrip_map venc vdec vwire H). Qed.
Theorem C40_roundtrip_ormap_instances :
  (∀ (m : ormap val0) p, encode1 m = Some p → decode1 p = Some (wire_map wire0 m)) ∧
  (∀ (m : ormap (ormap val0)) p, encode2 m = Some p → decode2 p = Some (wire_map (wire_map wire0) m)).
Proof.
  split.
  - exact (roundtrip_map encode0 decode0 wire0 roundtrip0).
  - exact (roundtrip_map encode1 decode1 (wire_map wire0) (roundtrip_map encode0 decode0 wire0 roundtrip0)).
Qed.

(* Encoding is total on the serializer's domain: it fails only when a nil element / key / register value is present. *)
Theorem C40_encode_fails_only_on_nil :
  (∀ v : val0, no_nil0 v → is_Some (encode0 v)) ∧ (∀ v : val0, encode0 v = None → ¬ no_nil0 v) ∧
  (∀ (V : Type) (venc : V → option pbdata) (m : ormap V),
     (∀ e, e ∈ s_entries (m_keys m) → e.1 ≠ 0%N) → (∀ k v, m_vals m !! k = Some v → k ≠ 0%N ∧ is_Some (venc v)) →
     is_Some (encode_map venc m)).
Proof. repeat split. exact encode0_total. exact encode0_fails_only_on_nil. intros V venc. exact (encode_map_total venc). Qed.

(* Merging the decoded value behaves exactly like merging the original. *)
Theorem C40_decoded_merges_like_original :
  (∀ a b : val0, merge0 a (wire0 b) = merge0 a b) ∧
  (∀ a b : val0, core0 (merge0 (wire0 a) b) = core0 (merge0 a b) ∧ value0 (merge0 (wire0 a) b) = value0 (merge0 a b)) ∧
  (∀ (V : Type) (vmerge : V → V → V) (vwire : V → V), (∀ a b, vmerge a (vwire b) = vmerge a b) →
     ∀ (a b : ormap V), m_keys (m_merge vmerge a (wire_map vwire b)) = m_keys (m_merge vmerge a b) ∧
       ∀ k, is_Some (m_vals a !! k) →
         m_vals (m_merge vmerge a (wire_map vwire b)) !! k = m_vals (m_merge vmerge a b) !! k).
Proof.
  repeat split. exact merge0_wire_r. apply merge0_wire_l. apply merge0_wire_l.
  intros k Hk. apply (m_merge_wire_vals vmerge vwire H a b k Hk).
Qed.

(* Keys round-trip with their type; unknown / unspecified type, nil key, unknown data oneof are rejected. *)
Theorem C40_key_roundtrip : ∀ id t, (t ≤ 6)%N → decode_key (Some (encode_key id t)) = Some (id, t).
Proof. exact key_roundtrip. Qed.
Theorem C40_unknown_rejected :
  (∀ id e, (e = 0 ∨ 7 < e)%N → decode_key (Some (id, e)) = None) ∧ decode_key None = None ∧
  decode0 PUnknown = None ∧ decode1 PUnknown = None ∧ decode2 PUnknown = None.
Proof. repeat split. exact key_unknown_rejected. Qed.

Print Assumptions C40_roundtrip_level0.
Print Assumptions C40_roundtrip_ormap.
Print Assumptions C40_roundtrip_ormap_instances.
Print Assumptions C40_encode_fails_only_on_nil.
Print Assumptions C40_decoded_merges_like_original.
Print Assumptions C40_key_roundtrip.
Print Assumptions C40_unknown_rejected.
