(* C32 — Relocation places every actor and grain of a departed node exactly once.
   Statements only; models in C32/Model.v, proofs in C32/{Proofs,Grains,Reassign,Plan}.v.
   Lists stand for Go slices AND for maps in iteration order, so "forall actors" quantifies over
   every departed-node state and every map iteration order; roles are nats (0 = no role). *)
From Coq Require Import List ZArith Bool Arith Permutation.
From GV Require Import Lib.GoInt Gen.C32 C32.Model C32.Proofs C32.Grains C32.Reassign C32.Plan C32.Examples C32.GenBridge.
Import ListNotations.
Open Scope Z_scope.

(* allocateActors: leader share ⊎ peer shares 1..n ⊎ unplaceable is a permutation of the departed
   node's actors (each exactly once), for all roles, loads and orders. *)
Theorem C32_actors_partition : forall leaderRoles peersRoles actors baseLoads,
  let '(leader, shares, unplaceable) := allocateActors leaderRoles peersRoles actors baseLoads in
  length shares = S (length peersRoles) /\
  Permutation (leader ++ concat (tl shares) ++ unplaceable) actors.
Proof.
  intros lr pr ac bl. pose proof (alloc_shares_length lr pr ac bl). pose proof (alloc_partition lr pr ac bl).
  destruct (allocateActors lr pr ac bl) as [[l s] u]. split; assumption.
Qed.

(* every actor in share i is a non-singleton whose role target i advertises (target 0 = leader) *)
Theorem C32_assigned_target_advertises_role : forall leaderRoles peersRoles actors baseLoads i a,
  let '(_, shares, _) := allocateActors leaderRoles peersRoles actors baseLoads in
  In a (nth i shares []) ->
  asingle a = false /\ eligibleForRole (nth i (leaderRoles :: peersRoles) []) (arole a) = true.
Proof.
  intros lr pr ac bl i a. pose proof (alloc_share_roles lr pr ac bl i a).
  destruct (allocateActors lr pr ac bl) as [[l s] u]. assumption.
Qed.

(* unplaceable exactly when no target (leader included) advertises the role *)
Theorem C32_unplaceable_iff_no_target : forall leaderRoles peersRoles actors baseLoads a,
  let '(_, _, unplaceable) := allocateActors leaderRoles peersRoles actors baseLoads in
  In a unplaceable <->
  (In a actors /\ asingle a = false /\
   forall i, (i < S (length peersRoles))%nat ->
             eligibleForRole (nth i (leaderRoles :: peersRoles) []) (arole a) = false).
Proof.
  intros lr pr ac bl a. pose proof (alloc_unplaceable_iff lr pr ac bl a).
  destruct (allocateActors lr pr ac bl) as [[l s] u]. assumption.
Qed.

(* singletons go to the leader and nowhere else *)
Theorem C32_singletons_to_leader : forall leaderRoles peersRoles actors baseLoads a,
  In a actors -> asingle a = true ->
  let '(leader, shares, unplaceable) := allocateActors leaderRoles peersRoles actors baseLoads in
  In a leader /\ ~ In a (concat shares) /\ ~ In a unplaceable.
Proof.
  intros lr pr ac bl a Hin Hs. pose proof (alloc_singletons_to_leader lr pr ac bl a Hin Hs).
  destruct (allocateActors lr pr ac bl) as [[l s] u]. assumption.
Qed.

(* every non-singleton lands on the eligible target with the least running load (occupancy reported
   for the target + actors handed to it so far), ties to the lowest index; in particular a role-less
   actor lands on a least-loaded target. *)
Theorem C32_least_loaded : forall leaderRoles peersRoles baseLoads p a s,
  asingle a = false ->
  let troles := leaderRoles :: peersRoles in
  let '(_, shares, unplaceable) := allocateActors leaderRoles peersRoles (p ++ a :: s) baseLoads in
  let before := snd (fst (allocateActors leaderRoles peersRoles p baseLoads)) in
  let load i := nth i (init_loads (length troles) baseLoads) 0 + Z.of_nat (length (nth i before [])) in
  (exists b, In a (nth b shares []) /\ (b < length troles)%nat /\
             eligibleForRole (nth b troles []) (arole a) = true /\
             (forall j, (j < length troles)%nat -> eligibleForRole (nth j troles []) (arole a) = true -> load b <= load j) /\
             (forall j, (j < b)%nat -> eligibleForRole (nth j troles []) (arole a) = true -> load b < load j)) \/
  (In a unplaceable /\ forall j, (j < length troles)%nat -> eligibleForRole (nth j troles []) (arole a) = false).
Proof. exact alloc_least_loaded. Qed.

(* relocatableGrains keeps exactly the grains that did not opt out *)
Theorem C32_relocatable_grains : forall grains g,
  In g (relocatableGrains grains) <-> In g grains /\ gdisabled g = false.
Proof. exact relocatable_iff. Qed.

(* allocateGrains: for every totalPeers >= 1 (including fewer grains than targets) the leader share
   followed by peer shares 1.. is the input, and there are never more shares than targets *)
Theorem C32_grains_exactly_once : forall (totalPeers : Z) (grains : list wgrain),
  1 <= totalPeers ->
  let '(leader, shares) := allocateGrains totalPeers grains in
  leader ++ concat (tl shares) = grains /\ (length shares <= Z.to_nat totalPeers)%nat.
Proof.
  intros t g Ht. pose proof (allocateGrains_exact t g Ht) as H1. pose proof (allocateGrains_count t g Ht) as H2.
  destruct (allocateGrains t g) as [l s]. split; [exact H1|]. simpl in H2. rewrite H2.
  destruct (_ =? 0); auto with arith.
Qed.

(* Chunkify loses and duplicates nothing and respects the chunk size *)
Theorem C32_chunkify : forall (l : list wactor) size, 1 <= size ->
  concat (chunkify l size) = l /\ Forall (fun c => 1 <= Z.of_nat (length c) <= size) (chunkify l size).
Proof. intros l size H. split; [apply chunkify_concat|apply chunkify_sizes]; exact H. Qed.

(* the complete plan of relocationWorker.relocate *)
Theorem C32_plan_actors_exactly_once : forall leaderRoles peersRoles actors grainsInOrder baseLoads,
  let pl := relocationPlan leaderRoles peersRoles actors grainsInOrder baseLoads in
  Permutation (pl_leaderActors pl ++ concat (map peer_actors (pl_peers pl)) ++ pl_unplaceable pl) actors.
Proof. exact plan_actors. Qed.

Theorem C32_plan_grains_exactly_once : forall leaderRoles peersRoles actors grainsInOrder baseLoads,
  let pl := relocationPlan leaderRoles peersRoles actors grainsInOrder baseLoads in
  pl_leaderGrains pl ++ concat (map peer_grains (pl_peers pl)) = relocatableGrains grainsInOrder.
Proof. exact plan_grains. Qed.

Theorem C32_plan_targets_exist : forall leaderRoles peersRoles actors grainsInOrder baseLoads,
  let pl := relocationPlan leaderRoles peersRoles actors grainsInOrder baseLoads in
  NoDup (map fst (pl_peers pl)) /\ Forall (fun pi => (pi < length peersRoles)%nat) (map fst (pl_peers pl)).
Proof. exact plan_peer_indices. Qed.

Theorem C32_plan_peer_roles : forall leaderRoles peersRoles actors grainsInOrder baseLoads pi reqs a,
  let pl := relocationPlan leaderRoles peersRoles actors grainsInOrder baseLoads in
  In (pi, reqs) (pl_peers pl) -> In a (concat (map rq_actors reqs)) ->
  asingle a = false /\ eligibleForRole (nth pi peersRoles []) (arole a) = true.
Proof. exact plan_peer_roles. Qed.

Theorem C32_plan_batches_bounded : forall leaderRoles peersRoles actors grainsInOrder baseLoads pi reqs,
  let pl := relocationPlan leaderRoles peersRoles actors grainsInOrder baseLoads in
  In (pi, reqs) (pl_peers pl) ->
  Forall (fun rq => 1 <= Z.of_nat (length (rq_actors rq) + length (rq_grains rq)) <= batchSize) reqs.
Proof. exact plan_batches_bounded. Qed.

(* redistribution after a survivor became unreachable keeps the rules *)
Theorem C32_reassign_partition : forall requests survivorsRoles leaderRoles,
  let '(shares, leader, grains, failed) := reassignByRole requests survivorsRoles leaderRoles in
  length shares = length survivorsRoles /\
  Permutation (concat shares ++ leader ++ failed) (concat (map rq_actors requests)) /\
  grains = concat (map rq_grains requests).
Proof.
  intros rq sr lr. pose proof (reassign_shares_length rq sr lr). pose proof (reassign_partition rq sr lr).
  pose proof (reassign_grains rq sr lr).
  destruct (reassignByRole rq sr lr) as [[[sh le] gr] fa]. repeat split; assumption.
Qed.

Theorem C32_reassign_roles : forall requests survivorsRoles leaderRoles i a,
  let '(shares, leader, _, failed) := reassignByRole requests survivorsRoles leaderRoles in
  (In a (nth i shares []) -> eligibleForRole (nth i survivorsRoles []) (arole a) = true) /\
  (In a leader <-> In a (concat (map rq_actors requests)) /\
                   (forall j, (j < length survivorsRoles)%nat -> eligibleForRole (nth j survivorsRoles []) (arole a) = false) /\
                   eligibleForRole leaderRoles (arole a) = true) /\
  (In a failed <-> In a (concat (map rq_actors requests)) /\
                   (forall j, (j < length survivorsRoles)%nat -> eligibleForRole (nth j survivorsRoles []) (arole a) = false) /\
                   eligibleForRole leaderRoles (arole a) = false).
Proof.
  intros rq sr lr i a. pose proof (reassign_share_roles rq sr lr i a).
  pose proof (reassign_leader_iff rq sr lr a). pose proof (reassign_failed_iff rq sr lr a).
  destruct (reassignByRole rq sr lr) as [[[sh le] gr] fa]. repeat split; try tauto.
Qed.

Theorem C32_reassign_least_loaded : forall requests survivorsRoles leaderRoles p a s,
  concat (map rq_actors requests) = p ++ a :: s ->
  let shares := fst (fst (fst (reassignByRole requests survivorsRoles leaderRoles))) in
  let before := rs_shares (reassign_run survivorsRoles leaderRoles p) in
  forall b, argmin_spec (fun i => eligibleForRole (nth i survivorsRoles []) (arole a))
                        (fun i => Z.of_nat (length (nth i before []))) (length survivorsRoles) (Some b) ->
            In a (nth b shares []).
Proof. exact reassign_least_loaded. Qed.

(* the round-robin spread of redistributed grains over k >= 1 survivors *)
Theorem C32_spread_exactly_once : forall k (grains : list wgrain), (0 < k)%nat ->
  length (spread k grains) = k /\ Permutation (concat (spread k grains)) grains.
Proof. intros. apply spread_perm. assumption. Qed.

(* the quotient/remainder arithmetic goq regenerates from actor/relocation_worker.go on every run is the
   model's, for every Go-int grain count and every totalPeers >= 1 *)
Theorem C32_grain_arithmetic_from_source : forall grainCount totalPeers,
  0 <= grainCount <= max_i64 -> 1 <= totalPeers ->
  allocateGrains_quotient grainCount totalPeers = ag_quotient grainCount totalPeers /\
  allocateGrains_remainder grainCount totalPeers = ag_remainder grainCount totalPeers.
Proof.
  intros n t Hn Ht. split; [apply generated_quotient_is_model|apply generated_remainder_is_model]; assumption.
Qed.

(* the survivors of a failed share are the peers other than its target, whatever failed before *)
Theorem C32_survivors : forall peers target x,
  (In x (survivingPeersExcept peers target) <-> In x peers /\ x <> target) /\
  (forall t2, survivingPeersExcept (survivingPeersExcept peers target) t2 =
              survivingPeersExcept (survivingPeersExcept peers t2) target).
Proof. intros. split; [apply survivors_spec|intros; apply survivors_commute]. Qed.

Print Assumptions C32_actors_partition.
Print Assumptions C32_assigned_target_advertises_role.
Print Assumptions C32_unplaceable_iff_no_target.
Print Assumptions C32_singletons_to_leader.
Print Assumptions C32_least_loaded.
Print Assumptions C32_relocatable_grains.
Print Assumptions C32_grains_exactly_once.
Print Assumptions C32_chunkify.
Print Assumptions C32_plan_actors_exactly_once.
Print Assumptions C32_plan_grains_exactly_once.
Print Assumptions C32_plan_targets_exist.
Print Assumptions C32_plan_peer_roles.
Print Assumptions C32_plan_batches_bounded.
Print Assumptions C32_reassign_partition.
Print Assumptions C32_reassign_roles.
Print Assumptions C32_reassign_least_loaded.
Print Assumptions C32_spread_exactly_once.
Print Assumptions C32_grain_arithmetic_from_source.
Print Assumptions C32_survivors.
