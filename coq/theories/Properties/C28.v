(* C28 — Concurrent remote asks each get their own reply.
   Statements only. Model: C28/Model.v — the connection pool of internal/net/client.go (idle LIFO stack,
   Get pops or dials, Put pushes below maxIdle else closes, every error path Discards), one exchange per
   checked-out connection (SendProtoWithMetadata: one frame out, one frame in; SendBatchProto: n out, then n
   in), and the server's strictly sequential per-connection loop with handlers of arbitrary latency, over
   FIFO byte streams. [reach mi s]: s is reachable by some interleaving of any number of callers, server
   steps, failures (deadline expiry, cancellation, decode error = LFail at any point) and evictions, with
   pool bound mi. The response to request r carries r. *)
From Coq Require Import List Arith.
From GV Require Import C28.Model C28.Proofs.
Import ListNotations.

(* Every call that returns successfully returns the responses to its OWN requests, in request order
   (one response for SendProto, n for SendBatchProto) — whatever other callers, late server replies on
   discarded connections and pool reuse do. *)
Theorem C28_own_reply : forall mi s t reqs res, reach mi s ->
  In (t, reqs, Some res) (completed s) -> res = reqs.
Proof. exact own_reply. Qed.

(* Checkout is exclusive: a connection is held by at most one caller and is not in the pool meanwhile. *)
Theorem C28_exclusive_checkout : forall mi s t1 t2 c, reach mi s -> holds s t1 c -> holds s t2 c -> t1 = t2.
Proof. exact exclusive. Qed.

Theorem C28_held_not_pooled : forall mi s t c, reach mi s -> holds s t c -> ~ In c (idle s).
Proof. exact held_not_idle. Qed.

(* Every pooled connection is clean: no request awaiting a response, no unread response bytes, not closed;
   and the pool holds no connection twice. *)
Theorem C28_idle_clean : forall mi s c, reach mi s -> In c (idle s) -> clean (conns s c) /\ NoDup (idle s).
Proof. exact idle_clean. Qed.

Theorem C28_pool_bound : forall mi s, reach mi s -> length (idle s) <= mi.
Proof. exact pool_bound. Qed.

(* An error path closes the connection it used, and a closed connection is never pooled again. *)
Theorem C28_fail_closes : forall mi s t s' c, holds s t c -> step mi s (LFail t) = Some s' ->
  cclosed (conns s' c) = true.
Proof. exact fail_closes. Qed.

Theorem C28_discarded_never_pooled : forall mi s c, reach mi s -> c < nconn s -> cclosed (conns s c) = true ->
  forall ls s', run mi s ls = Some s' -> ~ In c (idle s').
Proof. exact discarded_stays_out. Qed.

Print Assumptions C28_own_reply.
Print Assumptions C28_exclusive_checkout.
Print Assumptions C28_held_not_pooled.
Print Assumptions C28_idle_clean.
Print Assumptions C28_pool_bound.
Print Assumptions C28_fail_closes.
Print Assumptions C28_discarded_never_pooled.
