(* C48 — The TTL map behaves like a map with per-key expiry.
   Statements only; the model is C48/Model.v (internal/xsync/ttlmap.go), proofs are in C48/Proofs.v.

   A history is a chronological list of (clock reading, operation); [mono lo h] says the readings
   never decrease (and are >= lo); [run ttl h init] is the state of the map after the history. *)
From Coq Require Import ZArith.
From stdpp Require Import gmap.
From GV Require Import C48.Model C48.Proofs.
Open Scope Z_scope.

(* Get returns the last value Set for the key exactly when that Set happened less than the TTL ago
   and no later Delete of the key or Reset intervened — for every history of Set/Get/Delete/Reset/
   Len/ActiveLen with a non-decreasing clock, every ttl (also <= 0), every key. *)
Theorem C48_get_agrees_with_history : forall ttl h lo now k,
  mono lo h -> last_time lo h <= now ->
  fst (get_op now k (run ttl h init)) = literal_get ttl now k h.
Proof. exact get_agrees_with_history. Qed.

(* the same through the specification map key -> (value, expireAt) *)
Theorem C48_get_agrees_with_spec_map : forall ttl h lo now k,
  mono lo h -> last_time lo h <= now ->
  fst (get_op now k (run ttl h init)) = spec_get now k (spec_run ttl h ∅).
Proof.
  intros ttl h lo now k Hm Hle. eapply get_R; [|exact Hle]. apply run_R; [apply R_init|exact Hm].
Qed.

(* the simulation relation is preserved by every operation made at a clock reading >= the watermark *)
Theorem C48_simulation_preserved : forall ttl lo now o s m,
  R lo s m -> lo <= now -> R now (fst (step ttl now o s)) (spec_step ttl now o m).
Proof. exact step_R. Qed.

(* eviction keeps the structure well formed and only drops mappings that have expired *)
Theorem C48_evict_never_loses_live : forall now s,
  WF s ->
  WF (evict now s) /\
  forall k, view (evict now s) !! k = view s !! k \/
            (view (evict now s) !! k = None /\ exists v e, view s !! k = Some (v, e) /\ e <= now).
Proof. intros now s Hs. destruct (evict_spec now s Hs) as (H1 & _ & _ & H2). split; assumption. Qed.

(* compaction (either path) denotes exactly the same key -> (value, expireAt) map: nothing live is
   lost, nothing deleted or lazily dropped is revived *)
Theorem C48_compact_preserves_content : forall s,
  WF s -> WF (maybe_compact s) /\ view (maybe_compact s) = view s.
Proof. exact maybe_compact_spec. Qed.

(* the O(1) test of the fast path is sound: equal counts mean the region has no holes, so the bulk
   copy and the filtering loop produce the same slice *)
Theorem C48_fast_path_no_holes : forall s,
  WF s -> fast_path s = true ->
  keep_mapped (items s) (head s) (drop (head s) (order s)) = drop (head s) (order s).
Proof. exact fast_path_no_holes. Qed.

(* the slow path as written in Go (kept slots are written into the prefix of the same slice while the
   loop still reads ahead) computes the functional filter used in the model: maybeCompact only runs it
   with head > 0, so a slot is never overwritten before it is read *)
Theorem C48_slow_path_in_place : forall s,
  (0 < head s)%nat ->
  slow_inplace s = keep_mapped (items s) (head s) (drop (head s) (order s)).
Proof. exact slow_inplace_keep_mapped. Qed.

(* ActiveLen returns the number of keys that are live according to the specification *)
Theorem C48_active_len_counts_live : forall ttl h lo now,
  mono lo h -> last_time lo h <= now ->
  fst (active_len_op now (run ttl h init)) = size (filter (live_at now) (spec_run ttl h ∅)).
Proof. exact active_len_counts_live. Qed.

(* the clock hypothesis cannot be dropped: with a clock that steps back the map has already
   forgotten an entry the history still calls live *)
Theorem C48_backward_clock_revives :
  fst (get_op 25 1 (run 10 backward_history init)) = None /\
  literal_get 10 25 1 backward_history = Some 7.
Proof. exact backward_clock_revives. Qed.

Print Assumptions C48_get_agrees_with_history.
Print Assumptions C48_get_agrees_with_spec_map.
Print Assumptions C48_simulation_preserved.
Print Assumptions C48_evict_never_loses_live.
Print Assumptions C48_compact_preserves_content.
Print Assumptions C48_fast_path_no_holes.
Print Assumptions C48_slow_path_in_place.
Print Assumptions C48_active_len_counts_live.
Print Assumptions C48_backward_clock_revives.
