(* C39 — Replicas that apply the same updates converge.  Statements only; proofs in C39/Proofs.v
   over the executable model C38/Model.v + C39/Model.v. *)
From stdpp Require Import gmap.
From Coq Require Import ZArith.
From GV Require Import C38.Model C38.Exec C38.Proofs C38.Proofs2 C38.Proofs3 C39.Model C39.Proofs.

(* For ANY join (commutative, associative, idempotent on a merge-closed class U of states): two
   receivers that start from the same state and receive the same SET of states — any order, any
   duplication, any length — end in the same state, and it is the receiver's state joined with the
   join of everything sent. *)
Theorem C39_any_join_converges : ∀ (C : Type) (j : C → C → C) (U : C → Prop),
  (∀ a b, U a → U b → U (j a b)) → (∀ a b, U a → U b → j a b = j b a) →
  (∀ a b c, U a → U b → U c → j (j a b) c = j a (j b c)) → (∀ a, U a → j a a = a) →
  ∀ x l1 l2, U x → Forall U l1 → Forall U l2 → (∀ y, y ∈ l1 ↔ y ∈ l2) →
  joinl j x l1 = joinl j x l2.
Proof. intros C j U H1 H2 H3 H4. exact (joinl_same_set j U H1 H2 H3 H4). Qed.

Theorem C39_any_join_is_join_of_sent : ∀ (C : Type) (j : C → C → C) (U : C → Prop),
  (∀ a b, U a → U b → U (j a b)) → (∀ a b, U a → U b → j a b = j b a) →
  (∀ a b c, U a → U b → U c → j (j a b) c = j a (j b c)) → (∀ a, U a → j a a = a) →
  ∀ x y l, U x → U y → Forall U l → joinl j x (y :: l) = j x (joinl j y l).
Proof. intros C j U H1 H2 H3 H4. exact (joinl_is_join j U H1 H2 H3 H4). Qed.

(* The replicator's per-key store (first arrival stored as is, later arrivals merged). *)
Theorem C39_replicator_store_converges : ∀ (C : Type) (j : C → C → C) (U : C → Prop),
  (∀ a b, U a → U b → U (j a b)) → (∀ a b, U a → U b → j a b = j b a) →
  (∀ a b c, U a → U b → U c → j (j a b) c = j a (j b c)) → (∀ a, U a → j a a = a) →
  ∀ (cur : option C) l1 l2, from_option U True cur → Forall U l1 → Forall U l2 → l1 ≠ [] →
  (∀ y, y ∈ l1 ↔ y ∈ l2) → recvl j cur l1 = recvl j cur l2.
Proof. intros C j U H1 H2 H3 H4. exact (recvl_same_set j U H1 H2 H3 H4). Qed.

(* GCounter (and each half of a PNCounter), full states. *)
Theorem C39_gcounter_full_state : ∀ (x : gmap N N) (l1 l2 : list (gmap N N)),
  (∀ y, y ∈ l1 ↔ y ∈ l2) → joinl cmax x l1 = joinl cmax x l2.
Proof. exact g_full_state_converges. Qed.

(* GCounter deltas: any history of increments and ship points (Delta; ResetDelta) of an originator,
   its deltas applied in any order with any duplication => receiver = own state ⊔ originator's full
   state. Guard: no node count overflowed uint64. *)
Theorem C39_gcounter_delta_partial : ∀ ops (b : gmap N N) (ds' : list gcounter),
  g_nowrap g_new (ops ++ [GShip]) →
  let r := g_run g_new (ops ++ [GShip]) [] in
  (∀ d, d ∈ ds' ↔ d ∈ r.2) →
  joinl cmax b (g_state <$> ds') = cmax b (g_state r.1).
Proof. exact g_delta_converges. Qed.
Theorem C39_gcounter_delta_wrap_refuted : ∃ ops,
  let r := g_run g_new (ops ++ [GShip]) [] in
  joinl cmax ∅ (g_state <$> r.2) ≠ cmax ∅ (g_state r.1).
Proof. exact g_delta_wrap_refuted. Qed.

(* PNCounter deltas: same statement for both halves. *)
Theorem C39_pncounter_delta_partial : ∀ ops (bi bd : gmap N N) (ds' : list pncounter),
  p_nowrap p_new (ops ++ [PShip]) →
  let r := p_run p_new (ops ++ [PShip]) [] in
  (∀ d, d ∈ ds' ↔ d ∈ r.2) →
  joinl cmax bi ((λ d, g_state (p_inc d)) <$> ds') = cmax bi (g_state (p_inc r.1)) ∧
  joinl cmax bd ((λ d, g_state (p_dec d)) <$> ds') = cmax bd (g_state (p_dec r.1)).
Proof. exact p_delta_converges. Qed.

(* ORSet, full-state shipping: converges (reachable states are well formed). *)
Theorem C39_orset_full_state_partial : ∀ (x : orset) (l1 l2 : list orset),
  Forall s_reach l1 → Forall s_reach l2 → (∀ y, y ∈ l1 ↔ y ∈ l2) →
  sc_of (joinl s_merge x l1) = sc_of (joinl s_merge x l2).
Proof.
  intros x l1 l2 H1 H2 Hs.
  rewrite !s_joinl_core by (eapply Forall_impl; eauto using s_reach_wf).
  apply s_full_state_converges. intros y. rewrite !elem_of_list_fmap.
  split; intros [d [-> Hd]]; exists d; (split; [reflexivity|]); apply Hs; exact Hd.
Qed.

(* ORSet, delta shipping: the literal statement is FALSE even for in-order delivery. *)
Theorem C39_orset_delta_refuted : ∃ ops,
  let r := s_run s_new ops [] in
  s_elements (joinl s_merge s_new r.2) ≠ s_elements (s_merge s_new r.1).
Proof. exact s_delta_in_order_refuted. Qed.
Theorem C39_orset_delta_add_remove_refuted : ∃ ops,
  let r := s_run s_new ops [] in
  s_elements (joinl s_merge s_new r.2) ≠ s_elements (s_merge s_new r.1).
Proof. exact s_delta_add_remove_refuted. Qed.

(* Flag, LWWRegister, MVRegister, ORMap ship their whole state as the delta after a local operation. *)
Theorem C39_delta_is_full_state :
  (∀ r v ts n, l_deltaOf (l_set r v ts n) = Some (l_set r v ts n)) ∧
  (∀ r n v, mv_deltaOf (mv_set r n v) = Some (mv_set r n v)) ∧
  (∀ x, f_enabled x = false → f_deltaOf (f_enable x) = Some (f_enable x)) ∧
  (∀ (V : Type) (vm : V → V → V) (m : ormap V) n k v, m_deltaOf (m_set vm m n k v) = Some (m_set vm m n k v)) ∧
  (∀ (V : Type) (m : ormap V) k, s_contains (m_keys m) k = true → m_deltaOf (m_remove m k) = Some (m_remove m k)).
Proof. exact delta_is_full_state_after_local_op. Qed.

(* MVRegister: in any system of replicas (each its own node id; H = every state ever produced, i.e. every
   possible delta/full state on the network), receivers of the same set of states converge. *)
Theorem C39_mvregister_converges : ∀ cur H, mv_sys cur H →
  ∀ (x : mvreg) (l1 l2 : list mvreg), x ∈ H → (∀ y, y ∈ l1 → y ∈ H) → (∀ y, y ∈ l2 → y ∈ H) → (∀ y, y ∈ l1 ↔ y ∈ l2) →
  mvc_of (joinl mv_merge x l1) = mvc_of (joinl mv_merge x l2).
Proof.
  intros cur H Hs x l1 l2 Hx H1 H2 Hset. destruct (mv_sys_inv cur H Hs) as [Iwf _ Icoh _].
  assert (∀ s, s ∈ H → mv_wf s) as Fwf by (intros s Hs'; apply (Iwf s Hs')).
  rewrite !mv_joinl_core by (apply Forall_forall; auto).
  apply (mv_family_converges H Icoh).
  - apply mvU_of; auto.
  - intros y Hy. apply elem_of_list_fmap in Hy as [s [-> Hs']]. apply mvU_of; auto.
  - intros y Hy. apply elem_of_list_fmap in Hy as [s [-> Hs']]. apply mvU_of; auto.
  - intros y. rewrite !elem_of_list_fmap. split; intros [s [-> Hs']]; exists s; (split; [reflexivity|]); apply Hset; exact Hs'.
Qed.

(* LWWRegister: same, for replicas whose timestamps strictly increase per node. *)
Theorem C39_lww_converges : ∀ cur H, l_sys cur H →
  ∀ (x : lww) (l1 l2 : list lww), x ∈ H → (∀ y, y ∈ l1 → y ∈ H) → (∀ y, y ∈ l2 → y ∈ H) → (∀ y, y ∈ l1 ↔ y ∈ l2) →
  joinl lc_merge (l_core x) (l_core <$> l1) = joinl lc_merge (l_core x) (l_core <$> l2).
Proof.
  intros cur H Hs x l1 l2 Hx H1 H2 Hset. destruct (l_sys_inv cur H Hs) as [Icoh _].
  apply (l_family_converges H Icoh).
  - exists x. auto.
  - intros y Hy. apply elem_of_list_fmap in Hy as [s [-> Hs']]. exists s. auto.
  - intros y Hy. apply elem_of_list_fmap in Hy as [s [-> Hs']]. exists s. auto.
  - intros y. rewrite !elem_of_list_fmap. split; intros [s [-> Hs']]; exists s; (split; [reflexivity|]); apply Hset; exact Hs'.
Qed.

(* ORMap: the literal statement is FALSE (same root as C38_ormap_assoc_refuted): three full states received in
   two different orders expose different nested values.  Key sets still converge (C38_ormap_join_partial). *)
Theorem C39_ormap_order_refuted : ∃ a b c : ormap val0,
  value1 (joinl merge1 m_new [a; b; c]) ≠ value1 (joinl merge1 m_new [b; c; a]).
Proof. exists w_a, w_b, w_c. exact ormap_order_refuted. Qed.

Print Assumptions C39_any_join_converges.
Print Assumptions C39_any_join_is_join_of_sent.
Print Assumptions C39_replicator_store_converges.
Print Assumptions C39_gcounter_full_state.
Print Assumptions C39_gcounter_delta_partial.
Print Assumptions C39_gcounter_delta_wrap_refuted.
Print Assumptions C39_orset_full_state_partial.
Print Assumptions C39_orset_delta_refuted.
Print Assumptions C39_orset_delta_add_remove_refuted.
Print Assumptions C39_delta_is_full_state.
Print Assumptions C39_mvregister_converges.
Print Assumptions C39_lww_converges.
Print Assumptions C39_ormap_order_refuted.
Print Assumptions C39_pncounter_delta_partial.
