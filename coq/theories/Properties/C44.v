(* C44 — Work-pulling delivers every job to some worker.
   Statements only; model in C44/Model.v (mirrors actor/reliable_delivery_work_pulling_controller.go, volatile
   work queue), proofs in C44/Proofs.v. Quantification: EVERY finite input sequence [ins] to the controller's
   Receive — registrations of any companion of any worker endpoint at any time (join, re-join under a new
   incarnation), Terminated notices at any time (leave), any Request/Ack (stale, duplicated, reordered, out of
   range), any producer-endpoint message, any tick. [wrun] folds the controller's step function.
   The guard [w_failed s = false] excludes only the states after the controller's own terminal failure. *)
From Coq Require Import ZArith List Bool Permutation.
From GV Require Import C42.Model C44.Model C44.Lemmas C44.Proofs.
From GV Require C44.Examples.
Import ListNotations.
Open Scope Z_scope.

(* Conservation: the jobs accepted through the producer handshake are, as a multiset, exactly the pending pool
   plus every live binding's unconfirmed list plus the jobs confirmed so far. *)
Theorem C44_conservation : forall sess notify ins,
  let s := wrun (w_init sess notify) ins in
  w_failed s = false ->
  Permutation (w_accepted s) ((w_pending s ++ unconf_jobs (w_bindings s)) ++ w_confirmed s).
Proof. intros. apply (wc_cons _ (wrun_core sess notify ins)). assumption. Qed.

(* ... and they carry pairwise distinct store sequences, so every accepted job sits in exactly one of pending /
   some binding's unconfirmed / confirmed, and is confirmed to the producer at most once. *)
Theorem C44_exactly_one_place : forall sess notify ins,
  let s := wrun (w_init sess notify) ins in
  w_failed s = false ->
  NoDup (map snd ((w_pending s ++ unconf_jobs (w_bindings s)) ++ w_confirmed s)).
Proof.
  intros. pose proof (wrun_core sess notify ins) as C. eapply Permutation_NoDup; [|apply (wc_acc_nodup _ C)].
  apply Permutation_map. apply (wc_cons _ C). assumption.
Qed.

(* Structure: the bindings map and bindingOrder hold the same names, each once; the round-robin cursor stays
   within range and bindingOrder is never indexed out of range; every binding's unconfirmed list is the
   contiguous run (confirmedSeq, currentSeq] of its worker sequence space. *)
Theorem C44_structure : forall sess notify ins,
  let s := wrun (w_init sess notify) ins in
  NoDup (names (w_bindings s)) /\ NoDup (w_order s) /\ (forall n, In n (w_order s) <-> In n (names (w_bindings s))) /\
  (w_next s <= length (w_order s))%nat /\ w_panic s = false /\
  forall b, In b (w_bindings s) ->
    0 <= b_conf b /\ b_cur b = b_conf b + Z.of_nat (length (b_unconf b)) /\
    map d_wseq (b_unconf b) = zseq (b_conf b) (length (b_unconf b)).
Proof.
  intros. destruct (wrun_core sess notify ins) as [C1 C2 C3 C4 C5 C6 C7 C8 C9 C10].
  split; [exact C1|]. split; [exact C2|]. split; [exact C3|]. split; [exact C4|]. split; [exact C5|exact C7].
Qed.

(* No accepted job waits while a live binding has free demand: after every step either the pending pool is empty
   or no binding can take another message (so a job requeued from a stopped worker is with another worker at once
   whenever one has demand). *)
Theorem C44_no_stuck_work : forall sess notify ins,
  let s := wrun (w_init sess notify) ins in
  w_failed s = false -> w_pending s = [] \/ agg_free s = 0.
Proof. intros. apply (wrun_stuckfree sess notify ins). assumption. Qed.

(* A stopped worker's unconfirmed jobs go back to the FRONT of the pending pool in their order, its binding and its
   bindingOrder entry disappear; the Terminated handler is exactly this followed by dispatch. *)
Theorem C44_requeue_front : forall s ctrl b,
  find_ctrl ctrl (w_bindings s) = Some b -> w_failed s = false -> NoDup (names (w_bindings s)) ->
  wp_step s (WTerminated ctrl) = w_progress (w_end_binding s (b_name b)) /\
  w_pending (w_end_binding s (b_name b)) = map job_of (b_unconf b) ++ w_pending s /\
  lookup (b_name b) (w_bindings (w_end_binding s (b_name b))) = None /\
  ~ In (b_name b) (w_order (w_end_binding s (b_name b))).
Proof. exact requeue_front. Qed.

Print Assumptions C44_conservation.
Print Assumptions C44_exactly_one_place.
Print Assumptions C44_structure.
Print Assumptions C44_no_stuck_work.
Print Assumptions C44_requeue_front.
