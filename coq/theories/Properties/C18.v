(** C18 — undeliverable messages surface as dead letters exactly once.

    [run cap ops init] is the state after an ARBITRARY list of atomic steps (droppers of every cause, the
    coalescer's error handler, the drain goroutine, the dead-letter actor), each with arbitrary environment
    readings; [cap] is the capacity of the fan-out channel.  [spec_drops ops] is what the property demands:
    one letter (message, sender, receiver) per accepted-then-dropped message. *)
From Coq Require Import List Bool Arith Permutation.
From GV Require Import C18.Model C18.Proofs.
Import ListNotations.

(** The dead-letter count equals the number of dead letters published (plus nothing else: [replays] are the
    events the PublishDeadletters command re-publishes, which no production code path sends). *)
Theorem C18_counter_matches_published : forall cap ops,
  let s := run cap ops init in counter s + length (replays s) = length (published s).
Proof. exact counter_matches_published. Qed.

Theorem C18_counter_is_number_published : forall cap ops,
  existsb is_publish_all ops = false ->
  let s := run cap ops init in counter s = length (published s).
Proof. exact counter_is_number_published. Qed.

(** The counter only changes in the handler that publishes, and by the number of fresh events. *)
Theorem C18_counter_changes_only_when_publishing : forall cap s o,
  counter (step cap s o) = counter s + (length (published (step cap s o)) - length (published s))
                           - (length (replays (step cap s o)) - length (replays s)).
Proof. exact counter_changes_only_when_publishing. Qed.

(** Per-receiver counters (ActorMetric.DeadlettersCount) count exactly the letters published for that receiver. *)
Theorem C18_per_receiver_counter : forall cap ops a,
  let s := run cap ops init in getc a (percount s) + count_to a (replays s) = count_to a (published s).
Proof. exact per_receiver_counter. Qed.

(** Accounting, unconditional: identified by (message, receiver), every dropped message is exactly one of
    published / still on its way / lost in a branch the code names — and nothing else is ever published except
    the second letter of an Ask whose enqueue failed ([dups]) and replays. *)
Theorem C18_accounting : forall cap ops,
  let s := run cap ops init in
  Permutation (map key_of (published s ++ pending s ++ map snd (lost s)))
              (map key_of (spec_drops ops ++ dups s ++ replays s)).
Proof. exact accounting_keys. Qed.

(** The property, with the explicit guard [run_ok] (stream attached, dead-letter actor and guardian running,
    not shutting down, fan-out queue present and not full, receiver and sender strings parseable, payload
    decodable, no Ask timeout after a failed enqueue): nothing lost, nothing duplicated, whole letters. *)
Theorem C18_partial : forall cap ops,
  run_ok cap ops init = true ->
  let s := run cap ops init in
  lost s = [] /\ dups s = [] /\
  Permutation (published s ++ pending s) (spec_drops ops ++ replays s).
Proof. exact guarded_accounting. Qed.

Theorem C18_exactly_once_partial : forall cap ops,
  run_ok cap ops init = true ->
  existsb is_publish_all ops = false ->
  let s := run cap ops init in
  quiescent s ->
  Permutation (published s) (spec_drops ops) /\ counter s = length (spec_drops ops) /\
  (NoDup (spec_drops ops) -> forall l, In l (spec_drops ops) -> count_occ letter_eq_dec (published s) l = 1).
Proof. exact guarded_exactly_once_at_quiescence. Qed.

(** From every state the drain goroutine and the dead-letter actor alone reach quiescence. *)
Theorem C18_quiescence_reachable : forall cap (e : env) s,
  exists ops', Forall (fun o => match o with ODrainTake | ODrainMsg _ | ODLStep => True | _ => False end) ops'
               /\ quiescent (run cap ops' s).
Proof. exact quiescence_reachable. Qed.

(** Which messages: everything except PostStart / Terminated / SendDeadletter — including the reentrancy
    envelopes AsyncRequest / AsyncResponse refused by a full mailbox — is handed to the dead-letter actor. *)
Theorem C18_every_non_excluded_kind_is_dead_lettered : forall cap s e snd r k mid,
  excluded k = false -> e_dl e = true ->
  step cap s (OLocal e true snd (Some r) k mid) = send_dl (mid, sender_of snd, r) s
  /\ spec_op (OLocal e true snd (Some r) k mid) = [(mid, sender_of snd, r)].
Proof. exact local_drop_sends. Qed.

(** Which target states: a remote tell whose target is registered but stopping / suspended / passivating / not
    running is dead-lettered (and not enqueued); only a target for which IsRunning holds receives it. *)
Theorem C18_remote_tell_target_state : forall cap s e w p r,
  w_payload w = true -> w_meta w = true -> parse (w_to w) = Some r -> e_dl e = true -> e_guard e = true ->
  (is_running p = false ->
     step cap s (ORemote e w (tree_of_state p true)) = send_dl (w_mid w, sender_remote (w_from w), r) s
     /\ spec_op (ORemote e w (tree_of_state p true)) = [intended w])
  /\ (is_running p = true ->
     step cap s (ORemote e w (tree_of_state p true)) = s /\ spec_op (ORemote e w (tree_of_state p true)) = []).
Proof. exact remote_target_state. Qed.

(** The literal property is refuted by the faithful model; each witness is replayed on the real code. *)
Theorem C18_exactly_once_refuted_queue_full :
  exists ops, let s := run 256 ops init in
    quiescent s /\ In (257, 5, 9) (spec_drops ops) /\ inb (257, 5, 9) (published s) = false
    /\ lost s = [(CQueueFull, (257, 5, 9))].
Proof. exact refuted_queue_full_256. Qed.

Theorem C18_exactly_once_refuted_unparseable_receiver :
  exists ops, let s := run 256 ops init in
    quiescent s /\ spec_drops ops = [(1, 13, 9)] /\ published s = [] /\ lost s = [(CRecvParse, (1, 13, 9))].
Proof. exists wit_v6_receiver. destruct refuted_unparseable_receiver as (H1 & H2 & H3 & H4). auto. Qed.

Theorem C18_sender_refuted_unparseable_sender :
  exists ops, spec_drops ops = [(1, 13, 9)] /\ published (run 256 ops init) = [(1, nosender, 9)].
Proof. exists wit_v6_sender. exact refuted_unparseable_sender. Qed.

Theorem C18_once_refuted_ask_enqueue_failure :
  exists ops, let s := run 256 ops init in
    spec_drops ops = [(1, 5, 2)] /\ published s = [(1, 5, 2); (1, 5, 2)] /\ counter s = 2.
Proof. exists wit_ask_twice. exact refuted_ask_twice. Qed.

Print Assumptions C18_counter_matches_published.
Print Assumptions C18_counter_is_number_published.
Print Assumptions C18_counter_changes_only_when_publishing.
Print Assumptions C18_per_receiver_counter.
Print Assumptions C18_accounting.
Print Assumptions C18_partial.
Print Assumptions C18_exactly_once_partial.
Print Assumptions C18_quiescence_reachable.
Print Assumptions C18_exactly_once_refuted_queue_full.
Print Assumptions C18_exactly_once_refuted_unparseable_receiver.
Print Assumptions C18_sender_refuted_unparseable_sender.
Print Assumptions C18_once_refuted_ask_enqueue_failure.
Print Assumptions C18_every_non_excluded_kind_is_dead_lettered.
Print Assumptions C18_remote_tell_target_state.
