(* C29 — Per-message context metadata is restored on the receiver.
   Statements only; model in C29/Model.v (sender: injectMessageMetadata / enrichContext keep the first value
   of every header key in a map; receiver: messageMetadata / extractContextWithPropagator rebuild an
   http.Header with Header.Set in map-iteration order, per message of a batch, from the same request-level
   context), proofs in C29/Proofs.v. [order] is the receiver's map iteration order (any permutation). *)
From Coq Require Import List String Permutation.
From GV Require Import C29.Model C29.Proofs.
Import ListNotations.

(* For every header map whose keys stay distinct after canonicalisation and every iteration order, the header
   set handed to Extract is exactly canon(first values of the injected headers). *)
Theorem C29_restored_is_canon_first_values : forall (m order : md),
  Permutation order m -> NoDup (map (fun p => canon (fst p)) m) ->
  forall K v, lookup K (restore order) = Some v <-> exists k, In (k, v) m /\ canon k = K.
Proof. exact restore_exact. Qed.

(* With one value per key and canonical keys (what Header.Set produces) it IS the injected header set. *)
Theorem C29_full : forall (h : hdr) (order : md),
  NoDup (map fst h) ->
  (forall p, In p h -> (exists v, snd p = [v]) /\ canon (fst p) = fst p) ->
  Permutation order (first_values h) ->
  forall K v, lookup K (restore order) = Some v <-> In (K, [v]) h.
Proof. exact restore_full. Qed.

(* For ALL header maps: nothing is restored that was not injected, and no injected key disappears. *)
Theorem C29_sound : forall (m order : md), Permutation order m ->
  forall K v, lookup K (restore order) = Some v -> exists k, In (k, v) m /\ canon k = K.
Proof. exact restore_sound. Qed.

Theorem C29_complete : forall (m order : md) k v, Permutation order m -> In (k, v) m ->
  exists v', lookup (canon k) (restore order) = Some v'.
Proof. exact restore_complete. Qed.

(* For all batchings: every message's receiver context is determined by that message alone — sharing a
   batch with other callers' messages (with or without headers) changes nothing. *)
Theorem C29_batching_invisible : forall ord req batches,
  handle_all ord req batches = map (deliver ord req) (List.concat batches).
Proof. exact handle_all_map. Qed.

Theorem C29_same_messages_same_contexts : forall ord req b1 b2,
  List.concat b1 = List.concat b2 -> handle_all ord req b1 = handle_all ord req b2.
Proof. exact batching_irrelevant. Qed.

Theorem C29_message_context : forall ord req batches i c,
  In (i, c) (handle_all ord req batches) ->
  exists m, In m (List.concat batches) /\ mid m = i /\
            c = match mmd m with [] => req | _ => (req ++ [restore (ord m)])%list end.
Proof. exact message_context. Qed.

(* Wire metadata already attached to the sender's context (an actor relaying while it handles an inbound
   remote message) plays no part: the second hop restores what the propagator injected at the second send. *)
Theorem C29_attached_metadata_ignored : forall a h, enrich a h = first_values h.
Proof. exact enrich_ignores_attached. Qed.

Theorem C29_relayed_send_restores_own_headers : forall ord req inbound id (h2 : hdr),
  NoDup (map fst h2) ->
  (forall p, In p h2 -> (exists v, snd p = [v]) /\ canon (fst p) = fst p) ->
  Permutation (ord (send id h2)) (first_values h2) -> first_values h2 <> [] ->
  exists got, relay_hop ord req inbound id h2 = (id, (req ++ [got])%list) /\
              forall K v, lookup K got = Some v <-> In (K, [v]) h2.
Proof. exact relay_full. Qed.

Print Assumptions C29_attached_metadata_ignored.
Print Assumptions C29_relayed_send_restores_own_headers.
Print Assumptions C29_restored_is_canon_first_values.
Print Assumptions C29_full.
Print Assumptions C29_sound.
Print Assumptions C29_complete.
Print Assumptions C29_batching_invisible.
Print Assumptions C29_same_messages_same_contexts.
Print Assumptions C29_message_context.
