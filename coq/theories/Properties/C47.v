(* C47 — The circuit breaker follows its state machine.
   Statements only.  Model: C47/Model.v (breaker/breaker.go, bucket.go, state.go, options.go);
   proofs: C47/Window.v, C47/Proofs.v, C47/Conc.v.

   Parameters of every theorem: bucket duration bn > 0, bucket count num > 0, minRequests, openTimeout,
   halfOpenMaxCalls cap, and [reached fail total] standing for float64(fail)/float64(total) >= failureRate
   (any function: the theorems hold for whatever the float comparison computes).
   A history is a list of (clock reading, event), events = call start / call completion (ok, fail,
   cancelled; holding a token or not) / Metrics.  [ghost] is the list of (time, success) outcomes recorded
   since the window was last reset by a transition to half-open or closed. *)
From Coq Require Import ZArith.
From stdpp Require Import list.
From GV Require Import C47.Model C47.Window C47.Proofs C47.Conc C47.Publish.
Open Scope Z_scope.

Section C47.
  Variable bn : Z.
  Variable num : nat.
  Variable minReq : Z.
  Variable openTimeout : Z.
  Variable cap : nat.
  Variable reached : Z -> Z -> bool.
  Hypothesis Hbn : 0 < bn.
  Hypothesis Hnum : (0 < num)%nat.

  Notation step := (step bn num minReq openTimeout cap reached).
  Notation run := (run bn num minReq openTimeout cap reached).
  Notation trace := (trace bn num minReq openTimeout cap reached).
  Notation ghost := (ghost bn num minReq openTimeout cap reached).
  Notation ghost_step := (ghost_step bn num minReq openTimeout cap reached).

  (* The totals every decision is taken on are exactly the outcomes recorded since the last reset whose
     time is at or after lastUpdate - (num-1)*bn: the ring of buckets refines the timestamped list, for
     every bucket count, every history with a non-decreasing clock. *)
  Theorem C47_window_totals : forall t0 h,
    mono t0 h ->
    let b := run h (new_breaker num t0) in
    let g := ghost h (new_breaker num t0) [] in
    let c := lastUpdate (win b) - (Z.of_nat num - 1) * bn in
    totals (win b) = (cntge true c g, cntge false c g).
  Proof. exact (window_totals bn num minReq openTimeout cap reached Hbn Hnum). Qed.

  (* ... and that cut-off is "the last window at bucket granularity": after an outcome is recorded or
     Metrics is read at [now], lastUpdate <= now < lastUpdate + bn, i.e. the cut-off lies in
     (now - num*bn, now - (num-1)*bn]. *)
  Theorem C47_window_alignment : forall now e b g tl,
    J bn num b g tl -> tl <= now ->
    (match e with EStart | EDone Cancel _ => False | _ => True end) ->
    let w := win (fst (step now e b)) in lastUpdate w <= now < lastUpdate w + bn.
  Proof. exact (window_alignment bn num minReq openTimeout cap reached Hbn Hnum). Qed.

  (* The state after any event from any state is given by the state-machine table [next_state]:
     closed/half-open --outcome[total >= minRequests and rate reached]--> open;
     open --call start at or after openUntil--> half-open;
     half-open --outcome[total >= minRequests, rate not reached]--> closed; nothing else moves. *)
  Theorem C47_state_machine : forall now e b,
    st (fst (step now e b)) = next_state bn num minReq reached now e b.
  Proof. exact (step_state bn num minReq openTimeout cap reached). Qed.

  (* Closed -> Open exactly when the windowed outcomes reach minRequests and the failure rate. *)
  Theorem C47_opens_exactly_when : forall t0 h now o tok,
    mono t0 h -> last_time t0 h <= now ->
    let b := run h (new_breaker num t0) in
    let g := ghost h (new_breaker num t0) [] in
    st b = Closed ->
    let b' := fst (step now (EDone o tok) b) in
    let g' := ghost_step now (EDone o tok) b g in
    let c := lastUpdate (win b') - (Z.of_nat num - 1) * bn in
    let s := cntge true c g' in
    let f := cntge false c g' in
    (st b' = Open <-> o <> Cancel /\ minReq <= s + f /\ reached f (s + f) = true) /\
    (st b' = Open \/ st b' = Closed).
  Proof. exact (opens_exactly_when bn num minReq openTimeout cap reached Hbn Hnum). Qed.

  (* While open and before openUntil: every call is rejected, whatever else happens (outcomes of calls
     still in flight, Metrics), in any order of clock readings below openUntil. *)
  Theorem C47_open_rejects : forall h b,
    st b = Open -> all_before (openUntil b) h ->
    st (run h b) = Open /\ openUntil (run h b) = openUntil b /\ no_admission (trace h b).
  Proof. exact (open_rejects bn num minReq openTimeout cap reached). Qed.

  (* Half-open exits: with enough samples since half-open began, successful probes close the breaker
     (and the window restarts empty), a reached failure rate reopens it; otherwise it stays half-open. *)
  Theorem C47_halfopen_exits : forall t0 h now o tok,
    mono t0 h -> last_time t0 h <= now ->
    let b := run h (new_breaker num t0) in
    let g := ghost h (new_breaker num t0) [] in
    st b = HalfOpen -> o <> Cancel ->
    let ok := match o with OK => true | _ => false end in
    let b' := fst (step now (EDone o tok) b) in
    let w1 := fst (add bn num now ok (win b)) in
    let c := lastUpdate w1 - (Z.of_nat num - 1) * bn in
    let s := cntge true c (g ++ [(now, ok)]) in
    let f := cntge false c (g ++ [(now, ok)]) in
    st b' = (if s + f <? minReq then HalfOpen else if reached f (s + f) then Open else Closed) /\
    (st b' = Closed -> totals (win b') = (0, 0)).
  Proof. exact (halfopen_exits bn num minReq openTimeout cap reached Hbn Hnum). Qed.

  (* The half-open semaphore never exceeds its capacity, for every history from every state. *)
  Theorem C47_sem_bounded : forall h b, (sem b <= cap)%nat -> (sem (run h b) <= cap)%nat.
  Proof. exact (sem_bounded bn num minReq openTimeout cap reached). Qed.

  (* The counter is the number of probes in flight (tokens granted and not yet returned). *)
  Theorem C47_sem_counts_probes : forall h b n,
    outstanding (sem b) (trace h b) = Some n ->
    sem (run h b) = n /\ ((sem b <= cap)%nat -> (n <= cap)%nat).
  Proof. exact (sem_counts_probes bn num minReq openTimeout cap reached). Qed.

  (* Whoever is admitted by a breaker that is not closed holds a token. *)
  Theorem C47_admitted_without_token_only_when_closed : forall now b,
    snd (try_acquire openTimeout cap now b) = (true, false) -> st b = Closed.
  Proof. exact (admitted_without_token_only_when_closed openTimeout cap). Qed.

  (* Any number of callers interleaved at the breaker's atomic operations, arbitrary clock readings,
     arbitrary concurrent state changes: at most cap callers admitted by a non-closed breaker run the
     protected function at once, and a caller running without a token saw the breaker closed. *)
  Theorem C47_concurrent_probes_bounded : forall sh ts,
    reach cap (sh, ts) ->
    (nprobing ts <= cap)%nat /\
    forall i seen, ts !! i = Some (PInCall false seen) -> seen = Closed.
  Proof. exact (concurrent_probes_bounded cap). Qed.
End C47.

(* transitionTo(Open) stores the deadline before it makes Open visible (tryAcquire reads both without the
   mutex): in every reachable configuration a visible Open comes with the deadline of its own open
   period ... *)
Theorem C47_deadline_armed_before_open_visible : forall s,
  preach true s -> p_st s = Open -> p_until s = p_ghost s.
Proof. exact deadline_armed_before_open_visible. Qed.

(* ... which fails for the opposite order of the two stores. *)
Theorem C47_state_first_refuted :
  exists s, preach false s /\ p_st s = Open /\ p_until s = 0 /\ p_ghost s = 1000.
Proof. exact state_first_shows_open_with_stale_deadline. Qed.

Print Assumptions C47_window_totals.
Print Assumptions C47_window_alignment.
Print Assumptions C47_state_machine.
Print Assumptions C47_opens_exactly_when.
Print Assumptions C47_open_rejects.
Print Assumptions C47_halfopen_exits.
Print Assumptions C47_sem_bounded.
Print Assumptions C47_sem_counts_probes.
Print Assumptions C47_admitted_without_token_only_when_closed.
Print Assumptions C47_concurrent_probes_bounded.
Print Assumptions C47_deadline_armed_before_open_visible.
Print Assumptions C47_state_first_refuted.
