(* C23 — Wire frames round-trip and malformed frames are rejected safely.
   Statements only.  Model: C23/Model.v (byte-level mirror of internal/net proto_serializer.go,
   metadata.go, client.go readProtoFrame/unmarshalProtoResponse, proto_server.go handleConn).
   [known] = "FindMessageType(name) succeeds", [pb_dec name payload] = proto.Unmarshal into a fresh
   message of that type: protobuf itself is a parameter, every theorem holds for ALL such functions. *)
From Coq Require Import NArith ZArith List Bool.
From GV Require Import Lib.Bytes C23.Model C23.Proofs C23.Frames C23.Stream C23.Limits.
Import ListNotations.
Open Scope N_scope.

(* ---- (1) round trip.  The encoders check NO limit; these are exactly the bounds under which the
        uint16/uint32 conversions they apply are the identity. *)

(* metadata: fewer than 2^16 headers, keys and values shorter than 2^16 bytes, any deadline and
   any two clock readings: same headers in the same enumeration order, deadline rebased *)
Theorem C23_metadata_roundtrip : forall now now' m,
  N.of_nat (length (m_hdrs m)) < 65536 -> Forall kv_ok (m_hdrs m) ->
  md_unmarshal now' (md_marshal now m) =
    Ok {| m_hdrs := m_hdrs m; m_deadline := deadline_of now' (remaining_of now (m_deadline m)) |}.
Proof. exact md_roundtrip. Qed.

(* a Go map (distinct keys) enumerated in any order is rebuilt as the same map *)
Theorem C23_headers_same_map : forall h, NoDup (map fst h) -> hdr_map h = h.
Proof. exact hdr_map_nodup. Qed.

(* the deadline the receiver reconstructs is the sender's deadline moved by the difference of the
   two clock readings (one nanosecond earlier when the sender read exactly the deadline instant);
   no deadline stays no deadline *)
Theorem C23_deadline_within_clock_tolerance : forall now now' d,
  in_i64 (d - now) -> in_i64 (d + (now' - now) - 1) -> in_i64 (d + (now' - now)) ->
  deadline_of now' (remaining_of now d) =
    if (d =? 0)%Z then 0%Z else if (d =? now)%Z then (d + (now' - now) - 1)%Z else (d + (now' - now))%Z.
Proof. exact deadline_roundtrip. Qed.

Theorem C23_frame_roundtrip : forall known M pb_dec name payload m,
  0 < blen name -> 8 + blen name + blen payload < 4294967296 ->
  known name = true -> pb_dec name payload = Some m ->
  exists f, marshal name payload = Ok f /\ unmarshal known M pb_dec f = Ok (name, m).
Proof. exact unmarshal_marshal. Qed.

Theorem C23_frame_with_metadata_roundtrip : forall known M pb_dec now now' name payload md m,
  0 < blen name -> md_ok md ->
  12 + blen name + blen (meta_bytes now md) + blen payload < 4294967296 ->
  known name = true -> pb_dec name payload = Some m ->
  exists f, marshal_md now name payload md = Ok f /\
            unmarshal_md known M pb_dec now' f = Ok (name, m, md_received now now' md).
Proof. exact unmarshal_md_marshal_md. Qed.

(* a message without a type name is refused by the encoder *)
Theorem C23_nameless_refused : forall payload, marshal [] payload = Err ErrUnknown.
Proof. exact marshal_noname. Qed.

(* ---- (2) concatenated frames are read back one by one, in order *)
Theorem C23_concatenated_frames_split : forall maxsz fs fuel,
  Forall (frame_shaped maxsz) fs -> (length fs < fuel)%nat ->
  read_all fuel maxsz (concat fs) = (fs, RF_EOF).
Proof. exact read_all_concat. Qed.

Theorem C23_encoded_frames_are_shaped : forall maxsz name payload,
  8 + blen name + blen payload <= maxsz -> 8 + blen name + blen payload < 4294967296 ->
  frame_shaped maxsz (frame name payload).
Proof. exact frame_is_shaped. Qed.
Theorem C23_encoded_md_frames_are_shaped : forall maxsz name mb payload,
  12 + blen name + blen mb + blen payload <= maxsz -> 12 + blen name + blen mb + blen payload < 4294967296 ->
  frame_shaped maxsz (frame_md name mb payload).
Proof. exact frame_md_is_shaped. Qed.

(* the server loop delivers every frame of a well-formed stream to the handler, in order *)
Theorem C23_server_delivers_in_order : forall known M pb_dec maxsz now fs rs fuel,
  Forall2 (fun f r => frame_shaped maxsz f /\ server_detect known M pb_dec now f = Ok r) fs rs ->
  (length fs < fuel)%nat ->
  serve known M pb_dec fuel maxsz now (concat fs) = rs.
Proof. exact serve_concat. Qed.

(* ---- (3) total robustness: for EVERY byte string (indeed every list of numbers) no decoder
        takes an out-of-range slice, and the reader never asks for more than maxFrameSize bytes *)
Theorem C23_unmarshal_never_panics : forall known M pb_dec data, unmarshal known M pb_dec data <> Panic.
Proof. exact unmarshal_no_panic. Qed.
Theorem C23_unmarshal_md_never_panics : forall known M pb_dec now data, unmarshal_md known M pb_dec now data <> Panic.
Proof. exact unmarshal_md_no_panic. Qed.
Theorem C23_metadata_never_panics : forall now data, md_unmarshal now data <> Panic.
Proof. exact md_unmarshal_no_panic. Qed.
Theorem C23_client_detect_never_panics : forall known M pb_dec now data, client_detect known M pb_dec now data <> Panic.
Proof. exact client_detect_no_panic. Qed.
Theorem C23_server_detect_never_panics : forall known M pb_dec now data, server_detect known M pb_dec now data <> Panic.
Proof. exact server_detect_no_panic. Qed.
Theorem C23_read_frame_never_panics : forall maxsz stream, read_frame maxsz stream <> RF_Panic.
Proof. exact read_frame_no_panic. Qed.
Theorem C23_read_frame_allocation_bounded : forall maxsz stream, read_frame_alloc maxsz stream <= maxsz.
Proof. exact read_frame_alloc_bound. Qed.
Theorem C23_read_frame_length_bounded : forall maxsz stream f r,
  read_frame maxsz stream = RF_Frame f r -> blen f <= maxsz /\ 8 <= blen f.
Proof. exact read_frame_len. Qed.
Theorem C23_pool_capacity_bounded : forall n, pool_cap n <= N.max 256 (2 * n).
Proof. exact pool_cap_bound. Qed.
(* the only other allocation sized from the wire, the header map's capacity hint, is proportional to
   the metadata block: at most one entry per four bytes (after the count-guard repair of metadata.go) *)
Theorem C23_metadata_map_hint_bounded : forall data, 10 + 4 * md_map_hint data <= N.max 10 (blen data).
Proof. exact md_map_hint_bound. Qed.

(* truncated / oversized / undersized input is an error *)
Theorem C23_truncated_frame_rejected : forall known M pb_dec name payload k,
  8 + blen name + blen payload < 4294967296 -> N.of_nat k < blen (frame name payload) ->
  unmarshal known M pb_dec (firstn k (frame name payload)) = Err ErrLen.
Proof. exact truncated_frame_rejected. Qed.
Theorem C23_truncated_md_frame_rejected : forall known M pb_dec now name mb payload k,
  12 + blen name + blen mb + blen payload < 4294967296 -> N.of_nat k < blen (frame_md name mb payload) ->
  unmarshal_md known M pb_dec now (firstn k (frame_md name mb payload)) = Err ErrLen.
Proof. exact truncated_frame_md_rejected. Qed.
Theorem C23_truncated_stream_rejected : forall maxsz t rest,
  t < 4294967296 -> blen (be32 t ++ rest) < t ->
  exists e, read_frame maxsz (be32 t ++ rest) = e /\ (e = RF_ErrLen \/ e = RF_TooLarge \/ e = RF_Short).
Proof. exact read_frame_truncated. Qed.
Theorem C23_oversized_frame_rejected : forall maxsz t rest,
  t < 4294967296 -> maxsz < t -> 8 <= t -> read_frame maxsz (be32 t ++ rest) = RF_TooLarge.
Proof. exact read_frame_oversize. Qed.
Theorem C23_undersized_frame_rejected : forall maxsz t rest,
  t < 8 -> read_frame maxsz (be32 t ++ rest) = RF_ErrLen.
Proof. exact read_frame_undersize. Qed.

(* ---- (4) format detection *)
Theorem C23_server_detects_legacy : forall known M pb_dec now name payload,
  8 + blen name + blen payload < 4294967296 -> legacy_guard name payload ->
  server_detect known M pb_dec now (frame name payload) = legacy known M pb_dec (frame name payload).
Proof. exact server_detect_legacy. Qed.
Theorem C23_server_detects_metadata : forall known M pb_dec now f r,
  unmarshal_md known M pb_dec now f = Ok r -> server_detect known M pb_dec now f = Ok r.
Proof. exact server_detect_md. Qed.
Theorem C23_client_detects_legacy : forall known M pb_dec now name payload,
  8 + blen name + blen payload < 4294967296 -> legacy_guard name payload ->
  client_detect known M pb_dec now (frame name payload) = legacy known M pb_dec (frame name payload).
Proof. exact client_detect_legacy. Qed.
Theorem C23_client_detects_metadata : forall known M pb_dec now name mb payload r,
  0 < blen name < 256 -> 12 + blen name + blen mb + blen payload < 4294967296 ->
  unmarshal_md known M pb_dec now (frame_md name mb payload) = Ok r ->
  client_detect known M pb_dec now (frame_md name mb payload) = Ok r.
Proof. exact client_detect_md. Qed.
(* the guard holds for every name of >= 4 bytes with a non-zero first byte in frames <= 16 MiB *)
Theorem C23_guard_for_real_names : forall a b c d rest payload,
  1 <= a -> 8 + blen (a :: b :: c :: d :: rest) + blen payload <= 16777216 ->
  legacy_guard (a :: b :: c :: d :: rest) payload.
Proof. exact legacy_guard_ascii. Qed.

(* ---- stated limits (outside the property's quantifier; replayed on the real code) *)
Theorem C23_limit_key_length_silently_truncated :
  md_unmarshal_wire (md_wire big_key_hdrs 5) = Ok ([([], [])], 0%Z).
Proof. exact md_key_oversize_silent. Qed.
Theorem C23_limit_header_count_silently_truncated :
  exists r, md_unmarshal_wire (md_wire many_hdrs 5) = Ok ([], r).
Proof. exact md_count_oversize_silent. Qed.
Theorem C23_limit_total_length_truncated : forall name payload,
  rd32 (frame name payload) = Some ((4 + 4 + blen name + blen payload) mod 4294967296).
Proof. exact frame_total_truncated. Qed.
Theorem C23_limit_client_long_name :
  unmarshal_md all_known bytes pb_id 0 long_name_frame = Ok (long_name, [1; 2; 3], Some {| m_hdrs := []; m_deadline := 0 |})
  /\ exists n p, client_detect all_known bytes pb_id 0 long_name_frame = Ok (n, p, None) /\ n <> long_name.
Proof. exact client_detect_long_name_limit. Qed.
Theorem C23_limit_server_guard_needed :
  legacy all_known bytes pb_id odd_frame = Ok (odd_name, [9; 9; 9; 9; 9; 9; 9; 9], None)
  /\ server_detect all_known bytes pb_id 0 odd_frame = Err ErrMeta.
Proof. exact server_detect_guard_needed. Qed.

(* hypotheses are satisfiable by a non-trivial instance *)
Example C23_example_roundtrip :
  unmarshal_md all_known bytes pb_id 1000
    (frame_md [105; 110; 116; 101] (md_marshal 400 {| m_hdrs := [([107], [118; 118])]; m_deadline := 5000 |}) [8; 1])
  = Ok ([105; 110; 116; 101], [8; 1], Some {| m_hdrs := [([107], [118; 118])]; m_deadline := 5600 |}).
Proof. vm_compute. reflexivity. Qed.

Print Assumptions C23_metadata_roundtrip.
Print Assumptions C23_headers_same_map.
Print Assumptions C23_deadline_within_clock_tolerance.
Print Assumptions C23_frame_roundtrip.
Print Assumptions C23_frame_with_metadata_roundtrip.
Print Assumptions C23_nameless_refused.
Print Assumptions C23_concatenated_frames_split.
Print Assumptions C23_encoded_frames_are_shaped.
Print Assumptions C23_encoded_md_frames_are_shaped.
Print Assumptions C23_server_delivers_in_order.
Print Assumptions C23_unmarshal_never_panics.
Print Assumptions C23_unmarshal_md_never_panics.
Print Assumptions C23_metadata_never_panics.
Print Assumptions C23_client_detect_never_panics.
Print Assumptions C23_server_detect_never_panics.
Print Assumptions C23_read_frame_never_panics.
Print Assumptions C23_read_frame_allocation_bounded.
Print Assumptions C23_read_frame_length_bounded.
Print Assumptions C23_pool_capacity_bounded.
Print Assumptions C23_metadata_map_hint_bounded.
Print Assumptions C23_truncated_frame_rejected.
Print Assumptions C23_truncated_md_frame_rejected.
Print Assumptions C23_truncated_stream_rejected.
Print Assumptions C23_oversized_frame_rejected.
Print Assumptions C23_undersized_frame_rejected.
Print Assumptions C23_server_detects_legacy.
Print Assumptions C23_server_detects_metadata.
Print Assumptions C23_client_detects_legacy.
Print Assumptions C23_client_detects_metadata.
Print Assumptions C23_guard_for_real_names.
Print Assumptions C23_limit_key_length_silently_truncated.
Print Assumptions C23_limit_header_count_silently_truncated.
Print Assumptions C23_limit_total_length_truncated.
Print Assumptions C23_limit_client_long_name.
Print Assumptions C23_limit_server_guard_needed.
