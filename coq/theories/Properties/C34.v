(* C34 — Membership events are emitted once and only after rebalancing settles.
   Statements only.  Model: C34/Model.v (the eventsLock-guarded tracker of internal/cluster/cluster.go);
   proofs: C34/Proofs.v, C34/Settle.v.

   [flat self filt h init] is the trace of a history h of notifications (Join, Left, RebStart, RebComplete,
   LeftTimeout — any peers, epochs, duplicates, orders): every notification followed by the events its
   step emitted.  [filt] selects the tracker variant: false = trackNodeLeftEvent without a self filter (the
   tree as it stood when this was written), true = with `if ev.NodeLeft == self { return }`.
   Each clause is a monitor over the trace; "= Some _" / "= true" means the monitor never rejects. *)
From Coq Require Import ZArith.
From stdpp Require Import gmap.
From GV Require Import C34.Model C34.Proofs C34.Settle.
Open Scope Z_scope.

(* Between two NodeJoined n there is a departure notification for n or a NodeLeft n. *)
Theorem C34_joined_at_most_once : forall self filt n h,
  exists a, monitor1 n false (flat self filt h init) = Some a.
Proof. intros self filt n h. apply joined_at_most_once, Lk1_init. Qed.

(* Between two NodeLeft n there is an arrival notification for n or a NodeJoined n ... *)
Theorem C34_left_at_most_once : forall self filt n h,
  exists a, monitor2_literal n false (flat self filt h init) = Some a.
Proof.
  intros self filt n h. destruct (left_at_most_once_ever n self filt h init false (Lk2_init n)) as [a Ha].
  eapply strict_implies_literal; [|exact Ha]. auto.
Qed.

(* ... in fact a node is reported as left at most once in a whole history (the left filter is never
   cleared, so a later departure of a re-joined node is not reported at all). *)
Theorem C34_left_at_most_once_ever : forall self filt n h,
  exists a, monitor2 n false (flat self filt h init) = Some a.
Proof. intros self filt n h. apply left_at_most_once_ever, Lk2_init. Qed.

(* The local node never reports itself: with the self filter on departure notifications neither
   NodeJoined self nor NodeLeft self is ever emitted. *)
Theorem C34_never_reports_self : forall self h,
  monitor3 self true (flat self true h init) = true.
Proof. intros self h. apply never_reports_self, Lk3_init. Qed.

(* Without that filter the clause is false: a departure notification about the local node is reported
   (by its timeout, or by any completing left epoch) ... *)
Theorem C34_never_reports_self_refuted :
  exists self h, In (Left self 5000000) ∈ flat self false h init /\
                 Out (ELeft self 5000000) ∈ flat self false h init.
Proof.
  exists 1%positive, [Left 1%positive 5000000; LeftTimeout 1%positive].
  rewrite left_self_refuted. split; [by left|]. right. right. by left.
Qed.

(* ... and what remains true for the unfiltered tracker: NodeJoined self is never emitted. *)
Theorem C34_never_reports_self_partial : forall self h,
  monitor3 self false (flat self false h init) = true.
Proof. intros self h. apply never_reports_self, Lk3_init. Qed.

(* Every NodeLeft n is emitted by the timeout of n, or by a step after which the latest left-reason
   rebalance epoch (the one every pending departure is assigned to) has both been started with reason
   node-left and been announced complete within the history up to and including that step. *)
Theorem C34_left_only_when_settled : forall self filt pre x n t,
  ELeft n t ∈ (step self filt (run self filt pre init) x).2 ->
  settled pre x (step self filt (run self filt pre init) x).1 n.
Proof.
  intros self filt pre x n t Hin.
  exact (left_only_when_settled self filt (pre ++ [x]) [] init K_init pre x [] n t eq_refl Hin).
Qed.

Print Assumptions C34_joined_at_most_once.
Print Assumptions C34_left_at_most_once.
Print Assumptions C34_left_at_most_once_ever.
Print Assumptions C34_never_reports_self.
Print Assumptions C34_never_reports_self_refuted.
Print Assumptions C34_never_reports_self_partial.
Print Assumptions C34_left_only_when_settled.
