(* C38 — CRDT merge is a join: commutative, associative, idempotent w.r.t. the observable value,
   never shrinks what is already present.  Statements only; proofs in C38/Proofs*.v over the
   executable model C38/Model.v (tied to /repo/crdt by differential execution on every run).
   "Purity" (merge/clone never modify their inputs) holds by construction in Gallina (values are
   immutable); on the Go side it is what the tie checks. *)
From stdpp Require Import gmap.
From Coq Require Import ZArith.
From GV Require Import C38.Model C38.Exec C38.Proofs C38.Proofs2 C38.Proofs3.

(* GCounter: for ALL states (no reachability needed). g_state is the replicated state, Value() a function of it. *)
Theorem C38_gcounter_join : ∀ a b c : gcounter,
  g_state (g_merge a b) = g_state (g_merge b a) ∧ g_value (g_merge a b) = g_value (g_merge b a) ∧
  g_state (g_merge (g_merge a b) c) = g_state (g_merge a (g_merge b c)) ∧
  g_value (g_merge (g_merge a b) c) = g_value (g_merge a (g_merge b c)) ∧
  g_state (g_merge a a) = g_state a ∧ g_value (g_merge a a) = g_value a.
Proof.
  intros a b c.
  pose proof (g_merge_comm a b). pose proof (g_merge_assoc a b c). pose proof (g_merge_idem a).
  repeat split; try assumption; apply g_value_state; assumption.
Qed.

Theorem C38_gcounter_inflation : ∀ (a b : gcounter) (n : N),
  (cget (g_state a) n ≤ cget (g_state (g_merge a b)) n)%N ∧
  (is_Some (g_state a !! n) → is_Some (g_state (g_merge a b) !! n)) ∧
  g_state (g_merge a (g_merge a b)) = g_state (g_merge a b).
Proof. intros a b n. destruct (g_merge_inflation a b n). repeat split; try assumption. apply g_merge_absorb. Qed.

Theorem C38_pncounter_join : ∀ a b c : pncounter,
  p_core (p_merge a b) = p_core (p_merge b a) ∧ p_value (p_merge a b) = p_value (p_merge b a) ∧
  p_core (p_merge (p_merge a b) c) = p_core (p_merge a (p_merge b c)) ∧
  p_value (p_merge (p_merge a b) c) = p_value (p_merge a (p_merge b c)) ∧
  p_core (p_merge a a) = p_core a ∧ p_value (p_merge a a) = p_value a ∧
  (∀ n, (cget (g_state (p_inc a)) n ≤ cget (g_state (p_inc (p_merge a b))) n)%N ∧
        (cget (g_state (p_dec a)) n ≤ cget (g_state (p_dec (p_merge a b))) n)%N).
Proof.
  intros a b c.
  pose proof (p_merge_comm a b). pose proof (p_merge_assoc a b c). pose proof (p_merge_idem a).
  repeat split; try assumption; try (apply p_value_core; assumption); apply p_merge_inflation.
Qed.

Theorem C38_flag_join : ∀ a b c : flag,
  f_merge a b = f_merge b a ∧ f_merge (f_merge a b) c = f_merge a (f_merge b c) ∧
  f_enabled (f_merge a a) = f_enabled a ∧ (f_enabled a = true → f_enabled (f_merge a b) = true).
Proof. intros a b c. repeat split. apply f_merge_comm. apply f_merge_assoc. apply f_merge_idem. apply f_merge_inflation. Qed.

(* LWWRegister. Literal statement refuted: two Sets of ONE node with the same timestamp and different
   values give states on which Merge is not commutative (replayed on the real code by the check). *)
Theorem C38_lww_refuted : ∃ v1 v2 ts n,
  let a := l_set l_new v1 ts n in let b := l_set l_new v2 ts n in
  l_val (l_merge a b) ≠ l_val (l_merge b a).
Proof. exact l_refuted. Qed.

(* Strongest true statement: on registers that agree whenever (timestamp,node) agree. *)
Theorem C38_lww_join_partial : ∀ a b c : lww,
  l_coh a b → l_coh b c → l_coh a c →
  l_core (l_merge a b) = l_core (l_merge b a) ∧
  l_core (l_merge (l_merge a b) c) = l_core (l_merge a (l_merge b c)) ∧
  l_core (l_merge a a) = l_core a ∧
  ((l_ts a < l_ts (l_merge a b))%Z ∨ (l_ts a = l_ts (l_merge a b) ∧ (l_node a ≤ l_node (l_merge a b))%N)).
Proof.
  intros a b c Hab Hbc Hac. repeat split.
  - apply l_merge_comm; assumption.
  - apply l_merge_assoc; assumption.
  - apply l_merge_idem.
  - apply l_merge_inflation.
Qed.

(* ORSet: all states reachable with the public operations (any node ids, deltas, compaction included). *)
Theorem C38_orset_join : ∀ a b c : orset, s_reach a → s_reach b → s_reach c →
  s_merge a b = s_merge b a ∧ s_merge (s_merge a b) c = s_merge a (s_merge b c) ∧
  s_entries (s_merge a a) = s_entries a ∧ s_clock (s_merge a a) = s_clock a ∧
  s_elements (s_merge a b) = s_elements (s_merge b a) ∧
  s_elements (s_merge (s_merge a b) c) = s_elements (s_merge a (s_merge b c)) ∧
  s_elements (s_merge a a) = s_elements a.
Proof.
  intros a b c Ha Hb Hc. apply s_reach_wf in Ha, Hb, Hc.
  pose proof (s_merge_comm a b Ha Hb) as H1. pose proof (s_merge_assoc a b c Ha Hb Hc) as H2.
  pose proof (s_merge_idem a Ha) as H3.
  repeat split; try assumption; try (rewrite H3; reflexivity).
  - rewrite H1; reflexivity.
  - rewrite H2; reflexivity.
Qed.

Theorem C38_orset_inflation : ∀ a b : orset, s_reach a → s_reach b →
  s_merge a (s_merge a b) = s_merge a b ∧
  (∀ n, (cget (s_clock a) n ≤ cget (s_clock (s_merge a b)) n)%N) ∧
  (∀ e, e ∈ s_entries a → e ∈ s_entries (s_merge a b) ∨ (dominated e.2 (s_clock b) ∧ e ∉ s_entries b)).
Proof.
  intros a b Ha Hb. apply s_reach_wf in Ha, Hb. split; [apply s_merge_absorb; assumption|].
  apply s_merge_inflation; assumption.
Qed.

(* LWWRegister over every state reachable by a system of replicas (any number) in which replica i
   writes with node id i and timestamps it has not used before (strictly increasing per node);
   H holds every state ever produced: current states, old snapshots, messages in flight, merge results. *)
Theorem C38_lww_join_reachable : ∀ cur H, l_sys cur H → ∀ a b c, a ∈ H → b ∈ H → c ∈ H →
  l_core (l_merge a b) = l_core (l_merge b a) ∧
  l_core (l_merge (l_merge a b) c) = l_core (l_merge a (l_merge b c)) ∧
  l_core (l_merge a a) = l_core a.
Proof.
  intros cur H Hs a b c Ha Hb Hc. destruct (l_sys_inv cur H Hs) as [Hcoh _].
  repeat split; [apply l_merge_comm|apply l_merge_assoc|apply l_merge_idem]; auto.
Qed.

(* MVRegister over every state reachable by a system of replicas each using its own node id. *)
Theorem C38_mvregister_join : ∀ cur H, mv_sys cur H → ∀ a b c, a ∈ H → b ∈ H → c ∈ H →
  mv_merge a b = mv_merge b a ∧
  mv_merge (mv_merge a b) c = mv_merge a (mv_merge b c) ∧
  mv_entries (mv_merge a a) = mv_entries a ∧ mv_clock (mv_merge a a) = mv_clock a ∧
  mv_values (mv_merge a b) = mv_values (mv_merge b a) ∧
  mv_values (mv_merge (mv_merge a b) c) = mv_values (mv_merge a (mv_merge b c)) ∧
  mv_values (mv_merge a a) = mv_values a ∧
  mv_merge a (mv_merge a b) = mv_merge a b ∧
  (∀ n, (cget (mv_clock a) n ≤ cget (mv_clock (mv_merge a b)) n)%N).
Proof.
  intros cur H Hs a b c Ha Hb Hc. destruct (mv_sys_inv cur H Hs) as [Iwf _ Icoh _].
  destruct (Iwf a Ha) as [Wa _]. destruct (Iwf b Hb) as [Wb _]. destruct (Iwf c Hc) as [Wc _].
  pose proof (mv_merge_comm a b Wa Wb (Icoh a b Ha Hb)) as H1.
  pose proof (mv_merge_assoc a b c Wa Wb Wc (Icoh a b Ha Hb) (Icoh b c Hb Hc) (Icoh a c Ha Hc)) as H2.
  pose proof (mv_merge_idem a Wa) as H3.
  repeat split; try assumption; try (rewrite H3; reflexivity).
  - rewrite H1; reflexivity.
  - rewrite H2; reflexivity.
  - apply mv_merge_absorb; auto.
  - intros n. apply mv_merge_inflation. exact Wb.
Qed.

(* ORMap, for ANY nested CRDT type V whose merge is a join on its replicated state (vcore):
   commutative and idempotent on the whole replicated state; the key set is a join unconditionally;
   associative under the explicit guard [assoc_guard]. *)
Theorem C38_ormap_join_partial :
  ∀ (V C : Type) (vmerge : V → V → V) (vcore : V → C) (cmerge : C → C → C) (ok : C → Prop),
  (∀ a b, vcore (vmerge a b) = cmerge (vcore a) (vcore b)) →
  (∀ a b, ok a → ok b → cmerge a b = cmerge b a) →
  (∀ a b c, ok a → ok b → ok c → cmerge (cmerge a b) c = cmerge a (cmerge b c)) →
  (∀ a, ok a → cmerge a a = a) →
  ∀ a b c : ormap V, m_ok vcore ok a → m_ok vcore ok b → m_ok vcore ok c →
    mcore vcore (m_merge vmerge a b) = mcore vcore (m_merge vmerge b a) ∧
    (m_dom a → mcore vcore (m_merge vmerge a a) = mcore vcore a) ∧
    m_keys (m_merge vmerge (m_merge vmerge a b) c) = m_keys (m_merge vmerge a (m_merge vmerge b c)) ∧
    (assoc_guard a b c = true →
       mcore vcore (m_merge vmerge (m_merge vmerge a b) c) = mcore vcore (m_merge vmerge a (m_merge vmerge b c))).
Proof.
  intros V C vmerge vcore cmerge ok hom cc ca ci a b c Ha Hb Hc. repeat split.
  - apply (m_merge_comm vmerge vcore cmerge ok hom cc); assumption.
  - intros Hd. apply (m_merge_idem vmerge vcore cmerge ok hom ci); assumption.
  - apply (m_merge_keys_join vmerge vcore ok a b c); assumption.
  - intros Hg. apply (m_merge_assoc_guarded vmerge vcore cmerge ok hom ca); assumption.
Qed.

(* The literal statement is FALSE for ORMap: a sets k; b observes it and removes k; c concurrently
   sets k. (a⊔b)⊔c exposes c's value only, a⊔(b⊔c) exposes a's and c's merged. Replayed on the real code. *)
Theorem C38_ormap_assoc_refuted : ∃ a b c : ormap val0,
  value1 (merge1 (merge1 a b) c) ≠ value1 (merge1 a (merge1 b c)) ∧ assoc_guard a b c = false.
Proof. exists w_a, w_b, w_c. split; [exact ormap_assoc_refuted|exact (proj1 ormap_guard_examples)]. Qed.

Print Assumptions C38_gcounter_join.
Print Assumptions C38_gcounter_inflation.
Print Assumptions C38_pncounter_join.
Print Assumptions C38_flag_join.
Print Assumptions C38_lww_refuted.
Print Assumptions C38_lww_join_partial.
Print Assumptions C38_orset_join.
Print Assumptions C38_orset_inflation.
Print Assumptions C38_lww_join_reachable.
Print Assumptions C38_mvregister_join.
Print Assumptions C38_ormap_join_partial.
Print Assumptions C38_ormap_assoc_refuted.
