(* C30 — a grain is active on at most one node at a time.
   Statements only; model in C30/Model.v (over C30/Registry.v), proofs in C30/Proofs.v and C30/Inv.v. *)
From Coq Require Import List Arith Bool.
From GV Require Import C30.Registry C30.Model C30.Proofs.
Import ListNotations.

(* The literal property is FALSE for the protocol of actor/grain_engine.go: there is an execution of three
   nodes with exactly one injected activation failure after which two nodes hold a live instance. *)
Theorem C30_refuted :
  exists ls s, run state0 ls = Some s /\ count_fail ls = 1 /\ ~ at_most_one_active s.
Proof. exact refuted_at_most_one. Qed.

(* ... and an execution with NO failure after which everything is quiescent, a node holds a live instance
   and the registry does not name it (grainPID.deactivate's late RemoveGrain) ... *)
Theorem C30_registry_refuted :
  exists ls s, run state0 ls = Some s /\ count_fail ls = 0 /\ quiescent s /\ ~ registry_names_holder s.
Proof. exact refuted_registry_names_holder. Qed.

(* ... which continues to two live instances, still without any failure. *)
Theorem C30_refuted_no_failure :
  exists ls s, run state0 ls = Some s /\ count_fail ls = 0 /\ ~ at_most_one_active s.
Proof. exact refuted_at_most_one_no_failure. Qed.

(* M-REGISTRY: of two NX puts on one key exactly one can win. *)
Theorem C30_registry_nx_exclusive : forall (k v1 v2 : nat) (r r1 r2 : reg nat) b1 b2,
  r_put_if_absent k v1 r = (r1, b1) -> r_put_if_absent k v2 r1 = (r2, b2) -> b1 && b2 = false.
Proof. exact (@r_pia_exclusive nat). Qed.

Print Assumptions C30_refuted.
Print Assumptions C30_registry_refuted.
Print Assumptions C30_refuted_no_failure.
Print Assumptions C30_registry_nx_exclusive.
