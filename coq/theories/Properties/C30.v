(* C30 — a grain is active on at most one node at a time.
   Statements only; model in C30/Model.v (over C30/Registry.v), proofs in C30/Proofs.v and C30/Inv.v. *)
From Coq Require Import List Arith Bool.
From GV Require Import C30.Registry C30.Model C30.Proofs C30.Partial.
Import ListNotations.

(* The literal property is FALSE for the protocol of actor/grain_engine.go: there is an execution of three
   nodes with exactly one injected activation failure after which two nodes hold a live instance. *)
Theorem C30_refuted :
  exists ls s, run false state0 ls = Some s /\ count_fail ls = 1 /\ ~ at_most_one_active s.
Proof. exact refuted_at_most_one. Qed.

(* ... and an execution with NO failure after which everything is quiescent, a node holds a live instance
   and the registry does not name it (grainPID.deactivate's late RemoveGrain) ... *)
Theorem C30_registry_refuted :
  exists ls s, run false state0 ls = Some s /\ count_fail ls = 0 /\ quiescent s /\ ~ registry_names_holder s.
Proof. exact refuted_registry_names_holder. Qed.

(* ... which continues to two live instances, still without any failure. *)
Theorem C30_refuted_no_failure :
  exists ls s, run false state0 ls = Some s /\ count_fail ls = 0 /\ ~ at_most_one_active s.
Proof. exact refuted_at_most_one_no_failure. Qed.

(* What does hold (any number of nodes, any interleaving of sends, deactivations and injected failures, any
   length): every execution in which (a) no leader continues after a lost claim whose owner record has
   vanished [claimless] and (b) no deactivation overlaps the same node's activation flight or another
   deactivation [overlap] -- guard = negb claimless && negb overlap, checked at every step by run_g -- has at
   most one live instance, on one node, and the registry names that node at every moment (not only at quiescence). *)
Theorem C30_partial : forall ls s,
  run_g false state0 ls = Some s -> at_most_one_active s /\ registry_names_holder s.
Proof. exact (partial_safe false). Qed.

(* The protocol with the proposed repair of tryClaimGrain (fixes/C30-claim-retry.diff: when the owner record has
   vanished after a lost claim, claim again): the same holds with clause (b) as the only guard. *)
Theorem C30_partial_repaired : forall ls s,
  run_g true state0 ls = Some s -> at_most_one_active s /\ registry_names_holder s.
Proof. exact (partial_safe true). Qed.

Theorem C30_repaired_guard_is_overlap_only : forall s l, guard true s l = negb (overlap s l).
Proof. exact guard_repaired. Qed.

Theorem C30_partial_at_most_one : forall ls s n m p q,
  run_g false state0 ls = Some s -> is_live s n p -> is_live s m q -> n = m /\ p = q.
Proof. intros ls s n m p q R. destruct (partial_safe false ls s R) as (A & _). apply A. Qed.

Theorem C30_partial_registry_names_holder : forall ls s n p,
  run_g false state0 ls = Some s -> is_live s n p -> r_get gk (sreg s) = Some n.
Proof. intros ls s n p R. destruct (partial_safe false ls s R) as (_ & B). apply B. Qed.

(* the guard is met by non-trivial executions (activation, owner mismatch, deactivation, failed activation with
   claim rollback, failed publication with failing rollback, re-activation elsewhere) *)
Example C30_partial_nonvacuous :
  exists s, run_g false state0 guarded_example = Some s /\ is_live s 2 1 /\ r_get gk (sreg s) = Some 2.
Proof. exact partial_nonvacuous. Qed.

(* M-REGISTRY: of two NX puts on one key exactly one can win. *)
Theorem C30_registry_nx_exclusive : forall (k v1 v2 : nat) (r r1 r2 : reg nat) b1 b2,
  r_put_if_absent k v1 r = (r1, b1) -> r_put_if_absent k v2 r1 = (r2, b2) -> b1 && b2 = false.
Proof. exact (@r_pia_exclusive nat). Qed.

(* M-REGISTRY contract: a held claim keeps every later NX put out for as long as nothing writes or removes that key
   (records never expire on their own). *)
Theorem C30_registry_claim_persists : forall (k v w : nat) (ops : list (@rop nat)) (r : reg nat),
  r_get k r = Some v -> forallb (fun o => negb (touches k o)) ops = true ->
  snd (r_put_if_absent k w (fold_left (fun r o => fst (r_apply r o)) ops r)) = false.
Proof. exact (@r_claim_blocks nat). Qed.

Print Assumptions C30_refuted.
Print Assumptions C30_registry_claim_persists.
Print Assumptions C30_registry_refuted.
Print Assumptions C30_refuted_no_failure.
Print Assumptions C30_registry_nx_exclusive.
Print Assumptions C30_partial.
Print Assumptions C30_partial_repaired.
Print Assumptions C30_repaired_guard_is_overlap_only.
Print Assumptions C30_partial_at_most_one.
Print Assumptions C30_partial_registry_names_holder.
Print Assumptions C30_partial_nonvacuous.
