(* C33 — Relocation accounts for every item and runs once per departure.
   Statements only.  Leader-side bookkeeping (relocationJobs, relocator, worker completion): model
   C33/Model.v, proofs C33/Proofs.v + C33/Steps.v, for every history of labels (any number of
   departures of any addresses, duplicate notifications, failed Tells, spawn failures, worker crashes,
   stale Terminated messages, in any interleaving).  Worker accounting: model C33/Worker.v on top of the
   plan of C32, proofs C33/WorkerProofs.v, for every failure oracle. *)
From Coq Require Import List ZArith NArith Bool Arith Permutation.
From GV Require Import C32.Model C33.Model C33.Proofs C33.Steps C33.Worker C33.WorkerProofs C33.Examples.
Import ListNotations.

(* at any point of any history, the relocation of an address has exactly one owner (a queued Rebalance,
   a running worker, or a dead worker whose Terminated is still queued) when a job is registered for
   it, and none otherwise: never two relocations of the same node in flight *)
Theorem C33_one_relocation_per_address : forall (ls : list label) (a : addr),
  match jobs (run ls) a with
  | Some j => owners_of (run ls) a = [(a, j)]
  | None => owners_of (run ls) a = []
  end.
Proof. exact one_owner_per_address. Qed.

(* a duplicate departure notification while the relocation is in flight changes nothing at all *)
Theorem C33_duplicate_notification_ignored : forall (ls : list label) (a : addr) (tell_ok : bool),
  jobs (run ls) a <> None -> run (ls ++ [LNodeLeft a tell_ok]) = run ls.
Proof. exact duplicate_notification_ignored. Qed.

(* every departure job ends with at most one outcome, so at most one RelocationFailed event *)
Theorem C33_single_outcome_per_departure : forall ls : list label, NoDup (map fst (outcomes (run ls))).
Proof. exact single_outcome_per_job. Qed.

Theorem C33_single_failed_event_per_departure : forall ls : list label, NoDup (events (run ls)).
Proof. exact single_event_per_job. Qed.

(* while a job is registered nothing has been published for it *)
Theorem C33_registered_job_unpublished : forall (ls : list label) (a : addr) (j : jobid),
  jobs (run ls) a = Some j -> ~ In j (map fst (outcomes (run ls))).
Proof. exact registered_job_unpublished. Qed.

(* the worker: whatever fails (local recreations, whole peers at any batch, items reported by peers,
   survivors during redistribution, lazy-grain releases), every relocatable actor and grain of the
   departed node is either handled exactly once or listed as failed exactly once *)
Theorem C33_items_relocated_or_failed :
  forall leaderRoles peersRoles ok_local rel_ok rpc rpc2 actors grainsInOrder baseLoads,
  let '(handled, failed) := relocate leaderRoles peersRoles ok_local rel_ok rpc rpc2 actors grainsInOrder baseLoads in
  Permutation (handled ++ failed) (map IA actors ++ map IG (relocatableGrains grainsInOrder)).
Proof. exact relocate_accounts. Qed.

(* the abort paths list every actor and every eager grain; lazy grains are released or listed *)
Theorem C33_abort_reports_everything : forall rel_ok actors grainsInOrder,
  let '(handled, failed) := aborted rel_ok actors grainsInOrder in
  Permutation (handled ++ failed) (map IA actors ++ map IG (relocatableGrains grainsInOrder)) /\
  (forall a, In a actors -> In (IA a) failed) /\
  (forall g, In g (relocatableGrains grainsInOrder) -> geager g = true -> In (IG g) failed).
Proof. exact aborted_accounts. Qed.

(* the completion bookkeeping releases the job only after the snapshot is gone: a duplicate NodeLeft
   handled at any point of it finds either a registered job or no snapshot; the reverse order does not *)
Theorem C33_finish_releases_job_last :
  forallb (fun s => negb (dup_accepted s)) (fin_prefixes (mkFin true true) [FDeleteSnapshot; FEndRelocation]) = true /\
  existsb dup_accepted (fin_prefixes (mkFin true true) [FEndRelocation; FDeleteSnapshot]) = true.
Proof. split; [exact finish_order_safe|exact finish_order_reversed_unsafe]. Qed.

Print Assumptions C33_one_relocation_per_address.
Print Assumptions C33_duplicate_notification_ignored.
Print Assumptions C33_single_outcome_per_departure.
Print Assumptions C33_single_failed_event_per_departure.
Print Assumptions C33_registered_job_unpublished.
Print Assumptions C33_items_relocated_or_failed.
Print Assumptions C33_abort_reports_everything.
Print Assumptions C33_finish_releases_job_last.
