(* C05 — The dispatcher never loses or duplicates a scheduled actor.
   Statements only; model in C05/Model.v (mirrors actor/ready_queue.go), proofs in C05/RingProofs.v
   (sequential refinement) and C05/ConcProofs.v (concurrent invariants over [creach]). *)
From Coq Require Import List Arith Bool.
From GV Require Import C05.Model C05.RingProofs C05.ConcProofs.
Import ListNotations.

(* ---- sequential refinement: for EVERY capacity, wrap-around and doubling included.
   [WF q]: 0 < cap, head < cap, size <= cap, tail = (head + size) mod cap.
   [abs q]: the live window of the ring, oldest first. *)

Theorem C05_local_push_fifo : forall q s, WF q ->
  if size q =? cap q
  then pushBack q s = (q, false)
  else abs (fst (pushBack q s)) = abs q ++ [Some s] /\ snd (pushBack q s) = true /\ WF (fst (pushBack q s)) /\
       cap (fst (pushBack q s)) = cap q.
Proof. exact pushBack_spec. Qed.

Theorem C05_local_pop_fifo : forall q, WF q ->
  match abs q with
  | [] => popFront q = (None, q)
  | x :: r => fst (popFront q) = x /\ abs (snd (popFront q)) = r /\ WF (snd (popFront q)) /\ cap (snd (popFront q)) = cap q
  end.
Proof. exact popFront_spec. Qed.

Theorem C05_global_push_fifo_with_growth : forall ic g s, WF g ->
  abs (gpush ic g s) = abs g ++ [Some s] /\ WF (gpush ic g s) /\
  cap (gpush ic g s) = (if size g =? cap g then cap g * 2 else cap g).
Proof. exact gpush_spec. Qed.

Theorem C05_global_pop_fifo : forall g, WF g ->
  match abs g with
  | [] => gpop g = (None, g)
  | x :: r => fst (gpop g) = x /\ abs (snd (gpop g)) = r /\ WF (snd (gpop g)) /\ cap (snd (gpop g)) = cap g
  end.
Proof. exact gpop_spec. Qed.

(* stealHalf returns the head and moves the next min(ceil(n/2)-1, free space of dst) items to the back
   of dst, in order; nothing else changes: multiset union and relative order are preserved. *)
Theorem C05_stealHalf : forall q d, WF q -> WF d ->
  match abs q with
  | [] => stealHalf q d = (None, q, d)
  | h :: rest =>
      exists moved q' d', stealHalf q d = (h, q', d') /\
        rest = moved ++ abs q' /\ abs d' = abs d ++ moved /\
        length moved = Nat.min ((size q + 1) / 2 - 1) (cap d - size d) /\
        WF q' /\ WF d' /\ cap q' = cap q /\ cap d' = cap d
  end.
Proof. exact stealHalf_spec. Qed.

Theorem C05_stealHalf_moves_half : forall q d h rest, WF q -> WF d -> abs q = h :: rest -> size d = 0 ->
  (size q + 1) / 2 - 1 <= cap d ->
  exists q' d', stealHalf q d = (h, q', d') /\ size q' = size q - (size q + 1) / 2 /\
    abs d' = firstn ((size q + 1) / 2 - 1) rest /\ abs q' = skipn ((size q + 1) / 2 - 1) rest.
Proof. exact stealHalf_half. Qed.

(* a well-formed non-empty ring of tickets never reports "empty" *)
Theorem C05_pop_never_nil : forall q, WF q -> all_some (abs q) -> 0 < size q -> exists t, fst (popFront q) = Some t.
Proof. exact popFront_some. Qed.

(* the ring-level stealHalf is the abstract steal used by the concurrent model *)
Theorem C05_steal_refines : forall q d lv ld, WF q -> WF d -> abs q = map Some lv -> abs d = map Some ld ->
  match stealHalf q d, asteal (cap d) lv ld with
  | (o, q', d'), (o', lv', ld') => o = o' /\ abs q' = map Some lv' /\ abs d' = map Some ld' /\ WF q' /\ WF d' /\
                                  cap q' = cap q /\ cap d' = cap d
  end.
Proof. exact stealHalf_refines. Qed.

(* ---- concurrent: [creach K n s] — s reachable with n local rings of capacity K by ANY interleaving of
   any number of pushes (external producers), up to n workers (take loop: local probe/pop, global
   probe/pop, steal probes/steals, park, wait, wake, turn with any number of re-pushes incl. spill),
   close, spurious wake-ups. *)

(* every pushed ticket is taken at most once and is never lost (taken or still queued, once in total) *)
Theorem C05_ticket_exactly_once : forall K n s x, creach K n s ->
  occ x (c_taken s) <= 1 /\
  (occ x (c_pushed s) = 1 -> occ x (c_taken s) + occ x (concat (c_locals s)) + occ x (c_global s) = 1) /\
  (occ x (c_pushed s) = 0 -> occ x (c_taken s) = 0 /\ occ x (concat (c_locals s)) = 0 /\ occ x (c_global s) = 0).
Proof. exact ticket_exactly_once. Qed.

(* no lost wake-up for the global ring *)
Theorem C05_no_lost_wakeup : forall K n s, creach K n s ->
  0 < ccnt is_waiting (c_workers s) -> length (c_global s) <= ccnt is_woken (c_workers s).
Proof. exact no_lost_wakeup. Qed.

(* local rings: a worker that is parked, parking or gone has an empty local ring *)
Theorem C05_parked_worker_local_empty : forall K n s w p, creach K n s ->
  nth_error (c_workers s) w = Some p -> (p = Waiting \/ p = Woken \/ p = TPark \/ p = Exited) -> lq s w = [].
Proof. exact parked_worker_local_empty. Qed.

(* close: nobody stays blocked, closed is permanent, and every (fresh or resumed) parkAndTake makes the worker exit *)
Theorem C05_close_wakes_all : forall K n s, creach K n s -> c_closed s = true -> ccnt is_waiting (c_workers s) = 0.
Proof. exact close_wakes_all. Qed.

Theorem C05_closed_stable : forall K s l s', cstep K s l = Some s' -> c_closed s = true -> c_closed s' = true.
Proof. exact closed_stable. Qed.

Theorem C05_close_exits : forall K s w p, c_closed s = true -> nth_error (c_workers s) w = Some p ->
  (p = TPark \/ p = Woken) ->
  exists s', cstep K s (CStep w) = Some s' /\ nth_error (c_workers s') w = Some Exited.
Proof. exact close_exits. Qed.

Print Assumptions C05_local_push_fifo.
Print Assumptions C05_local_pop_fifo.
Print Assumptions C05_global_push_fifo_with_growth.
Print Assumptions C05_global_pop_fifo.
Print Assumptions C05_stealHalf.
Print Assumptions C05_stealHalf_moves_half.
Print Assumptions C05_pop_never_nil.
Print Assumptions C05_steal_refines.
Print Assumptions C05_ticket_exactly_once.
Print Assumptions C05_no_lost_wakeup.
Print Assumptions C05_parked_worker_local_empty.
Print Assumptions C05_close_wakes_all.
Print Assumptions C05_closed_stable.
Print Assumptions C05_close_exits.
