(* C46 — Stream junctions preserve elements and per-branch order. Statements only. *)
From Coq Require Import ZArith List Bool.
From GV Require Import C46.Model C46.Proofs.
Import ListNotations.
Open Scope Z_scope.

Theorem C46_placeholder : forall n, m_out (merge_init n) = [].
Proof. exact merge_init_out. Qed.
Print Assumptions C46_placeholder.
