(* C46 — Stream junctions preserve elements and per-branch order.
   Statements only; the model is C46/Model.v, the proofs are in C46/FanIn.v and C46/FanOut.v.

   Fan-in ([fan_reach recv srcs init fs s], [concat_reach]): the junction source actor in state s after ANY
   number of steps in ANY interleaving of: sub-pipeline i delivering its next element, sub-pipeline i reporting
   done after its last element, downstream requesting n > 0 elements. [srcs] are the sources (any number, any
   lengths). Fan-out ([hub_reach k n input (e, s)]): the hub actor of kind k with n branches after any
   interleaving of: branch i signalling demand, the upstream pipeline delivering the next element of [input]
   (never more than the hub requested), upstream completing. No branch cancels, no sub-pipeline fails. *)
From Coq Require Import ZArith List Bool.
From GV Require Import C46.Model C46.Queue C46.FanIn C46.FanOut C46.Proofs.
Import ListNotations.
Open Scope Z_scope.

(* Merge: every delivered element comes from one of the sources; the elements delivered from source i are a
   prefix of source i (own order preserved); completion is signalled at most once, and then every source has
   been delivered completely — the output is an interleaving of the sources. *)
Theorem C46_merge_is_an_interleaving : forall srcs fs s,
  fan_reach merge_recv srcs (merge_init (length srcs)) fs s ->
  (m_completed s <= 1)%nat /\
  Forall (fun x => (fst x < length srcs)%nat) (m_out s) /\
  (forall i, (i < length srcs)%nat -> prefix (proj i (m_out s)) (nth i srcs [])) /\
  (m_completed s = 1%nat -> forall i, (i < length srcs)%nat -> proj i (m_out s) = nth i srcs []).
Proof. exact merge_spec. Qed.

(* Concat: the output is a prefix of source0 ++ source1 ++ ..., and all of it at completion. *)
Theorem C46_concat_is_append : forall srcs segs s,
  concat_reach srcs segs s ->
  (c_completed s <= 1)%nat /\ prefix (c_out s) (concat srcs) /\
  (c_completed s = 1%nat -> c_out s = concat srcs).
Proof. exact concat_spec. Qed.

(* Zip: tuple k holds the k-th element of every source, there are never more tuples than the shortest source
   has elements, and at completion exactly as many. *)
Theorem C46_zip_is_positional : forall srcs fs s,
  fan_reach zip_recv srcs (zip_init (length srcs)) fs s ->
  let n := length srcs in
  (z_completed s <= 1)%nat /\
  Forall (fun t => length t = n) (z_out s) /\
  (forall i k, (i < n)%nat -> (k < length (z_out s))%nat ->
      nth i (nth k (z_out s) []) 0 = nth k (nth i srcs []) 0) /\
  (forall i, (i < n)%nat -> (length (z_out s) <= length (nth i srcs []))%nat) /\
  (z_completed s = 1%nat -> n = O \/ exists j, (j < n)%nat /\ length (z_out s) = length (nth j srcs [])).
Proof. exact zip_spec_thm. Qed.

(* Broadcast / Balance / Partition hubs, any number n >= 1 of branches ([kind_ok]: Partition routes into range):
   nothing is dropped, no branch is served beyond the demand it signalled, and for the consumed prefix of the
   input ([route_ok]):
     Broadcast   every branch has received exactly that prefix, in order;
     Balance     the routed elements are exactly that prefix, each to one branch (< n), so the branch
                 sequences partition it, each in source order;
     Partition   element v went to branch (v mod md).
   When upstream has completed the prefix is the whole input. *)
Theorem C46_hub_routes_every_element : forall k n input e s,
  kind_ok k n -> hub_reach k n input (e, s) ->
  h_dropped s = [] /\ Forall (fun d => 0 <= d) (h_demand s) /\
  (exists cons, input = cons ++ e_rest e /\ route_ok k n cons (h_routed s)) /\
  (e_completed e = true -> route_ok k n input (h_routed s)).
Proof. exact hub_spec. Qed.

(* The buffer type behind Merge, Concat and the per-slot buffers of Zip (stream/queue.go: backing slice, read
   index, compaction once the dead prefix reaches half the slice): for EVERY sequence of pushes and pops it
   returns exactly what a list-backed FIFO returns. (The junction models above use plain lists as buffers.) *)
Theorem C46_queue_is_fifo : forall ops, g_run q_empty_queue ops = l_run [] ops.
Proof. exact queue_is_fifo_from_empty. Qed.

Print Assumptions C46_queue_is_fifo.
Print Assumptions C46_merge_is_an_interleaving.
Print Assumptions C46_concat_is_append.
Print Assumptions C46_zip_is_positional.
Print Assumptions C46_hub_routes_every_element.
