(* C24 — Connection compression is transparent.  Statements only.
   Model: C24/Model.v — compressedConn.Write = Write;Flush over an ABSTRACT streaming codec.  The
   DEFLATE/zstd/brotli algorithms are external and not modelled: the theorems hold for every codec
   meeting [codec_ok] (segmentation-independent decoder + "after a flush, everything written is
   decodable"), and the harness tests that contract on the real gzip/zstd/brotli wrappers.
   Hence the suffix _partial: partial by nature, relative to the codec contract. *)
From Coq Require Import NArith List Bool.
From GV Require Import Lib.Bytes C24.Model C24.Proofs C24.Pool.
Import ListNotations.

(* for every codec meeting the contract, every sequence of Writes (any sizes, empty ones included)
   and every re-segmentation of the wire bytes by the transport: the peer can read exactly the
   concatenation of all Writes that have returned — nothing lost, nothing reordered, nothing withheld *)
Theorem C24_lossless_and_prompt_partial : forall c, codec_ok c -> forall ws chunks,
  concat chunks = wire c (conn_ops ws) -> readable c chunks = concat ws.
Proof. exact conn_lossless_prompt. Qed.

(* ... after EACH Write, not only at the end *)
Theorem C24_prompt_after_each_write_partial : forall c, codec_ok c -> forall ws k chunks,
  concat chunks = wire c (conn_ops (firstn k ws)) -> readable c chunks = concat (firstn k ws).
Proof. exact conn_prompt_after_each_write. Qed.

(* a reader that keeps its decoder state across Writes sees each Write's bytes become readable
   exactly when the segments carrying that Write have arrived *)
Theorem C24_incremental_partial : forall c, codec_ok c -> forall ws p chunks more,
  concat chunks = wire c (conn_ops ws) ->
  concat (chunks ++ more) = wire c (conn_ops (ws ++ [p])) ->
  snd (dec_run c (fst (dec_run c (d_reset c) chunks)) more) = p.
Proof. exact conn_incremental. Qed.

Theorem C24_wire_only_grows : forall c ws p, exists more, wire c (conn_ops (ws ++ [p])) = wire c (conn_ops ws) ++ more.
Proof. exact wire_extends. Qed.

(* Read calls of arbitrary sizes hand out the readable bytes in order *)
Theorem C24_reads_in_order : forall avail sizes,
  concat (reads avail sizes) = firstn (fold_right Nat.add 0%nat sizes) avail.
Proof. exact reads_in_order. Qed.

(* the contract is satisfiable ("none" = identity codec) *)
Theorem C24_contract_satisfiable : codec_ok id_codec.
Proof. exact id_codec_ok. Qed.

(* the Flush is what makes it prompt: with a buffering codec, Write without Flush delivers nothing *)
Theorem C24_flush_is_needed :
  readable buf_codec [wire buf_codec (conn_ops [[1; 2; 3]%N; [4]%N])] = [1; 2; 3; 4]%N
  /\ readable buf_codec [wire buf_codec (noflush_ops [[1; 2; 3]%N; [4]%N])] = [].
Proof. exact flush_needed. Qed.

(* no lifetime limit: the statement above is for write sequences of ANY length, in particular for a
   cumulative volume beyond any size or memory option of a wrapper (explicit instance: n equal writes) *)
Theorem C24_no_cumulative_limit_partial : forall c, codec_ok c -> forall p n chunks,
  concat chunks = wire c (conn_ops (repeat p n)) -> readable c chunks = concat (repeat p n).
Proof. intros c H p n chunks. apply (conn_lossless_prompt c H). Qed.

(* gzip's lazy reader: whatever earlier connections on the same wrapper did (handshakes that failed in
   the stream header included), a new connection's reader starts fresh and its first Read succeeds
   whenever its own header is readable ... *)
Theorem C24_failed_handshakes_do_not_poison_the_pool : forall c header_ok pool hs arrived,
  header_ok arrived = true ->
  snd (lazy_read c header_ok (wrap_real c (after_history_real c header_ok pool hs)) arrived)
    = Some (snd (d_feed c (d_reset c) arrived)).
Proof. exact first_read_after_any_history. Qed.
(* ... whereas pooling the lazy reader itself, re-armed only when it had been initialised, is poisoned
   for ever by one connection whose first read failed *)
Theorem C24_pooled_lazy_reader_refuted : forall c header_ok bad hs arrived,
  header_ok bad = false ->
  snd (lazy_read c header_ok (after_history_variant c header_ok (Fresh c) ([bad] :: hs)) arrived) = None.
Proof. exact variant_poisoned. Qed.

Print Assumptions C24_lossless_and_prompt_partial.
Print Assumptions C24_no_cumulative_limit_partial.
Print Assumptions C24_failed_handshakes_do_not_poison_the_pool.
Print Assumptions C24_pooled_lazy_reader_refuted.
Print Assumptions C24_prompt_after_each_write_partial.
Print Assumptions C24_incremental_partial.
Print Assumptions C24_wire_only_grows.
Print Assumptions C24_reads_in_order.
Print Assumptions C24_contract_satisfiable.
Print Assumptions C24_flush_is_needed.
