(* C43 — The producer never outruns the consumer's demand.
   Same model and quantification as C42 (C42/Model.v, all legitimate fault schedules of any length); [fx] selects the
   registration rule of the producer controller (false: demandUpTo := currentSeq, the code before /repo commit 22a84ff;
   true: min(demandUpTo, currentSeq), the repaired rule) — the theorems hold for both on whole-payload flows. *)
From Coq Require Import ZArith List Bool.
From GV Require Import C42.Model C42.Lemmas C42.InvP C42.InvC C42.Proofs.
From GV Require C42.Examples.
From GV Require Import C43.Chunked.
Import ListNotations.
Open Scope Z_scope.

(* In every reachable state: demandUpTo <= the highest sequence the consumer controller has requested
   (requestUpToSeq, which never decreases — C42_represented_only_while_in_flight), the producer has not even
   STORED beyond it, that request is within one window of the consumer's confirmations, and every sequenced
   message ever put on the wire carries a sequence within it. *)
Theorem C43_never_beyond_requested : forall sess notify W fx ops,
  sess <> 0 -> 1 <= W -> forallb legit ops = true ->
  let s := run (sys_init sess notify W fx) ops in
  p_demand (sP s) <= c_upto (sC s) /\ p_cur (sP s) <= c_upto (sC s) /\ c_upto (sC s) <= c_conf (sC s) + W /\
  forall se m q, In (SeqMsg se m q) (netCC s) -> 1 <= q <= p_cur (sP s) /\ q <= c_upto (sC s).
Proof. intros. eapply sent_within_requested; try eassumption; apply reach_inv; assumption. Qed.

(* At the moment of emission: whatever a step sends is at or below the producer's demand after that step,
   which is at or below the consumer's highest request. *)
Theorem C43_emitted_within_demand : forall sess notify W fx ops o,
  sess <> 0 -> 1 <= W -> forallb legit ops = true -> legit o = true ->
  let s := run (sys_init sess notify W fx) ops in
  Forall (seq_within (p_demand (sP (sys_step s o)))) (outs_toCC (fst (snd (sys_step_out s o)))) /\
  p_demand (sP (sys_step s o)) <= c_upto (sC (sys_step s o)).
Proof. intros. eapply emitted_within_demand; try eassumption; apply reach_inv; assumption. Qed.

(* The consumer-side receive buffer: strictly ascending sequences above expectedSeq and within the request, hence
   never more than window-1 entries — the "buffer full" drop of bufferMessage is unreachable. *)
Theorem C43_buffer_within_window : forall sess notify W fx ops,
  sess <> 0 -> 1 <= W -> forallb legit ops = true ->
  let s := run (sys_init sess notify W fx) ops in
  Z.of_nat (length (c_buf (sC s))) <= W - 1 /\
  lb_sorted (c_exp (sC s)) (c_buf (sC s)) /\ (forall e, In e (c_buf (sC s)) -> snd e <= c_upto (sC s)).
Proof. intros. eapply buffer_below_window; try eassumption; apply reach_inv; assumption. Qed.

(* Chunked flows (one message = several sequence numbers). The literal property FAILED on the code before the repair
   (/repo commit 22a84ff = fixes/C43-registration-demand.diff): the
   registration rule demandUpTo := currentSeq lifts the demand to sequences that were stored beyond it, and the
   pending chunks are then emitted beyond everything the consumer controller ever requested. Witness schedule in the
   demand-ledger model of C43/Chunked.v (window 4, two messages of three chunks, a re-registration between Stored
   and StoredAck); checks/C43.py replays it on the real controllers (corpus/C43) on every run; on an unrepaired tree it is reported
   under the signature chunked-flow:re-registration-lifts-demandUpTo-to-currentSeq-beyond-highest-request. *)
Theorem C43_chunked_registration_refuted : exists ops, l_maxemit (lrun false ops) > l_maxreq (lrun false ops).
Proof. exact chunked_refuted. Qed.

(* The same defect through the consumer-death path: registration repaired, handleTerminated still setting
   demandUpTo := currentSeq (corpus/C43/02-*.json replays the witness on the real controllers). *)
Theorem C43_chunked_terminated_refuted : exists ops, l_maxemit (lrun2 true false ops) > l_maxreq (lrun2 true false ops).
Proof. exact chunked_terminated_refuted. Qed.

(* With the registration rule demandUpTo := min(demandUpTo, currentSeq) (fixes/C43-registration-demand.diff) the
   demand and everything emitted stay within the highest request, for every schedule and every chunk count. *)
Theorem C43_chunked_registration_partial : forall ops,
  let s := lrun true ops in l_demand s <= l_maxreq s /\ l_maxemit s <= l_maxreq s.
Proof. exact chunked_partial. Qed.

Print Assumptions C43_never_beyond_requested.
Print Assumptions C43_emitted_within_demand.
Print Assumptions C43_buffer_within_window.
Print Assumptions C43_chunked_registration_refuted.
Print Assumptions C43_chunked_registration_partial.
Print Assumptions C43_chunked_terminated_refuted.
