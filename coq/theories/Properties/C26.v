(* C26 — Actor addresses survive their text form.
   Statements only; proofs are in C26/Proofs.v and C26/Valid.v over C26/Model.v, which mirrors
   internal/address/address.go with Parse splitting host and port at the last ':'
   (fixes/C26-ipv6.diff).  Strings are byte lists. *)
From Coq Require Import ZArith List Bool.
From GV Require Import C26.Model C26.Proofs C26.Valid.
Import ListNotations.
Open Scope Z_scope.

(* For EVERY address that Validate accepts ([validate] models Validate exactly: TCP host:port check via
   JoinHostPort/TrimSpace/SplitHostPort, non-empty system and name, name <= 255 bytes, the name pattern,
   recursively valid parent of the same system/host/port and another name) whose host is free of '/'
   and '@' — every host name, IPv4 and IPv6 literal is (C26_host_classes) — Parse restores from the
   String form an address with the same name, system, host and port and the same parent name.
   The one excluded degenerate value is the no-sender sentinel given a parent. *)
Theorem C26_parse_restores_address : forall a,
  validate a = true -> part_ok (a_host a) -> (is_zero a = true -> parent_name a = []) ->
  exists a', parse (build a) = Some a' /\
    a_name a' = a_name a /\ a_system a' = a_system a /\ a_host a' = a_host a /\ a_port a' = a_port a /\
    parent_name a' = parent_name a.
Proof.
  intros a H1 H2 H3. exists (strip a). split; [exact (roundtrip_valid a H1 H2 H3)|].
  destruct (strip_fields a) as [E1 [E2 [E3 E4]]]. repeat split; try assumption. exact (parent_name_strip a).
Qed.

(* the same under the bare side conditions (no validation needed): nothing but '/' and '@' in the
   parts and a non-negative int32 port matter *)
Theorem C26_parse_restores_address_general : forall a, addr_ok a -> parse (build a) = Some (strip a).
Proof. exact parse_build. Qed.

(* the host:port sliced out of the string is the address's host and port *)
Theorem C26_hostport_extracted : forall a, validate a = true -> no_byte c_slash (a_host a) ->
  host_port_of (build a) = Some (host_port a).
Proof. exact hostport_valid. Qed.

(* host names, IPv4 and IPv6 hosts satisfy the host side condition *)
Theorem C26_host_classes : forall h, forallb is_host_char h = true -> part_ok h.
Proof. exact host_class_ok. Qed.

(* the text form identifies the address (lookup by the raw wire string is unambiguous) *)
Theorem C26_string_identifies_address : forall a b, validate a = true -> validate b = true ->
  part_ok (a_host a) -> part_ok (a_host b) ->
  (is_zero a = true -> parent_name a = []) -> (is_zero b = true -> parent_name b = []) ->
  build a = build b -> strip a = strip b.
Proof. exact build_injective. Qed.

(* Parse is a total function of the string; its only slicing, hostPort[:sep] / hostPort[sep+1:], is
   in bounds for every input (no panic) *)
Theorem C26_parse_slices_in_bounds : forall hp i, last_index c_colon hp = Some i -> (i < length hp)%nat.
Proof. exact (last_index_lt c_colon). Qed.

(* IPv6: accepted by Validate, restored by Parse; the former first-':' split rejected it *)
Theorem C26_ipv6_witness :
  validate ex_v6 = true /\ parse (build ex_v6) = Some ex_v6 /\ parse_first_colon (build ex_v6) = None /\
  host_port_of (build ex_v6) = Some (host_port ex_v6).
Proof. exact ipv6_roundtrip. Qed.

Print Assumptions C26_parse_restores_address.
Print Assumptions C26_parse_restores_address_general.
Print Assumptions C26_hostport_extracted.
Print Assumptions C26_host_classes.
Print Assumptions C26_string_identifies_address.
Print Assumptions C26_parse_slices_in_bounds.
Print Assumptions C26_ipv6_witness.
