(* C01 — An actor's message handler never runs concurrently with itself.
   Statements only; model in C01/Model.v (M-DISPATCH), proofs in C01/Proofs.v.

   [reach MBs MBu c s]: s is reachable by ANY interleaving of ANY number of producers
   (doReceive / grain receive), dispatcher workers (take; runTurn; finishOrReclaim; yield) and
   restartSubtree threads, spawned at any time, for ANY mailbox pair (system/responses, user),
   ANY throughput budget, PID (grain c = false) or grain (grain c = true, with the paused flag
   toggled from inside the handler = reentrant requests). *)
From Coq Require Import List Arith Bool.
From GV Require Import C01.Model C01.Proofs.
Import ListNotations.

(* Full strength, for the dispatch protocol in which restartSubtree does not store Idle off-turn
   (the repaired code): at most one worker owns the turn and at most one handler invocation is in
   progress, in every reachable state. *)
Theorem C01_mutex : forall (MBs MBu : mbox) (c : cfg) (s : state MBs MBu),
  restart_resets c = false -> reach MBs MBu c s ->
  at_most_one_turn_owner MBs MBu s /\ at_most_one_in_handler MBs MBu s.
Proof. exact mutex. Qed.

(* With the off-turn reset in the code: mutual exclusion holds on every execution up to the first
   off-turn reset (offresets is the ghost count of executed off-turn resets) ... *)
Theorem C01_partial : forall (MBs MBu : mbox) (c : cfg) (s : state MBs MBu),
  reach MBs MBu c s -> offresets s = 0 ->
  at_most_one_turn_owner MBs MBu s /\ at_most_one_in_handler MBs MBu s.
Proof. exact mutex_partial. Qed.

(* ... and fails after it: a reachable state with two workers inside the handler of one actor
   (PID and grain instance). The witness schedule is replayed on the real actors by the harness. *)
Theorem C01_restart_refuted : forall g : bool, exists s : state F F,
  reach F F (cfg_reset g) s /\ two_in_handler s = true /\
  nth_error (ths s) 2 = Some (WHandler 0 31) /\ nth_error (ths s) 3 = Some (WHandler 1 31).
Proof. exact restart_refuted. Qed.

(* A handler runs only while the state word says Processing. *)
Theorem C01_handler_implies_processing : forall (MBs MBu : mbox) (c : cfg) (s : state MBs MBu) i x n,
  restart_resets c = false -> reach MBs MBu c s ->
  nth_error (ths s) i = Some (WHandler x n) -> st s = Processing.
Proof. exact handler_implies_processing. Qed.

(* Exactly one ticket (queued or in a thread's hand) exists while Scheduled and none otherwise. *)
Theorem C01_ticket_unique : forall (MBs MBu : mbox) (c : cfg) (s : state MBs MBu),
  restart_resets c = false -> reach MBs MBu c s ->
  tickets s + cnt holds_ticket (ths s) = schedN (st s).
Proof. exact ticket_unique. Qed.

Print Assumptions C01_mutex.
Print Assumptions C01_partial.
Print Assumptions C01_restart_refuted.
Print Assumptions C01_handler_implies_processing.
Print Assumptions C01_ticket_unique.
