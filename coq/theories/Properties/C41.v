(* C41 — Deleted CRDT keys stay deleted until their tombstone expires.  Statements only; proofs in
   C41/Proofs.v over the executable model C41/Model.v of actor/replicator.go (tied to the real
   replicator's Receive by differential execution of message histories on every run).
   The value type V, its merge/delta/reset/compact and the update functions are arbitrary.
   A replica's next state depends only on its own state and the message it receives, so a theorem
   for ALL message lists covers every number of peers, every interleaving, duplication, loss and
   reordering on the network, and every content of the peers' messages. *)
From stdpp Require Import gmap.
From Coq Require Import ZArith.
From GV Require Import C38.Model C38.Exec C41.Model C41.Exec C41.Proofs.

Section C41.
  Context {V U : Type}.
  Context (vmerge : V → V → V) (vdelta : V → option V) (vreset : V → V) (vcompact : V → V).
  Context (apply : U → V → V) (self : N) (ttl : Z).
  Notation stepf := (step vmerge vdelta vreset vcompact apply self ttl).
  Notation runf := (run vmerge vdelta vreset vcompact apply self ttl).

  (* After ANY message history a tombstoned key has no value and no version. *)
  Theorem C41_tombstoned_not_in_store : ∀ (ms : list (msg V U)) k,
    is_Some (r_tombs (runf r_init ms) !! k) →
    r_store (runf r_init ms) !! k = None ∧ r_vers (runf r_init ms) !! k = None.
  Proof. intros ms k. apply (inv_run vmerge vdelta vreset vcompact apply self ttl ms r_init inv_init). Qed.

  (* ... and every single handler preserves that. *)
  Theorem C41_every_handler_preserves : ∀ s (m : msg V U), inv s → inv (stepf s m).1.
  Proof. exact (inv_step vmerge vdelta vreset vcompact apply self ttl). Qed.

  (* Later updates, deltas and full-state entries for a tombstoned key are ignored (an update still gets its reply). *)
  Theorem C41_update_ignored : ∀ s k ty init (u : U) sd, is_Some (r_tombs s !! k) →
    stepf s (MUpdate k ty init u sd) = (s, if sd then [OReplyUpdate] else []).
  Proof. exact (update_ignored vmerge vdelta vreset vcompact apply self ttl). Qed.
  Theorem C41_delta_ignored : ∀ s k ty o (v : V), is_Some (r_tombs s !! k) →
    stepf s (MDelta (DMsg k ty o v)) = (s, []).
  Proof. exact (delta_ignored vmerge vdelta vreset vcompact apply self ttl). Qed.
  Theorem C41_full_state_ignored : ∀ es s k, is_Some (r_tombs s !! k) →
    r_store (stepf s (MFull es)).1 !! k = r_store s !! k ∧ r_vers (stepf s (MFull es)).1 !! k = r_vers s !! k ∧
    is_Some (r_tombs (stepf s (MFull es)).1 !! k).
  Proof. exact (full_state_ignored vmerge vdelta vreset vcompact apply self ttl). Qed.

  (* A replica that holds the tombstone exposes nothing for the key. *)
  Theorem C41_not_exposed : ∀ s k, inv s → is_Some (r_tombs s !! k) →
    (∀ coord peers, stepf s (MGet k coord peers) = (s, [OGetResp None])) ∧
    (∀ ty, (stepf s (MReadReq (Some (k, ty)))).2 = [OReadResp None]) ∧
    (∀ peer sd es, (stepf s (MDigest peer sd)).2 = [OFull es] → ∀ e, e ∈ es → e.1.1 ≠ k).
  Proof. exact (not_exposed vmerge vdelta vreset vcompact apply self ttl). Qed.

  (* Only Prune at a time with now - deletedAt > ttl removes a tombstone, and it removes exactly those. *)
  Theorem C41_tombstone_lifetime : ∀ s (m : msg V U) k t,
    r_tombs s !! k = Some t → r_tombs (stepf s m).1 !! k = None →
    ∃ now, m = MPrune now ∧ (ttl < now - t_at t)%Z.
  Proof. exact (tombstone_lifetime vmerge vdelta vreset vcompact apply self ttl). Qed.
  Theorem C41_prune_exact : ∀ s now k t, r_tombs s !! k = Some t →
    (r_tombs (stepf s (MPrune now)).1 !! k = None ↔ (ttl < now - t_at t)%Z).
  Proof. exact (prune_exact vmerge vdelta vreset vcompact apply self ttl). Qed.
End C41.

(* handleGet as it stands in the pinned tree (no tombstone check before the coordinated read):
   the invariant breaks and the value is exposed.  Replayed on the real replicator by the check;
   repaired by /verif/fixes/C41-get-tombstone.diff, which is what [step_get] models. *)
Theorem C41_get_unrepaired_refuted :
  ∃ (s : rstate val0) (k : N) (v : val0),
    inv s ∧ is_Some (r_tombs s !! k) ∧
    let r := step_get_unrepaired merge0 s k true [Some v] in
    ¬ inv r.1 ∧ r.2 = [OGetResp (Some v)].
Proof. exact c41_get_refuted. Qed.

Print Assumptions C41_tombstoned_not_in_store.
Print Assumptions C41_every_handler_preserves.
Print Assumptions C41_update_ignored.
Print Assumptions C41_delta_ignored.
Print Assumptions C41_full_state_ignored.
Print Assumptions C41_not_exposed.
Print Assumptions C41_tombstone_lifetime.
Print Assumptions C41_prune_exact.
Print Assumptions C41_get_unrepaired_refuted.
