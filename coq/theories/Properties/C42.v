(* C42 — Reliable point-to-point delivery is ordered and gap-free under message faults.
   Statements only; model in C42/Model.v (mirrors actor/reliable_delivery_{producer,consumer}_controller.go,
   volatile non-chunked core, one incarnation of each controller), proofs in C42/Proofs.v.
   Quantification: every schedule [ops] of legitimate steps — each step delivers ANY message ever sent between
   the controllers (so any loss, duplication, reordering, delay), fires either timer, or lets an endpoint say
   anything (contract-abiding or not) — of any length. [run] folds the controllers' real step functions. *)
From Coq Require Import ZArith List Bool.
From GV Require Import C42.Model C42.Lemmas C42.InvP C42.InvC C42.Proofs C42.Progress C42.Notices.
From GV Require C42.Examples.
Import ListNotations.
Open Scope Z_scope.

(* The Delivery sequence handed to the consumer endpoint: the first carries seq 1, every next one repeats the
   previous seq or carries the next seq, and the Delivery of seq q carries the q-th message the producer
   controller stored (production order, no gap, no foreign message). *)
Theorem C42_in_order_no_gaps : forall sess notify W fx ops,
  sess <> 0 -> 1 <= W -> forallb legit ops = true ->
  let s := run (sys_init sess notify W fx) ops in
  in_order (p_log (sP s)) 0 (toCons s).
Proof. intros. eapply deliveries_in_order; try eassumption; apply reach_inv; assumption. Qed.

(* A Delivery is (re-)presented only while it is the unconfirmed one in flight: after the step that hands it
   over it is the in-flight delivery and lies just above the consumer's confirmation watermark, and that
   watermark never decreases (so a confirmed sequence is never presented again). *)
Theorem C42_represented_only_while_in_flight : forall sess notify W fx ops o,
  sess <> 0 -> 1 <= W -> forallb legit ops = true -> legit o = true ->
  let s := run (sys_init sess notify W fx) ops in
  Forall (fresh_delivery sess (sC (sys_step s o))) (outs_toCons (snd (snd (sys_step_out s o)))) /\
  c_conf (sC s) <= c_conf (sC (sys_step s o)) /\ c_upto (sC s) <= c_upto (sC (sys_step s o)).
Proof. intros. eapply represented_only_in_flight; try eassumption; apply reach_inv; assumption. Qed.

(* confirmed (producer) <= confirmed (consumer) <= delivered <= stored; the producer's unconfirmed buffer is
   exactly the contiguous run (confirmedSeq, currentSeq] of the stored log. *)
Theorem C42_chain_confirmed_delivered_stored : forall sess notify W fx ops,
  sess <> 0 -> 1 <= W -> forallb legit ops = true ->
  let s := run (sys_init sess notify W fx) ops in
  p_conf (sP s) <= c_conf (sC s) /\ c_conf (sC s) <= K (sC s) /\ K (sC s) <= p_cur (sP s) /\
  p_cur (sP s) = Z.of_nat (length (p_log (sP s))) /\
  p_unconf (sP s) = number (p_conf (sP s)) (skipn (Z.to_nat (p_conf (sP s))) (p_log (sP s))).
Proof. intros. eapply chain; try eassumption; apply reach_inv; assumption. Qed.

(* Progress ("every produced message is eventually confirmed", under eventual non-lossiness): from EVERY reachable
   state in which the producer controller is alive, the sequence space is not exhausted and something is
   unconfirmed, the continuation [recover s] computed from the state — two consumer ticks, loss-free delivery of the
   newest controller messages in order, the consumer endpoint confirming what it is handed — consists of legitimate
   steps only and strictly increases the producer's confirmedSeq. (The state after it is reachable again, so the
   argument repeats until everything stored is confirmed.) *)
Theorem C42_progress_confirmed_increases : forall sess notify W fx ops,
  sess <> 0 -> 1 <= W -> W <= maxWindowCap -> forallb legit ops = true ->
  let s := run (sys_init sess notify W fx) ops in
  p_failed (sP s) = false -> p_cur (sP s) < maxI64 - 1 -> p_conf (sP s) < p_cur (sP s) ->
  forallb legit (recover s) = true /\ p_conf (sP s) < p_conf (sP (run s (recover s))).
Proof.
  intros. split; [apply recover_legit|].
  apply (recover_progress sess W); auto; [apply reach_inv; assumption|apply nn_reach].
Qed.

(* Confirmation as the producer endpoint sees it: the DeliveryConfirmed notices it was told are exactly the stored
   messages 1 .. confirmedSeq, each once, in sequence order, when the endpoint asked for them ([notice_list]: number
   the first confirmedSeq entries of the stored log), and none otherwise. *)
Theorem C42_confirmed_to_producer_once_in_order : forall sess notify W fx ops,
  sess <> 0 -> 1 <= W -> forallb legit ops = true ->
  let s := run (sys_init sess notify W fx) ops in
  dc_of (toProd s) = notice_list (sP s).
Proof. intros. apply (reach_notices sess W); assumption. Qed.

Print Assumptions C42_in_order_no_gaps.
Print Assumptions C42_represented_only_while_in_flight.
Print Assumptions C42_chain_confirmed_delivered_stored.
Print Assumptions C42_progress_confirmed_increases.
Print Assumptions C42_confirmed_to_producer_once_in_order.
