(* C11 — A name maps to at most one running actor in a system.
   Statements only.  Model: C11/Model.v (per-path single flight + lookup + newPID + counter + addNode
   with canonical-instance return, Shutdown, death watch deleting by path).  Proofs: C11/Proofs.v. *)
From Coq Require Import List ZArith.
Import ListNotations.
From GV Require Import C11.Model C11.Proofs.

(* every interleaving: all callers coalesced on one flight receive the same result *)
Theorem C11_same_flight_same_result : forall s n f r r', reach s ->
  In (f, r) (handed (s n)) -> In (f, r') (handed (s n)) -> r = r'.
Proof. exact same_flight_same_result. Qed.

(* every interleaving: increments and decrements of the actors counter are paired — a name's
   share is its registered node plus at most one increment in flight *)
Theorem C11_counter_share : forall s n, reach s ->
  cnt (s n) = (node_count (node (s n)) + flight_counted (flight (s n)))%Z.
Proof. intros s n R. now apply counter_share. Qed.

(* C11_partial: when a name is never looked up while its tree node still holds a stopped instance
   (the death watch has handled the Terminated of a stopped actor before it is spawned again):
   at most one instance of the name runs at any time ... *)
Theorem C11_at_most_one_running_partial : forall s n, reach_g s -> length (runs (s n)) <= 1.
Proof. intros s n R. now apply at_most_one_running. Qed.

(* ... every successful caller is handed the instance that is registered and running ... *)
Theorem C11_handed_pid_is_running_partial : forall s l s' n p, reach_g s -> step_ok s l = true -> step s l = Some s' ->
  completes s s' n -> In (fid (s n), RPid p) (handed (s' n)) ->
  node (s' n) = Some p /\ In p (runs (s' n)).
Proof. exact handed_pid_is_running. Qed.

(* ... and after the calls settle the actor count equals the number of running user actors *)
Theorem C11_num_actors_partial : forall s names, reach_g s -> (forall n, In n names -> quiet (s n) = true) ->
  num_actors s names = fold_right (fun n acc => ((if running_registered (s n) then 1 else 0) + acc)%Z) 0%Z names.
Proof. exact num_actors_at_quiescence. Qed.
Theorem C11_counter_at_quiescence_partial : forall s n, reach_g s -> quiet (s n) = true ->
  cnt (s n) = (if running_registered (s n) then 1 else 0)%Z /\
  length (runs (s n)) = (if running_registered (s n) then 1 else 0).
Proof. exact counter_at_quiescence. Qed.

(* the literal property fails for spawns racing a stop of that name *)
Theorem C11_respawn_refuted : exists s, run init witness_respawn = Some s /\ reach s /\
  handed (s 0) = [(2, RPid 0); (1, RPid 0); (0, RPid 0)] /\ runs (s 0) = [2; 1] /\
  node (s 0) = None /\ quiet (s 0) = true /\ cnt (s 0) = 0%Z.
Proof. exact respawn_refuted. Qed.

Theorem C11_respawn_child_refuted : exists s, run init witness_respawn_child = Some s /\ reach s /\
  handed (s 0) = [(1, RPid 1); (0, RPid 0)] /\ runs (s 0) = [1] /\ node (s 0) = None /\
  quiet (s 0) = true /\ cnt (s 0) = 0%Z.
Proof. exact respawn_child_refuted. Qed.

(* the driver-level function the tie evaluates only takes steps of the small-step system *)
Theorem C11_driver_within_model : forall kids k d a, reach (d_s d) -> reach (d_s (fst (drive kids k d a))).
Proof. exact drive_reach. Qed.

Print Assumptions C11_same_flight_same_result.
Print Assumptions C11_counter_share.
Print Assumptions C11_at_most_one_running_partial.
Print Assumptions C11_handed_pid_is_running_partial.
Print Assumptions C11_num_actors_partial.
Print Assumptions C11_counter_at_quiescence_partial.
Print Assumptions C11_respawn_refuted.
Print Assumptions C11_respawn_child_refuted.
Print Assumptions C11_driver_within_model.
