(* C14 — Behavior switching follows stack semantics.
   Statements only; the model is C14/Model.v (mirrors actor/behavior_stack.go and the four
   *Behavior* helpers of actor/pid.go), the proofs are in C14/Proofs.v. A message is the list of
   switch calls its handler makes; [run init msgs] is the handler identity per message. *)
From Coq Require Import List ZArith Bool.
From GV Require Import C14.Model C14.Proofs.
Import ListNotations.
Open Scope Z_scope.

(* For every sequence of messages, each making any sequence of Become / BecomeStacked /
   UnBecomeStacked / UnBecome calls, the handler of every message is the one the property's stack
   predicts (Become => [b]; BecomeStacked => push; UnBecomeStacked => pop; UnBecome => [default]). *)
Theorem C14_refines : forall msgs : list (list op),
  run init msgs = spec_run [default_b] msgs.
Proof. exact refines_from_init. Qed.

(* ... from any state of the code's stack, not only the initial one. *)
Theorem C14_refines_any_state : forall (s : bstack) (msgs : list (list op)),
  run s msgs = spec_run (top s) msgs.
Proof. intros s msgs. exact (run_refines msgs s). Qed.

(* The message being handled finishes under the behaviour that started it: the handler of the
   i-th message is the top of the stack left by the first i messages, whatever its own script does. *)
Theorem C14_current_message_keeps_its_handler : forall (msgs : list (list op)) (i : nat),
  (i < length msgs)%nat ->
  nth i (run init msgs) None = bs_peek (final init (firstn i msgs)).
Proof. intros msgs i. exact (run_nth msgs init i). Qed.

(* UnBecome restores only the default behaviour, clearing stacked ones: whatever was done before,
   the state after `... UnBecome; post` is the state after `post` on a fresh actor. *)
Theorem C14_unbecome_clears : forall (pre post : list op) (s : bstack),
  fold_left apply_op (pre ++ UnBecome :: post) s = fold_left apply_op post init.
Proof. exact unbecome_clears. Qed.

(* Become replaces all behaviours with one. *)
Theorem C14_become_replaces_all : forall (pre post : list op) (b : nat) (s : bstack),
  fold_left apply_op (pre ++ Become b :: post) s = fold_left apply_op post (bs_push b bs_new)
  /\ top (apply_op s (Become b)) = [b].
Proof. intros. split; [apply become_replaces | apply become_single]. Qed.

(* BecomeStacked pushes and UnBecomeStacked pops: together they are the identity. *)
Theorem C14_push_pop_inverse : forall (b : nat) (msgs : list (list op)),
  let s := final init msgs in
  apply_op (apply_op s (BecomeStacked b)) UnBecomeStacked = s.
Proof. intros b msgs s. apply push_pop_inverse. apply len_exact. Qed.

(* Len() is the number of behaviours on the stack (modulo 2^64, the counter's width). *)
Theorem C14_len_exact : forall msgs : list (list op),
  bs_len (final init msgs) = Z.of_nat (length (top (final init msgs))) mod 2 ^ 64.
Proof. exact len_exact. Qed.

(* A message is left unhandled exactly when the stack is empty, and an empty stack stays empty. *)
Theorem C14_unhandled_iff_empty : forall (s : bstack) (script : list op),
  snd (handle s script) = None <-> top s = [].
Proof. exact unhandled_iff_empty. Qed.

Theorem C14_empty_absorbing : forall (msgs : list (list op)) (s : bstack),
  top s = [] -> run s msgs = repeat None (length msgs).
Proof. exact empty_absorbing. Qed.

(* If no script ever pops the last remaining behaviour, every message has a handler and the
   documented reading of UnBecomeStacked ("no effect if there is no stack") coincides with the code. *)
Theorem C14_guarded_always_handled : forall msgs : list (list op),
  guarded [default_b] msgs = true ->
  run init msgs = doc_run [default_b] msgs /\ Forall (fun h => h <> None) (run init msgs).
Proof.
  intros msgs H. rewrite refines_from_init.
  exact (guarded_always_handled msgs [default_b] H).
Qed.

(* Without that guard the documented reading is NOT what the code does (popping the only behaviour
   leaves the actor without a handler); the property's stack, which pops, is. Reported as a
   documentation discrepancy, not as a violation of C14. *)
Theorem C14_doc_no_effect_refuted : exists msgs : list (list op),
  run init msgs <> doc_run [default_b] msgs.
Proof. exact doc_no_effect_refuted. Qed.

(* The code before the repair (UnBecome = push the default) does not refine the property's stack. *)
Theorem C14_unrepaired_code_refuted : exists msgs : list (list op),
  run_prefix init msgs <> spec_run [default_b] msgs.
Proof. exact prefix_refuted. Qed.

Print Assumptions C14_refines.
Print Assumptions C14_refines_any_state.
Print Assumptions C14_current_message_keeps_its_handler.
Print Assumptions C14_unbecome_clears.
Print Assumptions C14_become_replaces_all.
Print Assumptions C14_push_pop_inverse.
Print Assumptions C14_len_exact.
Print Assumptions C14_unhandled_iff_empty.
Print Assumptions C14_empty_absorbing.
Print Assumptions C14_guarded_always_handled.
Print Assumptions C14_doc_no_effect_refuted.
Print Assumptions C14_unrepaired_code_refuted.
