(* C03 — messages from one sender are processed in the order they were sent.
   Statements only; proofs are in C03/Proofs.v. *)
From Coq Require Import List Bool Arith ZArith.
Import ListNotations.
From GV Require Import C04.Contract C03.Model.

Theorem C03_placeholder_rq_fifo : forall (Msg : Type) (dec : forall a b : Msg, {a = b} + {a <> b}) (cap : option nat),
  fifo_contract dec (rq dec cap).
Proof. exact rq_fifo. Qed.

Print Assumptions C03_placeholder_rq_fifo.
