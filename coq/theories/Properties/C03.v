(* C03 — messages from one sender are processed in the order they were sent.
   Statements only; proofs are in C03/Proofs.v (system = sender programs "Tell (t,0); Tell (t,1); ..."
   composed with per-key reservation queues of C04/Contract.v; the consumer may serve any key). *)
From Coq Require Import List Bool Arith ZArith Sorted.
Import ListNotations.
From GV Require Import C04.Contract C03.Model C03.Proofs.

(* Single-queue FIFO mailboxes (UnboundedMailbox, segmented, Workiva ring, Vyukov ring: one key, any
   capacity): for ANY number of sender threads and ANY interleaving of their reserve/publish steps
   with the consumer, the sequence numbers of the messages of thread t that the actor has handled
   are strictly increasing — send order; also when a bounded mailbox refuses some of them. *)
Theorem C03_fifo_single_queue : forall (cap : option nat) (s : sys) (t : nat),
  reach (fun _ => 0%nat) cap s -> StronglySorted lt (seqs t (handled s)).
Proof. intros cap s t H. exact (per_sender_fifo (fun _ => 0%nat) cap s t H). Qed.

(* UnboundedFairMailbox: per-sender sub-queues (key = sender identity, possibly shared by several
   threads); the consumer may serve the sub-queues in any order (round-robin is one such order). *)
Theorem C03_fifo_per_sender_queues : forall (key : nat -> nat) (s : sys) (t : nat),
  reach key None s -> StronglySorted lt (seqs t (handled s)).
Proof. intros key s t H. exact (per_sender_fifo key None s t H). Qed.

(* every handled message was sent by its sender, and is handled at most once *)
Theorem C03_handled_were_sent : forall key cap s t q,
  reach key cap s -> In (t, q) (handled s) -> (q < nextseq s t)%nat.
Proof. exact handled_were_sent. Qed.

Theorem C03_handled_at_most_once : forall key cap s t,
  reach key cap s -> NoDup (seqs t (handled s)).
Proof. exact handled_once. Qed.

(* BatchTell is the loop "for m in messages: Tell m": the same sender program. *)

(* Two mailboxes (system mailbox drained first): for EVERY routing decision of doReceive, the messages of
   one sender that are routed to the user mailbox are handled in send order, whatever else anybody sends. *)
Theorem C03_user_routed_fifo : forall (kind_of : nat -> nat -> nat) (to_system : nat -> bool) s t,
  rreach kind_of to_system s -> StronglySorted lt (useq kind_of to_system t (rhandled s)).
Proof. exact user_routed_fifo. Qed.

(* With the routing of the code (Tell, the Request envelope and the Response envelope all go to the user
   mailbox) a sender mixing Tell / BatchTell / Request keeps its whole send order ... *)
Theorem C03_tell_and_request_in_send_order : forall kind_of s t,
  rreach kind_of (fun _ => false) s ->
  StronglySorted lt (map snd (filter (fun m => Nat.eqb (fst m) t) (rhandled s))).
Proof. exact tell_and_request_in_send_order. Qed.

(* ... which is exactly what is lost if the Request envelope is routed to the system mailbox. *)
Theorem C03_request_routing_refuted :
  exists s, rreach (fun _ q => if Nat.eqb q 1 then 1 else 0)%nat (fun k => Nat.eqb k 1) s /\
            rhandled s = [(0, 1); (0, 0)]%nat.
Proof. exact request_overtakes_tell. Qed.

(* Stash: a generation of messages that arrive while the actor stashes and are then unstashed is
   processed exactly once, in arrival order ((1,i) = stashed, (0,i) = processed). *)
Theorem C03_stash_generation : forall (ids : list Z) lg,
  arun (length ids + S (S (length ids))) (mkAst (map Send ids ++ [StashOff; UnstashAll]) [] true lg)
  = mkAst [] [] false (lg ++ map (fun i => (1%Z, i)) ids ++ map (fun i => (0%Z, i)) ids).
Proof. exact stash_generation. Qed.

(* UnstashAll re-delivers the whole stash box oldest first, behind what is already queued. *)
Theorem C03_unstash_all_in_order : forall (queued box : list Z) lg,
  arun (S (length queued + length box)) (mkAst (UnstashAll :: map Send queued) box false lg)
  = mkAst [] [] false (lg ++ map (fun i => (0%Z, i)) queued ++ map (fun i => (0%Z, i)) box).
Proof. exact unstash_all_in_order. Qed.

(* Unstash re-delivers exactly the oldest stashed message. *)
Theorem C03_unstash_one_oldest : forall (queued : list Z) i box lg,
  arun (S (S (length queued))) (mkAst (UnstashOne :: map Send queued) (i :: box) false lg)
  = mkAst [] box false (lg ++ map (fun j => (0%Z, j)) queued ++ [(0%Z, i)]).
Proof. exact unstash_one_oldest. Qed.

Print Assumptions C03_fifo_single_queue.
Print Assumptions C03_fifo_per_sender_queues.
Print Assumptions C03_handled_were_sent.
Print Assumptions C03_handled_at_most_once.
Print Assumptions C03_user_routed_fifo.
Print Assumptions C03_tell_and_request_in_send_order.
Print Assumptions C03_request_routing_refuted.
Print Assumptions C03_stash_generation.
Print Assumptions C03_unstash_all_in_order.
Print Assumptions C03_unstash_one_oldest.
