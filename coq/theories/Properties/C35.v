(* C35 — Relocation handoff masking respects caller deadlines.
   Statements only; model in C35/Model.v (deliverAcrossHandoff on a logical clock with an oracle for
   ActorOf outcomes, delays and cancellation), proofs in C35/Proofs.v and C35/Theorems.v.
   `e :: rest` is the oracle: one event per resolution attempt; theorems hold for every oracle. *)
From Coq Require Import List ZArith NArith Bool Arith.
From GV Require Import C35.Model C35.Proofs C35.Theorems.
Import ListNotations.
Open Scope Z_scope.

(* sleepWithinHandoff never sleeps past its deadline and refuses once the deadline has passed *)
Theorem C35_sleep_clamped : forall duration remaining,
  match sleep_request duration remaining with
  | None => remaining <= 0
  | Some d => 0 < remaining /\ d = Z.min duration remaining
  end.
Proof. exact sleep_request_spec. Qed.

(* total slept <= the caller's timeout, for every positive timeout *)
Theorem C35_sleep_within_caller_timeout : forall maxWait e rest, 0 < maxWait ->
  zsum (tr_sleeps (deliverAcrossHandoff maxWait (e :: rest))) <= maxWait.
Proof. exact sleep_within_caller_budget. Qed.

(* total slept <= min(window, maxWait) + the not-found mask window, with or without a caller timeout *)
Theorem C35_sleep_within_windows : forall maxWait e rest,
  zsum (tr_sleeps (deliverAcrossHandoff maxWait (e :: rest))) <= window maxWait + notFoundWindow /\
  window maxWait <= handoffWindow /\ (0 < maxWait -> window maxWait <= maxWait).
Proof.
  intros m e rest. split; [apply sleep_bounded|]. pose proof (window_bounds 0 m). tauto.
Qed.

(* the one delivery gets a context bounded by the caller deadline (start + maxWait) *)
Theorem C35_deliver_bounded_by_caller_deadline : forall maxWait e rest d,
  tr_result (deliverAcrossHandoff maxWait (e :: rest)) = Delivered d ->
  d = if maxWait >? 0 then Some (Z.of_N (ev_delta e) + maxWait) else None.
Proof. exact deliver_context_deadline. Qed.

(* the loop terminates: no oracle keeps it running for more than 72 attempts *)
Theorem C35_loop_terminates : forall maxWait e rest, (71 < length (e :: rest))%nat ->
  tr_result (deliverAcrossHandoff maxWait (e :: rest)) <> Pending.
Proof. exact terminates. Qed.

(* when masking gives up, the error is the retryable one that stalled it *)
Theorem C35_gives_up_with_retryable_error : forall maxWait e rest r,
  tr_result (deliverAcrossHandoff maxWait (e :: rest)) = GaveUp r ->
  exists x, In x (e :: rest) /\ ((r = ErrRelocationInProgress /\ ev_outcome x = Pinned) \/
                                  (r = ErrOfResolution /\ ev_outcome x = NotFound)).
Proof. exact gave_up_retryable. Qed.

(* with a timeout, the loop is never found running later than timeout + one scheduling/resolution delay *)
Theorem C35_returns_within_timeout_plus_delay : forall maxWait e rest rho, 0 < maxWait -> 0 <= rho ->
  Forall (fun x => Z.of_N (ev_delta x) <= rho) rest ->
  Forall (fun t => t <= Z.of_N (ev_delta e) + maxWait + rho) (tr_reads (deliverAcrossHandoff maxWait (e :: rest))).
Proof. exact reads_within_budget. Qed.

(* the asynchronous send resolves once and never sleeps; a departing endpoint gives the retryable error *)
Theorem C35_async_never_sleeps : forall inCluster o,
  fst (fst (deliverBypassingHandoff inCluster o)) = 1%nat /\ snd (fst (deliverBypassingHandoff inCluster o)) = [].
Proof. exact bypass_never_sleeps. Qed.

Theorem C35_async_retryable_on_departing_endpoint :
  snd (deliverBypassingHandoff true Pinned) = GaveUp ErrRelocationInProgress.
Proof. exact bypass_pinned_is_retryable. Qed.

Print Assumptions C35_sleep_clamped.
Print Assumptions C35_sleep_within_caller_timeout.
Print Assumptions C35_sleep_within_windows.
Print Assumptions C35_deliver_bounded_by_caller_deadline.
Print Assumptions C35_loop_terminates.
Print Assumptions C35_gives_up_with_retryable_error.
Print Assumptions C35_returns_within_timeout_plus_delay.
Print Assumptions C35_async_never_sleeps.
Print Assumptions C35_async_retryable_on_departing_endpoint.
