(* C19 — Scheduled messages are delivered as scheduled, and cancelled ones stop.
   Statements only; model in C19/Model.v (actor/scheduler.go over the go-quartz contract it uses, and
   the cluster tick claim of internal/cluster ClaimScheduleFire), proofs in C19/Proofs.v, C19/Claim.v.
   [reach c s]: s is reachable from the empty scheduler by ANY sequence of schedule / cancel / pause /
   resume operations, loop iterations and completions of job functions whose clock readings never go
   back.  [creach ttl_of c]: c is reachable by ANY interleaving of ANY number of nodes claiming ticks,
   every put happening while the tick's claim entry cannot have expired. *)
From Coq Require Import ZArith List Bool.
From GV Require Import C19.Model C19.Proofs C19.Claim.
Import ListNotations.
Open Scope Z_scope.

(* Every delivery comes from a firing of its schedule; a firing never precedes its run time; the run
   time of a one-shot is its schedule time + delay (so nothing is delivered before the delay); the
   run time of an interval schedule is one interval after its previous run (or schedule / resume). *)
Theorem C19_delivered_as_scheduled : forall c s f,
  reach c s -> In f (s_delivered s) ->
  In f (s_fired s) /\ f_run f <= f_at f /\
  match f_trig f with
  | TOnce d => f_run f = f_sched f + d /\ f_sched f + d <= f_at f
  | TEvery iv => f_run f = f_sched f + iv
  end.
Proof. exact deliveries_as_scheduled. Qed.

(* A one-shot fires at most once, whatever is done to it and to other references meanwhile. *)
Theorem C19_once_at_most_once : forall ops c s r j,
  reach c s -> valid_run c ops -> jget r (s_jobs s) = Some j -> is_once j = true ->
  forallb (fun o => negb (mentions r o)) ops = true ->
  (count_ref r (s_fired (exec s ops)) <= count_ref r (s_fired s) + 1)%nat.
Proof. exact once_at_most_once. Qed.

(* ... and it does fire when the loop finds it due. *)
Theorem C19_fires_when_due : forall s r j now,
  head_due (s_jobs s) = Some (r, j) -> j_next j <= now ->
  let s' := fst (step s (OTick now)) in
  s_fired s' = s_fired s ++ [mkFire r (j_next j) now (j_trig j) (j_sched j)] /\
  s_inflight s' = s_inflight s ++ [mkFire r (j_next j) now (j_trig j) (j_sched j)].
Proof. exact once_fires_when_due. Qed.

(* "Exactly once" refuted for the order schedule / pause / resume: resuming a paused one-shot
   reports "trigger has expired", the job is gone, and nothing is ever delivered for it. *)
Theorem C19_once_exactly_once_refuted :
  valid_run 0 lost_once_ops /\
  map snd (trace s0 lost_once_ops) = [EOk; EOk; EExpired] /\
  s_jobs (exec s0 lost_once_ops) = [] /\ s_fired (exec s0 lost_once_ops) = [] /\
  forall ops, valid_run 20 ops -> forallb (fun o => negb (mentions 0%nat o)) ops = true ->
    count_ref 0%nat (s_delivered (exec (exec s0 lost_once_ops) ops)) = 0%nat.
Proof. exact lost_once_witness. Qed.

(* After CancelSchedule has returned — with whatever result — the reference never fires again until
   it is scheduled anew, and the deliveries that still complete were in flight when it returned
   (at most one when job functions complete before the next firing of the same job). *)
Theorem C19_cancel_stops : forall c s r ops,
  reach c s -> valid_run c (OCancel r :: ops) ->
  forallb (fun o => negb (mentions r o)) ops = true ->
  let s1 := fst (step s (OCancel r)) in
  let s2 := exec s1 ops in
  count_ref r (s_fired s2) = count_ref r (s_fired s) /\
  (count_ref r (s_delivered s2) <= count_ref r (s_delivered s) + count_ref r (s_inflight s))%nat.
Proof. exact cancel_stops. Qed.

(* Registering again under a reference whose schedule is still queued is refused and leaves that
   schedule queued, known and cancellable (ScheduleOnce and Schedule are push_new in the model). *)
Theorem C19_duplicate_registration_keeps_live : forall c s r j t first now,
  reach c s -> jget r (s_jobs s) = Some j ->
  let s' := fst (push_new s r t first now) in
  snd (push_new s r t first now) = EExists /\
  s_jobs s' = s_jobs s /\ mem r (s_keys s') = true /\
  snd (step s' (OCancel r)) = EOk /\ jget r (s_jobs (fst (step s' (OCancel r)))) = None.
Proof. exact duplicate_registration_keeps_live. Qed.

(* While a schedule is paused it does not fire. *)
Theorem C19_paused_does_not_fire : forall ops c s r j,
  reach c s -> valid_run c ops -> jget r (s_jobs s) = Some j -> j_susp j = true ->
  forallb (fun o => negb (touches r o)) ops = true ->
  count_ref r (s_fired (exec s ops)) = count_ref r (s_fired s).
Proof. exact paused_run. Qed.

(* An unknown reference, and a reference once CancelSchedule has returned, report the
   reference-not-found error to cancel, pause and resume. *)
Theorem C19_unknown_reference : forall s r,
  mem r (s_keys s) = false ->
  step s (OCancel r) = (s, ENotFound) /\ step s (OPause r) = (s, ENotFound) /\
  forall now, step s (OResume r now) = (s, ENotFound).
Proof. exact unknown_reference. Qed.

Theorem C19_cancelled_reference : forall c s r,
  reach c s ->
  let s' := fst (step s (OCancel r)) in
  snd (step s' (OCancel r)) = ENotFound /\ snd (step s' (OPause r)) = ENotFound /\
  forall now, snd (step s' (OResume r now)) = ENotFound.
Proof. exact cancelled_reference. Qed.

(* Cluster cron: for every interleaving of any number of nodes, each tick (reference, run time) is
   won by at most one node and delivered at most once ... *)
Theorem C19_cron_claim_unique : forall ttl_of c k,
  creach ttl_of c -> (winners c k <= 1)%nat /\ (deliveries c k <= winners c k)%nat.
Proof. exact claim_unique. Qed.

(* ... and by exactly one as soon as some node has attempted the claim. *)
Theorem C19_cron_claim_some_winner : forall ttl_of c k n,
  creach ttl_of c -> In n (c_nodes c) -> n_key n = k -> n_attempted n = true -> winners c k = 1%nat.
Proof. exact claim_some_winner. Qed.

(* The guard of creach is needed: a node stalled between its staleness test and its put until the
   winner's entry has expired delivers the tick a second time. *)
Theorem C19_cron_claim_unguarded_refuted :
  deliveries (crun c0 stall_labels) (0%nat, 1000) = 2%nat /\ ~ (1000 <= 1061 < 1000 + 60).
Proof. exact stall_witness. Qed.

(* claimClusterFire seen as one call is the staleness test followed by the put at the same clock reading. *)
Theorem C19_claim_call_is_check_then_put : forall c k ttl now,
  let i := length (c_nodes c) in
  let c' := crun c [LArrive k ttl; LCheck i now; LPut i now] in
  c_reg c' = fst (claim_once (c_reg c) k ttl now) /\
  option_map n_pc (nth_error (c_nodes c') i) =
    Some (match snd (claim_once (c_reg c) k ttl now) with 0 => PSkipped | 1 => PWon | _ => PLost end).
Proof. exact claim_once_is_check_put. Qed.

Print Assumptions C19_delivered_as_scheduled.
Print Assumptions C19_once_at_most_once.
Print Assumptions C19_fires_when_due.
Print Assumptions C19_once_exactly_once_refuted.
Print Assumptions C19_cancel_stops.
Print Assumptions C19_duplicate_registration_keeps_live.
Print Assumptions C19_paused_does_not_fire.
Print Assumptions C19_unknown_reference.
Print Assumptions C19_cancelled_reference.
Print Assumptions C19_cron_claim_unique.
Print Assumptions C19_cron_claim_some_winner.
Print Assumptions C19_cron_claim_unguarded_refuted.
Print Assumptions C19_claim_call_is_check_then_put.
