(* C17 — Stopping the actor system tears down every actor exactly once.
   Statements only.  Model: C17/Model.v (ActorSystem.Stop: gate, user guardian subtree = C09's
   stop protocol, poisonAllGrains, sends), C06/Model.v for the per-actor handler view.
   Proofs: C17/Proofs.v, C17/Handler.v (and C09/StopProofs.v, C06/Theorems.v). *)
From Coq Require Import List Bool.
Import ListNotations.
From GV Require Import C09.StopModel C09.StopProofs C17.Model C17.Proofs.
From GV Require C09.StopAll.
From GV Require C06.Model C17.Handler.

(* PostStop (and PreStart) at most once for every user actor — every interleaving *)
Theorem C17_user_poststop_at_most_once : forall ws s, C17.Model.reach ws s -> NoDup (trace (tree s)).
Proof. exact user_poststop_at_most_once. Qed.

(* once userGuardian.Shutdown has returned: every actor along the children snapshots below the
   guardian has had its PostStop and is not running — for the repaired freeChildren on EVERY
   interleaving ... *)
Theorem C17_user_tree_stopped_repaired : forall s, C17.Model.reach true s -> tree_stopped (C17.Model.ph s) = true ->
  forall d, chain (tree s) 0 d -> running (acts (tree s) d) = false /\ In (EPostE d) (trace (tree s)).
Proof. intros s R. apply (user_tree_stopped_g true s (or_introl eq_refl) R). Qed.

(* ... children before parents *)
Theorem C17_children_first_repaired : forall s, C17.Model.reach true s -> order_ok (tree s).
Proof. intros s R. apply (user_children_first_g true s (or_introl eq_refl) R). Qed.

(* the same for the previous freeChildren on race-free executions *)
Theorem C17_user_tree_stopped_partial : forall s, C17.Model.reach_rf false s -> tree_stopped (C17.Model.ph s) = true ->
  forall d, chain (tree s) 0 d -> running (acts (tree s) d) = false /\ In (EPostE d) (trace (tree s)).
Proof. intros s R. apply (user_tree_stopped_g false s (or_intror R) (reach_rf_reach _ _ R)). Qed.

(* PostStop for EVERY user actor whose spawn has returned, anywhere below the user guardian, on every
   execution (concurrent stops included) in which no children snapshot is taken while a SpawnChild of
   that actor is in flight *)
Theorem C17_every_user_actor_stopped : forall s, reach_ns true s -> tree_stopped (C17.Model.ph s) = true ->
  forall d, C09.StopAll.desc (tree s) 0 d -> C09.StopAll.complete (acts (tree s) d) ->
  running (acts (tree s) d) = false /\ In (EPostE d) (trace (tree s)).
Proof. exact every_user_actor_stopped. Qed.

(* an actor whose SpawnChild is in flight when the system stops is outside every snapshot *)
Theorem C17_spawn_during_stop_refuted : forall ws, exists s, C17.Model.run ws sys0 witness_spawn_during_stop = Some s /\ C17.Model.reach ws s /\
  C17.Model.ph s = PDone /\ running (acts (tree s) 2) = true /\ par (acts (tree s) 2) = Some 1 /\
  running (acts (tree s) 1) = false /\ running (acts (tree s) 0) = false.
Proof. exact spawn_during_stop_refuted. Qed.

(* grains: OnDeactivate at most once per activation — every interleaving *)
Theorem C17_grain_deactivated_at_most_once : forall ws s g, C17.Model.reach ws s ->
  count_gev (GDeact g) (gtrace s) <= count_gev (GAct g) (gtrace s) <= S (count_gev (GDeact g) (gtrace s)).
Proof. exact grain_deactivated_at_most_once. Qed.

(* ... and exactly once by the time Stop is through with the grains *)
Theorem C17_grains_all_deactivated : forall ws s g, C17.Model.reach ws s -> C17.Model.ph s = PDone ->
  g_active (grains s g) = false /\ count_gev (GAct g) (gtrace s) = count_gev (GDeact g) (gtrace s).
Proof. exact grains_all_deactivated. Qed.

(* sends after the gate are rejected (ErrSystemShuttingDown / dead letter), never enqueued *)
Theorem C17_sends_after_gate_rejected : forall ws s a o, C17.Model.reach ws s -> In (a, true, o) (sends s) -> o = Rejected.
Proof. exact sends_after_gate_rejected. Qed.
Theorem C17_gate_closed_during_stop : forall ws s, C17.Model.reach ws s -> stopping_phase (C17.Model.ph s) = true -> sd s = true.
Proof. exact gate_closed_during_stop. Qed.

(* after Stop returned, a send to an actor whose PostStop completed fails (ErrDead) *)
Theorem C17_send_to_stopped_actor_fails : forall ws s a s', C17.Model.reach ws s -> C17.Model.ph s = PDone ->
  In (EPostE a) (trace (tree s)) -> C17.Model.step ws s (LTell a) = Some s' ->
  exists rest, sends s' = (a, false, Dead) :: rest.
Proof. exact send_to_stopped_actor_fails. Qed.

(* "after Stop returns no user handler runs" fails: the stop of an actor completes while its
   handler is still running (C06's off-turn stop; the dispatcher's workers are not awaited) *)
Theorem C17_handler_outlives_stop_refuted : forall fp, exists s,
  C06.Model.run fp C06.Model.init C17.Handler.witness_handler_outlives_stop = Some s /\ C06.Model.reach fp s /\
  C06.Model.running s = false /\ C06.Model.cs s = None /\ C06.Model.in_recv s = true /\
  C06.Model.trace s = [C06.Model.EPostE 1; C06.Model.EPostB 1; C06.Model.ERecvB 1; C06.Model.EPre 1].
Proof. exact C17.Handler.handler_outlives_stop_refuted. Qed.

(* ... and holds when no stop overlaps a turn *)
Theorem C17_no_handler_during_poststop_partial : forall fp s, C06.Model.reach_q fp s ->
  C06.Model.in_recv s && C06.Model.in_post s = false.
Proof. exact C17.Handler.no_handler_during_poststop_quiet. Qed.

Print Assumptions C17_user_poststop_at_most_once.
Print Assumptions C17_user_tree_stopped_repaired.
Print Assumptions C17_children_first_repaired.
Print Assumptions C17_user_tree_stopped_partial.
Print Assumptions C17_every_user_actor_stopped.
Print Assumptions C17_spawn_during_stop_refuted.
Print Assumptions C17_grain_deactivated_at_most_once.
Print Assumptions C17_grains_all_deactivated.
Print Assumptions C17_sends_after_gate_rejected.
Print Assumptions C17_gate_closed_during_stop.
Print Assumptions C17_send_to_stopped_actor_fails.
Print Assumptions C17_handler_outlives_stop_refuted.
Print Assumptions C17_no_handler_during_poststop_partial.
