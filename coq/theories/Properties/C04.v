(* C04 — every mailbox implementation behaves like its sequential specification.
   Statements only; proofs are in C04/*.v.  Models: C04/Model.v (the nine mailboxes as coded),
   C04/Contract.v (reservation queue = UnboundedMailbox and the contract the other FIFO mailboxes
   are tied to), C04/ConcPrio.v, C04/ConcFair.v (atomic-step models).

   The literal property is FALSE on the current tree in four ways, each shown on the real code by
   checks/C04.py and recorded in known_findings.json; each has a [_refuted] witness here and the
   strongest statement that holds as [_partial]:
     - emptiness reports while a completed enqueue is outstanding (reservation-style queues, and the
       mutex-based priority mailbox whose counter is bumped after the push);
     - phantom ErrMailboxFull of the bounded priority mailboxes;
     - permanent stall of UnboundedFairMailbox (sender deactivated while a producer is mid-link);
     - pooled-segment reuse of the segmented mailbox (C04/ConcSeg.v models the global pool; the FIFO
       theorems for this mailbox are the reservation-queue ones, i.e. under "a segment is not
       re-issued while a producer still holds it"). *)
From Coq Require Import List Bool Arith ZArith Permutation.
Import ListNotations.
From GV Require Import C04.Model C04.Contract C04.Heap C04.Seq C04.Pow2 C04.Ring C04.Seg C04.Fair C04.Prio C04.ConcPrio C04.ConcFair C04.ConcSeg.

(* ---------------------------------------------------------------- FIFO, any interleaving *)

(* The reservation queue satisfies the visibility contract for every interleaving of
   reserve / publish / dequeue / isEmpty steps of any number of producers: ghost-exact conservation,
   "empty report => nothing held or an enqueue in flight", progress when all enqueues completed. *)
Theorem C04_fifo_visibility_contract : forall (Msg : Type) (dec : forall a b : Msg, {a = b} + {a <> b}) (cap : option nat),
  visibility_contract dec (rq dec cap).
Proof. exact rq_contract. Qed.

(* FIFO by linearisation point: Dequeue returns exactly the oldest reserved message, and only
   when its enqueue has completed; a nil means nothing is held or the oldest is incomplete. *)
Theorem C04_fifo_order : forall (Msg : Type) (dec : forall a b : Msg, {a = b} + {a <> b}) (cap : option nat),
  fifo_contract (rq dec cap).
Proof. exact rq_fifo. Qed.

(* bounded: never more than capacity held; refused only at capacity (reservations counted) *)
Theorem C04_fifo_capacity : forall (Msg : Type) (dec : forall a b : Msg, {a = b} + {a <> b}) (c : nat),
  bounded_contract (rq dec (Some c)) c.
Proof. exact rq_bounded. Qed.

(* the literal emptiness clause fails: a completed enqueue hidden behind an incomplete one *)
Theorem C04_fifo_empty_report_refuted : forall (Msg : Type) (dec : forall a b : Msg, {a = b} + {a <> b}) (a b : Msg),
  a <> b -> exists s, mreach (rq dec None) s /\ In (b, true) s /\ rq_isEmpty s = true /\ fst (rq_deq s) = None.
Proof. exact rq_hidden_completed. Qed.

(* ... and this is what holds instead, for every mailbox satisfying the contract *)
Theorem C04_empty_report_partial : forall (Msg : Type) (dec : forall a b : Msg, {a = b} + {a <> b}) (M : mbox Msg),
  visibility_contract dec M -> forall s, mreach M s ->
  (m_isEmpty M s = true \/ fst (m_deq M s) = None) -> all_complete (m_held M s) = true -> m_held M s = [].
Proof. intros Msg dec M VC s. exact (@empty_report_all_complete Msg dec M VC s). Qed.

(* ---------------------------------------------------------------- sequential refinement *)

(* UnboundedMailbox: for all operation sequences, outputs and Len/IsEmpty after every operation
   are those of a FIFO list *)
Theorem C04_unbounded_refines_fifo : forall ops,
  mrun unb_model (minit unb_model) ops = mrun (fifo_spec None false) (minit (fifo_spec None false)) ops.
Proof. exact unb_refines_fifo. Qed.

(* UnboundedSegmentedMailbox: segments with write / dequeue indices, roll-over to a fresh segment when
   one fills, dropping of drained head segments — a FIFO list, for every segment size K >= 1 (256 in
   the code) and every operation sequence *)
Theorem C04_segmented_refines_fifo : forall K, (1 <= K)%nat -> forall ops,
  mrun (seg_model K) (minit (seg_model K)) ops = mrun (fifo_spec None false) (minit (fifo_spec None false)) ops.
Proof. exact seg_refines_fifo. Qed.

(* NonBlockingBoundedMailbox: the Vyukov ring (cells with sequence numbers, masked positions) is, for
   EVERY requested capacity (up to 2^62) and every operation sequence, the FIFO queue whose capacity is
   the least power of two >= max(capacity, 2): ErrMailboxFull exactly when that many are held *)
Theorem C04_ring_refines_bounded_fifo : forall cap, (cap <= 2 ^ 62)%Z -> forall ops,
  mrun (nbb_model cap) (minit (nbb_model cap)) ops =
  mrun (fifo_spec (Some (2 ^ Z.log2_up (Z.max cap 2))%Z) false)
       (minit (fifo_spec (Some (2 ^ Z.log2_up (Z.max cap 2))%Z) false)) ops.
Proof. exact nbb_refines_fifo_all. Qed.

(* BoundedMailbox over the Workiva ring (same cells; a Put on a full ring blocks until the next Get;
   at least two cells after the capacity repair): blocking FIFO queue of the rounded capacity *)
Theorem C04_bounded_refines_blocking_fifo : forall cap, (cap <= 2 ^ 62)%Z -> forall ops,
  mrun (wb_model cap) (minit (wb_model cap)) ops =
  mrun (fifo_spec (Some (2 ^ Z.log2_up (Z.max cap 2))%Z) true)
       (minit (fifo_spec (Some (2 ^ Z.log2_up (Z.max cap 2))%Z) true)) ops.
Proof. exact wb_refines_fifo_all. Qed.

(* the documented rounding (bit smearing of nextPowerOfTwo): least power of two >= max(n, 2) *)
Theorem C04_nextPowerOfTwo : forall n, (n <= 2 ^ 62)%Z ->
  nextPowerOfTwo n = (2 ^ Z.log2_up (Z.max n 2))%Z /\ (Z.max n 2 <= nextPowerOfTwo n < 2 * Z.max n 2)%Z.
Proof. intros n H. split; [exact (nextPowerOfTwo_spec n H) | exact (proj1 (nextPowerOfTwo_bounds n H))]. Qed.

(* the binary heap shared by the four priority mailboxes (container/heap and stableHeap run the same
   up/down loops): for every strict weak order, push keeps the heap order and the elements; pop
   returns a minimum, keeps the heap order and the remaining elements *)
Theorem C04_heap_push : forall (A : Type) (less : A -> A -> bool),
  (forall a b, less a b = true -> less b a = false) ->
  (forall a b c, less a b = false -> less b c = false -> less a c = false) ->
  forall l x, heap_ok less l -> heap_ok less (hpush less l x) /\ Permutation (hpush less l x) (x :: l).
Proof. intros A less Ha Hn l x. exact (hpush_correct less Ha Hn l x). Qed.

Theorem C04_heap_pop_min : forall (A : Type) (less : A -> A -> bool),
  (forall a b, less a b = true -> less b a = false) ->
  (forall a b c, less a b = false -> less b c = false -> less a c = false) ->
  forall l x h, heap_ok less l -> hpop less l = Some (x, h) ->
  heap_ok less h /\ Permutation (x :: h) l /\ (forall y, In y l -> less y x = false) /\ nth_error l 0 = Some x.
Proof. intros A less Ha Hn l x h. exact (hpop_correct less Ha Hn l x h). Qed.

(* priority-then-arrival: both stable priority mailboxes ARE the stable priority queue (take the
   first minimal message in arrival order), all sequences, all capacities *)
Theorem C04_stable_priority_refines : forall cap pf ops,
  mrun (stable_model cap pf) (minit (stable_model cap pf)) ops =
  mrun (pq_spec cap pf) (minit (pq_spec cap pf)) ops.
Proof. exact stable_refines_pq. Qed.

(* priority order: every behaviour of the unstable priority mailboxes is a behaviour of the
   priority queue (Dequeue returns a minimum of what is held; conservation; exact Len/IsEmpty;
   ErrMailboxFull exactly at capacity) *)
Theorem C04_bounded_priority_behaviour : forall cap pf ops,
  pq_ok pf (Some cap) [] ops (mrun (bprio_model cap pf) (minit (bprio_model cap pf)) ops).
Proof. exact bprio_behaves_as_priority_queue. Qed.

Theorem C04_unbounded_priority_behaviour : forall pf ops,
  pq_ok pf None [] ops (mrun (uprio_model pf) (minit (uprio_model pf)) ops).
Proof. exact uprio_behaves_as_priority_queue. Qed.

(* ---------------------------------------------------------------- priority mailboxes, any interleaving *)

Theorem C04_intake_capacity : forall cap c s, cap = Some c -> (0 <= c)%Z -> ireach cap s ->
  (zlen (iheld s) + zlen (iadm s) <= c)%Z.
Proof. exact intake_capacity. Qed.

Theorem C04_intake_conservation : forall cap s, ireach cap s -> Permutation (iheld s ++ iout s) (ipushed s).
Proof. exact intake_conservation. Qed.

Theorem C04_intake_empty_report : forall cap s s', ireach cap s ->
  (istep cap s (ITake None) s' \/ istep cap s (IIsEmpty true) s') -> iheld s = [].
Proof.
  intros cap s s' Hr [H|H]; [exact (intake_deq_nil_means_empty cap s s' Hr H) | exact (intake_isempty_means_empty cap s s' Hr H)].
Qed.

Theorem C04_reject_only_when_full_refuted :
  exists s m s', ireach (Some 1%Z) s /\ istep (Some 1%Z) s (IAdmit m true) s' /\
                 iheld s = [] /\ iadm s = [] /\ icp s = false.
Proof. exact intake_reject_refuted. Qed.

Theorem C04_reject_only_when_full_partial : forall cap c s m s', cap = Some c -> ireach cap s ->
  istep cap s (IAdmit m true) s' ->
  (c <= zlen (iheld s) + zlen (iadm s) + Z.of_nat (irej s) + b2z (icp s))%Z.
Proof. exact intake_reject_partial. Qed.

Theorem C04_uprio_empty_report_refuted :
  exists s m2, lreach s /\ In m2 (ldone s) /\ In m2 (lheap s) /\ lcp s = false /\
               lstep s (LTake None) s /\ lstep s (LIsEmpty true) s.
Proof. exact uprio_empty_report_refuted. Qed.

Theorem C04_uprio_empty_report_partial : forall s l s', lreach s -> lstep s l s' ->
  (l = LTake None \/ l = LIsEmpty true) -> lcp s = false -> lheap s = [] \/ lpend s <> [].
Proof. exact uprio_empty_report_partial. Qed.

(* ---------------------------------------------------------------- fair mailbox *)

(* the stall: a reachable quiescent state with two accepted messages (both Enqueue calls returned),
   Len = 2, no active sender — and every further Dequeue returns nil *)
Theorem C04_fair_stall_refuted :
  quiescent stalled = true /\ clength stalled = 2%Z /\ caq stalled = [] /\ cdone stalled = [1%Z; 2%Z] /\
  forall n, couts (frun (repeat 2%nat n)
                    (mkC (cboxes stalled) (caq stalled) (clength stalled) (cprods stalled) (CIdle, n) [] (cdone stalled)))
            = repeat None n.
Proof.
  destruct stalled_facts as [A [B [C [_ [E _]]]]]. repeat split; try assumption.
  intros n. exact (proj1 (fair_stall_is_permanent n)).
Qed.

(* ... what does hold for the fair mailbox: without a producer preempted mid-enqueue (any
   sequential use) it is exactly "per-sender FIFO queues served round-robin in activation order",
   for all operation sequences and any number of sender keys; per-sender FIFO under full
   concurrency is C03_fifo_per_sender_queues *)
Theorem C04_fair_partial : forall ops,
  mrun fair_model (minit fair_model) ops = mrun rr_spec (minit rr_spec) ops.
Proof. exact fair_refines_rr. Qed.

(* ---------------------------------------------------------------- segmented mailbox *)

(* the pooled-segment reuse: a producer of mailbox 0 holding a stale tail segment stores its message
   after the segment was drained, pooled and re-issued to mailbox 1: the message (id 1) is accepted
   by mailbox 0 (Enqueue returned), delivered by mailbox 1, never by mailbox 0, whose Len stays 1 *)
Theorem C04_segmented_pool_aba_refuted :
  sdeliv aba_final = [(0%nat, 101%Z); (0%nat, 102%Z); (0%nat, 2%Z); (1%nat, 1%Z); (1%nat, 3%Z)] /\
  nth_error (sthreads aba_final) 1 = Some (SIdle, []) /\
  sblen (box_at aba_final 0) = 1%Z /\
  In (1%nat, mid ma) (sdeliv aba_final) /\ ~ In (0%nat, mid ma) (sdeliv aba_final).
Proof. exact segmented_pool_aba. Qed.

Print Assumptions C04_segmented_pool_aba_refuted.
Print Assumptions C04_fair_partial.
Print Assumptions C04_fifo_visibility_contract.
Print Assumptions C04_fifo_order.
Print Assumptions C04_fifo_capacity.
Print Assumptions C04_fifo_empty_report_refuted.
Print Assumptions C04_empty_report_partial.
Print Assumptions C04_unbounded_refines_fifo.
Print Assumptions C04_segmented_refines_fifo.
Print Assumptions C04_ring_refines_bounded_fifo.
Print Assumptions C04_bounded_refines_blocking_fifo.
Print Assumptions C04_nextPowerOfTwo.
Print Assumptions C04_heap_push.
Print Assumptions C04_heap_pop_min.
Print Assumptions C04_stable_priority_refines.
Print Assumptions C04_bounded_priority_behaviour.
Print Assumptions C04_unbounded_priority_behaviour.
Print Assumptions C04_intake_capacity.
Print Assumptions C04_intake_conservation.
Print Assumptions C04_intake_empty_report.
Print Assumptions C04_reject_only_when_full_refuted.
Print Assumptions C04_reject_only_when_full_partial.
Print Assumptions C04_uprio_empty_report_refuted.
Print Assumptions C04_uprio_empty_report_partial.
Print Assumptions C04_fair_stall_refuted.
