(* C04 — every mailbox implementation behaves like its sequential specification.
   Statements only; proofs are in C04/*.v. *)
From Coq Require Import List Bool Arith ZArith.
Import ListNotations.
From GV Require Import C04.Contract.

(* The reservation queue (UnboundedMailbox, and the contract the other FIFO mailboxes refine)
   satisfies the visibility contract for every interleaving of reserve/publish/dequeue steps. *)
Theorem C04_rq_visibility_contract : forall (Msg : Type) (dec : forall a b : Msg, {a = b} + {a <> b}) (cap : option nat),
  visibility_contract dec (rq dec cap).
Proof. exact rq_contract. Qed.

Print Assumptions C04_rq_visibility_contract.
