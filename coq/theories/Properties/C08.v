(* C08 — Restart backoff and fault counting are arithmetically correct.
   Statements only; proofs are in C08/Proofs.v over Gen/C08.v (regenerated from /repo each run). *)
From Coq Require Import ZArith Bool.
From GV Require Import Lib.GoInt Gen.C08 C08.Proofs.
Open Scope Z_scope.

(* For every int64 fault count and int64 nanosecond delays the delay is min(initial*2^(n-1), max)
   (computed over unbounded Z), and zero when backoff is disabled. *)
Theorem C08_closed_form : forall faults initial maximum,
  in_i64 faults -> in_i64 initial -> in_i64 maximum ->
  backoffDelay faults initial maximum =
    if (initial <=? 0) || (faults <? 1) then 0 else Z.min (initial * 2 ^ (faults - 1)) maximum.
Proof. exact backoffDelay_correct. Qed.

Theorem C08_never_negative : forall faults initial maximum,
  in_i64 faults -> in_i64 initial -> in_i64 maximum -> 0 <= maximum ->
  0 <= backoffDelay faults initial maximum.
Proof. intros f i m Hf Hi Hm H0. rewrite backoffDelay_correct by assumption. exact (spec_nonneg f i m H0). Qed.

Theorem C08_never_exceeds_max : forall faults initial maximum,
  in_i64 faults -> in_i64 initial -> in_i64 maximum -> 0 <= maximum ->
  backoffDelay faults initial maximum <= maximum.
Proof.
  intros f i m Hf Hi Hm H0. rewrite backoffDelay_correct by assumption.
  destruct (Z_lt_le_dec 0 i) as [Hp|Hn]; [destruct (Z_le_gt_dec 1 f) as [Hf1|Hf0]|].
  - exact (spec_le_max f i m Hp Hf1).
  - rewrite spec_disabled; [exact H0 | right; apply Z.gt_lt in Hf0; exact Hf0].
  - rewrite spec_disabled; [exact H0 | left; exact Hn].
Qed.

Theorem C08_never_decreases : forall f1 f2 initial maximum,
  in_i64 f1 -> in_i64 f2 -> in_i64 initial -> in_i64 maximum -> 0 <= maximum -> f1 <= f2 ->
  backoffDelay f1 initial maximum <= backoffDelay f2 initial maximum.
Proof.
  intros f1 f2 i m H1 H2 Hi Hm H0 Hle. rewrite !backoffDelay_correct by assumption.
  exact (spec_monotone f1 f2 i m H0 Hle).
Qed.

Theorem C08_zero_when_disabled : forall faults initial maximum,
  in_i64 faults -> in_i64 initial -> in_i64 maximum -> initial <= 0 \/ faults < 1 ->
  backoffDelay faults initial maximum = 0.
Proof. intros f i m Hf Hi Hm H. rewrite backoffDelay_correct by assumption. exact (spec_disabled f i m H). Qed.

(* The consecutive-fault counter restarts from one exactly when the previous fault (a real
   timestamp: 0 <= last <= now) is older than a positive window. *)
Theorem C08_window_reset : forall window last now,
  in_i64 window -> in_i64 now -> 0 <= last <= now ->
  recordFault_resets window last now = ((window >? 0) && (last >? 0) && (now - last >? window)).
Proof. exact recordFault_resets_correct. Qed.

Print Assumptions C08_closed_form.
Print Assumptions C08_never_negative.
Print Assumptions C08_never_exceeds_max.
Print Assumptions C08_never_decreases.
Print Assumptions C08_zero_when_disabled.
Print Assumptions C08_window_reset.
