(* C12 — Passivation only removes actors that are truly idle.
   Statements only; model in C12/Model.v (mirrors actor/passivation_manager.go, pid.markActivity and
   pid.tryPassivation), proofs in C12/Proofs.v.  [reach c m]: m is reachable from the empty manager
   by ANY sequence of manager operations, activity marks, resets and counter updates whose clock
   readings never go back (valid_op); [reach_pm] additionally says that every activity stamp is the
   clock reading at which the message was handled (one clock reading per message). *)
From Coq Require Import ZArith List Bool.
From GV Require Import C12.Model C12.Proofs.
Import ListNotations.
Open Scope Z_scope.

(* No early passivation (stamps): whenever the manager decides to passivate an actor at clock [now],
   the actor's entry is time based with some timeout t, is not paused, its deadline has passed, and
   the latest activity stamp is older than t - 100ms (the touch-coalescing interval). *)
Theorem C12_no_early_passivation : forall c m id obj now,
  reach c m ->
  snd (step m (OTrigBegin id obj now)) = RDecide (Some (id, obj)) ->
  exists e t, aget id (m_entries m) = Some e /\ e_obj e = obj /\ e_strat e = STime t /\
              e_paused e = false /\ e_deadline e <= now /\
              now - p_latest (get_part m id) > t - touch_interval.
Proof. exact trig_decide_bound. Qed.

(* No early passivation (handled messages), for a dispatcher turn that reads the clock for every
   message: the last message the actor handled is older than t - 100ms. *)
Theorem C12_no_early_passivation_handled : forall c m id obj now,
  reach_pm c m ->
  snd (step m (OTrigBegin id obj now)) = RDecide (Some (id, obj)) ->
  exists e t, aget id (m_entries m) = Some e /\ e_strat e = STime t /\ e_paused e = false /\
              now - p_handled (get_part m id) > t - touch_interval.
Proof. exact trig_decide_bound_handled. Qed.

(* Refuted for the turn that reads the clock once (runTurn as it is): three 100 ms handlers in one
   turn with a 300 ms timeout — a valid history — end with the decision to passivate 100 ms after
   the actor handled a message; with one reading per message the same history does not. *)
Theorem C12_no_early_passivation_handled_refuted :
  valid_run 0 m0 (burst_ops false) /\
  snd (last (run m0 (burst_ops false)) (m0, RNone)) = RDecide (Some (0%nat, 0%nat)) /\
  p_handled (get_part (final m0 (burst_ops false)) 0) = 1200000000 /\
  1300000000 - 1200000000 < 300000000 - touch_interval /\
  snd (last (run m0 (burst_ops true)) (m0, RNone)) = RDecide None.
Proof. split; [exact (burst_valid false)|exact burst_witness]. Qed.

(* Resume recomputes the deadline of a paused time-based entry from the latest activity, so a
   message handled while passivation was paused counts. *)
Theorem C12_resume_refreshes : forall c m id e now,
  reach c m -> aget id (m_entries m) = Some e -> e_paused e = true -> is_time (e_strat e) = true ->
  exists e', aget id (m_entries (fst (step m (OResume id now)))) = Some e' /\
             e_paused e' = false /\ e_inheap e' = true /\
             e_deadline e' = (if p_latest (get_part m id) =? 0 then now else p_latest (get_part m id)) + e_timeout e.
Proof. exact resume_refreshes. Qed.

(* Message-count entries: a decision is only taken for the current, un-paused entry; when that
   entry is pending, the processed counter has reached baseline + maxMessages. *)
Theorem C12_count_threshold_partial : forall c m id obj,
  reach c m ->
  snd (step m OProcBegin) = RDecide (Some (id, obj)) ->
  exists e, aget id (m_entries m) = Some e /\ e_obj e = obj /\ e_paused e = false /\ e_strat e <> SOther /\
            (e_pending e = true ->
             exists n, e_strat e = SCount n /\ e_base e + n <= p_processed (get_part m id)).
Proof. exact proc_decide. Qed.

(* Refuted without the pending guard: a trigger queued before an in-place re-registration still
   leads to a decision although the counter is below the new baseline + maxMessages. *)
Theorem C12_count_threshold_refuted :
  valid_run 0 m0 stale_ops /\
  snd (last (run m0 stale_ops) (m0, RNone)) = RDecide (Some (0%nat, 0%nat)) /\
  (let m := final m0 (removelast stale_ops) in
   exists e, aget 0%nat (m_entries m) = Some e /\ e_strat e = SCount 2 /\ e_pending e = false /\
             p_processed (get_part m 0) < e_base e + 2).
Proof. exact stale_trigger_witness. Qed.

(* Long-lived (or unknown) strategies: registering one removes the entry, and no reachable entry
   ever carries one — so no decision can name such an actor. *)
Theorem C12_long_lived_never_scheduled : forall c m id ispid now,
  reach c m -> aget id (m_entries (fst (step m (ORegister id SOther ispid now)))) = None.
Proof. exact register_other_removes. Qed.

Theorem C12_entries_have_a_passivating_strategy : forall c m id e,
  reach c m -> aget id (m_entries m) = Some e -> e_strat e <> SOther.
Proof. exact entries_never_other. Qed.

(* tryPassivation stops the actor only when it has a strategy that is not long-lived, the system is
   not stopping, no skip-next is pending (neither before nor inside the critical section), and the
   actor is neither stopping, suspended nor paused. *)
Theorem C12_try_passivation_guards : forall f,
  fst (try_passivation f) = true ->
  f_strategy_nil f = false /\ f_long_lived f = false /\ f_system_stopping f = false /\
  f_skip_next f = false /\ f_stopping f = false /\ f_suspended f = false /\ f_paused f = false /\
  f_skip_next_in_critical f = false.
Proof. exact try_passivation_guards. Qed.

(* The whole invariant behind these statements, for every reachable state. *)
Theorem C12_invariant : forall c m, reach c m -> inv c m.
Proof. exact reach_inv. Qed.

Print Assumptions C12_no_early_passivation.
Print Assumptions C12_no_early_passivation_handled.
Print Assumptions C12_no_early_passivation_handled_refuted.
Print Assumptions C12_resume_refreshes.
Print Assumptions C12_count_threshold_partial.
Print Assumptions C12_count_threshold_refuted.
Print Assumptions C12_long_lived_never_scheduled.
Print Assumptions C12_entries_have_a_passivating_strategy.
Print Assumptions C12_try_passivation_guards.
Print Assumptions C12_invariant.
