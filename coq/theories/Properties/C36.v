(* C36 — a cluster singleton runs at most once cluster-wide.
   Statements only; model in C36/Model.v (over C30/Registry.v), proofs in C36/Proofs.v. *)
From Coq Require Import List Arith Bool.
From GV Require Import C30.Registry C36.Model C36.Proofs.
Import ListNotations.

(* The literal property is FALSE for SpawnSingleton as implemented (plain publication): there is an execution
   in which two nodes are each told by Members() that they are the coordinator, after which everything is
   quiescent and two instances of the singleton run. *)
Theorem C36_refuted :
  exists ls s, run false state0 ls = Some s /\ quiescent s /\ ~ at_most_one_instance s.
Proof. exact refuted_two_leaders. Qed.

(* Publishing with the atomic PutActorIfAbsent (the reliable-endpoint variant) does not repair it under leadership
   changes either: both instances start before either publishes, and the loser's rollback lets the death watch
   remove the winner's record by name, so a third node can start a second lasting instance. *)
Theorem C36_nx_refuted :
  exists ls s, run true state0 ls = Some s /\ quiescent s /\ ~ at_most_one_instance s.
Proof. exact refuted_nx. Qed.

(* What does hold, for BOTH publication modes, any number of nodes and concurrent calls, forwarding chains of any
   depth, failures injected at any registry operation, death-watch removals at any time, any length: if every
   Members() answer names the same node ld (stable leader: guard `stable ld`, checked at every step by run_g) then at
   every moment at most one instance runs, and it runs on ld. *)
Theorem C36_partial : forall nx ld ls s,
  run_g nx ld state0 ls = Some s ->
  at_most_one_instance s /\ (forall n i, is_running s n i -> n = ld).
Proof. exact stable_safe. Qed.

Example C36_partial_nonvacuous :
  match run_g false 2 state0 stable_example with
  | Some s => (running_list 3 s, r_get sk (sreg s), map ph (calls s), dws s)
  | None => ([], None, [], [])
  end = ([(2, 1)], Some 2, [PDone ROk; PDone RErr; PDone ROk], [(2, false)]).
Proof. exact stable_example_runs. Qed.

Print Assumptions C36_refuted.
Print Assumptions C36_nx_refuted.
Print Assumptions C36_partial.
Print Assumptions C36_partial_nonvacuous.
