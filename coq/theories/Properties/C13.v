(* C13 — Stashed messages are neither lost, duplicated nor reordered.
   Statements only. Model: C13/Model.v (actor/stash.go stash/unstash/unstashAll over a FIFO box, the re-sent
   clone appended to the actor's own mailbox); proofs: C13/Proofs.v.
   A history is ANY list of events: [Arrive m] (a message is sent to the actor) and [Deliver d] (the actor
   takes its next message and the handler makes the calls d — any list of Stash / Unstash / UnstashAll).
   Hypothesis of the re-delivery clauses (DESIGN 7/C13): the actor's own mailbox accepts the re-sent clone
   (the default unbounded mailbox always does; a full bounded mailbox dead-letters it — C18). *)
From Coq Require Import List Bool Arith.
From GV Require Import C13.Model C13.Proofs.
Import ListNotations.

(* Stash order is kept: at every point of every history, what was stashed (in stash order) is what has
   been unstashed so far (in unstash order) followed by what is still in the stash. Hence nothing stashed
   is lost or duplicated inside the stash, Unstash takes the oldest, UnstashAll takes all in stash order. *)
Theorem C13_stash_is_fifo : forall (buf : bool) (es : list event),
  let s := exec (init buf) es in
  stashed s = unstashed s ++ box s.
Proof. intros buf es. exact (inv_stash _ (reachable_inv buf es)). Qed.

(* Unstashed messages are delivered again exactly once and in unstash order: the re-deliveries made so
   far, followed by the re-sent messages still waiting in the mailbox, are exactly the unstashed ones. *)
Theorem C13_redelivered_exactly_once : forall (buf : bool) (es : list event),
  let s := exec (init buf) es in
  redelivered s ++ re_pending s = unstashed s.
Proof. intros buf es. exact (inv_re _ (reachable_inv buf es)). Qed.

(* ... so once the mailbox has drained, re-delivered = unstashed, and if the stash is empty as well,
   re-delivered = stashed: every stashed message came back exactly once, in stash order. *)
Theorem C13_all_come_back : forall (buf : bool) (es : list event),
  let s := exec (init buf) es in
  mbox s = [] -> box s = [] -> redelivered s = stashed s.
Proof.
  intros buf es s Hm Hb.
  pose proof (inv_stash _ (reachable_inv buf es)) as H1. pose proof (inv_re _ (reachable_inv buf es)) as H2.
  fold s in H1, H2. unfold re_pending in H2. rewrite Hm in H2. cbn in H2. rewrite Hb in H1.
  rewrite !app_nil_r in *. congruence.
Qed.

(* Multiset form: with the mailbox drained, every message was handled once per arrival plus once per
   time it was unstashed — no more (no duplication), no less (no loss). *)
Theorem C13_delivery_count : forall (buf : bool) (es : list event) (m : nat),
  let s := exec (init buf) es in
  mbox s = [] ->
  count_occ Nat.eq_dec (ids (delivered s)) m =
  count_occ Nat.eq_dec (arrived s) m + count_occ Nat.eq_dec (unstashed s) m.
Proof. exact delivered_count. Qed.

(* Stashing does not disturb the messages that arrive from outside. *)
Theorem C13_fresh_messages_unaffected : forall (buf : bool) (es : list event),
  let s := exec (init buf) es in
  fresh_delivered s ++ fresh_pending s = arrived s.
Proof. intros buf es. exact (inv_fresh _ (reachable_inv buf es)). Qed.

(* Unstash re-sends the oldest stashed message (and only that one). *)
Theorem C13_unstash_oldest : forall (m : nat) (s : state) (h : nat) (t : list nat),
  hasbuf s = true -> box s = h :: t ->
  let s' := fst (act m s Unstash) in
  snd (act m s Unstash) = ROk /\ box s' = t /\ mbox s' = mbox s ++ [(h, Re)] /\ unstashed s' = unstashed s ++ [h].
Proof. exact unstash_oldest. Qed.

(* UnstashAll re-sends all stashed messages in stash order and empties the stash. *)
Theorem C13_unstashAll_in_stash_order : forall (m : nat) (s : state),
  hasbuf s = true ->
  let s' := fst (act m s UnstashAll) in
  snd (act m s UnstashAll) = ROk /\ box s' = [] /\ mbox s' = mbox s ++ re (box s) /\ unstashed s' = unstashed s ++ box s.
Proof. exact unstashAll_in_order. Qed.

(* Stash with a buffer always succeeds and appends the current message. *)
Theorem C13_stash_appends : forall (m : nat) (s : state),
  hasbuf s = true ->
  let s' := fst (act m s Stash) in
  snd (act m s Stash) = ROk /\ box s' = box s ++ [m] /\ mbox s' = mbox s /\ stashed s' = stashed s ++ [m].
Proof. exact stash_appends. Qed.

(* Without a stash buffer every Stash/Unstash/UnstashAll call, in every history, reports
   ErrStashBufferNotSet (never a silent drop), and nothing is ever stashed. *)
Theorem C13_no_buffer_reports_error : forall es : list event,
  Forall (fun r => r = RNoBuffer) (all_results (snd (run (init false) es)))
  /\ stashed (exec (init false) es) = [].
Proof.
  intro es. split.
  - exact (proj2 (run_nobuffer es (init false) eq_refl)).
  - pose proof (proj1 (run_nobuffer es (init false) eq_refl)) as Hb.
    exact (proj1 (proj2 (inv_nobuf _ (reachable_inv false es) Hb))).
Qed.

Print Assumptions C13_stash_is_fifo.
Print Assumptions C13_redelivered_exactly_once.
Print Assumptions C13_all_come_back.
Print Assumptions C13_delivery_count.
Print Assumptions C13_fresh_messages_unaffected.
Print Assumptions C13_unstash_oldest.
Print Assumptions C13_unstashAll_in_stash_order.
Print Assumptions C13_stash_appends.
Print Assumptions C13_no_buffer_reports_error.
