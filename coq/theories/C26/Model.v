(* C26 model: actor address text form (internal/address/address.go), executable.
   Strings are lists of bytes (Z; the theorems hold for any alphabet).  The model mirrors the code
   with Parse splitting host and port at the LAST ':' (fixes/C26-ipv6.diff); [parse_first_colon] is
   the unrepaired variant, kept to state what was wrong with it. *)
From Coq Require Import ZArith List Bool.
Import ListNotations.
Open Scope Z_scope.

Definition str := list Z.

Definition c_colon := 58.  Definition c_slash := 47.  Definition c_at := 64.
Definition c_lbr := 91.    Definition c_rbr := 93.    Definition c_minus := 45. Definition c_plus := 43.
Definition s_scheme : str := [103; 111; 97; 107; 116].          (* "goakt" *)
Definition s_schemesep : str := [58; 47; 47].                   (* "://" *)

Fixpoint str_eqb (a b : str) : bool :=
  match a, b with
  | [], [] => true
  | x :: a', y :: b' => (x =? y) && str_eqb a' b'
  | _, _ => false
  end.

Fixpoint has_prefix (p s : str) : bool :=
  match p, s with
  | [], _ => true
  | x :: p', y :: s' => (x =? y) && has_prefix p' s'
  | _ :: _, [] => false
  end.

(* strings.Cut(s, sep): split around the FIRST occurrence of sep *)
Fixpoint cut (sep s : str) : option (str * str) :=
  if has_prefix sep s then Some ([], skipn (length sep) s)
  else match s with
       | [] => None
       | c :: s' => match cut sep s' with Some (a, b) => Some (c :: a, b) | None => None end
       end.

Definition contains (sep s : str) : bool := match cut sep s with Some _ => true | None => false end.

(* strings.LastIndexByte(s, c) *)
Fixpoint last_index (c : Z) (s : str) : option nat :=
  match s with
  | [] => None
  | x :: s' => match last_index c s' with
               | Some i => Some (S i)
               | None => if x =? c then Some O else None
               end
  end.

Fixpoint index_of (c : Z) (s : str) : option nat :=
  match s with
  | [] => None
  | x :: s' => if x =? c then Some O else match index_of c s' with Some i => Some (S i) | None => None end
  end.

Definition has_byte (c : Z) (s : str) : bool := existsb (fun x => x =? c) s.

(* ---------- integers <-> decimal text ---------- *)
Definition is_digit (c : Z) : bool := (48 <=? c) && (c <=? 57).

(* strconv.AppendInt(_, p, 10) *)
Fixpoint utoa_aux (fuel : nat) (p : Z) (acc : str) : str :=
  match fuel with
  | O => acc
  | S f => let acc' := (48 + p mod 10) :: acc in if p <? 10 then acc' else utoa_aux f (p / 10) acc'
  end.
Definition itoa (p : Z) : str := if p <? 0 then c_minus :: utoa_aux 20 (- p) [] else utoa_aux 20 p [].

Definition digits_value (ds : str) : Z := fold_left (fun v d => v * 10 + (d - 48)) ds 0.

(* strconvx.ParseInt32: strconv.ParseInt(s, 10, 64) then the int32 range check *)
Definition parse_int32 (s : str) : option Z :=
  let (neg, ds) := match s with
                   | c :: r => if c =? c_minus then (true, r) else if c =? c_plus then (false, r) else (false, s)
                   | [] => (false, [])
                   end in
  match ds with
  | [] => None
  | _ => if forallb is_digit ds then
           let v := if neg then - digits_value ds else digits_value ds in
           if (- 2147483648 <=? v) && (v <=? 2147483647) then Some v else None
         else None
  end.

(* ---------- addresses ---------- *)
Inductive addr := mkAddr (host : str) (port : Z) (name system : str) (parent : option addr).
Definition a_host a := match a with mkAddr h _ _ _ _ => h end.
Definition a_port a := match a with mkAddr _ p _ _ _ => p end.
Definition a_name a := match a with mkAddr _ _ n _ _ => n end.
Definition a_system a := match a with mkAddr _ _ _ s _ => s end.
Definition a_parent a := match a with mkAddr _ _ _ _ p => p end.

(* Equals(NoSender()): name, system, host empty and port 0 *)
Definition is_zero (a : addr) : bool :=
  str_eqb (a_name a) [] && str_eqb (a_system a) [] && str_eqb (a_host a) [] && (a_port a =? 0).

Definition parent_name (a : addr) : str :=
  match a_parent a with
  | Some p => if is_zero p then [] else a_name p
  | None => []
  end.

(* buildString / String() *)
Definition build (a : addr) : str :=
  s_scheme ++ s_schemesep ++ a_system a ++ [c_at] ++ a_host a ++ [c_colon] ++ itoa (a_port a) ++ [c_slash] ++
  (match parent_name a with [] => [] | pn => pn ++ [c_slash] end) ++ a_name a.

(* HostPort() / FormatHostPort *)
Definition host_port (a : addr) : str := a_host a ++ [c_colon] ++ itoa (a_port a).

(* HostPortOf *)
Definition host_port_of (s : str) : option str :=
  match cut [c_at] s with
  | None => None
  | Some (_, rest) => match cut [c_slash] rest with
                      | None => None
                      | Some (hp, _) => match hp with [] => None | _ => Some hp end
                      end
  end.

(* hostPort[:sep], hostPort[sep+1:] with sep = LastIndexByte(hostPort, ':') *)
Definition split_last_colon (hp : str) : option (str * str) :=
  match last_index c_colon hp with
  | None => None
  | Some i => Some (firstn i hp, skipn (S i) hp)
  end.

(* the unrepaired split: Cut at the first ':' and reject a second one *)
Definition split_first_colon (hp : str) : option (str * str) :=
  match cut [c_colon] hp with
  | None => None
  | Some (h, p) => if contains [c_colon] p then None else Some (h, p)
  end.

Definition parse_with (split : str -> option (str * str)) (s : str) : option addr :=
  match s with
  | [] => None
  | _ =>
    match cut s_schemesep s with
    | None => None
    | Some (schemePart, rest) =>
      if contains s_schemesep rest then None
      else if negb (str_eqb schemePart s_scheme) then None
      else match cut [c_at] rest with
           | None => None
           | Some (system, rest2) =>
             if contains [c_at] rest2 then None
             else match cut [c_slash] rest2 with
                  | None => None
                  | Some (hostPort, path) =>
                    if has_prefix [c_slash] path then None
                    else match split hostPort with
                         | None => None
                         | Some (host, portStr) =>
                           match parse_int32 portStr with
                           | None => None
                           | Some port =>
                             match cut [c_slash] path with
                             | Some (parentPart, childPart) =>
                                 if contains [c_slash] childPart then None
                                 else match parentPart with
                                      | [] => Some (mkAddr host port childPart system None)
                                      | _ => Some (mkAddr host port childPart system
                                                     (Some (mkAddr host port parentPart system None)))
                                      end
                             | None => Some (mkAddr host port path system None)
                             end
                           end
                         end
                  end
           end
    end
  end.

Definition parse := parse_with split_last_colon.
Definition parse_first_colon := parse_with split_first_colon.

(* ---------- Validate ---------- *)
(* strings.TrimSpace: ASCII white space and the UTF-8 encodings of U+0085, U+00A0, U+1680,
   U+2000..U+200A, U+2028, U+2029, U+202F, U+205F, U+3000 *)
Definition is_ascii_space (c : Z) : bool := ((9 <=? c) && (c <=? 13)) || (c =? 32).
Definition e2_80_third (d : Z) : bool := ((128 <=? d) && (d <=? 138)) || (d =? 168) || (d =? 169) || (d =? 175).

Definition ws_prefix_len (s : str) : nat :=
  match s with
  | [] => O
  | c :: r =>
    if is_ascii_space c then 1%nat
    else match r with
         | d :: r' =>
           if (c =? 194) && ((d =? 133) || (d =? 160)) then 2%nat
           else match r' with
                | e :: _ =>
                  if (c =? 225) && (d =? 154) && (e =? 128) then 3%nat
                  else if (c =? 226) && (d =? 128) && e2_80_third e then 3%nat
                  else if (c =? 226) && (d =? 129) && (e =? 159) then 3%nat
                  else if (c =? 227) && (d =? 128) && (e =? 128) then 3%nat
                  else O
                | [] => O
                end
         | [] => O
         end
  end.

(* the same on the reversed string (c is the last byte) *)
Definition ws_suffix_len (rs : str) : nat :=
  match rs with
  | [] => O
  | c :: r =>
    if is_ascii_space c then 1%nat
    else match r with
         | d :: r' =>
           if (d =? 194) && ((c =? 133) || (c =? 160)) then 2%nat
           else match r' with
                | e :: _ =>
                  if (e =? 225) && (d =? 154) && (c =? 128) then 3%nat
                  else if (e =? 226) && (d =? 128) && e2_80_third c then 3%nat
                  else if (e =? 226) && (d =? 129) && (c =? 159) then 3%nat
                  else if (e =? 227) && (d =? 128) && (c =? 128) then 3%nat
                  else O
                | [] => O
                end
         | [] => O
         end
  end.

Fixpoint trim_with (len : str -> nat) (fuel : nat) (s : str) : str :=
  match fuel with
  | O => s
  | S f => match len s with O => s | n => trim_with len f (skipn n s) end
  end.
Definition trim_left (s : str) : str := trim_with ws_prefix_len (length s) s.
Definition trim_right (s : str) : str := rev (trim_with ws_suffix_len (length s) (rev s)).
Definition trim_space (s : str) : str := trim_right (trim_left s).

(* ^[a-zA-Z0-9][a-zA-Z0-9-_\.]*$ *)
Definition is_alnum (c : Z) : bool := is_digit c || ((65 <=? c) && (c <=? 90)) || ((97 <=? c) && (c <=? 122)).
Definition is_name_char (c : Z) : bool := is_alnum c || (c =? 45) || (c =? 95) || (c =? 46).
Definition pattern_ok (s : str) : bool :=
  match s with [] => false | c :: r => is_alnum c && forallb is_name_char r end.

(* net.JoinHostPort *)
Definition join_host_port (host port : str) : str :=
  if has_byte c_colon host then [c_lbr] ++ host ++ [c_rbr] ++ [c_colon] ++ port else host ++ [c_colon] ++ port.

(* net.SplitHostPort: Some (host, port) or None (error) *)
Definition split_host_port (s : str) : option (str * str) :=
  match last_index c_colon s with
  | None => None
  | Some i =>
    let after := fun (host : str) (j k : nat) =>
      if has_byte c_lbr (skipn j s) then None
      else if has_byte c_rbr (skipn k s) then None
      else Some (host, skipn (S i) s) in
    match s with
    | c :: _ =>
      if c =? c_lbr then
        match index_of c_rbr s with
        | None => None
        | Some e =>
          if Nat.eqb (S e) (length s) then None
          else if Nat.eqb (S e) i then after (firstn (e - 1) (skipn 1 s)) 1%nat (S e)
          else None
        end
      else
        let host := firstn i s in
        if has_byte c_colon host then None else after host O O
    | [] => None
    end
  end.

(* TCPAddressValidator on net.JoinHostPort(host, Itoa(port)) *)
Definition tcp_ok (host : str) (port : Z) : bool :=
  match split_host_port (trim_space (join_host_port host (itoa port))) with
  | None => false
  | Some (h, _) => negb (str_eqb h []) && (0 <=? port) && (port <=? 65535)
  end.

Definition to_lower (c : Z) : Z := if (65 <=? c) && (c <=? 90) then c + 32 else c.
Definition equal_fold_ascii (a b : str) : bool := str_eqb (map to_lower a) (map to_lower b).

(* the checks of Validate that do not involve the parent (the incarnation id is a valid UUID for
   every address made by New / NewWithParent and is not modelled) *)
Definition fields_ok (a : addr) : bool :=
  tcp_ok (a_host a) (a_port a) && negb (str_eqb (a_system a) []) && negb (str_eqb (a_name a) []) &&
  (Z.of_nat (length (a_name a)) <=? 255) && pattern_ok (a_system a) && pattern_ok (trim_space (a_name a)).

Fixpoint validate (a : addr) : bool :=
  if is_zero a then true
  else
    match a with
    | mkAddr host port name system None => fields_ok a
    | mkAddr host port name system (Some p) =>
      if is_zero p then fields_ok a
      else validate p && equal_fold_ascii (a_system p) system && str_eqb (a_host p) host &&
           (a_port p =? port) && negb (str_eqb (a_name p) name) && fields_ok a
    end.

(* what Parse can restore: the address itself and the parent's name *)
Definition strip (a : addr) : addr :=
  mkAddr (a_host a) (a_port a) (a_name a) (a_system a)
    (match parent_name a with
     | [] => None
     | pn => Some (mkAddr (a_host a) (a_port a) pn (a_system a) None)
     end).
