(* C26 proofs, part 2: what Validate accepts implies the side conditions of the round trip. *)
From Coq Require Import ZArith Lia List Bool ZifyBool.
From GV Require Import C26.Model C26.Proofs.
Import ListNotations.
Open Scope Z_scope.

(* bytes that TrimSpace may remove: ASCII white space or bytes of a multi-byte rune *)
Definition wsb (c : Z) : Prop := is_ascii_space c = true \/ 128 <= c.

Lemma ws_prefix_ok s : Forall wsb (firstn (ws_prefix_len s) s).
Proof.
  unfold ws_prefix_len. destruct s as [|c r]; [constructor|].
  destruct (is_ascii_space c) eqn:E1; [cbn [firstn]; constructor; [left; assumption|constructor]|].
  destruct r as [|d r']; [constructor|].
  destruct ((c =? 194) && ((d =? 133) || (d =? 160))) eqn:E2; [cbn [firstn]; repeat (constructor; [right; lia|]); constructor|].
  destruct r' as [|e r'']; [constructor|].
  repeat (match goal with |- context [if ?b then _ else _] => destruct b eqn:? end);
    cbn [firstn]; unfold e2_80_third in *; repeat (constructor; [right; lia|]); constructor.
Qed.

Lemma ws_suffix_ok s : Forall wsb (firstn (ws_suffix_len s) s).
Proof.
  unfold ws_suffix_len. destruct s as [|c r]; [constructor|].
  destruct (is_ascii_space c) eqn:E1; [cbn [firstn]; constructor; [left; assumption|constructor]|].
  destruct r as [|d r']; [constructor|].
  destruct ((d =? 194) && ((c =? 133) || (c =? 160))) eqn:E2; [cbn [firstn]; repeat (constructor; [right; lia|]); constructor|].
  destruct r' as [|e r'']; [constructor|].
  repeat (match goal with |- context [if ?b then _ else _] => destruct b eqn:? end);
    cbn [firstn]; unfold e2_80_third in *; repeat (constructor; [right; lia|]); constructor.
Qed.

Lemma trim_with_keeps len : (forall s, Forall wsb (firstn (len s) s)) ->
  forall fuel s c, In c s -> In c (trim_with len fuel s) \/ wsb c.
Proof.
  intros Hlen. induction fuel; intros s c Hin; cbn [trim_with]; [left; assumption|].
  destruct (len s) as [|n] eqn:E; [left; assumption|].
  rewrite <- (firstn_skipn (S n) s) in Hin. apply in_app_iff in Hin. destruct Hin as [Hin|Hin].
  - right. specialize (Hlen s). rewrite E in Hlen. rewrite Forall_forall in Hlen. apply Hlen. assumption.
  - apply IHfuel. assumption.
Qed.

Lemma trim_space_keeps s c : In c s -> In c (trim_space s) \/ wsb c.
Proof.
  intros Hin. unfold trim_space, trim_right, trim_left.
  destruct (trim_with_keeps ws_prefix_len ws_prefix_ok (length s) s c Hin) as [H|H]; [|right; assumption].
  set (t := trim_with ws_prefix_len (length s) s) in *.
  apply in_rev in H.
  destruct (trim_with_keeps ws_suffix_len ws_suffix_ok (length t) (rev t) c H) as [H'|H']; [|right; assumption].
  left. apply in_rev. rewrite rev_involutive. assumption.
Qed.

Lemma name_char_clean c : is_name_char c = true -> c <> c_slash /\ c <> c_at /\ c <> c_colon.
Proof. unfold is_name_char, is_alnum, is_digit, c_slash, c_at, c_colon. lia. Qed.

Lemma wsb_clean c : wsb c -> c <> c_slash /\ c <> c_at /\ c <> c_colon.
Proof. unfold wsb, is_ascii_space, c_slash, c_at, c_colon. lia. Qed.

Lemma pattern_chars s c : pattern_ok s = true -> In c s -> is_name_char c = true.
Proof.
  destruct s as [|x r]; [discriminate|]. cbn [pattern_ok]. intros H [->|Hin].
  - unfold is_name_char. lia.
  - apply andb_true_iff in H. destruct H as [_ H]. rewrite forallb_forall in H. apply H. assumption.
Qed.

Lemma pattern_part_ok s : pattern_ok s = true -> part_ok s /\ no_byte c_colon s.
Proof.
  intros H. unfold part_ok, no_byte. repeat split; intros Hin; apply (pattern_chars _ _ H) in Hin; apply name_char_clean in Hin; tauto.
Qed.

Lemma pattern_trim_part_ok s : pattern_ok (trim_space s) = true -> part_ok s /\ no_byte c_colon s.
Proof.
  intros H. unfold part_ok, no_byte.
  assert (Hc : forall c, In c s -> c <> c_slash /\ c <> c_at /\ c <> c_colon).
  { intros c Hin. destruct (trim_space_keeps s c Hin) as [Ht|Hw]; [apply name_char_clean; eapply pattern_chars; eauto|apply wsb_clean; assumption]. }
  repeat split; intros Hin; apply Hc in Hin; tauto.
Qed.

Lemma is_zero_fields a : is_zero a = true -> a_name a = [] /\ a_system a = [] /\ a_host a = [] /\ a_port a = 0.
Proof.
  unfold is_zero. intros H. repeat (apply andb_true_iff in H; destruct H as [H ?]).
  repeat split; try (apply str_eqb_eq; assumption). lia.
Qed.

Lemma validate_fields a : validate a = true -> is_zero a = false -> fields_ok a = true.
Proof.
  destruct a as [h p n s [q|]]; cbn [validate]; intros H Hz; rewrite Hz in H; [|assumption].
  destruct (is_zero q); [assumption|]. repeat (apply andb_true_iff in H; destruct H as [H ?]). assumption.
Qed.

Lemma validate_parent a q : validate a = true -> is_zero a = false -> a_parent a = Some q -> is_zero q = false ->
  validate q = true.
Proof.
  destruct a as [h p n s [q'|]]; cbn [validate a_parent]; intros H Hz E Hq; [|discriminate].
  inversion E; subst q'. rewrite Hz, Hq in H. repeat (apply andb_true_iff in H; destruct H as [H ?]). assumption.
Qed.

Lemma fields_ok_parts a : fields_ok a = true ->
  part_ok (a_system a) /\ part_ok (a_name a) /\ 0 <= a_port a <= 65535.
Proof.
  unfold fields_ok. intros H. repeat (apply andb_true_iff in H; destruct H as [H ?]).
  split; [apply pattern_part_ok; assumption|]. split; [apply pattern_trim_part_ok; assumption|].
  unfold tcp_ok in H. destruct (split_host_port _) as [[hh pp]|]; [|discriminate]. lia.
Qed.

Lemma part_ok_nil : part_ok [].
Proof. split; intros []. Qed.

(* Validate accepts a, its host is free of '/' and '@', and a is not the no-sender sentinel carrying
   a parent: the side conditions of the round trip hold *)
Lemma validate_addr_ok a : validate a = true -> part_ok (a_host a) ->
  (is_zero a = true -> parent_name a = []) -> addr_ok a.
Proof.
  intros Hv Hh Hdeg. destruct (is_zero a) eqn:Hz.
  - destruct (is_zero_fields a Hz) as [En [Es [Eh Ep]]].
    constructor; rewrite ?En, ?Es, ?Eh, ?Ep, ?(Hdeg eq_refl); try apply part_ok_nil. lia.
  - pose proof (validate_fields a Hv Hz) as Hf. destruct (fields_ok_parts a Hf) as [Hs [Hn Hp]].
    constructor; try assumption; [|lia].
    unfold parent_name. destruct (a_parent a) as [q|] eqn:Eq; [|apply part_ok_nil].
    destruct (is_zero q) eqn:Hzq; [apply part_ok_nil|].
    pose proof (validate_parent a q Hv Hz Eq Hzq) as Hvq.
    pose proof (validate_fields q Hvq Hzq) as Hfq. destruct (fields_ok_parts q Hfq) as [_ [Hnq _]]. assumption.
Qed.

Theorem roundtrip_valid a : validate a = true -> part_ok (a_host a) ->
  (is_zero a = true -> parent_name a = []) -> parse (build a) = Some (strip a).
Proof. intros H1 H2 H3. apply parse_build. apply validate_addr_ok; assumption. Qed.

Theorem hostport_valid a : validate a = true -> no_byte c_slash (a_host a) ->
  host_port_of (build a) = Some (host_port a).
Proof.
  intros Hv Hh. destruct (is_zero a) eqn:Hz.
  - destruct (is_zero_fields a Hz) as [En [Es [Eh Ep]]]. apply host_port_of_build; rewrite ?Es, ?Ep; try assumption; [intros []|lia].
  - pose proof (validate_fields a Hv Hz) as Hf. destruct (fields_ok_parts a Hf) as [[_ Hs] [_ Hp]].
    apply host_port_of_build; try assumption. lia.
Qed.

(* the result carries the same name, system, host, port and the same parent name *)
Lemma parent_name_strip a : parent_name (strip a) = parent_name a.
Proof.
  unfold strip. destruct (parent_name a) as [|x pn] eqn:E; [reflexivity|].
  unfold parent_name at 1. cbn [a_parent is_zero a_name str_eqb andb]. reflexivity.
Qed.

Lemma strip_fields a : a_name (strip a) = a_name a /\ a_system (strip a) = a_system a /\
  a_host (strip a) = a_host a /\ a_port (strip a) = a_port a.
Proof. unfold strip. repeat split; reflexivity. Qed.

(* the text form identifies the address: two accepted addresses with the same string agree on
   everything Parse restores (used by the receiver lookup by raw wire string) *)
Theorem build_injective a b : validate a = true -> validate b = true ->
  part_ok (a_host a) -> part_ok (a_host b) ->
  (is_zero a = true -> parent_name a = []) -> (is_zero b = true -> parent_name b = []) ->
  build a = build b -> strip a = strip b.
Proof.
  intros Ha Hb Hha Hhb Hda Hdb E.
  pose proof (roundtrip_valid a Ha Hha Hda) as Ra. pose proof (roundtrip_valid b Hb Hhb Hdb) as Rb.
  rewrite E in Ra. rewrite Ra in Rb. congruence.
Qed.

(* host names, IPv4 and IPv6 literals (with an optional zone) use letters, digits, '-', '_', '.',
   ':' and '%': they are free of '/' and '@' *)
Definition is_host_char (c : Z) : bool := is_name_char c || (c =? c_colon) || (c =? 37).
Lemma host_class_ok h : forallb is_host_char h = true -> part_ok h.
Proof.
  intros H. rewrite forallb_forall in H. unfold part_ok, no_byte.
  split; intros Hin; apply H in Hin; unfold is_host_char, is_name_char, is_alnum, is_digit, c_slash, c_at, c_colon in Hin; lia.
Qed.

(* ------------------------------------------------------------------ witnesses *)
Definition s_sys : str := [115; 121; 115].                        (* "sys" *)
Definition s_actor1 : str := [97; 99; 116; 111; 114; 49].        (* "actor1" *)
Definition s_v6 : str := [58; 58; 49].                           (* "::1" *)
Definition ex_v6 : addr := mkAddr s_v6 9000 s_actor1 s_sys None.

(* goakt://sys@::1:9000/actor1 — accepted by Validate, restored by Parse, rejected by the old split *)
Example ipv6_roundtrip :
  validate ex_v6 = true /\ parse (build ex_v6) = Some ex_v6 /\ parse_first_colon (build ex_v6) = None /\
  host_port_of (build ex_v6) = Some (host_port ex_v6).
Proof. repeat split; vm_compute; reflexivity. Qed.

(* the guard on the host is needed: Validate accepts the host "a/b" (it is no host name), whose text
   form does not parse back *)
Example slash_host_accepted_but_not_restored :
  let a := mkAddr [97; 47; 98] 80 s_actor1 s_sys None in
  validate a = true /\ parse (build a) <> Some (strip a).
Proof. split; vm_compute; [reflexivity|discriminate]. Qed.

Example parent_roundtrip :
  let p := mkAddr s_v6 9000 s_sys s_sys None in
  let a := mkAddr s_v6 9000 s_actor1 s_sys (Some p) in
  validate a = true /\ parse (build a) = Some (strip a) /\ parent_name (strip a) = s_sys.
Proof. repeat split; vm_compute; reflexivity. Qed.
