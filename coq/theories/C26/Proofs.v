(* C26 proofs: Parse (String a) = a (with the parent's name), HostPortOf (String a) = HostPort a,
   for every address accepted by Validate whose host is free of '/' and '@'. *)
From Coq Require Import ZArith Lia List Bool.
From GV Require Import C26.Model.
Import ListNotations.
Open Scope Z_scope.

Definition no_byte (c : Z) (s : str) : Prop := ~ In c s.

(* ------------------------------------------------------------------ basic string lemmas *)
Lemma str_eqb_eq a b : str_eqb a b = true <-> a = b.
Proof.
  revert b. induction a as [|x a IH]; destruct b as [|y b]; simpl; split; intros H; try reflexivity; try discriminate.
  - apply andb_true_iff in H. destruct H as [H1 H2]. apply Z.eqb_eq in H1. apply IH in H2. congruence.
  - inversion H; subst. rewrite Z.eqb_refl. simpl. apply IH. reflexivity.
Qed.

Lemma str_eqb_refl a : str_eqb a a = true.
Proof. apply str_eqb_eq. reflexivity. Qed.

Lemma has_prefix_app p s : has_prefix p (p ++ s) = true.
Proof. induction p; simpl; [reflexivity|]. rewrite Z.eqb_refl. assumption. Qed.

Lemma skipn_app_exact (a b : str) : skipn (length a) (a ++ b) = b.
Proof. induction a; simpl; auto. Qed.

Lemma firstn_app_exact (a b : str) : firstn (length a) (a ++ b) = a.
Proof. induction a; simpl; [reflexivity|]. f_equal. assumption. Qed.

(* Cut at a single byte that does not occur before *)
Lemma cut1 c a b : no_byte c a -> cut [c] (a ++ c :: b) = Some (a, b).
Proof.
  unfold no_byte. induction a as [|x a IH]; intros Hn.
  - simpl. rewrite Z.eqb_refl. reflexivity.
  - assert (x <> c) by (intros ->; apply Hn; left; reflexivity).
    cbn [app cut has_prefix]. destruct (Z.eqb_spec c x); [symmetry in e; contradiction|]. cbn [andb].
    rewrite IH; [reflexivity|]. intros Hc. apply Hn. right. assumption.
Qed.

Lemma cut1_none c s : no_byte c s -> cut [c] s = None.
Proof.
  unfold no_byte. induction s as [|x s IH]; intros Hn; [reflexivity|].
  assert (x <> c) by (intros ->; apply Hn; left; reflexivity).
  cbn [cut has_prefix]. destruct (Z.eqb_spec c x); [symmetry in e; contradiction|]. cbn [andb].
  rewrite IH; [reflexivity|]. intros Hc. apply Hn. right. assumption.
Qed.

Lemma contains1_false c s : no_byte c s -> contains [c] s = false.
Proof. intros H. unfold contains. rewrite cut1_none by assumption. reflexivity. Qed.

Lemma no_byte_app c a b : no_byte c (a ++ b) <-> no_byte c a /\ no_byte c b.
Proof. unfold no_byte. rewrite in_app_iff. tauto. Qed.

Lemma no_byte_cons c x a : no_byte c (x :: a) <-> x <> c /\ no_byte c a.
Proof.
  unfold no_byte. simpl. split.
  - intros H. split; [intros ->; apply H; left; reflexivity|intros Hc; apply H; right; assumption].
  - intros [H1 H2] [H|H]; [apply H1; assumption|apply H2; assumption].
Qed.

(* "://" cannot start inside a '/'-free prefix unless the remainder starts with "//" *)
Lemma contains_sss_skip a b : no_byte c_slash a -> has_prefix [c_slash; c_slash] b = false ->
  contains s_schemesep (a ++ b) = contains s_schemesep b.
Proof.
  induction a as [|x a IH]; intros Hn Hb; [reflexivity|].
  apply no_byte_cons in Hn. destruct Hn as [Hx Hn].
  unfold contains in *. cbn [app cut].
  assert (Hp : has_prefix s_schemesep (x :: a ++ b) = false).
  { unfold s_schemesep. cbn [has_prefix]. destruct (58 =? x) eqn:E; [|reflexivity]. cbn [andb].
    destruct a as [|y a].
    - simpl app. exact Hb.
    - apply no_byte_cons in Hn. destruct Hn as [Hy _]. cbn [app has_prefix].
      destruct (Z.eqb_spec 47 y); [unfold c_slash in Hy; symmetry in e; contradiction|reflexivity]. }
  rewrite Hp. specialize (IH Hn Hb).
  destruct (cut s_schemesep (a ++ b)) as [[u v]|]; destruct (cut s_schemesep b) as [[u' v']|]; try discriminate; reflexivity.
Qed.

Lemma contains_sss_no_slash a : no_byte c_slash a -> contains s_schemesep a = false.
Proof.
  intros H. rewrite <- (app_nil_r a). rewrite contains_sss_skip; [reflexivity|assumption|reflexivity].
Qed.

Lemma contains_sss_slash_cons s : contains s_schemesep (c_slash :: s) = contains s_schemesep s.
Proof.
  unfold contains. cbn [cut]. unfold s_schemesep, c_slash. cbn [has_prefix]. simpl (47 =? 58). cbn [andb].
  destruct (cut [58; 47; 47] s) as [[u v]|]; reflexivity.
Qed.

(* LastIndexByte *)
Lemma last_index_none c s : no_byte c s -> last_index c s = None.
Proof.
  induction s as [|x s IH]; intros Hn; [reflexivity|]. apply no_byte_cons in Hn. destruct Hn as [Hx Hn].
  simpl. rewrite IH by assumption. destruct (Z.eqb_spec x c); [contradiction|reflexivity].
Qed.

Lemma last_index_app c a b : no_byte c b -> last_index c (a ++ c :: b) = Some (length a).
Proof.
  intros Hb. induction a as [|x a IH]; simpl.
  - rewrite last_index_none by assumption. rewrite Z.eqb_refl. reflexivity.
  - rewrite IH. reflexivity.
Qed.

Lemma last_index_lt c s i : last_index c s = Some i -> (i < length s)%nat.
Proof.
  revert i. induction s as [|x s IH]; intros i H; simpl in *; [discriminate|].
  destruct (last_index c s) as [j|].
  - inversion H; subst. specialize (IH j eq_refl). lia.
  - destruct (x =? c); inversion H; subst. lia.
Qed.

Lemma split_last_colon_app host port : no_byte c_colon port ->
  split_last_colon (host ++ c_colon :: port) = Some (host, port).
Proof.
  intros H. unfold split_last_colon. rewrite last_index_app by assumption.
  rewrite firstn_app_exact. replace (S (length host)) with (length (host ++ [c_colon])) by (rewrite app_length; simpl; lia).
  replace (host ++ c_colon :: port) with ((host ++ [c_colon]) ++ port) by (rewrite <- app_assoc; reflexivity).
  rewrite skipn_app_exact. reflexivity.
Qed.

(* ------------------------------------------------------------------ decimal text *)
Definition digit_step (v d : Z) : Z := v * 10 + (d - 48).

Lemma utoa_digits fuel : forall p acc, 0 <= p -> forallb is_digit acc = true -> forallb is_digit (utoa_aux fuel p acc) = true.
Proof.
  induction fuel; intros p acc Hp Hacc; cbn [utoa_aux]; [assumption|].
  assert (Hd : is_digit (48 + p mod 10) = true).
  { unfold is_digit. pose proof (Z.mod_pos_bound p 10 ltac:(lia)). apply andb_true_iff. split; lia. }
  destruct (p <? 10).
  - cbn [forallb]. rewrite Hd. assumption.
  - apply IHfuel; [apply Z.div_pos; lia|]. cbn [forallb]. rewrite Hd. assumption.
Qed.

Lemma utoa_nonempty fuel p acc : (0 < fuel)%nat -> utoa_aux fuel p acc <> [].
Proof.
  revert p acc. induction fuel; intros p acc Hf; [lia|]. cbn [utoa_aux].
  destruct (p <? 10); [discriminate|].
  destruct fuel; [cbn [utoa_aux]; discriminate|]. apply IHfuel. lia.
Qed.

Lemma utoa_value fuel : forall p acc, 0 <= p < 10 ^ Z.of_nat fuel ->
  fold_left digit_step (utoa_aux fuel p acc) 0 = fold_left digit_step acc p.
Proof.
  induction fuel; intros p acc Hp.
  - simpl in Hp. assert (p = 0) by lia. subst. reflexivity.
  - cbn [utoa_aux]. destruct (Z.ltb_spec p 10).
    + cbn [fold_left]. unfold digit_step at 2. rewrite Z.mod_small by lia. f_equal. lia.
    + rewrite IHfuel.
      * cbn [fold_left]. f_equal. unfold digit_step. pose proof (Z.div_mod p 10 ltac:(lia)). lia.
      * split; [apply Z.div_pos; lia|]. apply Z.div_lt_upper_bound; [lia|].
        rewrite Nat2Z.inj_succ, Z.pow_succ_r in Hp by lia. lia.
Qed.

Lemma digits_value_itoa p : 0 <= p < 10 ^ 20 -> digits_value (utoa_aux 20 p []) = p.
Proof. intros H. unfold digits_value. change (fun v d => v * 10 + (d - 48)) with digit_step. rewrite utoa_value; [reflexivity|exact H]. Qed.

Lemma forallb_digit_no c s : forallb is_digit s = true -> is_digit c = false -> no_byte c s.
Proof.
  intros H Hc Hin. rewrite forallb_forall in H. specialize (H c Hin). congruence.
Qed.

Lemma itoa_nonneg_digits p : 0 <= p -> forallb is_digit (itoa p) = true /\ itoa p <> [].
Proof.
  intros H. unfold itoa. destruct (Z.ltb_spec p 0); [lia|]. split.
  - apply utoa_digits; [assumption|reflexivity].
  - apply utoa_nonempty. lia.
Qed.

Lemma parse_int32_itoa p : 0 <= p <= 2147483647 -> parse_int32 (itoa p) = Some p.
Proof.
  intros H. destruct (itoa_nonneg_digits p ltac:(lia)) as [Hd Hne].
  assert (Hv : digits_value (itoa p) = p).
  { unfold itoa. destruct (Z.ltb_spec p 0); [lia|]. apply digits_value_itoa. lia. }
  unfold parse_int32. destruct (itoa p) as [|c r] eqn:E; [contradiction|].
  assert (Hc : is_digit c = true) by (simpl in Hd; apply andb_true_iff in Hd; tauto).
  assert (c =? c_minus = false) by (unfold is_digit, c_minus in *; lia).
  assert (c =? c_plus = false) by (unfold is_digit, c_plus in *; lia).
  rewrite H0, H1. rewrite Hd. rewrite Hv.
  destruct ((-2147483648 <=? p) && (p <=? 2147483647)) eqn:Er; [reflexivity|lia].
Qed.

(* ------------------------------------------------------------------ the round trip *)
Definition part_ok (s : str) : Prop := no_byte c_slash s /\ no_byte c_at s.

Record addr_ok (a : addr) : Prop := {
  ok_system : part_ok (a_system a);
  ok_host : part_ok (a_host a);
  ok_name : part_ok (a_name a);
  ok_parent : part_ok (parent_name a);
  ok_port : 0 <= a_port a <= 2147483647 }.

Lemma itoa_clean p : 0 <= p -> no_byte c_slash (itoa p) /\ no_byte c_at (itoa p) /\ no_byte c_colon (itoa p).
Proof.
  intros H. destruct (itoa_nonneg_digits p H) as [Hd _].
  repeat split; eapply forallb_digit_no; eauto; reflexivity.
Qed.

Lemma has_prefix_slash_no s : no_byte c_slash s -> has_prefix [c_slash] s = false.
Proof.
  destruct s as [|x s]; intros H; [reflexivity|]. apply no_byte_cons in H. destruct H as [H _].
  cbn [has_prefix]. destruct (Z.eqb_spec c_slash x); [symmetry in e; contradiction|reflexivity].
Qed.

Lemma has_prefix_2slash_cons s : no_byte c_slash s -> has_prefix [c_slash; c_slash] (c_slash :: s) = false.
Proof.
  intros H. cbn [has_prefix]. rewrite Z.eqb_refl. cbn [andb].
  destruct s as [|x s]; [reflexivity|]. apply no_byte_cons in H. destruct H as [H _].
  cbn [has_prefix]. destruct (Z.eqb_spec c_slash x); [symmetry in e; contradiction|reflexivity].
Qed.

(* the path part: [parent "/"] name *)
Definition path_of (a : addr) : str := (match parent_name a with [] => [] | pn => pn ++ [c_slash] end) ++ a_name a.

Lemma path_no_at a : addr_ok a -> no_byte c_at (path_of a).
Proof.
  intros [_ _ [_ Hn] [_ Hp] _]. unfold path_of. destruct (parent_name a) as [|x pn] eqn:E; [assumption|].
  apply no_byte_app. split; [|assumption]. apply no_byte_app. split; [assumption|].
  apply no_byte_cons. split; [unfold c_slash, c_at; lia|intros []].
Qed.

Lemma path_prefix a : addr_ok a -> has_prefix [c_slash] (path_of a) = false.
Proof.
  intros [_ _ [Hn _] [Hp _] _]. unfold path_of. destruct (parent_name a) as [|x pn] eqn:E.
  - apply has_prefix_slash_no. assumption.
  - apply no_byte_cons in Hp. destruct Hp as [Hx _]. cbn [app has_prefix].
    destruct (Z.eqb_spec c_slash x); [symmetry in e; contradiction|reflexivity].
Qed.

Lemma path_no_sss a : addr_ok a -> contains s_schemesep (path_of a) = false.
Proof.
  intros [_ _ [Hn _] [Hp _] _]. unfold path_of. destruct (parent_name a) as [|x pn] eqn:E.
  - apply contains_sss_no_slash. assumption.
  - rewrite <- app_assoc. rewrite contains_sss_skip; [|assumption|apply has_prefix_2slash_cons; assumption].
    cbn [app]. rewrite contains_sss_slash_cons. apply contains_sss_no_slash. assumption.
Qed.

Lemma path_cut a : addr_ok a ->
  match cut [c_slash] (path_of a) with
  | Some (pp, cp) => pp = parent_name a /\ pp <> [] /\ cp = a_name a
  | None => parent_name a = [] /\ path_of a = a_name a
  end.
Proof.
  intros [_ _ [Hn _] [Hp _] _]. unfold path_of. destruct (parent_name a) as [|x pn] eqn:E.
  - cbn [app]. rewrite cut1_none by assumption. split; reflexivity.
  - rewrite <- app_assoc. cbn [app]. change (x :: pn ++ c_slash :: a_name a) with ((x :: pn) ++ c_slash :: a_name a).
    rewrite cut1 by assumption. split; [reflexivity|split; [discriminate|reflexivity]].
Qed.

Theorem parse_build a : addr_ok a -> parse (build a) = Some (strip a).
Proof.
  intros Hok. pose proof Hok as [[Hs1 Hs2] [Hh1 Hh2] [Hn1 Hn2] [Hp1 Hp2] Hport].
  destruct (itoa_clean (a_port a) ltac:(lia)) as [Hi1 [Hi2 Hi3]].
  unfold parse, parse_with, build. fold (path_of a).
  set (rest := a_system a ++ [c_at] ++ a_host a ++ [c_colon] ++ itoa (a_port a) ++ [c_slash] ++ path_of a).
  assert (Hcut0 : cut s_schemesep (s_scheme ++ s_schemesep ++ rest) = Some (s_scheme, rest)) by reflexivity.
  replace (s_scheme ++ s_schemesep ++ a_system a ++ [c_at] ++ a_host a ++ [c_colon] ++ itoa (a_port a) ++ [c_slash] ++ path_of a)
    with (s_scheme ++ s_schemesep ++ rest) by reflexivity.
  rewrite Hcut0. cbn [app s_scheme s_schemesep]. fold s_scheme s_schemesep.
  (* no second "://" *)
  assert (Hrest : rest = (a_system a ++ [c_at] ++ a_host a ++ [c_colon] ++ itoa (a_port a)) ++ (c_slash :: path_of a)).
  { unfold rest. repeat rewrite <- app_assoc. reflexivity. }
  assert (Hc1 : contains s_schemesep rest = false).
  { rewrite Hrest. rewrite contains_sss_skip.
    - rewrite contains_sss_slash_cons. apply path_no_sss. assumption.
    - repeat (apply no_byte_app; split); try assumption;
        apply no_byte_cons; (split; [unfold c_at, c_colon, c_slash; lia|intros []]).
    - cbn [has_prefix]. rewrite Z.eqb_refl. cbn [andb]. pose proof (path_prefix a Hok) as Hpp.
      cbn [has_prefix] in Hpp. destruct (path_of a) as [|y p]; [reflexivity|].
      cbn [has_prefix]. destruct (c_slash =? y); [discriminate|reflexivity]. }
  rewrite Hc1. rewrite str_eqb_refl. cbn [negb].
  (* system @ rest2 *)
  set (rest2 := a_host a ++ [c_colon] ++ itoa (a_port a) ++ [c_slash] ++ path_of a).
  assert (Hcut1 : cut [c_at] rest = Some (a_system a, rest2)).
  { unfold rest. change ([c_at] ++ a_host a ++ [c_colon] ++ itoa (a_port a) ++ [c_slash] ++ path_of a) with (c_at :: rest2).
    apply cut1. assumption. }
  rewrite Hcut1.
  assert (Hc2 : contains [c_at] rest2 = false).
  { apply contains1_false. unfold rest2.
    apply no_byte_app; split; [assumption|].
    apply no_byte_cons; split; [unfold c_at, c_colon; lia|].
    apply no_byte_app; split; [assumption|].
    apply no_byte_cons; split; [unfold c_at, c_slash; lia|].
    apply path_no_at. assumption. }
  rewrite Hc2.
  (* hostPort / path *)
  set (hp := a_host a ++ c_colon :: itoa (a_port a)).
  assert (Hcut2 : cut [c_slash] rest2 = Some (hp, path_of a)).
  { unfold rest2. replace (a_host a ++ [c_colon] ++ itoa (a_port a) ++ [c_slash] ++ path_of a) with (hp ++ c_slash :: path_of a).
    - apply cut1. unfold hp. apply no_byte_app. split; [assumption|]. apply no_byte_cons. split; [unfold c_colon, c_slash; lia|assumption].
    - unfold hp. rewrite <- app_assoc. reflexivity. }
  rewrite Hcut2. rewrite (path_prefix a Hok).
  unfold hp. rewrite split_last_colon_app by assumption.
  rewrite parse_int32_itoa by assumption.
  pose proof (path_cut a Hok) as Hpc. unfold strip.
  destruct (cut [c_slash] (path_of a)) as [[pp cp]|].
  - destruct Hpc as [-> [Hne ->]]. rewrite contains1_false by assumption.
    destruct (parent_name a) as [|x pn]; [contradiction|]. reflexivity.
  - destruct Hpc as [-> ->]. destruct a; reflexivity.
Qed.

Theorem host_port_of_build a : no_byte c_at (a_system a) -> no_byte c_slash (a_host a) -> 0 <= a_port a ->
  host_port_of (build a) = Some (host_port a).
Proof.
  intros Hs Hh Hp. destruct (itoa_clean (a_port a) Hp) as [Hi1 [Hi2 Hi3]].
  unfold host_port_of, build, host_port. fold (path_of a).
  set (rest2 := a_host a ++ [c_colon] ++ itoa (a_port a) ++ [c_slash] ++ path_of a).
  replace (s_scheme ++ s_schemesep ++ a_system a ++ [c_at] ++ rest2) with ((s_scheme ++ s_schemesep ++ a_system a) ++ c_at :: rest2)
    by (repeat rewrite <- app_assoc; reflexivity).
  rewrite cut1.
  - unfold rest2. replace (a_host a ++ [c_colon] ++ itoa (a_port a) ++ [c_slash] ++ path_of a)
      with ((a_host a ++ [c_colon] ++ itoa (a_port a)) ++ c_slash :: path_of a) by (repeat rewrite <- app_assoc; reflexivity).
    rewrite cut1.
    + destruct (a_host a ++ [c_colon] ++ itoa (a_port a)) eqn:E; [|reflexivity].
      destruct (a_host a); discriminate.
    + apply no_byte_app. split; [assumption|]. apply no_byte_cons. split; [unfold c_colon, c_slash; lia|assumption].
  - apply no_byte_app. split; [|apply no_byte_app; split; [|assumption]].
    + unfold no_byte, s_scheme, c_at. simpl. lia.
    + unfold no_byte, s_schemesep, c_at. simpl. lia.
Qed.
