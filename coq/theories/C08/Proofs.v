(* C08: restart backoff and fault-window arithmetic, proved over the definitions that goq
   regenerates from actor/pid.go on every run (Gen/C08.v). *)
From Coq Require Import ZArith Lia Bool ZifyBool.
From GV Require Import Lib.GoInt Gen.C08.
Open Scope Z_scope.

(* The property's closed form, over unbounded Z. *)
Definition backoff_spec (faults initial maximum : Z) : Z :=
  if (initial <=? 0) || (faults <? 1) then 0
  else Z.min (initial * 2 ^ (faults - 1)) maximum.

(* The fault counter after recording a fault at [now]: it restarts from one exactly when the
   previous fault is older than a positive window. *)
Definition window_spec (window last now : Z) : bool :=
  (window >? 0) && (last >? 0) && (now - last >? window).

Lemma pow2_pos s : 0 <= s -> 0 < 2 ^ s.
Proof. intros; apply Z.pow_pos_nonneg; lia. Qed.

Lemma pow2_ge_63 s : 63 <= s -> 2 ^ 63 <= 2 ^ s.
Proof. intros; apply Z.pow_le_mono_r; lia. Qed.

Lemma backoffDelay_correct faults initial maximum :
  in_i64 faults -> in_i64 initial -> in_i64 maximum ->
  backoffDelay faults initial maximum = backoff_spec faults initial maximum.
Proof.
  intros Hf Hi Hm. unfold backoffDelay, backoff_spec.
  destruct ((initial <=? 0) || (faults <? 1)) eqn:Hdis; [reflexivity|].
  apply orb_false_iff in Hdis. destruct Hdis as [Hi0 Hf1].
  apply Z.leb_gt in Hi0. apply Z.ltb_ge in Hf1.
  assert (Hs : i64 (faults - 1) = faults - 1).
  { apply i64_id. unfold in_i64, min_i64, max_i64 in *. lia. }
  rewrite Hs. set (s := faults - 1) in *. assert (Hs0 : 0 <= s) by (subst s; lia).
  assert (Hu : u64 s = s).
  { apply u64_id. unfold in_u64, max_u64, in_i64, max_i64 in *. subst s. lia. }
  rewrite Hu.
  unfold in_i64, min_i64, max_i64 in *. rewrite pow2_63 in *.
  pose proof (pow2_pos s Hs0) as Hp.
  destruct (s >=? 63) eqn:H63.
  - assert (63 <= s) by lia. pose proof (pow2_ge_63 s H) as Hge. rewrite pow2_63 in Hge.
    rewrite Z.min_r; [reflexivity|]. nia.
  - assert (Hlt : 0 <= s < 64) by lia.
    rewrite (i64_shr_small maximum s Hlt).
    destruct (initial >? maximum / 2 ^ s) eqn:Hc.
    + (* initial > max / 2^s  ->  initial * 2^s > max *)
      assert (maximum / 2 ^ s < initial) by lia.
      assert (maximum < initial * 2 ^ s).
      { destruct (Z_lt_le_dec maximum (initial * 2 ^ s)) as [Hlt'|Hle']; [exact Hlt'|].
        assert (initial <= maximum / 2 ^ s) by (apply Z.div_le_lower_bound; lia). lia. }
      rewrite Z.min_r; lia.
    + assert (initial <= maximum / 2 ^ s) by lia.
      assert (initial * 2 ^ s <= maximum).
      { pose proof (Z.mul_div_le maximum (2 ^ s) Hp).
        assert (initial * 2 ^ s <= (maximum / 2 ^ s) * 2 ^ s) by (apply Z.mul_le_mono_nonneg_r; lia).
        lia. }
      rewrite Z.min_l by lia.
      apply i64_shl_exact; [lia|]. unfold in_i64, min_i64, max_i64. rewrite pow2_63. nia.
Qed.

Lemma spec_nonneg faults initial maximum : 0 <= maximum -> 0 <= backoff_spec faults initial maximum.
Proof.
  intros Hm. unfold backoff_spec.
  destruct ((initial <=? 0) || (faults <? 1)) eqn:Hdis; [lia|].
  apply orb_false_iff in Hdis. destruct Hdis as [Hi0 Hf1].
  apply Z.leb_gt in Hi0. apply Z.ltb_ge in Hf1.
  pose proof (pow2_pos (faults - 1) ltac:(lia)). apply Z.min_glb; nia.
Qed.

Lemma spec_le_max faults initial maximum :
  0 < initial -> 1 <= faults -> backoff_spec faults initial maximum <= maximum.
Proof.
  intros Hi Hf. unfold backoff_spec.
  destruct ((initial <=? 0) || (faults <? 1)) eqn:Hdis.
  - apply orb_true_iff in Hdis. lia.
  - apply Z.le_min_r.
Qed.

Lemma spec_disabled faults initial maximum :
  initial <= 0 \/ faults < 1 -> backoff_spec faults initial maximum = 0.
Proof.
  intros H. unfold backoff_spec.
  destruct ((initial <=? 0) || (faults <? 1)) eqn:Hdis; [reflexivity|].
  apply orb_false_iff in Hdis. lia.
Qed.

Lemma spec_monotone f1 f2 initial maximum :
  0 <= maximum -> f1 <= f2 -> backoff_spec f1 initial maximum <= backoff_spec f2 initial maximum.
Proof.
  intros Hm Hle. unfold backoff_spec.
  destruct (initial <=? 0) eqn:Hi; simpl; [lia|]. apply Z.leb_gt in Hi.
  destruct (Z.ltb_spec f1 1) as [H1|H1]; destruct (Z.ltb_spec f2 1) as [H2|H2].
  - lia.
  - pose proof (pow2_pos (f2 - 1) ltac:(lia)). apply Z.min_glb; nia.
  - lia.
  - apply Z.min_le_compat_r. apply Z.mul_le_mono_nonneg_l; [lia|].
    apply Z.pow_le_mono_r; lia.
Qed.

Lemma recordFault_resets_correct window last now :
  in_i64 window -> in_i64 now -> 0 <= last <= now ->
  recordFault_resets window last now = window_spec window last now.
Proof.
  intros Hw Hn Hl. unfold recordFault_resets, window_spec.
  rewrite i64_id; [reflexivity|]. unfold in_i64, min_i64, max_i64 in *. lia.
Qed.

(* Non-vacuity: concrete inputs meeting the hypotheses, including the magnitudes that wrapped
   before the overflow repair (2^32+1 ns shifted by 33). *)
Example backoff_at_old_wrap_point :
  backoffDelay 34 4294967297 3600000000000 = 3600000000000 /\
  backoffDelay 3 100000000 2000000000 = 400000000 /\
  backoffDelay 63 1 max_i64 = 2 ^ 62 /\
  backoffDelay 64 1 max_i64 = max_i64.
Proof. repeat split; vm_compute; reflexivity. Qed.
