(* C39: replication scripts over the CRDT model of C38/Model.v. Definitions only. *)
From stdpp Require Import gmap.
From Coq Require Import ZArith.
From GV Require Import C38.Model.

(* A receiver folds what it receives (full states or deltas) into its state, in arrival order. *)
Definition joinl {C} (j : C → C → C) (x : C) (l : list C) : C := foldl j x l.

(* actor/replicator.go handleDelta / handleFullState, per key: an absent key stores the incoming
   value itself, a present key merges into the current value. *)
Definition recv {C} (j : C → C → C) (cur : option C) (d : C) : option C :=
  Some (match cur with None => d | Some c => j c d end).
Definition recvl {C} (j : C → C → C) (cur : option C) (l : list C) : option C := foldl (recv j) cur l.

(* An originator's history: local increments interleaved with "ship" points
   (handleUpdate: delta := updated.Delta(); updated.ResetDelta(); publish delta). *)
Inductive gop := GInc (n v : N) | GShip.
Fixpoint g_run (c : gcounter) (ops : list gop) (acc : list gcounter) : gcounter * list gcounter :=
  match ops with
  | [] => (c, acc)
  | GInc n v :: r => g_run (g_inc c n v) r acc
  | GShip :: r => match g_deltaOf c with
                  | Some d => g_run (g_reset c) r (d :: acc)
                  | None => g_run c r acc
                  end
  end.
(* no uint64 overflow of any node's count along the history *)
Fixpoint g_nowrap (c : gcounter) (ops : list gop) : Prop :=
  match ops with
  | [] => True
  | GInc n v :: r => (cget (g_state c) n + v < two64)%N ∧ g_nowrap (g_inc c n v) r
  | GShip :: r => match g_deltaOf c with Some _ => g_nowrap (g_reset c) r | None => g_nowrap c r end
  end.

(* ORSet originator history with ship points *)
Inductive sop := SAdd (n x : N) | SRem (x : N) | SShip.
Fixpoint s_run (s : orset) (ops : list sop) (acc : list orset) : orset * list orset :=
  match ops with
  | [] => (s, acc)
  | SAdd n x :: r => s_run (s_add s n x) r acc
  | SRem x :: r => s_run (s_remove s x) r acc
  | SShip :: r => match s_deltaOf s with
                  | Some d => s_run (s_reset s) r (acc ++ [d])
                  | None => s_run s r acc
                  end
  end.

(* PNCounter originator history *)
Inductive pop := PInc (n v : N) | PDec (n v : N) | PShip.
Fixpoint p_run (c : pncounter) (ops : list pop) (acc : list pncounter) : pncounter * list pncounter :=
  match ops with
  | [] => (c, acc)
  | PInc n v :: r => p_run (p_increment c n v) r acc
  | PDec n v :: r => p_run (p_decrement c n v) r acc
  | PShip :: r => match p_deltaOf c with
                  | Some d => p_run (p_reset c) r (d :: acc)
                  | None => p_run c r acc
                  end
  end.
Fixpoint p_nowrap (c : pncounter) (ops : list pop) : Prop :=
  match ops with
  | [] => True
  | PInc n v :: r => (cget (g_state (p_inc c)) n + v < two64)%N ∧ p_nowrap (p_increment c n v) r
  | PDec n v :: r => (cget (g_state (p_dec c)) n + v < two64)%N ∧ p_nowrap (p_decrement c n v) r
  | PShip :: r => match p_deltaOf c with Some _ => p_nowrap (p_reset c) r | None => p_nowrap c r end
  end.
