(* C39: replicas that apply the same updates converge. *)
From stdpp Require Import gmap.
From Coq Require Import ZArith Lia.
From GV Require Import C38.Model C38.Proofs C39.Model.

Local Open Scope N_scope.

(* ------------------------------------------------------------------ any join: order and duplication of arrivals do not matter *)
Section join.
  Context {C : Type} (j : C → C → C) (U : C → Prop).
  Context (U_j : ∀ a b, U a → U b → U (j a b)).
  Context (j_comm : ∀ a b, U a → U b → j a b = j b a).
  Context (j_assoc : ∀ a b c, U a → U b → U c → j (j a b) c = j a (j b c)).
  Context (j_idem : ∀ a, U a → j a a = a).

  Definition le (a b : C) : Prop := j a b = b.

  Lemma le_refl a : U a → le a a.
  Proof. intros. apply j_idem; assumption. Qed.
  Lemma le_antisym a b : U a → U b → le a b → le b a → a = b.
  Proof. unfold le. intros Ha Hb H1 H2. rewrite <- H2 at 1. rewrite j_comm by assumption. exact H1. Qed.
  Lemma le_trans a b c : U a → U b → U c → le a b → le b c → le a c.
  Proof. unfold le. intros Ha Hb Hc H1 H2. rewrite <- H2. rewrite <- j_assoc by assumption. rewrite H1. reflexivity. Qed.
  Lemma le_j_l a b : U a → U b → le a (j a b).
  Proof. unfold le. intros Ha Hb. rewrite <- j_assoc by assumption. rewrite j_idem by assumption. reflexivity. Qed.
  Lemma le_j_r a b : U a → U b → le b (j a b).
  Proof.
    unfold le. intros Ha Hb. rewrite (j_comm b (j a b)) by auto.
    rewrite j_assoc by assumption. rewrite j_idem by assumption. reflexivity.
  Qed.
  Lemma j_lub a b u : U a → U b → U u → le a u → le b u → le (j a b) u.
  Proof. unfold le. intros Ha Hb Hu H1 H2. rewrite j_assoc by assumption. rewrite H2. exact H1. Qed.

  Lemma joinl_U x l : U x → Forall U l → U (joinl j x l).
  Proof.
    intros Hx Hl. revert x Hx. induction Hl as [|y l Hy Hl IH]; intros x Hx; simpl; [exact Hx|].
    apply IH. apply U_j; assumption.
  Qed.
  Lemma joinl_ge_start x l : U x → Forall U l → le x (joinl j x l).
  Proof.
    intros Hx Hl. revert x Hx. induction Hl as [|y l Hy Hl IH]; intros x Hx; [apply le_refl; exact Hx|].
    change (le x (joinl j (j x y) l)).
    assert (U (j x y)) as Hxy by (apply U_j; assumption).
    apply (le_trans x (j x y) (joinl j (j x y) l)); [exact Hx|exact Hxy|apply joinl_U; assumption| |apply IH; exact Hxy].
    apply le_j_l; assumption.
  Qed.
  Lemma joinl_ge_elem x l y : U x → Forall U l → y ∈ l → le y (joinl j x l).
  Proof.
    intros Hx Hl. revert x Hx. induction Hl as [|z l Hz Hl IH]; intros x Hx Hy; [inversion Hy|].
    change (le y (joinl j (j x z) l)).
    assert (U (j x z)) as Hxz by (apply U_j; assumption).
    apply elem_of_cons in Hy as [->|Hy].
    - apply (le_trans z (j x z) (joinl j (j x z) l)); [exact Hz|exact Hxz|apply joinl_U; assumption| |].
      + apply le_j_r; assumption.
      + apply joinl_ge_start; assumption.
    - apply IH; assumption.
  Qed.
  Lemma joinl_lub x l u : U x → Forall U l → U u → le x u → (∀ y, y ∈ l → le y u) → le (joinl j x l) u.
  Proof.
    intros Hx Hl Hu. revert x Hx. induction Hl as [|z l Hz Hl IH]; intros x Hx H1 H2; [exact H1|].
    change (le (joinl j (j x z) l) u).
    apply IH.
    - apply U_j; assumption.
    - apply j_lub; try assumption. apply H2. left.
    - intros y Hy. apply H2. right. exact Hy.
  Qed.

  (* Two receivers starting from the same state that have received the same SET of states/deltas —
     in any order, with any duplication — hold the same state. *)
  Theorem joinl_same_set x l1 l2 :
    U x → Forall U l1 → Forall U l2 → (∀ y, y ∈ l1 ↔ y ∈ l2) → joinl j x l1 = joinl j x l2.
  Proof.
    intros Hx H1 H2 Hs.
    assert (U (joinl j x l1)) as U1 by (apply joinl_U; assumption).
    assert (U (joinl j x l2)) as U2 by (apply joinl_U; assumption).
    apply le_antisym; try assumption.
    - apply joinl_lub; try assumption; [apply joinl_ge_start; assumption|].
      intros y Hy. apply joinl_ge_elem; try assumption. apply Hs. exact Hy.
    - apply joinl_lub; try assumption; [apply joinl_ge_start; assumption|].
      intros y Hy. apply joinl_ge_elem; try assumption. apply Hs. exact Hy.
  Qed.

  (* ... and that state is the receiver's own state joined with the join of what was sent. *)
  Theorem joinl_is_join x y l :
    U x → U y → Forall U l → joinl j x (y :: l) = j x (joinl j y l).
  Proof.
    intros Hx Hy Hl.
    assert (Forall U (y :: l)) as Hyl by (constructor; assumption).
    assert (U (joinl j y l)) as U1 by (apply joinl_U; assumption).
    assert (U (joinl j x (y :: l))) as U2 by (apply joinl_U; assumption).
    assert (U (j x (joinl j y l))) as U3 by (apply U_j; assumption).
    apply le_antisym; try assumption.
    - apply joinl_lub; try assumption.
      + apply le_j_l; assumption.
      + intros z Hz. apply (le_trans z (joinl j y l)); try assumption.
        * eapply Forall_forall in Hyl; eauto.
        * apply elem_of_cons in Hz as [->|Hz]; [apply joinl_ge_start|apply joinl_ge_elem]; assumption.
        * apply le_j_r; assumption.
    - apply j_lub; try assumption.
      + apply joinl_ge_start; assumption.
      + apply joinl_lub; try assumption.
        * apply joinl_ge_elem; try assumption. left.
        * intros z Hz. apply joinl_ge_elem; try assumption. right. exact Hz.
  Qed.

  (* the replicator's per-key store: first arrival stored as is, later ones merged *)
  Theorem recvl_same_set (cur : option C) l1 l2 :
    from_option U True cur → Forall U l1 → Forall U l2 → l1 ≠ [] → (∀ y, y ∈ l1 ↔ y ∈ l2) →
    recvl j cur l1 = recvl j cur l2.
  Proof.
    assert (Hfold : ∀ l x, recvl j (Some x) l = Some (joinl j x l)).
    { induction l as [|y l IH]; intros x; simpl; [reflexivity|]. apply IH. }
    intros Hc H1 H2 Hne Hs. destruct cur as [x|]; simpl in Hc.
    - rewrite !Hfold. f_equal. apply joinl_same_set; assumption.
    - destruct l1 as [|y1 l1]; [congruence|]. destruct l2 as [|y2 l2].
      { exfalso. apply (not_elem_of_nil y1). apply Hs. left. }
      change (recvl j None (y1 :: l1)) with (recvl j (Some y1) l1).
      change (recvl j None (y2 :: l2)) with (recvl j (Some y2) l2). rewrite !Hfold. f_equal.
      inversion H1; subst. inversion H2; subst.
      (* y1 ⊔ l1 = y2 ⊔ l2: both are the least upper bound of the same set *)
      assert (U (joinl j y1 l1)) as U1 by (apply joinl_U; assumption).
      assert (U (joinl j y2 l2)) as U2 by (apply joinl_U; assumption).
      assert (∀ z, z ∈ y1 :: l1 → le z (joinl j y2 l2)) as A1.
      { intros z Hz. apply Hs in Hz. apply elem_of_cons in Hz as [->|Hz]; [apply joinl_ge_start|apply joinl_ge_elem]; assumption. }
      assert (∀ z, z ∈ y2 :: l2 → le z (joinl j y1 l1)) as A2.
      { intros z Hz. apply Hs in Hz. apply elem_of_cons in Hz as [->|Hz]; [apply joinl_ge_start|apply joinl_ge_elem]; assumption. }
      apply le_antisym; try assumption.
      + apply joinl_lub; try assumption; [apply A1; left|intros z Hz; apply A1; right; exact Hz].
      + apply joinl_lub; try assumption; [apply A2; left|intros z Hz; apply A2; right; exact Hz].
  Qed.
End join.

(* ------------------------------------------------------------------ instances: full-state shipping *)
Definition UT {C} (_ : C) : Prop := True.

Lemma g_full_state_converges (x : gmap N N) (l1 l2 : list (gmap N N)) :
  (∀ y, y ∈ l1 ↔ y ∈ l2) → joinl cmax x l1 = joinl cmax x l2.
Proof.
  intros Hs. apply (joinl_same_set cmax UT); unfold UT; auto using cmax_comm, cmax_assoc, cmax_idem.
  - apply Forall_forall; auto.
  - apply Forall_forall; auto.
Qed.

(* ORSet cores *)
Definition score : Type := gset (N * (N * N)) * gmap N N.
Definition sc_merge (a b : score) : score := (s_merge_entries a.1 a.2 b.1 b.2, cmax a.2 b.2).
Definition sc_of (s : orset) : score := (s_entries s, s_clock s).
Definition sc_ok (a : score) : Prop := clock_pos a.2.
Lemma sc_of_merge s o : s_wf o → sc_of (s_merge s o) = sc_merge (sc_of s) (sc_of o).
Proof. intros H. rewrite s_merge_eq by exact H. reflexivity. Qed.
Lemma sc_merge_ok a b : sc_ok a → sc_ok b → sc_ok (sc_merge a b).
Proof. apply clock_pos_cmax. Qed.
Lemma sc_merge_comm a b : sc_merge a b = sc_merge b a.
Proof. unfold sc_merge. f_equal; [apply s_merge_entries_comm|apply cmax_comm]. Qed.
Lemma sc_merge_assoc a b c : sc_merge (sc_merge a b) c = sc_merge a (sc_merge b c).
Proof. unfold sc_merge; simpl. f_equal; [apply s_merge_entries_assoc|apply cmax_assoc]. Qed.
Lemma sc_merge_idem a : sc_merge a a = a.
Proof. destruct a as [E c]. unfold sc_merge; simpl. f_equal; [apply s_merge_entries_idem|apply cmax_idem]. Qed.

Lemma s_full_state_converges (x : score) (l1 l2 : list score) :
  (∀ y, y ∈ l1 ↔ y ∈ l2) → joinl sc_merge x l1 = joinl sc_merge x l2.
Proof.
  intros Hs. apply (joinl_same_set sc_merge UT); unfold UT; auto using sc_merge_comm, sc_merge_assoc, sc_merge_idem.
  - apply Forall_forall; auto.
  - apply Forall_forall; auto.
Qed.
(* the model's fold over real ORSet values is the fold over cores *)
Lemma s_joinl_core (x : orset) (l : list orset) :
  Forall s_wf l → sc_of (joinl s_merge x l) = joinl sc_merge (sc_of x) (sc_of <$> l).
Proof.
  intros Hl. revert x. induction Hl as [|y l Hy Hl IH]; intros x; simpl; [reflexivity|].
  unfold joinl in *; simpl. rewrite IH. rewrite sc_of_merge by exact Hy. reflexivity.
Qed.

(* ------------------------------------------------------------------ GCounter: delta shipping *)
Definition gjoin (l : list gcounter) : gmap N N := foldr cmax ∅ (g_state <$> l).

Definition g_inv (c : gcounter) (acc : list gcounter) : Prop :=
  ∀ n, (is_Some (g_delta c !! n) → cget (gjoin acc) n ≤ cget (g_state c) n ∧ is_Some (g_state c !! n)) ∧
       (g_delta c !! n = None → g_state c !! n = gjoin acc !! n).

Lemma u64_small x : x < two64 → u64 x = x.
Proof. intros. unfold u64. apply N.mod_small. assumption. Qed.

Lemma g_inv_inc c acc n v : g_inv c acc → cget (g_state c) n + v < two64 → g_inv (g_inc c n v) acc.
Proof.
  intros H Hlt k. specialize (H k). destruct H as [H1 H2]. simpl. destruct (decide (k = n)) as [->|Hne].
  - rewrite !lookup_insert. split; [|discriminate]. intros _. split; [|eauto].
    rewrite (u64_small _ Hlt).
    assert (cget (<[n:=cget (g_state c) n + v]> (g_state c)) n = cget (g_state c) n + v) as ->
      by (unfold cget at 1; rewrite lookup_insert; reflexivity).
    destruct (g_delta c !! n) as [x|] eqn:E.
    + destruct (H1 (ex_intro _ x eq_refl)) as [Hle _]. etransitivity; [exact Hle|]. apply N.le_add_r.
    + specialize (H2 eq_refl). unfold cget. rewrite H2. apply N.le_add_r.
  - rewrite !lookup_insert_ne by congruence. split.
    + intros Hs. destruct (H1 Hs). unfold cget in *. rewrite lookup_insert_ne by congruence. auto.
    + exact H2.
Qed.

Lemma gjoin_cons d acc : gjoin (d :: acc) = cmax (g_state d) (gjoin acc).
Proof. reflexivity. Qed.

Lemma g_inv_ship c acc d : g_inv c acc → g_deltaOf c = Some d → g_inv (g_reset c) (d :: acc).
Proof.
  intros H Hd k. unfold g_deltaOf in Hd. destruct (decide _); [discriminate|]. injection Hd as <-.
  rewrite gjoin_cons. specialize (H k). destruct H as [H1 H2]. revert H1 H2.
  generalize (gjoin acc). intros J H1 H2.
  cbn [g_reset g_delta g_state]. split; [rewrite lookup_empty; intros [? [=]]|]. intros _.
  rewrite lookup_cmax, map_lookup_imap.
  destruct (g_delta c !! k) as [x|] eqn:E; cbn [mbind option_bind].
  - destruct (H1 (ex_intro _ x eq_refl)) as [Hle [s Hs]]. unfold cget in *. rewrite Hs in *. cbn in Hle |- *.
    destruct (J !! k) eqn:E2; cbn in *; f_equal; lia.
  - rewrite (H2 eq_refl). destruct (J !! k); reflexivity.
Qed.

Lemma g_run_inv ops : ∀ c acc, g_inv c acc → g_nowrap c ops →
  g_inv (g_run c ops acc).1 (g_run c ops acc).2.
Proof.
  induction ops as [|[n v|] ops IH]; intros c acc Hi Hw; simpl in *.
  - exact Hi.
  - destruct Hw as [Hlt Hw]. apply IH; [apply g_inv_inc; assumption|exact Hw].
  - destruct (g_deltaOf c) as [d|] eqn:E.
    + apply IH; [apply g_inv_ship; assumption|exact Hw].
    + apply IH; assumption.
Qed.

Lemma g_run_app c ops1 ops2 acc :
  g_run c (ops1 ++ ops2) acc = g_run (g_run c ops1 acc).1 ops2 (g_run c ops1 acc).2.
Proof.
  revert c acc. induction ops1 as [|[n v|] ops1 IH]; intros c acc; simpl; [reflexivity|apply IH|].
  destruct (g_deltaOf c); apply IH.
Qed.
Lemma g_nowrap_app c ops1 ops2 :
  g_nowrap c (ops1 ++ ops2) ↔ g_nowrap c ops1 ∧ g_nowrap (g_run c ops1 []).1 ops2.
Proof.
  assert (∀ acc acc', (g_run c ops1 acc).1 = (g_run c ops1 acc').1) as Hacc.
  { revert c. induction ops1 as [|[n v|] ops1 IH]; intros c acc acc'; simpl; [reflexivity|apply IH|].
    destruct (g_deltaOf c); apply IH. }
  clear Hacc. revert c. induction ops1 as [|[n v|] ops1 IH]; intros c; simpl.
  - tauto.
  - rewrite IH. tauto.
  - destruct (g_deltaOf c) eqn:E.
    + rewrite IH. assert ((g_run (g_reset c) ops1 [g]).1 = (g_run (g_reset c) ops1 []).1) as ->; [|tauto].
      generalize (g_reset c) (@nil gcounter) [g]. clear. induction ops1 as [|[n v|] ops1 IH]; intros c a a'; simpl; [reflexivity|apply IH|].
      destruct (g_deltaOf c); apply IH.
    + apply IH.
Qed.

(* After the final ship nothing is pending: the join of all shipped deltas IS the originator's state. *)
Lemma g_shipped_is_state ops :
  g_nowrap g_new (ops ++ [GShip]) →
  let r := g_run g_new (ops ++ [GShip]) [] in gjoin r.2 = g_state r.1.
Proof.
  intros Hw. simpl.
  assert (g_inv g_new []) as H0.
  { intros n. simpl. rewrite !lookup_empty. split; [intros [? [=]]|reflexivity]. }
  pose proof (g_run_inv _ _ _ H0 Hw) as Hi.
  assert (g_delta (g_run g_new (ops ++ [GShip]) []).1 = ∅) as Hd.
  { rewrite g_run_app. simpl. destruct (g_deltaOf _) eqn:E; simpl; [reflexivity|].
    unfold g_deltaOf in E. destruct (decide _) as [He|]; [exact He|discriminate]. }
  apply map_eq; intros n. destruct (Hi n) as [_ H2]. symmetry. apply H2. rewrite Hd. apply lookup_empty.
Qed.

Lemma joinl_cmax_foldr b l : joinl cmax b l = cmax b (foldr cmax ∅ l).
Proof.
  revert b. induction l as [|y l IH]; intros b; simpl.
  - apply map_eq; intros n. rewrite lookup_cmax, lookup_empty. destruct (b !! n); reflexivity.
  - unfold joinl in *; simpl. rewrite IH. apply cmax_assoc.
Qed.

(* THE delta theorem for GCounter: a receiver that applies the originator's deltas in any order,
   with any duplication (each at least once), ends with its own state joined with the
   originator's full state — provided no node count overflowed uint64. *)
Theorem g_delta_converges ops (b : gmap N N) (ds' : list gcounter) :
  g_nowrap g_new (ops ++ [GShip]) →
  let r := g_run g_new (ops ++ [GShip]) [] in
  (∀ d, d ∈ ds' ↔ d ∈ r.2) →
  joinl cmax b (g_state <$> ds') = cmax b (g_state r.1).
Proof.
  intros Hw r Hs. pose proof (g_shipped_is_state ops Hw) as E. cbv zeta in E. subst r. rewrite <- E. unfold gjoin.
  rewrite <- joinl_cmax_foldr. apply g_full_state_converges.
  intros y. rewrite !elem_of_list_fmap. split; intros [d [-> Hd]]; exists d; (split; [reflexivity|]); apply Hs; exact Hd.
Qed.

(* with overflow the statement is false: the second delta carries the wrapped (smaller) count *)
Lemma g_delta_wrap_refuted : ∃ ops,
  let r := g_run g_new (ops ++ [GShip]) [] in
  joinl cmax ∅ (g_state <$> r.2) ≠ cmax ∅ (g_state r.1).
Proof.
  exists [GInc 1 9223372036854775808; GShip; GInc 1 9223372036854775808].
  vm_compute. discriminate.
Qed.

(* ------------------------------------------------------------------ ORSet: delta shipping is NOT convergent *)
(* A adds x, ships, adds y, ships; B applies both deltas IN ORDER and ends with {y}. *)
Lemma s_delta_in_order_refuted : ∃ ops,
  let r := s_run s_new ops [] in
  s_elements (joinl s_merge s_new r.2) ≠ s_elements (s_merge s_new r.1).
Proof.
  exists [SAdd 1 1; SShip; SAdd 1 2; SShip]. vm_compute. discriminate.
Qed.
(* an element added and removed between two ships is shipped as added *)
Lemma s_delta_add_remove_refuted : ∃ ops,
  let r := s_run s_new ops [] in
  s_elements (joinl s_merge s_new r.2) ≠ s_elements (s_merge s_new r.1).
Proof.
  exists [SAdd 1 1; SRem 1; SShip]. vm_compute. discriminate.
Qed.

(* ------------------------------------------------------------------ registers, flag, map: a delta IS the full state *)
From GV Require Import C38.Proofs2.

Lemma delta_is_full_state_after_local_op :
  (∀ r v ts n, l_deltaOf (l_set r v ts n) = Some (l_set r v ts n)) ∧
  (∀ r n v, mv_deltaOf (mv_set r n v) = Some (mv_set r n v)) ∧
  (∀ x, f_enabled x = false → f_deltaOf (f_enable x) = Some (f_enable x)) ∧
  (∀ (V : Type) (vm : V → V → V) (m : ormap V) n k v, m_deltaOf (m_set vm m n k v) = Some (m_set vm m n k v)) ∧
  (∀ (V : Type) (m : ormap V) k, s_contains (m_keys m) k = true → m_deltaOf (m_remove m k) = Some (m_remove m k)).
Proof.
  repeat split; try reflexivity.
  - intros x Hx. unfold f_enable. rewrite Hx. reflexivity.
  - intros V m k Hk. unfold m_remove. rewrite Hk. reflexivity.
Qed.

(* MVRegister: any family of states of a replica system (each replica its own node id), merged in any
   order with any duplication, gives the same entries and clock. *)
Definition mvcore : Type := gmap (N * N) N * gmap N N.
Definition mvc_of (r : mvreg) : mvcore := (mv_entries r, mv_clock r).
Definition mvc_merge (a b : mvcore) : mvcore := (mv_merge_entries a.1 a.2 b.1 b.2, cmax a.2 b.2).

Section mv_family.
  Context (F : list mvreg).
  Context (F_wf : ∀ s, s ∈ F → mv_wf s) (F_coh : ∀ s t, s ∈ F → t ∈ F → mv_coh s t).
  (* the merge-closed class generated by the family: positive clock, entries drawn from the family *)
  Definition mvU (c : mvcore) : Prop :=
    clock_pos c.2 ∧ ∀ d v, c.1 !! d = Some v → ∃ t, t ∈ F ∧ mv_entries t !! d = Some v.

  Lemma mvU_coh a b : mvU a → mvU b → coh a.1 b.1.
  Proof.
    intros [_ Ha] [_ Hb] d v w Hv Hw. destruct (Ha _ _ Hv) as (s & Hs & Es). destruct (Hb _ _ Hw) as (t & Ht & Et).
    eapply (F_coh s t Hs Ht); eauto.
  Qed.
  Lemma mvU_merge a b : mvU a → mvU b → mvU (mvc_merge a b).
  Proof.
    intros Ha Hb. split; [apply clock_pos_cmax; [apply Ha|apply Hb]|].
    intros d v Hv. simpl in Hv. apply mv_merge_entries_sub in Hv as [Hv|Hv]; [apply Ha|apply Hb]; exact Hv.
  Qed.
  Lemma mvc_comm a b : mvU a → mvU b → mvc_merge a b = mvc_merge b a.
  Proof.
    intros Ha Hb. unfold mvc_merge. f_equal; [|apply cmax_comm].
    apply mv_set_of_inj. rewrite !mv_merge_entries_set by (auto using mvU_coh). apply s_merge_entries_comm.
  Qed.
  Lemma mvc_assoc a b c : mvU a → mvU b → mvU c → mvc_merge (mvc_merge a b) c = mvc_merge a (mvc_merge b c).
  Proof.
    intros Ha Hb Hc. unfold mvc_merge; simpl. f_equal; [|apply cmax_assoc].
    apply mv_set_of_inj.
    rewrite (mv_merge_entries_set (mv_merge_entries a.1 a.2 b.1 b.2)) by (apply (mvU_coh (mvc_merge a b) c); auto using mvU_merge).
    rewrite (mv_merge_entries_set a.1 a.2 (mv_merge_entries b.1 b.2 c.1 c.2)) by (apply (mvU_coh a (mvc_merge b c)); auto using mvU_merge).
    rewrite !mv_merge_entries_set by (auto using mvU_coh). apply s_merge_entries_assoc.
  Qed.
  Lemma mvc_idem a : mvU a → mvc_merge a a = a.
  Proof.
    intros Ha. destruct a as [e c]. unfold mvc_merge; simpl. f_equal; [|apply cmax_idem].
    apply mv_set_of_inj. rewrite mv_merge_entries_set by apply coh_refl. apply s_merge_entries_idem.
  Qed.
  Lemma mvU_of s : s ∈ F → mvU (mvc_of s).
  Proof. intros Hs. split; [apply F_wf, Hs|]. intros d v Hv. exists s. auto. Qed.

  Theorem mv_family_converges x l1 l2 :
    mvU x → (∀ y, y ∈ l1 → mvU y) → (∀ y, y ∈ l2 → mvU y) → (∀ y, y ∈ l1 ↔ y ∈ l2) →
    joinl mvc_merge x l1 = joinl mvc_merge x l2.
  Proof.
    intros Hx H1 H2 Hs. apply (joinl_same_set mvc_merge mvU mvU_merge mvc_comm mvc_assoc mvc_idem); try assumption.
    - apply Forall_forall; exact H1.
    - apply Forall_forall; exact H2.
  Qed.
End mv_family.

(* the model's fold over real MVRegister values is the fold over cores *)
Lemma mv_joinl_core (x : mvreg) (l : list mvreg) :
  Forall mv_wf l → mvc_of (joinl mv_merge x l) = joinl mvc_merge (mvc_of x) (mvc_of <$> l).
Proof.
  intros Hl. revert x. induction Hl as [|y l Hy Hl IH]; intros x; [reflexivity|].
  unfold joinl in *; simpl. rewrite IH. rewrite (mv_merge_eq x y Hy). reflexivity.
Qed.

(* LWWRegister cores of a coherent family *)
Definition lcore : Type := N * Z * N.
Definition lc_wins (o r : lcore) : bool := (r.1.2 <? o.1.2)%Z || ((o.1.2 =? r.1.2)%Z && (r.2 <? o.2)%N).
Definition lc_merge (r o : lcore) : lcore := if lc_wins o r then o else r.
Lemma l_core_merge r o : l_core (l_merge r o) = lc_merge (l_core r) (l_core o).
Proof. rewrite l_merge_core. reflexivity. Qed.

Section l_family.
  Context (F : list lww) (F_coh : ∀ s t, s ∈ F → t ∈ F → l_coh s t).
  Definition lU (c : lcore) : Prop := ∃ s, s ∈ F ∧ c = l_core s.
  Lemma lU_merge a b : lU a → lU b → lU (lc_merge a b).
  Proof. intros Ha Hb. unfold lc_merge. destruct (lc_wins b a); assumption. Qed.
  Lemma lc_comm a b : lU a → lU b → lc_merge a b = lc_merge b a.
  Proof.
    intros (s & Hs & ->) (t & Ht & ->). rewrite <- !l_core_merge. apply l_merge_comm. apply F_coh; assumption.
  Qed.
  Lemma lc_assoc a b c : lU a → lU b → lU c → lc_merge (lc_merge a b) c = lc_merge a (lc_merge b c).
  Proof.
    intros (s & Hs & ->) (t & Ht & ->) (u & Hu & ->). rewrite <- !l_core_merge. apply l_merge_assoc; apply F_coh; assumption.
  Qed.
  Lemma lc_idem a : lU a → lc_merge a a = a.
  Proof. intros (s & Hs & ->). rewrite <- l_core_merge. apply l_merge_idem. Qed.

  Theorem l_family_converges x l1 l2 :
    lU x → (∀ y, y ∈ l1 → lU y) → (∀ y, y ∈ l2 → lU y) → (∀ y, y ∈ l1 ↔ y ∈ l2) →
    joinl lc_merge x l1 = joinl lc_merge x l2.
  Proof.
    intros Hx H1 H2 Hs. apply (joinl_same_set lc_merge lU lU_merge lc_comm lc_assoc lc_idem); try assumption.
    - apply Forall_forall; exact H1.
    - apply Forall_forall; exact H2.
  Qed.
End l_family.

(* ORMap: receivers of the same three full states in two orders expose different values *)
From GV Require Import C38.Exec C38.Proofs3.
Lemma ormap_order_refuted :
  value1 (joinl merge1 m_new [w_a; w_b; w_c]) ≠ value1 (joinl merge1 m_new [w_b; w_c; w_a]).
Proof. vm_compute. discriminate. Qed.

(* ------------------------------------------------------------------ PNCounter: delta shipping *)
Lemma cmax_empty_l a : cmax ∅ a = a.
Proof. apply map_eq; intros n. rewrite lookup_cmax, lookup_empty. destruct (a !! n); reflexivity. Qed.

Lemma g_inv_ship_nothing c acc : g_inv c acc → g_delta c = ∅ → g_inv (g_reset c) (g_new :: acc).
Proof.
  intros H He k. rewrite gjoin_cons. simpl. rewrite cmax_empty_l. specialize (H k). rewrite He in H.
  rewrite lookup_empty in *. exact H.
Qed.

Definition p_inv (c : pncounter) (acc : list pncounter) : Prop :=
  g_inv (p_inc c) (p_inc <$> acc) ∧ g_inv (p_dec c) (p_dec <$> acc).

Lemma g_deltaOf_None c : g_deltaOf c = None → g_delta c = ∅.
Proof. unfold g_deltaOf. destruct (decide _) as [E|]; [intros _; exact E|discriminate]. Qed.

Lemma p_inv_ship c acc d : p_inv c acc → p_deltaOf c = Some d → p_inv (p_reset c) (d :: acc).
Proof.
  intros [Hi Hd] Hs. unfold p_deltaOf in Hs. unfold p_inv. simpl.
  destruct (g_deltaOf (p_inc c)) as [di|] eqn:Ei, (g_deltaOf (p_dec c)) as [dd|] eqn:Ed; try discriminate; injection Hs as <-; simpl.
  - split; apply g_inv_ship; assumption.
  - split; [apply g_inv_ship; assumption|apply g_inv_ship_nothing; [assumption|apply g_deltaOf_None, Ed]].
  - split; [apply g_inv_ship_nothing; [assumption|apply g_deltaOf_None, Ei]|apply g_inv_ship; assumption].
Qed.

Lemma p_run_inv ops : ∀ c acc, p_inv c acc → p_nowrap c ops → p_inv (p_run c ops acc).1 (p_run c ops acc).2.
Proof.
  induction ops as [|[n v|n v|] ops IH]; intros c acc Hi Hw; simpl in *.
  - exact Hi.
  - destruct Hw as [Hlt Hw]. apply IH; [|exact Hw]. destruct Hi as [H1 H2]. split; [apply g_inv_inc; assumption|exact H2].
  - destruct Hw as [Hlt Hw]. apply IH; [|exact Hw]. destruct Hi as [H1 H2]. split; [exact H1|apply g_inv_inc; assumption].
  - destruct (p_deltaOf c) as [d|] eqn:E.
    + apply IH; [apply p_inv_ship; assumption|exact Hw].
    + apply IH; assumption.
Qed.

Lemma p_run_app c ops1 ops2 acc :
  p_run c (ops1 ++ ops2) acc = p_run (p_run c ops1 acc).1 ops2 (p_run c ops1 acc).2.
Proof.
  revert c acc. induction ops1 as [|[n v|n v|] ops1 IH]; intros c acc; simpl; [reflexivity|apply IH|apply IH|].
  destruct (p_deltaOf c); apply IH.
Qed.

Lemma p_shipped_is_state ops :
  p_nowrap p_new (ops ++ [PShip]) →
  let r := p_run p_new (ops ++ [PShip]) [] in
  gjoin (p_inc <$> r.2) = g_state (p_inc r.1) ∧ gjoin (p_dec <$> r.2) = g_state (p_dec r.1).
Proof.
  intros Hw. simpl.
  assert (p_inv p_new []) as H0.
  { split; intros n; simpl; rewrite !lookup_empty; (split; [intros [? [=]]|reflexivity]). }
  destruct (p_run_inv _ _ _ H0 Hw) as [Hi Hd].
  assert (g_delta (p_inc (p_run p_new (ops ++ [PShip]) []).1) = ∅ ∧ g_delta (p_dec (p_run p_new (ops ++ [PShip]) []).1) = ∅) as [Ei Ed].
  { rewrite p_run_app. simpl. destruct (p_deltaOf _) eqn:E; simpl; [split; reflexivity|].
    unfold p_deltaOf in E. destruct (g_deltaOf (p_inc _)) eqn:E1, (g_deltaOf (p_dec _)) eqn:E2; try discriminate.
    split; apply g_deltaOf_None; assumption. }
  split; apply map_eq; intros n.
  - destruct (Hi n) as [_ H2]. symmetry. apply H2. rewrite Ei. apply lookup_empty.
  - destruct (Hd n) as [_ H2]. symmetry. apply H2. rewrite Ed. apply lookup_empty.
Qed.

Theorem p_delta_converges ops (bi bd : gmap N N) (ds' : list pncounter) :
  p_nowrap p_new (ops ++ [PShip]) →
  let r := p_run p_new (ops ++ [PShip]) [] in
  (∀ d, d ∈ ds' ↔ d ∈ r.2) →
  joinl cmax bi ((λ d, g_state (p_inc d)) <$> ds') = cmax bi (g_state (p_inc r.1)) ∧
  joinl cmax bd ((λ d, g_state (p_dec d)) <$> ds') = cmax bd (g_state (p_dec r.1)).
Proof.
  intros Hw r Hs. destruct (p_shipped_is_state ops Hw) as [E1 E2]. cbv zeta in E1, E2. subst r.
  rewrite <- E1, <- E2. unfold gjoin. rewrite <- !joinl_cmax_foldr. split; apply g_full_state_converges; intros y.
  - rewrite <- list_fmap_compose. rewrite !elem_of_list_fmap. split; intros [d [-> Hd]]; exists d; (split; [reflexivity|]); apply Hs; exact Hd.
  - rewrite <- list_fmap_compose. rewrite !elem_of_list_fmap. split; intros [d [-> Hd]]; exists d; (split; [reflexivity|]); apply Hs; exact Hd.
Qed.

(* non-trivial instances of the hypotheses *)
Example g_nowrap_example :
  g_nowrap g_new ([GInc 1 3; GShip; GInc 1 2; GInc 4 18446744073709551615] ++ [GShip]) ∧
  length (g_run g_new ([GInc 1 3; GShip; GInc 1 2; GInc 4 18446744073709551615] ++ [GShip]) []).2 = 2%nat.
Proof. vm_compute. repeat split; reflexivity. Qed.
Example p_nowrap_example :
  p_nowrap p_new ([PInc 1 3; PShip; PDec 1 2; PShip; PInc 4 1] ++ [PShip]) ∧
  length (p_run p_new ([PInc 1 3; PShip; PDec 1 2; PShip; PInc 4 1] ++ [PShip]) []).2 = 3%nat.
Proof. vm_compute. repeat split; reflexivity. Qed.
