(* C12 — proofs about the passivation model (C12/Model.v). *)
From Coq Require Import ZArith List Bool Arith Lia.
From GV Require Import C12.Model.
Import ListNotations.
Open Scope Z_scope.

(* ------------------------------------------------------------------ association lists *)

Section AssocLemmas.
  Context {A : Type}.
  Implicit Types l : list (nat * A).

  Lemma aget_aset_same k v l : aget k (aset k v l) = Some v.
  Proof.
    induction l as [|[k' v'] r IH]; simpl; [rewrite Nat.eqb_refl; reflexivity|].
    destruct (Nat.eqb k' k) eqn:E; simpl; [rewrite Nat.eqb_refl|rewrite E]; auto.
  Qed.

  Lemma aget_aset_other k k' v l : k <> k' -> aget k' (aset k v l) = aget k' l.
  Proof.
    intros Hne. induction l as [|[k0 v0] r IH]; simpl.
    - destruct (Nat.eqb k k') eqn:E; [apply Nat.eqb_eq in E; congruence|reflexivity].
    - destruct (Nat.eqb k0 k) eqn:E; simpl.
      + apply Nat.eqb_eq in E; subst. destruct (Nat.eqb k k') eqn:E'; [apply Nat.eqb_eq in E'; congruence|reflexivity].
      + destruct (Nat.eqb k0 k'); auto.
  Qed.

  Lemma aget_adel_other k k' l : k <> k' -> aget k' (adel k l) = aget k' l.
  Proof.
    intros Hne. induction l as [|[k0 v0] r IH]; simpl; [reflexivity|].
    destruct (Nat.eqb k0 k) eqn:E; simpl.
    - apply Nat.eqb_eq in E; subst. destruct (Nat.eqb k k') eqn:E'; [apply Nat.eqb_eq in E'; congruence|reflexivity].
    - destruct (Nat.eqb k0 k'); auto.
  Qed.

  Lemma aget_none_notin k l : aget k l = None -> ~ In k (map fst l).
  Proof.
    induction l as [|[k0 v0] r IH]; simpl; [tauto|].
    destruct (Nat.eqb k0 k) eqn:E; [discriminate|]. apply Nat.eqb_neq in E.
    intros H [H1|H1]; [congruence|]. apply IH; assumption.
  Qed.

  Lemma notin_aget_none k l : ~ In k (map fst l) -> aget k l = None.
  Proof.
    induction l as [|[k0 v0] r IH]; simpl; [reflexivity|]. intros H.
    destruct (Nat.eqb k0 k) eqn:E; [apply Nat.eqb_eq in E; subst; tauto|]. apply IH. tauto.
  Qed.

  Lemma keys_aset k v l : forall x, In x (map fst (aset k v l)) <-> x = k \/ In x (map fst l).
  Proof.
    induction l as [|[k0 v0] r IH]; simpl; intros x; [intuition congruence|].
    destruct (Nat.eqb k0 k) eqn:E; simpl.
    - apply Nat.eqb_eq in E; subst. intuition congruence.
    - rewrite IH. intuition congruence.
  Qed.

  Lemma nodup_aset k v l : NoDup (map fst l) -> NoDup (map fst (aset k v l)).
  Proof.
    induction l as [|[k0 v0] r IH]; simpl; intros H.
    - constructor; [tauto|constructor].
    - inversion H; subst. destruct (Nat.eqb k0 k) eqn:E; simpl.
      + apply Nat.eqb_eq in E; subst. constructor; assumption.
      + apply Nat.eqb_neq in E. constructor; [|apply IH; assumption].
        rewrite keys_aset. intros [H1|H1]; [congruence|contradiction].
  Qed.

  Lemma keys_adel k l : forall x, In x (map fst (adel k l)) -> In x (map fst l).
  Proof.
    induction l as [|[k0 v0] r IH]; simpl; intros x; [tauto|].
    destruct (Nat.eqb k0 k); simpl; [tauto|]. intros [H|H]; [tauto|]. right. apply IH. assumption.
  Qed.

  Lemma nodup_adel k l : NoDup (map fst l) -> NoDup (map fst (adel k l)).
  Proof.
    induction l as [|[k0 v0] r IH]; simpl; intros H; [constructor|].
    inversion H; subst. destruct (Nat.eqb k0 k); simpl; [assumption|].
    constructor; [|apply IH; assumption]. intro Hin. apply H2. eapply keys_adel. eassumption.
  Qed.

  Lemma aget_adel_same k l : NoDup (map fst l) -> aget k (adel k l) = None.
  Proof.
    induction l as [|[k0 v0] r IH]; simpl; intros H; [reflexivity|].
    inversion H; subst. destruct (Nat.eqb k0 k) eqn:E; simpl.
    - apply Nat.eqb_eq in E; subst. apply notin_aget_none. assumption.
    - rewrite E. apply IH. assumption.
  Qed.

  Lemma in_aget k v l : NoDup (map fst l) -> In (k, v) l -> aget k l = Some v.
  Proof.
    induction l as [|[k0 v0] r IH]; simpl; intros H Hin; [tauto|].
    inversion H; subst. destruct Hin as [Hin|Hin].
    - inversion Hin; subst. rewrite Nat.eqb_refl. reflexivity.
    - destruct (Nat.eqb k0 k) eqn:E.
      + apply Nat.eqb_eq in E; subst. exfalso. apply H2. apply (in_map fst) in Hin. exact Hin.
      + apply IH; assumption.
  Qed.
End AssocLemmas.

Lemma heap_head_in l id e : heap_head l = Some (id, e) -> In (id, e) l /\ e_inheap e = true.
Proof.
  revert id e. induction l as [|[k v] r IH]; simpl; intros id e H; [discriminate|].
  destruct (e_inheap v) eqn:Eh.
  - destruct (heap_head r) as [[k' v']|] eqn:Er.
    + destruct (e_deadline v' <? e_deadline v).
      * inversion H; subst. destruct (IH _ _ eq_refl). split; [right|]; assumption.
      * inversion H; subst. split; [left; reflexivity|assumption].
    + inversion H; subst. split; [left; reflexivity|assumption].
  - destruct (IH _ _ H). split; [right|]; assumption.
Qed.

(* the head has the smallest deadline of the heap *)
Lemma heap_head_min l id e : heap_head l = Some (id, e) ->
  forall k v, In (k, v) l -> e_inheap v = true -> e_deadline e <= e_deadline v.
Proof.
  revert id e. induction l as [|[k0 v0] r IH]; simpl; intros id e H k v Hin Hh; [tauto|].
  destruct (e_inheap v0) eqn:Eh.
  - destruct (heap_head r) as [[k' v']|] eqn:Er.
    + destruct (e_deadline v' <? e_deadline v0) eqn:El.
      * inversion H; subst. apply Z.ltb_lt in El. destruct Hin as [Hin|Hin].
        { inversion Hin; subst. lia. }
        { eapply IH; eauto. }
      * inversion H; subst. apply Z.ltb_ge in El. destruct Hin as [Hin|Hin].
        { inversion Hin; subst. lia. }
        { specialize (IH _ _ eq_refl k v Hin Hh). lia. }
    + inversion H; subst. destruct Hin as [Hin|Hin]; [inversion Hin; subst; lia|].
      exfalso. clear - Er Hin Hh. induction r as [|[a b] r IH]; simpl in *; [tauto|].
      destruct Hin as [Hin|Hin].
      * inversion Hin; subst. rewrite Hh in Er. destruct (heap_head r) as [[? ?]|]; [destruct (_ <? _)|]; discriminate.
      * destruct (e_inheap b); [destruct (heap_head r) as [[? ?]|]; [destruct (_ <? _); discriminate|discriminate]|].
        apply IH; assumption.
  - destruct Hin as [Hin|Hin]; [inversion Hin; subst; congruence|]. eapply IH; eauto.
Qed.

(* ------------------------------------------------------------------ valid histories *)

Definition op_now (o : op) : option Z :=
  match o with
  | OMark _ _ n | ORegister _ _ _ n | OResume _ n | OTouch _ n | ONext n | OTrigBegin _ _ n | OTrigEnd _ _ _ n => Some n
  | _ => None
  end.

Definition next_clock (clock : Z) (o : op) : Z := match op_now o with Some n => n | None => clock end.

(* The environment: the clock never goes back; an activity stamp is a past clock reading, not
   older than the previous stamps of the same actor; latestReceiveTimeNano is otherwise only
   written by reset() (0); the processed counter only grows while the actor is registered. *)
Definition valid_op (clock : Z) (m : mstate) (o : op) : Prop :=
  match o with
  | OMark id a now => clock <= now /\ 0 < a <= now /\ p_latest (get_part m id) <= a /\ p_touch (get_part m id) <= a
  | OSetLatest _ a => a = 0
  | OSetProcessed id n => p_processed (get_part m id) <= n \/ aget id (m_entries m) = None
  | ORegister _ _ _ now | OResume _ now | OTouch _ now | ONext now | OTrigBegin _ _ now => clock <= now
  | OTrigEnd id obj _ now =>
      clock <= now /\
      (* the attempt that ends is the one that began: the entry object was not re-registered in place
         as a message-count entry while its passivation attempt was in flight *)
      (forall e, aget id (m_entries m) = Some e -> e_obj e = obj -> is_time (e_strat e) = true)
  | _ => True
  end.

Inductive reach : Z -> mstate -> Prop :=
| reach_init : reach 0 m0
| reach_step c m o : reach c m -> valid_op c m o -> reach (next_clock c o) (fst (step m o)).

(* ------------------------------------------------------------------ the invariant *)

Definition wf_part (clock : Z) (p : part) : Prop :=
  0 <= p_touch p <= clock /\ 0 <= p_latest p <= clock /\ (p_latest p = 0 \/ p_touch p <= p_latest p).

Definition wf_entry (p : part) (e : entry) : Prop :=
  e_strat e <> SOther /\
  (is_time (e_strat e) = true -> e_timeout e = timeout_of (e_strat e)) /\
  (is_count (e_strat e) = true -> e_max e = max_of (e_strat e)) /\
  (e_pending e = true -> is_count (e_strat e) = true /\ e_base e + e_max e <= p_processed p) /\
  (e_inheap e = true ->
     e_paused e = false /\ is_time (e_strat e) = true /\
     p_touch p <= e_deadline e - e_timeout e /\
     p_latest p < e_deadline e - e_timeout e + touch_interval).

Record inv (clock : Z) (m : mstate) : Prop := mkInv {
  inv_clock : 0 <= clock;
  inv_keys : NoDup (map fst (m_entries m));
  inv_part : forall id, wf_part clock (get_part m id);
  inv_entry : forall id e, aget id (m_entries m) = Some e -> wf_entry (get_part m id) e
}.

Lemma get_part_set_same m id p : get_part (set_part m id p) id = p.
Proof. unfold get_part, set_part. cbn. rewrite aget_aset_same. reflexivity. Qed.

Lemma get_part_set_other m id id' p : id <> id' -> get_part (set_part m id p) id' = get_part m id'.
Proof. intros. unfold get_part, set_part. cbn. rewrite aget_aset_other by assumption. reflexivity. Qed.

Lemma wf_part_mono c c' p : c <= c' -> wf_part c p -> wf_part c' p.
Proof. unfold wf_part. intros. intuition lia. Qed.

Lemma inv_init : inv 0 m0.
Proof.
  constructor; cbn; [lia|constructor| |discriminate].
  intros id. unfold wf_part, get_part. cbn. lia.
Qed.

(* generic: replace the entry of one id and/or the part of one id *)
Lemma inv_update clock clock' m id (p' : part) (oe : option entry) chan fresh :
  inv clock m -> clock <= clock' ->
  wf_part clock' p' ->
  (match oe with Some e' => wf_entry p' e' | None => True end) ->
  (* other ids keep their part, so their entries stay well-formed *)
  inv clock' (mkM (match oe with Some e' => aset id e' (m_entries m) | None => adel id (m_entries m) end)
                  (aset id p' (m_parts m)) chan fresh).
Proof.
  intros [Hc Hk Hp He] Hcc Hp' He'. constructor; cbn.
  - lia.
  - destruct oe; [apply nodup_aset|apply nodup_adel]; assumption.
  - intros id'. unfold get_part. cbn. destruct (Nat.eq_dec id id') as [->|Hne].
    + rewrite aget_aset_same. assumption.
    + rewrite aget_aset_other by assumption. eapply wf_part_mono; [eassumption|apply Hp].
  - intros id' e Hget. unfold get_part. cbn. destruct (Nat.eq_dec id id') as [->|Hne].
    + rewrite aget_aset_same. destruct oe.
      * rewrite aget_aset_same in Hget. inversion Hget; subst. assumption.
      * rewrite aget_adel_same in Hget by assumption. discriminate.
    + rewrite aget_aset_other by assumption.
      assert (Hget' : aget id' (m_entries m) = Some e).
      { destruct oe; [rewrite aget_aset_other in Hget by assumption|rewrite aget_adel_other in Hget by assumption]; assumption. }
      apply He in Hget'. exact Hget'.
Qed.

(* writing back the same part does not change get_part *)
Lemma parts_same_inv clock clock' m entries' chan fresh :
  inv clock m -> clock <= clock' ->
  NoDup (map fst entries') ->
  (forall id e, aget id entries' = Some e -> wf_entry (get_part m id) e) ->
  inv clock' (mkM entries' (m_parts m) chan fresh).
Proof.
  intros [Hc Hk Hp He] Hcc Hk' He'. constructor; cbn; [lia|assumption| |].
  - intros id. eapply wf_part_mono; [eassumption|apply Hp].
  - intros id e H. apply He' in H. exact H.
Qed.

Lemma inv_set_entry clock clock' m id e' :
  inv clock m -> clock <= clock' -> wf_entry (get_part m id) e' -> inv clock' (set_entry m id e').
Proof.
  intros Hi Hcc He'. unfold set_entry. apply (parts_same_inv clock clock'); auto.
  - apply nodup_aset. apply Hi.
  - intros id' e Hget. destruct (Nat.eq_dec id id') as [->|Hne].
    + rewrite aget_aset_same in Hget. inversion Hget; subst. assumption.
    + rewrite aget_aset_other in Hget by assumption. apply Hi. assumption.
Qed.

Lemma inv_del_entry clock clock' m id :
  inv clock m -> clock <= clock' -> inv clock' (del_entry m id).
Proof.
  intros Hi Hcc. unfold del_entry. apply (parts_same_inv clock clock'); auto.
  - apply nodup_adel. apply Hi.
  - intros id' e Hget. destruct (Nat.eq_dec id id') as [->|Hne].
    + rewrite aget_adel_same in Hget by apply Hi. discriminate.
    + rewrite aget_adel_other in Hget by assumption. apply Hi. assumption.
Qed.

Lemma inv_chan clock m chan : inv clock m -> inv clock (mkM (m_entries m) (m_parts m) chan (m_fresh m)).
Proof. intros Hi. apply (parts_same_inv clock clock); auto; try lia; apply Hi. Qed.

Lemma inv_mono clock clock' m : inv clock m -> clock <= clock' -> inv clock' m.
Proof.
  intros Hi Hcc. destruct m. apply (parts_same_inv clock clock' _ _ _ _ Hi Hcc); cbn; apply Hi.
Qed.

(* refreshDeadline re-establishes the deadline part of the invariant *)
Lemma refresh_wf clock now p e :
  wf_part clock p -> clock <= now ->
  e_strat e <> SOther ->
  is_time (e_strat e) = true -> e_timeout e = timeout_of (e_strat e) ->
  e_paused e = false -> e_pending e = false ->
  (is_count (e_strat e) = true -> e_max e = max_of (e_strat e)) ->
  wf_entry p (with_heap true (refresh (p_latest p) now e)).
Proof.
  intros [Ht [Hl Hlt]] Hcn Hso Htime Hto Hpa Hpe Hmx. unfold wf_entry, with_heap, refresh. cbn.
  repeat split; auto; try congruence.
  - destruct (p_latest p =? 0) eqn:E; [lia|]. apply Z.eqb_neq in E. destruct Hlt; lia.
  - unfold touch_interval. destruct (p_latest p =? 0) eqn:E; [apply Z.eqb_eq in E; lia|lia].
Qed.

Lemma refresh_fields l n e :
  e_obj (refresh l n e) = e_obj e /\ e_strat (refresh l n e) = e_strat e /\ e_timeout (refresh l n e) = e_timeout e /\
  e_max (refresh l n e) = e_max e /\ e_inheap (refresh l n e) = e_inheap e /\ e_paused (refresh l n e) = e_paused e /\
  e_pending (refresh l n e) = e_pending e /\ e_enq (refresh l n e) = e_enq e /\ e_base (refresh l n e) = e_base e.
Proof. repeat split. Qed.

(* an entry in the heap is never pending (pending belongs to message-count entries) *)
Lemma inheap_not_pending p e : wf_entry p e -> e_inheap e = true -> e_pending e = false.
Proof.
  intros [_ [_ [_ [Hp Hh]]]] H. destruct (e_pending e) eqn:E; [|reflexivity].
  destruct (Hp eq_refl) as [Hc _]. destruct (Hh H) as [_ [Ht _]].
  destruct (e_strat e); simpl in *; congruence.
Qed.

Lemma do_touch_inv clock now m id :
  inv clock m -> clock <= now -> inv now (do_touch m id now).
Proof.
  intros Hi Hcn. unfold do_touch. destruct (aget id (m_entries m)) as [e|] eqn:Eg; [|eapply inv_mono; eauto].
  destruct (e_paused e || negb (is_time (e_strat e)) || negb (e_inheap e)) eqn:Ec; [eapply inv_mono; eauto|].
  apply orb_false_iff in Ec. destruct Ec as [Ec Eh]. apply orb_false_iff in Ec. destruct Ec as [Epa Eti].
  apply negb_false_iff in Eh, Eti.
  pose proof (inv_entry _ _ Hi _ _ Eg) as Hwf.
  assert (Hpe := inheap_not_pending _ _ Hwf Eh).
  destruct Hwf as [Hso [Hto [Hmx _]]].
  apply (inv_set_entry clock now); auto.
  replace (refresh (p_latest (get_part m id)) now e) with (with_heap true (refresh (p_latest (get_part m id)) now e)).
  - eapply refresh_wf; eauto. apply Hi.
  - unfold with_heap, refresh. cbn. rewrite Eh. reflexivity.
Qed.

(* ------------------------------------------------------------------ preservation *)

Lemma inv_set_part clock clock' m id p' :
  inv clock m -> clock <= clock' -> wf_part clock' p' ->
  (forall e, aget id (m_entries m) = Some e -> wf_entry p' e) ->
  inv clock' (set_part m id p').
Proof.
  intros Hi Hcc Hp' He'. constructor; cbn.
  - pose proof (inv_clock _ _ Hi). lia.
  - apply Hi.
  - intros id'. destruct (Nat.eq_dec id id') as [->|Hne].
    + rewrite get_part_set_same. assumption.
    + rewrite get_part_set_other by assumption. eapply wf_part_mono; [eassumption|apply Hi].
  - intros id' e Hget. destruct (Nat.eq_dec id id') as [->|Hne].
    + rewrite get_part_set_same. apply He'. assumption.
    + rewrite get_part_set_other by assumption. apply Hi. assumption.
Qed.

(* replace both the part and the entry of one id *)
Lemma inv_set_both clock clock' m id p' e' :
  inv clock m -> clock <= clock' -> wf_part clock' p' -> wf_entry p' e' ->
  inv clock' (set_entry (set_part m id p') id e').
Proof.
  intros Hi Hcc Hp' He'. unfold set_entry, set_part. cbn.
  apply (inv_update clock clock' m id p' (Some e') (m_chan m) (m_fresh m)); assumption.
Qed.

Lemma mark_inv clock m id a now :
  inv clock m -> valid_op clock m (OMark id a now) -> inv now (fst (step m (OMark id a now))).
Proof.
  intros Hi Hv. cbn in Hv. destruct Hv as [Hcn [Ha [Hla Hta]]].
  cbn [step]. set (p := get_part m id) in *.
  pose proof (inv_part _ _ Hi id) as Hp. fold p in Hp. destruct Hp as [Ht [Hl Hlt]].
  destruct (a - p_touch p >=? touch_interval) eqn:Eti; cbn [fst].
  - (* the Touch goes through *)
    set (p' := mkP a a (p_processed p) now).
    assert (Hp' : wf_part now p') by (unfold wf_part, p'; cbn; lia).
    unfold do_touch. cbn [set_part m_entries].
    destruct (aget id (m_entries m)) as [e|] eqn:Eg.
    + pose proof (inv_entry _ _ Hi _ _ Eg) as Hwf. fold p in Hwf.
      destruct (e_paused e || negb (is_time (e_strat e)) || negb (e_inheap e)) eqn:Ec.
      * apply (inv_set_part clock now); auto. intros e0 He0. rewrite Eg in He0. inversion He0; subst e0.
        destruct Hwf as [Hso [Hto [Hmx [Hpe Hh]]]].
        unfold wf_entry. repeat split; auto; try (apply Hpe; assumption).
        all: intros; exfalso; destruct (Hh H) as [H1 [H2 _]]; rewrite H, H1, H2 in Ec; discriminate.
      * apply orb_false_iff in Ec. destruct Ec as [Ec Eh]. apply orb_false_iff in Ec. destruct Ec as [Epa Etim].
        apply negb_false_iff in Eh, Etim.
        assert (Hpe := inheap_not_pending _ _ Hwf Eh).
        destruct Hwf as [Hso [Hto [Hmx _]]].
        rewrite get_part_set_same.
        replace (refresh (p_latest p') now e) with (with_heap true (refresh (p_latest p') now e))
          by (unfold with_heap, refresh; cbn; rewrite Eh; reflexivity).
        apply (inv_set_both clock now); auto.
        eapply refresh_wf; eauto. lia.
    + apply (inv_set_part clock now); auto. intros e0 He0. rewrite Eg in He0. discriminate.
  - (* coalesced: no Touch *)
    rewrite Z.geb_leb in Eti. apply Z.leb_gt in Eti.
    set (p' := mkP a (p_touch p) (p_processed p) now).
    apply (inv_set_part clock now); auto.
    + unfold wf_part, p'; cbn; lia.
    + intros e Hget. pose proof (inv_entry _ _ Hi _ _ Hget) as [Hso [Hto [Hmx [Hpe Hh]]]]. fold p in Hpe, Hh.
      unfold wf_entry, p'. cbn. repeat split; auto; try (apply Hpe; assumption); try (apply Hh; assumption).
      destruct (Hh H) as [_ [_ [H3 _]]]. lia.
Qed.

Lemma step_inv clock m o : inv clock m -> valid_op clock m o -> inv (next_clock clock o) (fst (step m o)).
Proof.
  intros Hi Hv. pose proof (inv_clock _ _ Hi) as Hc0.
  destruct o as [id a|id n|id a now|id s ispid now|id|id|id now|id now|id|now|id obj now|id obj passivated now| |id obj passivated];
    unfold next_clock; cbn [op_now].
  - (* OSetLatest: reset() *)
    cbn in Hv. subst a. cbn [step fst]. set (p := get_part m id).
    pose proof (inv_part _ _ Hi id) as Hp. fold p in Hp. destruct Hp as [Ht [Hl Hlt]].
    apply (inv_set_part clock clock); auto; try lia.
    + unfold wf_part. cbn. lia.
    + intros e Hget. pose proof (inv_entry _ _ Hi _ _ Hget) as [Hso [Hto [Hmx [Hpe Hh]]]]. fold p in Hpe, Hh.
      unfold wf_entry. cbn. repeat split; auto; try (apply Hpe; assumption); try (apply Hh; assumption).
      destruct (Hh H) as [_ [_ [H1 _]]]. unfold touch_interval. lia.
  - (* OSetProcessed *)
    cbn in Hv. cbn [step fst]. set (p := get_part m id) in *.
    pose proof (inv_part _ _ Hi id) as Hp. fold p in Hp.
    apply (inv_set_part clock clock); auto; try lia.
    intros e Hget. pose proof (inv_entry _ _ Hi _ _ Hget) as [Hso [Hto [Hmx [Hpe Hh]]]]. fold p in Hpe, Hh.
    destruct Hv as [Hv|Hv]; [|congruence].
    unfold wf_entry. cbn. repeat split; auto; try (apply Hh; assumption).
    + apply Hpe; assumption.
    + destruct (Hpe H) as [_ H1]. lia.
  - (* OMark *) apply (mark_inv clock); assumption.
  - (* ORegister *)
    cbn in Hv. cbn [step]. set (p := get_part m id).
    pose proof (inv_part _ _ Hi id) as Hp. fold p in Hp.
    destruct (aget id (m_entries m)) as [e|] eqn:Eg.
    + (* the existing object is re-initialised *)
      destruct s as [t|n|]; cbn [fst].
      * unfold set_entry. cbn [m_entries m_parts m_chan m_fresh].
        apply (parts_same_inv clock now); auto; [apply nodup_aset; apply Hi|].
        intros id' e' Hget. destruct (Nat.eq_dec id id') as [->|Hne].
        { rewrite aget_aset_same in Hget. inversion Hget; subst e'. fold p.
          match goal with |- wf_entry _ (refresh _ _ ?E) => replace (refresh (p_latest p) now E) with (with_heap true (refresh (p_latest p) now E)) by reflexivity end.
          eapply refresh_wf; eauto; cbn; congruence. }
        { rewrite aget_aset_other in Hget by assumption. apply Hi. assumption. }
      * unfold set_entry. cbn [m_entries m_parts m_chan m_fresh].
        apply (parts_same_inv clock now); auto; [apply nodup_aset; apply Hi|].
        intros id' e' Hget. destruct (Nat.eq_dec id id') as [->|Hne].
        { rewrite aget_aset_same in Hget. inversion Hget; subst e'.
          unfold wf_entry. cbn. repeat split; auto; congruence. }
        { rewrite aget_aset_other in Hget by assumption. apply Hi. assumption. }
      * unfold del_entry. cbn [m_entries m_parts m_chan m_fresh].
        apply (parts_same_inv clock now); auto; [apply nodup_adel; apply Hi|].
        intros id' e' Hget. destruct (Nat.eq_dec id id') as [->|Hne].
        { rewrite aget_adel_same in Hget by apply Hi. discriminate. }
        { rewrite aget_adel_other in Hget by assumption. apply Hi. assumption. }
    + destruct s as [t|n|]; cbn [fst].
      * unfold set_entry. cbn [m_entries m_parts m_chan m_fresh].
        apply (parts_same_inv clock now); auto; [apply nodup_aset; apply Hi|].
        intros id' e' Hget. destruct (Nat.eq_dec id id') as [->|Hne].
        { rewrite aget_aset_same in Hget. inversion Hget; subst e'. fold p.
          match goal with |- wf_entry _ (refresh _ _ ?E) => replace (refresh (p_latest p) now E) with (with_heap true (refresh (p_latest p) now E)) by reflexivity end.
          eapply refresh_wf; eauto; cbn; congruence. }
        { rewrite aget_aset_other in Hget by assumption. apply Hi. assumption. }
      * unfold set_entry. cbn [m_entries m_parts m_chan m_fresh].
        apply (parts_same_inv clock now); auto; [apply nodup_aset; apply Hi|].
        intros id' e' Hget. destruct (Nat.eq_dec id id') as [->|Hne].
        { rewrite aget_aset_same in Hget. inversion Hget; subst e'.
          unfold wf_entry. cbn. repeat split; auto; congruence. }
        { rewrite aget_aset_other in Hget by assumption. apply Hi. assumption. }
      * unfold del_entry. cbn [m_entries m_parts m_chan m_fresh].
        apply (parts_same_inv clock now); auto; [apply nodup_adel; apply Hi|].
        intros id' e' Hget. destruct (Nat.eq_dec id id') as [->|Hne].
        { rewrite aget_adel_same in Hget by apply Hi. discriminate. }
        { rewrite aget_adel_other in Hget by assumption. apply Hi. assumption. }
  - (* OUnregister *) cbn [step fst]. apply (inv_del_entry clock clock); auto; lia.
  - (* OPause *)
    cbn [step]. destruct (aget id (m_entries m)) as [e|] eqn:Eg; [|exact Hi].
    destruct (e_paused e); [exact Hi|]. cbn [fst].
    apply (inv_set_entry clock clock); auto; try lia.
    pose proof (inv_entry _ _ Hi _ _ Eg) as [Hso [Hto [Hmx [Hpe Hh]]]].
    unfold wf_entry. cbn. repeat split; auto; try discriminate; apply Hpe; assumption.
  - (* OResume *)
    cbn in Hv. cbn [step]. destruct (aget id (m_entries m)) as [e|] eqn:Eg; [|eapply inv_mono; eauto].
    destruct (e_paused e) eqn:Epa; cbn [negb]; [|eapply inv_mono; eauto].
    pose proof (inv_entry _ _ Hi _ _ Eg) as Hwf.
    assert (Hnh : e_inheap e = false).
    { destruct (e_inheap e) eqn:Eh; [|reflexivity]. destruct Hwf as [_ [_ [_ [_ Hh]]]]. first [destruct (Hh Eh) as [H1 _]|destruct (Hh eq_refl) as [H1 _]]; congruence. }
    destruct Hwf as [Hso [Hto [Hmx [Hpe Hh]]]].
    destruct (is_time (e_strat (with_paused false e))) eqn:Etime; cbn [fst].
    + apply (inv_set_entry clock now); auto.
      assert (Hnp : e_pending e = false).
      { destruct (e_pending e) eqn:E; [|reflexivity]. first [destruct (Hpe E) as [H1 _]|destruct (Hpe eq_refl) as [H1 _]]. cbn in Etime. destruct (e_strat e); simpl in *; congruence. }
      eapply refresh_wf; eauto; try apply Hi.
    + destruct (e_pending (with_paused false e) && negb (e_enq (with_paused false e))) eqn:Epq; cbn [fst].
      * apply (parts_same_inv clock now); auto; [apply nodup_aset; apply Hi|].
        intros id' e' Hget. destruct (Nat.eq_dec id id') as [->|Hne].
        { rewrite aget_aset_same in Hget. inversion Hget; subst e'.
          unfold wf_entry. cbn in *. rewrite Hnh. repeat split; auto; try discriminate; apply Hpe; assumption. }
        { rewrite aget_aset_other in Hget by assumption. apply Hi. assumption. }
      * apply (inv_set_entry clock now); auto.
        unfold wf_entry. cbn in *. rewrite Hnh. repeat split; auto; try discriminate; apply Hpe; assumption.
  - (* OTouch *) cbn in Hv. cbn [step fst]. apply (do_touch_inv clock); assumption.
  - (* OMsgProcessed *)
    cbn [step]. destruct (aget id (m_entries m)) as [e|] eqn:Eg; [|exact Hi].
    destruct (is_count (e_strat e)) eqn:Ecnt; cbn [negb]; [|exact Hi].
    destruct (p_processed (get_part m id) <? e_base e + e_max e) eqn:Elt; [exact Hi|].
    apply Z.ltb_ge in Elt.
    pose proof (inv_entry _ _ Hi _ _ Eg) as [Hso [Hto [Hmx [Hpe Hh]]]].
    assert (Hnh : e_inheap e = false).
    { destruct (e_inheap e) eqn:Eh; [|reflexivity]. first [destruct (Hh Eh) as [_ [H2 _]]|destruct (Hh eq_refl) as [_ [H2 _]]]; destruct (e_strat e); simpl in *; congruence. }
    destruct (e_paused (with_pending true e) || e_enq (with_pending true e)); cbn [fst].
    + apply (inv_set_entry clock clock); auto; try lia.
      unfold wf_entry. cbn. rewrite Hnh. repeat split; auto; discriminate.
    + apply (parts_same_inv clock clock); auto; try lia; [apply nodup_aset; apply Hi|].
      intros id' e' Hget. destruct (Nat.eq_dec id id') as [->|Hne].
      { rewrite aget_aset_same in Hget. inversion Hget; subst e'.
        unfold wf_entry. cbn. rewrite Hnh. repeat split; auto; discriminate. }
      { rewrite aget_aset_other in Hget by assumption. apply Hi. assumption. }
  - (* ONext *)
    cbn in Hv. cbn [step]. destruct (heap_head (m_entries m)) as [[id e]|]; cbn [fst]; eapply inv_mono; eauto.
  - (* OTrigBegin *)
    cbn in Hv. cbn [step]. destruct (heap_head (m_entries m)) as [[id' e]|] eqn:Eh; [|eapply inv_mono; eauto].
    destruct (Nat.eqb id' id && Nat.eqb (e_obj e) obj && negb (now <? e_deadline e)) eqn:Ec; cbn [fst]; [|eapply inv_mono; eauto].
    apply andb_true_iff in Ec. destruct Ec as [Ec _]. apply andb_true_iff in Ec. destruct Ec as [Eid _].
    apply Nat.eqb_eq in Eid. subst id'.
    destruct (heap_head_in _ _ _ Eh) as [Hin Hheap].
    pose proof (in_aget _ _ _ (inv_keys _ _ Hi) Hin) as Eg.
    pose proof (inv_entry _ _ Hi _ _ Eg) as Hwf.
    assert (Hpe := inheap_not_pending _ _ Hwf Hheap).
    destruct Hwf as [Hso [Hto [Hmx _]]].
    apply (inv_set_entry clock now); auto.
    unfold wf_entry. cbn. repeat split; auto; try discriminate; congruence.
  - (* OTrigEnd *)
    cbn in Hv. destruct Hv as [Hcn Hguard]. cbn [step].
    destruct (aget id (m_entries m)) as [e|] eqn:Eg; [|eapply inv_mono; eauto].
    destruct (Nat.eqb (e_obj e) obj) eqn:Eobj; cbn [negb]; [|eapply inv_mono; eauto].
    apply Nat.eqb_eq in Eobj.
    destruct passivated; cbn [fst]; [apply (inv_del_entry clock now); auto|].
    destruct (e_paused e) eqn:Epa; cbn [fst]; [eapply inv_mono; eauto|].
    pose proof (inv_entry _ _ Hi _ _ Eg) as Hwf.
    pose proof (Hguard e eq_refl Eobj) as Etime.
    assert (Hnp : e_pending e = false).
    { destruct (e_pending e) eqn:E; [|reflexivity]. destruct Hwf as [_ [_ [_ [Hpe _]]]]. first [destruct (Hpe E) as [H1 _]|destruct (Hpe eq_refl) as [H1 _]].
      destruct (e_strat e); simpl in *; congruence. }
    destruct Hwf as [Hso [Hto [Hmx _]]].
    apply (inv_set_entry clock now); auto. eapply refresh_wf; eauto. apply Hi.
  - (* OProcBegin *)
    cbn [step]. destruct (m_chan m) as [|[id obj] rest] eqn:Ech; [exact Hi|].
    destruct (aget id (m_entries m)) as [e|] eqn:Eg; [|apply inv_chan; exact Hi].
    destruct (Nat.eqb (e_obj e) obj); cbn [negb]; [|apply inv_chan; exact Hi].
    destruct (e_paused e) eqn:Epa; cbn [fst]; [|apply inv_chan; exact Hi].
    pose proof (inv_entry _ _ Hi _ _ Eg) as [Hso [Hto [Hmx [Hpe Hh]]]].
    unfold set_entry. cbn [m_entries m_parts m_chan m_fresh].
    apply (parts_same_inv clock clock); auto; try lia; [apply nodup_aset; apply Hi|].
    intros id' e' Hget. destruct (Nat.eq_dec id id') as [->|Hne].
    { rewrite aget_aset_same in Hget. inversion Hget; subst e'.
      unfold wf_entry. cbn. repeat split; auto; try (apply Hpe; assumption); try (apply Hh; assumption). }
    { rewrite aget_aset_other in Hget by assumption. apply Hi. assumption. }
  - (* OProcEnd *)
    cbn [step]. destruct (aget id (m_entries m)) as [e|] eqn:Eg; [|exact Hi].
    destruct (Nat.eqb (e_obj e) obj); cbn [negb]; [|exact Hi].
    destruct passivated; cbn [fst]; [apply (inv_del_entry clock clock); auto; lia|].
    pose proof (inv_entry _ _ Hi _ _ Eg) as [Hso [Hto [Hmx [Hpe Hh]]]].
    assert (Hwf' : forall b, wf_entry (get_part m id) (with_enq b e)).
    { intros b. unfold wf_entry. cbn. repeat split; auto; try (apply Hpe; assumption); try (apply Hh; assumption). }
    destruct (e_paused (with_enq false e)); cbn [fst]; [apply (inv_set_entry clock clock); auto; lia|].
    destruct (e_pending (with_enq false e)); cbn [fst]; [|apply (inv_set_entry clock clock); auto; lia].
    apply (parts_same_inv clock clock); auto; try lia; [apply nodup_aset; apply Hi|].
    intros id' e' Hget. destruct (Nat.eq_dec id id') as [->|Hne].
    { rewrite aget_aset_same in Hget. inversion Hget; subst e'. apply (Hwf' true). }
    { rewrite aget_aset_other in Hget by assumption. apply Hi. assumption. }
Qed.

Lemma reach_inv c m : reach c m -> inv c m.
Proof. induction 1; [apply inv_init|apply step_inv; assumption]. Qed.

(* ------------------------------------------------------------------ time-based: no early passivation *)

(* trigger decides to passivate (id, obj) at clock reading [now]: the entry is the current,
   un-paused, time-based entry of id, and the latest activity stamp of the actor is older than
   timeout - passivationTouchInterval. *)
Lemma trig_decide_bound c m id obj now :
  reach c m ->
  snd (step m (OTrigBegin id obj now)) = RDecide (Some (id, obj)) ->
  exists e t, aget id (m_entries m) = Some e /\ e_obj e = obj /\ e_strat e = STime t /\
              e_paused e = false /\ e_deadline e <= now /\
              now - p_latest (get_part m id) > t - touch_interval.
Proof.
  intros Hr Hd. apply reach_inv in Hr. cbn [step] in Hd.
  destruct (heap_head (m_entries m)) as [[id' e]|] eqn:Eh; [|discriminate].
  destruct (Nat.eqb id' id && Nat.eqb (e_obj e) obj && negb (now <? e_deadline e)) eqn:Ec; [|discriminate].
  apply andb_true_iff in Ec. destruct Ec as [Ec Edl]. apply andb_true_iff in Ec. destruct Ec as [Eid Eobj].
  apply Nat.eqb_eq in Eid, Eobj. subst id'. apply negb_true_iff, Z.ltb_ge in Edl.
  destruct (heap_head_in _ _ _ Eh) as [Hin Hheap].
  pose proof (in_aget _ _ _ (inv_keys _ _ Hr) Hin) as Eg.
  pose proof (inv_entry _ _ Hr _ _ Eg) as [Hso [Hto [Hmx [Hpe Hh]]]].
  destruct (Hh Hheap) as [Hpa [Htime [H1 H2]]].
  destruct (e_strat e) as [t| |] eqn:Es; simpl in Htime; try discriminate.
  exists e, t. repeat split; auto. rewrite (Hto eq_refl) in H2. simpl in H2. lia.
Qed.

(* with a clock reading per message the stamp of a message is the time it was handled *)
Definition per_message_op (o : op) : Prop :=
  match o with OMark _ a now => a = now | _ => True end.

Inductive reach_pm : Z -> mstate -> Prop :=
| reach_pm_init : reach_pm 0 m0
| reach_pm_step c m o : reach_pm c m -> valid_op c m o -> per_message_op o -> reach_pm (next_clock c o) (fst (step m o)).

Lemma reach_pm_reach c m : reach_pm c m -> reach c m.
Proof. induction 1; [constructor|constructor; assumption]. Qed.

Lemma do_touch_parts m id now id' : get_part (do_touch m id now) id' = get_part m id'.
Proof.
  unfold do_touch. destruct (aget id (m_entries m)); [|reflexivity].
  destruct (_ || _ || _); reflexivity.
Qed.

Lemma step_parts_other m o id' :
  (forall id a, o <> OSetLatest id a) -> (forall id n, o <> OSetProcessed id n) -> (forall id a n, o <> OMark id a n) ->
  get_part (fst (step m o)) id' = get_part m id'.
Proof.
  intros H1 H2 H3. destruct o; try (exfalso; eapply H1; reflexivity); try (exfalso; eapply H2; reflexivity);
    try (exfalso; eapply H3; reflexivity); cbn [step].
  - destruct (aget id (m_entries m)); destruct s; reflexivity.
  - reflexivity.
  - destruct (aget id (m_entries m)) as [e|]; [|reflexivity]. destruct (e_paused e); reflexivity.
  - destruct (aget id (m_entries m)) as [e|]; [|reflexivity]. destruct (e_paused e); cbn [negb]; [|reflexivity].
    destruct (is_time _); [reflexivity|]. destruct (_ && _); reflexivity.
  - apply do_touch_parts.
  - destruct (aget id (m_entries m)) as [e|]; [|reflexivity]. destruct (is_count _); cbn [negb]; [|reflexivity].
    destruct (_ <? _); [reflexivity|]. destruct (_ || _); reflexivity.
  - destruct (heap_head _) as [[? ?]|]; reflexivity.
  - destruct (heap_head _) as [[? ?]|]; [|reflexivity]. destruct (_ && _ && _); reflexivity.
  - destruct (aget id (m_entries m)) as [e|]; [|reflexivity]. destruct (Nat.eqb _ _); cbn [negb]; [|reflexivity].
    destruct passivated; [reflexivity|]. destruct (e_paused e); reflexivity.
  - destruct (m_chan m) as [|[? ?] ?]; [reflexivity|]. destruct (aget _ _) as [e|]; [|reflexivity].
    destruct (Nat.eqb _ _); cbn [negb]; [|reflexivity]. destruct (e_paused e); reflexivity.
  - destruct (aget id (m_entries m)) as [e|]; [|reflexivity]. destruct (Nat.eqb _ _); cbn [negb]; [|reflexivity].
    destruct passivated; [reflexivity|]. destruct (e_paused _); [reflexivity|]. destruct (e_pending _); reflexivity.
Qed.

Lemma reach_pm_handled c m : reach_pm c m -> forall id, p_handled (get_part m id) = p_latest (get_part m id).
Proof.
  induction 1 as [|c m o Hr IH Hv Hpm]; intros id'; [reflexivity|].
  destruct o; try (rewrite step_parts_other by (intros; discriminate); apply IH); cbn [step fst].
  - destruct (Nat.eq_dec id id') as [->|Hne]; [rewrite get_part_set_same; reflexivity|rewrite get_part_set_other by assumption; apply IH].
  - destruct (Nat.eq_dec id id') as [->|Hne]; [rewrite get_part_set_same; cbn; apply IH|rewrite get_part_set_other by assumption; apply IH].
  - cbn in Hpm. subst at_. destruct (_ >=? _); cbn [fst]; rewrite ?do_touch_parts;
      (destruct (Nat.eq_dec id id') as [->|Hne]; [rewrite get_part_set_same; reflexivity|rewrite get_part_set_other by assumption; apply IH]).
Qed.

(* ... hence an actor is only passivated when the last message it handled is older than
   timeout - passivationTouchInterval *)
Lemma trig_decide_bound_handled c m id obj now :
  reach_pm c m ->
  snd (step m (OTrigBegin id obj now)) = RDecide (Some (id, obj)) ->
  exists e t, aget id (m_entries m) = Some e /\ e_strat e = STime t /\ e_paused e = false /\
              now - p_handled (get_part m id) > t - touch_interval.
Proof.
  intros Hr Hd. destruct (trig_decide_bound c m id obj now (reach_pm_reach _ _ Hr) Hd) as [e [t [H1 [H2 [H3 [H4 [H5 H6]]]]]]].
  exists e, t. repeat split; auto. rewrite (reach_pm_handled _ _ Hr). assumption.
Qed.

(* the turn of the code as it is stamps every message with the turn's start: three 100 ms
   handlers in one turn, 300 ms timeout -> the actor is passivated 100 ms after it handled a
   message (and while it still has messages queued) *)
Definition burst_ops (per_message : bool) : list op :=
  ORegister 0 (STime 300000000) true 999999000 ::
  turn_marks per_message 0 1000000000 [1000000000; 1100000000; 1200000000] ++
  [OTrigBegin 0 0 1300000000].

Lemma burst_witness :
  (* one clock reading per turn: decided at 1.3 s although a message was handled at 1.2 s *)
  snd (last (run m0 (burst_ops false)) (m0, RNone)) = RDecide (Some (0%nat, 0%nat)) /\
  p_handled (get_part (final m0 (burst_ops false)) 0) = 1200000000 /\
  1300000000 - 1200000000 < 300000000 - touch_interval /\
  (* one clock reading per message: not decided *)
  snd (last (run m0 (burst_ops true)) (m0, RNone)) = RDecide None.
Proof. vm_compute. repeat split; reflexivity. Qed.

(* the witness is a valid history *)
Fixpoint valid_run (c : Z) (m : mstate) (ops : list op) : Prop :=
  match ops with
  | [] => True
  | o :: r => valid_op c m o /\ valid_run (next_clock c o) (fst (step m o)) r
  end.

Lemma valid_run_reach c m ops : reach c m -> valid_run c m ops ->
  reach (fold_left next_clock ops c) (final m ops).
Proof.
  revert c m; induction ops as [|o r IH]; intros c m Hr Hv; [exact Hr|].
  destruct Hv as [Hv1 Hv2]. cbn [fold_left final]. apply IH; [constructor; assumption|assumption].
Qed.

Lemma burst_valid b : valid_run 0 m0 (burst_ops b).
Proof. destruct b; cbn; unfold get_part; cbn; repeat split; try lia; intros; try discriminate. Qed.

(* ------------------------------------------------------------------ paused / strategy / message count *)

Lemma proc_decide c m id obj :
  reach c m ->
  snd (step m OProcBegin) = RDecide (Some (id, obj)) ->
  exists e, aget id (m_entries m) = Some e /\ e_obj e = obj /\ e_paused e = false /\ e_strat e <> SOther /\
            (e_pending e = true ->
             exists n, e_strat e = SCount n /\ e_base e + n <= p_processed (get_part m id)).
Proof.
  intros Hr Hd. apply reach_inv in Hr. cbn [step] in Hd.
  destruct (m_chan m) as [|[id' obj'] rest]; [discriminate|].
  destruct (aget id' (m_entries m)) as [e|] eqn:Eg; [|discriminate].
  destruct (Nat.eqb (e_obj e) obj') eqn:Eo; cbn [negb] in Hd; [|discriminate].
  destruct (e_paused e) eqn:Epa; cbn [snd] in Hd; [discriminate|].
  inversion Hd; subst id' obj'. apply Nat.eqb_eq in Eo.
  pose proof (inv_entry _ _ Hr _ _ Eg) as [Hso [Hto [Hmx [Hpe Hh]]]].
  exists e. repeat split; auto. intros Hp. destruct (Hpe Hp) as [Hc Hb].
  destruct (e_strat e) as [|n|] eqn:Es; simpl in Hc; try discriminate.
  exists n. split; [reflexivity|]. rewrite (Hmx eq_refl) in Hb. simpl in Hb. assumption.
Qed.

(* a long-lived (or unknown) strategy never has an entry, so nothing is ever decided for it *)
Lemma register_other_removes c m id ispid now :
  reach c m -> aget id (m_entries (fst (step m (ORegister id SOther ispid now)))) = None.
Proof.
  intros Hr. apply reach_inv in Hr. cbn [step].
  destruct (aget id (m_entries m)); cbn [fst del_entry m_entries]; apply aget_adel_same; apply Hr.
Qed.

Lemma entries_never_other c m id e : reach c m -> aget id (m_entries m) = Some e -> e_strat e <> SOther.
Proof. intros Hr Hg. apply reach_inv in Hr. apply (inv_entry _ _ Hr _ _ Hg). Qed.

(* a stale message-count trigger survives an in-place re-registration *)
Definition stale_ops : list op :=
  [ORegister 0 (SCount 2) true 1; OSetProcessed 0 3; OMsgProcessed 0; ORegister 0 (SCount 2) true 2; OProcBegin].

Lemma stale_trigger_witness :
  valid_run 0 m0 stale_ops /\
  snd (last (run m0 stale_ops) (m0, RNone)) = RDecide (Some (0%nat, 0%nat)) /\
  (let m := final m0 (removelast stale_ops) in
   exists e, aget 0%nat (m_entries m) = Some e /\ e_strat e = SCount 2 /\ e_pending e = false /\
             p_processed (get_part m 0) < e_base e + 2).
Proof.
  split; [cbn; unfold get_part; cbn; repeat split; try lia; intros; try discriminate; left; lia|].
  split; [vm_compute; reflexivity|]. vm_compute. eexists. repeat split; reflexivity.
Qed.


(* Resume of a paused time-based entry recomputes the deadline from the actor's latest activity
   (activity seen while paused counts), never from the deadline the entry was parked with *)
Lemma resume_refreshes c m id e now :
  reach c m -> aget id (m_entries m) = Some e -> e_paused e = true -> is_time (e_strat e) = true ->
  exists e', aget id (m_entries (fst (step m (OResume id now)))) = Some e' /\
             e_paused e' = false /\ e_inheap e' = true /\
             e_deadline e' = (if p_latest (get_part m id) =? 0 then now else p_latest (get_part m id)) + e_timeout e.
Proof.
  intros _ Hg Hp Ht. cbn [step]. rewrite Hg, Hp. cbn [negb].
  replace (is_time (e_strat (with_paused false e))) with true by (symmetry; exact Ht). cbn [fst set_entry m_entries].
  rewrite aget_aset_same. eexists. split; [reflexivity|]. cbn. repeat split; reflexivity.
Qed.

(* ------------------------------------------------------------------ tryPassivation *)

Lemma try_passivation_guards f :
  fst (try_passivation f) = true ->
  f_strategy_nil f = false /\ f_long_lived f = false /\ f_system_stopping f = false /\
  f_skip_next f = false /\ f_stopping f = false /\ f_suspended f = false /\ f_paused f = false /\
  f_skip_next_in_critical f = false.
Proof.
  unfold try_passivation. destruct f as [a b c d e g h i]; cbn.
  destruct a, b, c, d, e, g, h, i; cbn; intros H; try discriminate; repeat split; reflexivity.
Qed.

(* the skip-next flag is consumed by exactly one refused attempt *)
Lemma try_passivation_skip_once f :
  f_strategy_nil f = false -> f_long_lived f = false -> f_system_stopping f = false -> f_skip_next f = true ->
  try_passivation f = (false, false).
Proof. intros H1 H2 H3 H4. unfold try_passivation. rewrite H1, H2, H3, H4. reflexivity. Qed.

(* ------------------------------------------------------------------ non-vacuity *)

Example ex_idle_passivates :
  let ops := [ORegister 0 (STime 300000000) true 1000000000; OMark 0 1050000000 1050000000;
              OMark 0 1120000000 1120000000; ONext 1200000000; OTrigBegin 0 0 1340000000; OTrigBegin 0 0 1360000000] in
  valid_run 0 m0 ops /\
  map snd (run m0 ops) = [RNone; RNone; RNone; RNext (Some (0%nat, 0%nat, 150000000)); RDecide None; RDecide (Some (0%nat, 0%nat))].
Proof.
  split; [cbn; unfold get_part; cbn; repeat split; try lia; intros; discriminate|vm_compute; reflexivity].
Qed.
