(* C12 — passivation: executable model of
     actor/passivation_manager.go  (entries, deadline heap, paused, message-count baseline/pending/
                                    enqueued, Register/Unregister/Pause/Resume/Touch/MessageProcessed,
                                    nextEntry, trigger, processMessageEntry)
     actor/pid.go                  (markActivity with touch coalescing, tryPassivation guards)
   Time is a logical clock supplied with each operation.  Definitions only. *)
From Coq Require Import ZArith List Bool Arith.
Import ListNotations.
Open Scope Z_scope.

(* passivationTouchInterval = 100ms, in nanoseconds *)
Definition touch_interval : Z := 100000000.

Inductive strat :=
| STime (timeout : Z)        (* passivation.TimeBasedStrategy *)
| SCount (maxMessages : Z)   (* passivation.MessagesCountBasedStrategy *)
| SOther.                    (* long-lived / anything else: Register drops the entry *)

Definition is_time (s : strat) : bool := match s with STime _ => true | _ => false end.
Definition is_count (s : strat) : bool := match s with SCount _ => true | _ => false end.
Definition timeout_of (s : strat) : Z := match s with STime t => t | _ => 0 end.
Definition max_of (s : strat) : Z := match s with SCount n => n | _ => 0 end.

(* a *passivationEntry object *)
Record entry := mkE {
  e_obj : nat;          (* identity of the object: Register re-uses the object of an existing key *)
  e_strat : strat;
  e_timeout : Z;        (* entry.timeout is only written for time-based registrations *)
  e_max : Z;            (* entry.maxMessages likewise for message-count registrations *)
  e_deadline : Z;
  e_inheap : bool;      (* index >= 0 *)
  e_paused : bool;
  e_pending : bool;
  e_enq : bool;
  e_base : Z
}.

(* the participant (actor) side: latestReceiveTimeNano (0 = zero time), lastPassivationTouch,
   processedCount *)
Record part := mkP {
  p_latest : Z;       (* latestReceiveTimeNano *)
  p_touch : Z;        (* lastPassivationTouch *)
  p_processed : Z;    (* processedCount *)
  p_handled : Z       (* ghost: the clock when the latest message was handled (0: none since reset) *)
}.
Definition part0 : part := mkP 0 0 0 0.

Record mstate := mkM {
  m_entries : list (nat * entry);   (* map participant id -> entry *)
  m_parts : list (nat * part);
  m_chan : list (nat * nat);        (* messageTriggers: (id, object) oldest first *)
  m_fresh : nat
}.

Definition m0 : mstate := mkM [] [] [] 0%nat.

Section Assoc.
  Context {A : Type}.
  Fixpoint aget (k : nat) (l : list (nat * A)) : option A :=
    match l with
    | [] => None
    | (k', v) :: r => if Nat.eqb k' k then Some v else aget k r
    end.
  Fixpoint aset (k : nat) (v : A) (l : list (nat * A)) : list (nat * A) :=
    match l with
    | [] => [(k, v)]
    | (k', v') :: r => if Nat.eqb k' k then (k, v) :: r else (k', v') :: aset k v r
    end.
  Fixpoint adel (k : nat) (l : list (nat * A)) : list (nat * A) :=
    match l with
    | [] => []
    | (k', v') :: r => if Nat.eqb k' k then r else (k', v') :: adel k r
    end.
End Assoc.

Definition get_part (m : mstate) (id : nat) : part :=
  match aget id (m_parts m) with Some p => p | None => part0 end.

Definition set_part (m : mstate) (id : nat) (p : part) : mstate :=
  mkM (m_entries m) (aset id p (m_parts m)) (m_chan m) (m_fresh m).

Definition set_entry (m : mstate) (id : nat) (e : entry) : mstate :=
  mkM (aset id e (m_entries m)) (m_parts m) (m_chan m) (m_fresh m).

Definition del_entry (m : mstate) (id : nat) : mstate :=
  mkM (adel id (m_entries m)) (m_parts m) (m_chan m) (m_fresh m).

(* entry.refreshDeadline: latest activity (or the clock when there is none) + timeout *)
Definition refresh (latest now : Z) (e : entry) : entry :=
  let l := if latest =? 0 then now else latest in
  mkE (e_obj e) (e_strat e) (e_timeout e) (e_max e) (l + e_timeout e) (e_inheap e) (e_paused e) (e_pending e) (e_enq e) (e_base e).

Definition with_heap (b : bool) (e : entry) : entry :=
  mkE (e_obj e) (e_strat e) (e_timeout e) (e_max e) (e_deadline e) b (e_paused e) (e_pending e) (e_enq e) (e_base e).
Definition with_paused (b : bool) (e : entry) : entry :=
  mkE (e_obj e) (e_strat e) (e_timeout e) (e_max e) (e_deadline e) (e_inheap e) b (e_pending e) (e_enq e) (e_base e).
Definition with_pending (b : bool) (e : entry) : entry :=
  mkE (e_obj e) (e_strat e) (e_timeout e) (e_max e) (e_deadline e) (e_inheap e) (e_paused e) b (e_enq e) (e_base e).
Definition with_enq (b : bool) (e : entry) : entry :=
  mkE (e_obj e) (e_strat e) (e_timeout e) (e_max e) (e_deadline e) (e_inheap e) (e_paused e) (e_pending e) b (e_base e).

(* the head of the deadline heap: the entry in the heap with the smallest deadline (first one on ties) *)
Fixpoint heap_head (l : list (nat * entry)) : option (nat * entry) :=
  match l with
  | [] => None
  | (id, e) :: r =>
      if e_inheap e then
        match heap_head r with
        | Some (id', e') => if e_deadline e' <? e_deadline e then Some (id', e') else Some (id, e)
        | None => Some (id, e)
        end
      else heap_head r
  end.

Inductive op :=
| OSetLatest (id : nat) (at_ : Z)                 (* latestReceiveTimeNano.Store(at); 0 = reset() *)
| OSetProcessed (id : nat) (n : Z)                (* processedCount *)
| OMark (id : nat) (at_ now : Z)                  (* pid.markActivity(at): store + coalesced Touch *)
| ORegister (id : nat) (s : strat) (ispid : bool) (now : Z)
| OUnregister (id : nat)
| OPause (id : nat)
| OResume (id : nat) (now : Z)
| OTouch (id : nat) (now : Z)
| OMsgProcessed (id : nat)
| ONext (now : Z)
| OTrigBegin (id : nat) (obj : nat) (now : Z)     (* trigger(expected): up to the call of passivate *)
| OTrigEnd (id : nat) (obj : nat) (passivated : bool) (now : Z)
| OProcBegin                                      (* the loop takes the oldest message trigger *)
| OProcEnd (id : nat) (obj : nat) (passivated : bool).

Inductive out :=
| RNone
| RBool (b : bool)
| RNext (r : option (nat * nat * Z))              (* (id, object, wait) *)
| RDecide (r : option (nat * nat)).               (* passivate is called for (id, object) *)

Definition do_touch (m : mstate) (id : nat) (now : Z) : mstate :=
  match aget id (m_entries m) with
  | Some e =>
      if e_paused e || negb (is_time (e_strat e)) || negb (e_inheap e) then m
      else set_entry m id (refresh (p_latest (get_part m id)) now e)
  | None => m
  end.

Definition step (m : mstate) (o : op) : mstate * out :=
  match o with
  | OSetLatest id a =>
      let p := get_part m id in (set_part m id (mkP a (p_touch p) (p_processed p) a), RNone)
  | OSetProcessed id n =>
      let p := get_part m id in (set_part m id (mkP (p_latest p) (p_touch p) n (p_handled p)), RNone)
  | OMark id a now =>
      let p := get_part m id in
      if a - p_touch p >=? touch_interval
      then (do_touch (set_part m id (mkP a a (p_processed p) now)) id now, RNone)
      else (set_part m id (mkP a (p_touch p) (p_processed p) now), RNone)
  | ORegister id s ispid now =>
      let p := get_part m id in
      let '(e0, fresh') :=
        match aget id (m_entries m) with
        | Some e => (e, m_fresh m)
        | None => (mkE (m_fresh m) SOther 0 0 0 false false false false 0, S (m_fresh m))
        end in
      (* an entry still in the heap is removed first; then the fields are (re)initialised *)
      let e1 := mkE (e_obj e0) s (e_timeout e0) (e_max e0) (e_deadline e0) false false false false (e_base e0) in
      let m1 := mkM (m_entries m) (m_parts m) (m_chan m) fresh' in
      match s with
      | STime t =>
          let e2 := mkE (e_obj e1) s t (e_max e1) (e_deadline e1) true false false false (e_base e1) in
          (set_entry m1 id (refresh (p_latest p) now e2), RNone)
      | SCount n =>
          let e2 := mkE (e_obj e1) s (e_timeout e1) n (e_deadline e1) false false false false
                        (if ispid then p_processed p + 1 else 0) in
          (set_entry m1 id e2, RNone)
      | SOther => (del_entry m1 id, RNone)
      end
  | OUnregister id => (del_entry m id, RNone)
  | OPause id =>
      match aget id (m_entries m) with
      | Some e => if e_paused e then (m, RNone) else (set_entry m id (with_heap false (with_paused true e)), RNone)
      | None => (m, RNone)
      end
  | OResume id now =>
      match aget id (m_entries m) with
      | None => (m, RBool false)
      | Some e =>
          if negb (e_paused e) then (m, RBool true)
          else
            let e1 := with_paused false e in
            if is_time (e_strat e1)
            then (set_entry m id (with_heap true (refresh (p_latest (get_part m id)) now e1)), RBool true)
            else if e_pending e1 && negb (e_enq e1)
                 then (mkM (aset id (with_enq true e1) (m_entries m)) (m_parts m) (m_chan m ++ [(id, e_obj e1)]) (m_fresh m), RBool true)
                 else (set_entry m id e1, RBool true)
      end
  | OTouch id now => (do_touch m id now, RNone)
  | OMsgProcessed id =>
      match aget id (m_entries m) with
      | None => (m, RNone)
      | Some e =>
          if negb (is_count (e_strat e)) then (m, RNone)
          else if p_processed (get_part m id) <? e_base e + e_max e then (m, RNone)
          else
            let e1 := with_pending true e in
            if e_paused e1 || e_enq e1 then (set_entry m id e1, RNone)
            else (mkM (aset id (with_enq true e1) (m_entries m)) (m_parts m) (m_chan m ++ [(id, e_obj e1)]) (m_fresh m), RNone)
      end
  | ONext now =>
      (* paused entries are never in the heap in this model (Pause removes them), so the loop of
         nextEntry that discards paused heads never iterates *)
      match heap_head (m_entries m) with
      | Some (id, e) => (m, RNext (Some (id, e_obj e, Z.max (e_deadline e - now) 0)))
      | None => (m, RNext None)
      end
  | OTrigBegin id obj now =>
      match heap_head (m_entries m) with
      | Some (id', e) =>
          if Nat.eqb id' id && Nat.eqb (e_obj e) obj && negb (now <? e_deadline e)
          then (set_entry m id (with_heap false e), RDecide (Some (id, obj)))
          else (m, RDecide None)
      | None => (m, RDecide None)
      end
  | OTrigEnd id obj passivated now =>
      match aget id (m_entries m) with
      | Some e =>
          if negb (Nat.eqb (e_obj e) obj) then (m, RNone)
          else if passivated then (del_entry m id, RNone)
          else if e_paused e then (m, RNone)
          else (set_entry m id (with_heap true (refresh (p_latest (get_part m id)) now e)), RNone)
      | None => (m, RNone)
      end
  | OProcBegin =>
      match m_chan m with
      | [] => (m, RDecide None)
      | (id, obj) :: rest =>
          let m1 := mkM (m_entries m) (m_parts m) rest (m_fresh m) in
          match aget id (m_entries m) with
          | Some e =>
              if negb (Nat.eqb (e_obj e) obj) then (m1, RDecide None)
              else if e_paused e then (set_entry m1 id (with_enq false e), RDecide None)
              else (m1, RDecide (Some (id, obj)))
          | None => (m1, RDecide None)
          end
      end
  | OProcEnd id obj passivated =>
      (* entry.enqueued = false is written to the object even when it is no longer the current one;
         only the current object is visible in the model *)
      match aget id (m_entries m) with
      | Some e =>
          if negb (Nat.eqb (e_obj e) obj) then (m, RNone)
          else
            let e1 := with_enq false e in
            if passivated then (del_entry m id, RNone)
            else if e_paused e1 then (set_entry m id e1, RNone)
            else if e_pending e1
                 then (mkM (aset id (with_enq true e1) (m_entries m)) (m_parts m) (m_chan m ++ [(id, obj)]) (m_fresh m), RNone)
                 else (set_entry m id e1, RNone)
      | None => (m, RNone)
      end
  end.

Fixpoint run (m : mstate) (ops : list op) : list (mstate * out) :=
  match ops with
  | [] => []
  | o :: r => let '(m', x) := step m o in (m', x) :: run m' r
  end.

Definition final (m : mstate) (ops : list op) : mstate := fold_left (fun s o => fst (step s o)) ops m.

(* ------------------------------------------------------------------ the loops around passivate *)

(* passivationManager.trigger(expected): decide, call passivate (during which other operations may
   run: [inner]), complete, and go round again while the attempt failed and the entry is still the
   current, un-paused one.  [script]: what happens during each call of passivate and its result.
   Returns the number of times passivate was called. *)
Fixpoint trigger_loop (m : mstate) (id obj : nat) (now : Z) (script : list (list op * bool)) : mstate * nat :=
  match step m (OTrigBegin id obj now) with
  | (m1, RDecide (Some _)) =>
      match script with
      | [] => (m1, 1%nat)   (* script exhausted: not used by well-formed cases *)
      | (inner, res) :: rest =>
          let m2 := final m1 inner in
          let m3 := fst (step m2 (OTrigEnd id obj res now)) in
          let again :=
            match aget id (m_entries m2) with
            | Some e => Nat.eqb (e_obj e) obj && negb res && negb (e_paused e)
            | None => false
            end in
          if again then let '(m4, k) := trigger_loop m3 id obj now rest in (m4, S k) else (m3, 1%nat)
      end
  | (m1, _) => (m1, 0%nat)
  end.

(* the manager loop takes one message trigger and runs processMessageEntry *)
Definition process_one (m : mstate) (inner : list op) (res : bool) : mstate * nat :=
  match step m OProcBegin with
  | (m1, RDecide (Some (id, obj))) =>
      let m2 := final m1 inner in
      (fst (step m2 (OProcEnd id obj res)), 1%nat)
  | (m1, _) => (m1, 0%nat)
  end.

(* harness operations: the primitive ones plus the two loops *)
Inductive hop :=
| HOp (o : op)
| HTrigger (id obj : nat) (now : Z) (script : list (list op * bool))
| HProcess (inner : list op) (res : bool).

Definition hstep (m : mstate) (h : hop) : mstate * (out * nat) :=
  match h with
  | HOp o => let '(m', x) := step m o in (m', (x, 0%nat))
  | HTrigger id obj now script => let '(m', k) := trigger_loop m id obj now script in (m', (RNone, k))
  | HProcess inner res => let '(m', k) := process_one m inner res in (m', (RNone, k))
  end.

Fixpoint hrun (m : mstate) (hs : list hop) : list (mstate * (out * nat)) :=
  match hs with
  | [] => []
  | h :: r => let '(m', x) := hstep m h in (m', x) :: hrun m' r
  end.

(* ------------------------------------------------------------------ tryPassivation (actor/pid.go) *)

Record pflags := mkF {
  f_strategy_nil : bool;
  f_long_lived : bool;
  f_system_stopping : bool;
  f_skip_next : bool;
  f_stopping : bool;
  f_suspended : bool;
  f_paused : bool;
  f_skip_next_in_critical : bool     (* reinstate observed between the first check and the stop lock *)
}.

(* (passivated?, skip-next flag afterwards) *)
Definition try_passivation (f : pflags) : bool * bool :=
  if f_strategy_nil f || f_long_lived f then (false, f_skip_next f)
  else if f_system_stopping f then (false, f_skip_next f)
  else if f_skip_next f then (false, false)
  else if f_stopping f || f_suspended f || f_paused f then (false, false)
  else if f_skip_next_in_critical f then (false, false)
  else (true, false).

(* ------------------------------------------------------------------ activity stamps of a dispatcher turn *)

(* runTurn reads the clock once (turn start) and stamps every message of the turn with it;
   [per_message] = true models a turn that reads the clock for every message. *)
Fixpoint turn_marks (per_message : bool) (id : nat) (t0 : Z) (handles : list Z) : list op :=
  match handles with
  | [] => []
  | h :: r => OMark id (if per_message then h else t0) h :: turn_marks per_message id t0 r
  end.

(* ------------------------------------------------------------------ observation for the harness *)

Definition strat_code (s : strat) : Z := match s with STime _ => 0 | SCount _ => 1 | SOther => 2 end.
Definition b2z (b : bool) : Z := if b then 1 else 0.

Definition obs_entry (ie : nat * entry) : list Z :=
  let e := snd ie in
  [Z.of_nat (fst ie); strat_code (e_strat e); (if is_time (e_strat e) then e_deadline e else 0);
   b2z (e_inheap e); b2z (e_paused e); b2z (e_pending e); b2z (e_enq e); (if is_count (e_strat e) then e_base e else 0)].

Fixpoint insert_obs (x : list Z) (l : list (list Z)) : list (list Z) :=
  match l with
  | [] => [x]
  | y :: r => if hd 0 x <=? hd 0 y then x :: l else y :: insert_obs x r
  end.

Definition obs (m : mstate) : list (list Z) * Z :=
  (fold_right insert_obs [] (map obs_entry (m_entries m)), Z.of_nat (length (m_chan m))).
