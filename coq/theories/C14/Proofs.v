(* C14 — proofs about the behaviour-stack model (C14/Model.v). *)
From Coq Require Import List ZArith Bool Lia.
From GV Require Import C14.Model.
Import ListNotations.
Open Scope Z_scope.

(* ------------------------------------------------------------------------------------------ *)
(* 1. the code's stack is the property's stack, step by step                                   *)

Lemma top_apply_op s o : top (apply_op s o) = spec_op (top s) o.
Proof. destruct o; cbn; try reflexivity. unfold unsetBehaviorStacked, bs_pop. destruct (top s) eqn:E; cbn; rewrite ?E; reflexivity. Qed.

Lemma top_fold_apply script : forall s, top (fold_left apply_op script s) = fold_left spec_op script (top s).
Proof. induction script as [|o r IH]; intro s; cbn; [reflexivity|]. rewrite IH, top_apply_op. reflexivity. Qed.

Lemma run_refines msgs : forall s, run s msgs = spec_run (top s) msgs.
Proof.
  induction msgs as [|m ms IH]; intro s; cbn; [reflexivity|].
  unfold handle, bs_peek. destruct (top s) as [|h t] eqn:E; cbn.
  - rewrite IH, E. reflexivity.
  - rewrite IH, top_fold_apply, E. reflexivity.
Qed.

Theorem refines_from_init msgs : run init msgs = spec_run [default_b] msgs.
Proof. apply run_refines. Qed.

(* the observation stream used by the harness carries the same handlers *)
Lemma run_obs_handlers msgs : forall s, map fst (run_obs s msgs) = run s msgs.
Proof.
  induction msgs as [|m ms IH]; intro s; cbn; [reflexivity|].
  unfold handle_obs, handle. destruct (bs_peek s); cbn; rewrite IH; reflexivity.
Qed.

(* ------------------------------------------------------------------------------------------ *)
(* 2. the length counter                                                                       *)

Definition len_ok (s : bstack) : Prop := blen s = Z.of_nat (length (top s)) mod 2 ^ 64.

Lemma len_ok_init : len_ok init.
Proof. reflexivity. Qed.

Lemma len_ok_push b s : len_ok s -> len_ok (bs_push b s).
Proof.
  unfold len_ok, bs_push, u64; cbn [top blen length]. intros ->.
  rewrite Zplus_mod_idemp_l. f_equal. lia.
Qed.

Lemma len_ok_pop s : len_ok s -> len_ok (bs_pop s).
Proof.
  unfold len_ok, bs_pop, u64. destruct (top s) as [|h t] eqn:E; [rewrite E; tauto|]. cbn [top blen length]. intros ->.
  rewrite Zplus_mod_idemp_l.
  replace (Z.of_nat (S (length t)) + (2 ^ 64 - 1)) with (Z.of_nat (length t) + 1 * 2 ^ 64) by lia.
  apply Z_mod_plus_full.
Qed.

Lemma len_ok_reset s : len_ok (bs_reset s).
Proof. reflexivity. Qed.

Lemma len_ok_apply s o : len_ok s -> len_ok (apply_op s o).
Proof.
  destruct o; cbn; intro H.
  - apply len_ok_push, len_ok_reset.
  - apply len_ok_push, H.
  - apply len_ok_pop, H.
  - apply len_ok_push, len_ok_reset.
Qed.

Lemma len_ok_fold script : forall s, len_ok s -> len_ok (fold_left apply_op script s).
Proof. induction script as [|o r IH]; intros s H; cbn; [exact H|]. apply IH, len_ok_apply, H. Qed.

Lemma len_ok_final msgs : forall s, len_ok s -> len_ok (final s msgs).
Proof.
  induction msgs as [|m ms IH]; intros s H; cbn; [exact H|]. apply IH.
  unfold handle. destruct (bs_peek s); cbn; [apply len_ok_fold, H | exact H].
Qed.

Theorem len_exact msgs : len_ok (final init msgs).
Proof. apply len_ok_final, len_ok_init. Qed.

(* ------------------------------------------------------------------------------------------ *)
(* 3. the clauses of the property, each on its own                                             *)

(* UnBecome forgets everything that happened before it. *)
Lemma resetBehavior_is_init s : resetBehavior s = init.
Proof. reflexivity. Qed.

Theorem unbecome_clears pre post s :
  fold_left apply_op (pre ++ UnBecome :: post) s = fold_left apply_op post init.
Proof. rewrite fold_left_app. cbn. reflexivity. Qed.

(* Become forgets everything that happened before it and leaves exactly one behaviour. *)
Theorem become_replaces pre post b s :
  fold_left apply_op (pre ++ Become b :: post) s = fold_left apply_op post (bs_push b bs_new).
Proof. rewrite fold_left_app. cbn. reflexivity. Qed.

Theorem become_single b s : top (apply_op s (Become b)) = [b].
Proof. reflexivity. Qed.

(* BecomeStacked then UnBecomeStacked is the identity on a well-formed stack. *)
Theorem push_pop_inverse b s : len_ok s ->
  apply_op (apply_op s (BecomeStacked b)) UnBecomeStacked = s.
Proof.
  intro H. destruct s as [t l]. unfold len_ok in H. cbn [top blen] in H.
  unfold apply_op, unsetBehaviorStacked, bs_pop, setBehaviorStacked, bs_push. cbn [top blen].
  f_equal. subst l. unfold u64.
  assert (Hm : 0 <= Z.of_nat (length t) mod 2 ^ 64 < 2 ^ 64) by (apply Z.mod_pos_bound; lia).
  set (x := Z.of_nat (length t) mod 2 ^ 64) in *.
  rewrite Zplus_mod_idemp_l.
  replace (x + 1 + (2 ^ 64 - 1)) with (x + 1 * 2 ^ 64) by lia.
  rewrite Z_mod_plus_full. apply Z.mod_small. exact Hm.
Qed.

(* The handler of a message is the top of the stack when the message is taken, whatever its own
   script does: the current message finishes under the behaviour that started it. *)
Theorem handler_is_peek_before s script : snd (handle s script) = bs_peek s.
Proof. unfold handle. destruct (bs_peek s); reflexivity. Qed.

Lemma run_nth msgs : forall s i, (i < length msgs)%nat ->
  nth i (run s msgs) None = bs_peek (final s (firstn i msgs)).
Proof.
  induction msgs as [|m ms IH]; intros s i Hi; cbn in Hi; [lia|].
  destruct i as [|i]; cbn.
  - unfold handle. destruct (bs_peek s); reflexivity.
  - unfold handle at 1. destruct (bs_peek s) eqn:E; cbn.
    + rewrite IH by lia. unfold handle. rewrite E. reflexivity.
    + rewrite IH by lia. unfold handle. rewrite E. reflexivity.
Qed.

Lemma run_length msgs : forall s, length (run s msgs) = length msgs.
Proof.
  induction msgs as [|m ms IH]; intro s; cbn; [reflexivity|].
  destruct (handle s m). cbn. rewrite IH. reflexivity.
Qed.

(* ------------------------------------------------------------------------------------------ *)
(* 4. the empty stack                                                                          *)

Theorem unhandled_iff_empty s script : snd (handle s script) = None <-> top s = [].
Proof.
  rewrite handler_is_peek_before. unfold bs_peek. destruct (top s); cbn; split; congruence.
Qed.

Theorem empty_absorbing msgs : forall s, top s = [] -> run s msgs = repeat None (length msgs).
Proof.
  induction msgs as [|m ms IH]; intros s H; cbn; [reflexivity|].
  unfold handle, bs_peek. rewrite H. cbn. rewrite IH by exact H. reflexivity.
Qed.

(* scripts that never pop the last remaining behaviour *)
Fixpoint guarded_script (S : list nat) (script : list op) : bool :=
  match script with
  | [] => true
  | o :: r =>
      (match o, S with
       | UnBecomeStacked, [] => false
       | UnBecomeStacked, [_] => false
       | _, _ => true
       end) && guarded_script (spec_op S o) r
  end.

Fixpoint guarded (S : list nat) (msgs : list (list op)) : bool :=
  match msgs with
  | [] => true
  | m :: ms =>
      match S with
      | [] => false
      | _ => guarded_script S m && guarded (fold_left spec_op m S) ms
      end
  end.

Lemma guarded_script_doc script : forall S, guarded_script S script = true ->
  fold_left doc_op script S = fold_left spec_op script S /\ (S <> [] -> fold_left spec_op script S <> []).
Proof.
  induction script as [|o r IH]; intros S H; cbn in *; [tauto|].
  apply andb_prop in H. destruct H as [Hg Hr]. specialize (IH _ Hr). destruct IH as [IH1 IH2].
  assert (Hd : doc_op S o = spec_op S o).
  { destruct o; try reflexivity. destruct S as [|a [|b t]]; try discriminate; reflexivity. }
  rewrite Hd. split; [exact IH1|]. intro HS. apply IH2.
  destruct o; cbn; try discriminate. destruct S as [|a [|b t]]; try discriminate; congruence.
Qed.

Theorem guarded_always_handled msgs : forall S, guarded S msgs = true ->
  spec_run S msgs = doc_run S msgs /\ Forall (fun h => h <> None) (spec_run S msgs).
Proof.
  induction msgs as [|m ms IH]; intros S H; cbn in *; [split; [reflexivity|constructor]|].
  destruct S as [|h t]; [discriminate|].
  apply andb_prop in H. destruct H as [Hm Hr].
  destruct (guarded_script_doc m (h :: t) Hm) as [E _].
  specialize (IH _ Hr). destruct IH as [IH1 IH2].
  rewrite E. split; [rewrite IH1; reflexivity|]. constructor; [discriminate|exact IH2].
Qed.

(* The documented "No effect if there is no stack" is not what the code does: popping the last
   behaviour leaves the actor without any handler. *)
Theorem doc_no_effect_refuted : exists msgs, run init msgs <> doc_run [default_b] msgs.
Proof. exists [[UnBecomeStacked]; []]. vm_compute. discriminate. Qed.

(* ------------------------------------------------------------------------------------------ *)
(* 5. the code before the repair (resetBehavior = Push) does not refine the property's stack   *)

Fixpoint run_prefix (s : bstack) (msgs : list (list op)) : list (option nat) :=
  match msgs with
  | [] => []
  | m :: ms =>
      match bs_peek s with
      | None => None :: run_prefix s ms
      | Some h => Some h :: run_prefix (fold_left apply_op_prefix m s) ms
      end
  end.

Theorem prefix_refuted : exists msgs, run_prefix init msgs <> spec_run [default_b] msgs.
Proof. exists [[BecomeStacked 1%nat; UnBecome; UnBecomeStacked]; []]. vm_compute. discriminate. Qed.

(* ------------------------------------------------------------------------------------------ *)
(* non-vacuity *)
Example ex_switches :
  run init [[BecomeStacked 1%nat]; [BecomeStacked 2%nat]; [UnBecomeStacked]; [Become 3%nat]; [UnBecome]; []]
  = [Some 0%nat; Some 1%nat; Some 2%nat; Some 1%nat; Some 3%nat; Some 0%nat].
Proof. reflexivity. Qed.

Example ex_guarded : guarded [default_b] [[BecomeStacked 1%nat; UnBecomeStacked]; [Become 2%nat]; [UnBecome]] = true.
Proof. reflexivity. Qed.

Example ex_fixed_witness :
  run init [[BecomeStacked 1%nat; UnBecome; UnBecomeStacked]; []] = [Some 0%nat; None].
Proof. reflexivity. Qed.
