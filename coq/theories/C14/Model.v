(* C14 — executable model of behaviour switching as coded in
     actor/behavior_stack.go   (behaviorStack: Treiber stack [top] + uint64 [length] counter)
     actor/pid.go              (setBehavior / resetBehavior / setBehaviorStacked / unsetBehaviorStacked,
                                handleReceived: Peek once, then call the behaviour)
     actor/receive_context.go  (Become / BecomeStacked / UnBecomeStacked / UnBecome forward to the above)
   No proofs in this file. Behaviours are identified by a natural number; 0 is the actor's own
   Receive (the default behaviour pushed by newPID / init). *)
From Coq Require Import List ZArith Bool.
Import ListNotations.
Open Scope Z_scope.

Inductive op : Type :=
| Become (b : nat)
| BecomeStacked (b : nat)
| UnBecomeStacked
| UnBecome.

(* --- behaviorStack ------------------------------------------------------------------------- *)
(* [top] is the chain of bnodes reachable from the top pointer (head = top of stack),
   [blen] the separately maintained uint64 length counter. *)
Record bstack : Type := { top : list nat; blen : Z }.

Definition u64 (z : Z) : Z := z mod 2 ^ 64.

Definition bs_new : bstack := {| top := []; blen := 0 |}.
(* Reset: StorePointer(top,nil); StoreUint64(length,0) *)
Definition bs_reset (s : bstack) : bstack := {| top := []; blen := 0 |}.
(* Push: CAS top -> node{value,next=top}; AddUint64(length,1) *)
Definition bs_push (b : nat) (s : bstack) : bstack :=
  {| top := b :: top s; blen := u64 (blen s + 1) |}.
(* Pop: top==nil -> nothing; else CAS top -> next; AddUint64(length, ^uint64(0)) *)
Definition bs_pop (s : bstack) : bstack :=
  match top s with
  | [] => s
  | _ :: t => {| top := t; blen := u64 (blen s + (2 ^ 64 - 1)) |}
  end.
Definition bs_peek (s : bstack) : option nat := hd_error (top s).
Definition bs_len (s : bstack) : Z := blen s.

(* --- PID ----------------------------------------------------------------------------------- *)
Definition default_b : nat := 0%nat.

(* newPID: behaviorStack := newBehaviorStack(); Push(pid.actor.Receive) *)
Definition init : bstack := bs_push default_b bs_new.

Definition setBehavior (b : nat) (s : bstack) : bstack := bs_push b (bs_reset s).
Definition resetBehavior (s : bstack) : bstack := bs_push default_b (bs_reset s).
Definition setBehaviorStacked (b : nat) (s : bstack) : bstack := bs_push b s.
Definition unsetBehaviorStacked (s : bstack) : bstack := bs_pop s.

Definition apply_op (s : bstack) (o : op) : bstack :=
  match o with
  | Become b => setBehavior b s
  | BecomeStacked b => setBehaviorStacked b s
  | UnBecomeStacked => unsetBehaviorStacked s
  | UnBecome => resetBehavior s
  end.

(* A message carries the script of switch calls its handler makes (in order).
   handleReceived: `if behavior := Peek(); behavior != nil { behavior(received) }` — the behaviour is
   read once, before the call; with an empty stack nothing runs (the script is not executed). *)
Definition handle (s : bstack) (script : list op) : bstack * option nat :=
  match bs_peek s with
  | None => (s, None)
  | Some h => (fold_left apply_op script s, Some h)
  end.

(* handler identity per message *)
Fixpoint run (s : bstack) (msgs : list (list op)) : list (option nat) :=
  match msgs with
  | [] => []
  | m :: ms => let (s', h) := handle s m in h :: run s' ms
  end.

Fixpoint final (s : bstack) (msgs : list (list op)) : bstack :=
  match msgs with
  | [] => s
  | m :: ms => final (fst (handle s m)) ms
  end.

(* --- what the harness observes --------------------------------------------------------------
   per message: the handler that ran it (None = not handled) and, after every switch call made by
   that handler, (Peek identity, Len()). *)
Definition obs : Type := (option nat * Z)%type.
Definition observe (s : bstack) : obs := (bs_peek s, bs_len s).

Fixpoint script_obs (s : bstack) (script : list op) : list obs :=
  match script with
  | [] => []
  | o :: r => let s' := apply_op s o in observe s' :: script_obs s' r
  end.

Definition handle_obs (s : bstack) (script : list op) : bstack * (option nat * list obs) :=
  match bs_peek s with
  | None => (s, (None, []))
  | Some h => (fold_left apply_op script s, (Some h, script_obs s script))
  end.

Fixpoint run_obs (s : bstack) (msgs : list (list op)) : list (option nat * list obs) :=
  match msgs with
  | [] => []
  | m :: ms => let (s', o) := handle_obs s m in o :: run_obs s' ms
  end.

(* --- the property's stack (specification) --------------------------------------------------- *)
(* "Become replaces all behaviors with one, BecomeStacked pushes, UnBecomeStacked pops, and UnBecome
   restores only the default behavior, clearing stacked ones." *)
Definition spec_op (S : list nat) (o : op) : list nat :=
  match o with
  | Become b => [b]
  | BecomeStacked b => b :: S
  | UnBecomeStacked => tl S
  | UnBecome => [default_b]
  end.

(* "The message being handled always finishes under the behavior that started it": one handler per
   message, the top of the stack when the message is taken; switches only affect later messages. *)
Fixpoint spec_run (S : list nat) (msgs : list (list op)) : list (option nat) :=
  match msgs with
  | [] => []
  | m :: ms =>
      match S with
      | [] => None :: spec_run S ms
      | h :: _ => Some h :: spec_run (fold_left spec_op m S) ms
      end
  end.

(* The documentation of UnBecomeStacked says "No effect if there is no stack": a reading in which
   the last remaining behaviour can never be popped. Kept only to state how the code differs. *)
Definition doc_op (S : list nat) (o : op) : list nat :=
  match o with
  | UnBecomeStacked => match S with _ :: _ :: _ => tl S | _ => S end
  | _ => spec_op S o
  end.

Fixpoint doc_run (S : list nat) (msgs : list (list op)) : list (option nat) :=
  match msgs with
  | [] => []
  | m :: ms =>
      match S with
      | [] => None :: doc_run S ms
      | h :: _ => Some h :: doc_run (fold_left doc_op m S) ms
      end
  end.

(* The code before commit "fix: UnBecome clears stacked behaviors ..." (resetBehavior = Push only);
   kept so the check can name the regression when it sees it. *)
Definition apply_op_prefix (s : bstack) (o : op) : bstack :=
  match o with
  | UnBecome => bs_push default_b s
  | _ => apply_op s o
  end.
