(* C30 — invariant preservation for the deactivation labels (DeactStart, Deact). *)
From Coq Require Import List Arith Bool Lia.
From GV Require Import C30.Registry C30.Model C30.Inv.
Import ListNotations.

Lemma dstart_ninv : forall n r ns p,
  ninv n r ns -> flight ns = None -> quiet_d ns = true -> flag ns p = true ->
  ninv n r (set_deacts ns (deacts ns ++ [(p, DHook)])).
Proof.
  intros n r ns p H F Q FP. dinv H. pose proof (quiet_no_running _ Q) as NR.
  assert (LP : live ns p = true).
  { destruct (hP4 _ FP) as [A|[(i & d & A)|(c & d & A)]]; auto; [exfalso; eapply NR; eauto|congruence]. }
  constructor; intros; unf.
  - auto.
  - eauto.
  - destruct (hP3 _ H) as [A|[(c & A)|[(i & d & A)|(c & d & A)]]]; auto; try congruence. exfalso; eapply NR; eauto.
  - destruct (hP4 _ H) as [A|[(i & d & A)|(c & d & A)]]; auto; try congruence. exfalso; eapply NR; eauto.
  - destruct (running_app ns (set_deacts ns (deacts ns ++ [(p, DHook)])) (p, DHook) _ _ _ eq_refl H) as [A|(A & B)]; [exfalso; eapply NR; eauto|].
    inversion B; subst. split; auto. congruence.
  - congruence.
  - congruence.
  - destruct (running_app ns (set_deacts ns (deacts ns ++ [(p, DHook)])) (p, DHook) _ _ _ eq_refl H) as [A|(A & B)]; [exfalso; eapply NR; eauto|].
    destruct (running_app ns (set_deacts ns (deacts ns ++ [(p, DHook)])) (p, DHook) _ _ _ eq_refl H0) as [A'|(A' & B')]; [exfalso; eapply NR; eauto|]. congruence.
  - rewrite F. exact I.
  - apply hII. left. exists p. exact LP.
Qed.

Lemma flight_none_of_running : forall n r ns i p d, ninv n r ns -> running ns i p d -> flight ns = None.
Proof.
  intros n r ns i p d H R. dinv H. destruct (flight ns) eqn:F; auto.
  exfalso. eapply hXf; eauto. congruence.
Qed.

Lemma deact_ninv : forall n r ns i p d ok r' ns1 d',
  ninv n r ns -> nth_error (deacts ns) i = Some (p, d) -> is_done d = false ->
  dstep p d ok r ns = (r', ns1, d') ->
  ninv n r' (set_deacts ns1 (set_nth i (p, d') (deacts ns1))) /\ reg_frame n r r'.
Proof.
  intros n r ns i p d ok r' ns1 d' H N D S.
  assert (R : running ns i p d) by (split; auto).
  pose proof (flight_none_of_running _ _ _ _ _ _ H R) as F.
  dinv H.
  assert (U : forall j q e, running ns j q e -> j = i /\ q = p /\ e = d).
  { intros j q e R'. assert (j = i) by (eapply hXd; eauto). subst.
    destruct R' as (A & _). rewrite N in A. inversion A; auto. }
  destruct (hTD _ _ _ R) as (FP & LP).
  assert (RS : forall nsx, deacts nsx = deacts ns ->
          forall j q e, running (set_deacts nsx (set_nth i (p, d') (deacts nsx))) j q e -> j = i /\ q = p /\ e = d').
  { intros nsx E j q e R'.
    destruct (running_set_nth nsx (set_deacts nsx (set_nth i (p, d') (deacts nsx))) i p d d' j q e) as [A|(A & B)]; auto.
    - rewrite E; auto.
    - exfalso. apply A. eapply U. eapply running_same; eauto. }
  assert (RI : forall nsx, deacts nsx = deacts ns -> is_done d' = false ->
          running (set_deacts nsx (set_nth i (p, d') (deacts nsx))) i p d').
  { intros nsx E D'. eapply running_set_nth_self with (ns := nsx) (d := d); eauto. rewrite E; auto. }
  destruct d; simpl in S; try discriminate.
  - (* DHook: OnDeactivate entered *)
    assert (E1 : ns1 = set_pid ns p (mkPid (p_flag (pf ns p)) false) /\ r' = r /\ d' = (if ok then DDelete else DClear true))
      by (inversion S; auto).
    destruct E1 as (-> & -> & Ed). assert (D' : is_done d' = false) by (subst d'; destruct ok; auto).
    assert (NH : d' <> DHook) by (subst d'; destruct ok; discriminate).
    set (nsF := set_deacts (set_pid ns p (mkPid (p_flag (pf ns p)) false))
                  (set_nth i (p, d') (deacts (set_pid ns p (mkPid (p_flag (pf ns p)) false))))).
    assert (FE : forall q, p_flag (pf nsF q) = p_flag (pf ns q)).
    { intros q; simpl. destruct (Nat.eqb_spec q p); subst; auto. }
    assert (LE : forall q, p_live (pf nsF q) = true -> q <> p /\ p_live (pf ns q) = true).
    { intros q; simpl. destruct (Nat.eqb_spec q p); subst; simpl; intros; [discriminate|auto]. }
    assert (LE2 : forall q, q <> p -> p_live (pf nsF q) = p_live (pf ns q)).
    { intros q; simpl. destruct (Nat.eqb_spec q p); subst; simpl; intros; [contradiction|auto]. }
    assert (LEp : p_live (pf nsF p) = false) by (simpl; rewrite Nat.eqb_refl; auto).
    assert (GE : gmap nsF = gmap ns) by reflexivity.
    assert (FL : flight nsF = None) by (simpl; auto).
    split; [|left; auto].
    constructor; intros; unfold tfacts, flag, live in *.
    + rewrite FE. apply LE in H. destruct H. auto.
    + rewrite !FE in *. eauto.
    + rewrite FE in H. rewrite GE, FL.
      destruct (hP3 _ H) as [A|[(c & A)|[(j & e & A)|(c & e & A)]]]; auto; try congruence.
      destruct (U _ _ _ A) as (-> & -> & ->). right; right; left. exists i, d'. apply RI; auto.
    + rewrite FE in H. destruct (Nat.eq_dec p0 p) as [->|Hne].
      * right; left. exists i, d'. apply RI; auto.
      * destruct (hP4 _ H) as [A|[(j & e & A)|(c & e & A)]]; try congruence.
        -- left. rewrite LE2; auto.
        -- destruct (U _ _ _ A) as (_ & X & _). contradiction.
    + apply RS in H; auto. destruct H as (-> & -> & ->). rewrite FE. split; auto.
    + rewrite FL in H. congruence.
    + rewrite FL in H. congruence.
    + apply RS in H; auto. apply RS in H0; auto. destruct H, H0. congruence.
    + unfold efacts. rewrite FL. exact I.
    + apply hII. destruct H as [(q & A)|[(pc & A & B)|(j & q & e & A & B)]].
      * apply LE in A. left. exists q. apply A.
      * rewrite FL in A. congruence.
      * right; right. exists i, p, DHook. split; auto.
  - (* DDelete: grains.Delete *)
    assert (E1 : ns1 = set_gmap ns None /\ r' = r /\ d' = DRemove) by (inversion S; auto).
    destruct E1 as (-> & -> & ->).
    split; [|left; auto].
    constructor; intros; unfold tfacts, flag, live in *; simpl pf in *; simpl flight in *; simpl gmap in *.
    + auto.
    + eauto.
    + assert (p0 = p) by eauto. subst. right; right; left. exists i, DRemove. apply RI; auto.
    + destruct (hP4 _ H) as [A|[(j & e & A)|(c & e & A)]]; auto; try congruence.
      destruct (U _ _ _ A) as (-> & -> & _). right; left. exists i, DRemove. apply RI; auto.
    + apply RS in H; auto. destruct H as (-> & -> & ->). split; auto. intros _. apply LP. discriminate.
    + congruence.
    + congruence.
    + apply RS in H; auto. apply RS in H0; auto. destruct H, H0. congruence.
    + unfold efacts. simpl flight. rewrite F. exact I.
    + apply hII. destruct H as [(q & A)|[(pc & A & B)|(j & q & e & A & B)]].
      * left. exists q. exact A.
      * simpl flight in A. congruence.
      * right; right. exists i, p, DDelete. split; auto.
  - (* DRemove: RemoveGrain *)
    assert (HO : r_get gk r = Some n).
    { apply hII. right; right. exists i, p, DRemove. split; auto. }
    assert (E1 : ns1 = ns /\ r' = (if ok then r_remove gk r else r) /\ d' = DClear (negb ok)).
    { destruct ok; inversion S; auto. }
    destruct E1 as (-> & -> & ->).
    split; [|right; left; auto].
    constructor; intros; unfold tfacts, flag, live in *; simpl pf in *; simpl flight in *; simpl gmap in *.
    + auto.
    + eauto.
    + assert (p0 = p) by eauto. subst. right; right; left. exists i, (DClear (negb ok)). apply RI; auto.
    + destruct (hP4 _ H) as [A|[(j & e & A)|(c & e & A)]]; auto; try congruence.
      destruct (U _ _ _ A) as (-> & -> & _). right; left. exists i, (DClear (negb ok)). apply RI; auto.
    + apply RS in H; auto. destruct H as (-> & -> & ->). split; auto. intros _. apply LP. discriminate.
    + congruence.
    + congruence.
    + apply RS in H; auto. apply RS in H0; auto. destruct H, H0. congruence.
    + unfold efacts. simpl flight. rewrite F. exact I.
    + exfalso. destruct H as [(q & A)|[(pc & A & B)|(j & q & e & A & B)]].
      * assert (A' : p_live (pf ns q) = true) by exact A. assert (q = p) by (apply hP2; auto). subst.
        rewrite LP in A'; [discriminate|discriminate].
      * simpl flight in A. congruence.
      * apply RS in A; auto. destruct A as (_ & _ & ->). discriminate.
  - (* DClear: activated=false *)
    assert (E1 : ns1 = set_pid ns p (mkPid false (p_live (pf ns p))) /\ r' = r /\ d' = DDone err) by (inversion S; auto).
    destruct E1 as (-> & -> & ->).
    assert (NRn : forall j q e, ~ running (set_deacts (set_pid ns p (mkPid false (p_live (pf ns p))))
                       (set_nth i (p, DDone err) (deacts (set_pid ns p (mkPid false (p_live (pf ns p))))))) j q e).
    { intros j q e R'. pose proof R' as R2. apply RS in R2; auto. destruct R2 as (_ & _ & ->). destruct R' as (_ & X). discriminate. }
    assert (LPf : p_live (pf ns p) = false) by (apply LP; discriminate).
    set (nsF := set_deacts (set_pid ns p (mkPid false (p_live (pf ns p))))
                       (set_nth i (p, DDone err) (deacts (set_pid ns p (mkPid false (p_live (pf ns p))))))) in *.
    assert (FE : forall q, p_flag (pf nsF q) = true -> False).
    { intros q; simpl. destruct (Nat.eqb_spec q p); subst; simpl; intros; [discriminate|].
      assert (q = p) by (apply hP2; auto). contradiction. }
    assert (LE : forall q, p_live (pf nsF q) = true -> False).
    { intros q; simpl. destruct (Nat.eqb_spec q p); subst; simpl; intros; [congruence|].
      assert (q = p) by (apply hP2; auto). contradiction. }
    assert (FL : flight nsF = None) by (simpl; auto).
    split; [|left; auto].
    constructor; intros; unfold tfacts, flag, live in *.
    + exfalso; eapply LE; eauto.
    + exfalso; eapply FE; eauto.
    + exfalso; eapply FE; eauto.
    + exfalso; eapply FE; eauto.
    + exfalso; eapply NRn; eauto.
    + rewrite FL in H. congruence.
    + rewrite FL in H. congruence.
    + exfalso; eapply NRn; eauto.
    + unfold efacts. rewrite FL. exact I.
    + exfalso. destruct H as [(q & A)|[(pc & A & B)|(j & q & e & A & B)]].
      * eapply LE; eauto.
      * rewrite FL in A. congruence.
      * eapply NRn; eauto.
Qed.
