(* C30 — the inductive invariant behind C30_partial.

   Under the guard (no claim-less step; a deactivation never overlaps the same node's flight or another
   deactivation of that node) every node n satisfies ninv n, whose key clause is
       holds n  ->  the registry names n
   where `holds` = n has a live instance, or its leader is past the ownership decision, or a
   deactivation of n has not yet removed the record. Any number of nodes, any interleaving, failures
   injected anywhere. *)
From Coq Require Import List Arith Bool Lia.
From GV Require Import C30.Registry C30.Model.
Import ListNotations.

Definition flag (ns : nstate) (p : nat) : bool := p_flag (pf ns p).
Definition live (ns : nstate) (p : nat) : bool := p_live (pf ns p).

Definition running (ns : nstate) (i p : nat) (d : dpc) : Prop :=
  nth_error (deacts ns) i = Some (p, d) /\ is_done d = false.

Definition owned (pc : lpc) : bool :=
  match pc with
  | LActivate _ _ | LUnclaim | LSetMap _ _ | LPut _ _ | LRbDelete _ | LRbRemove => true
  | LRb _ _ d => match d with DHook | DDelete | DRemove => true | DClear e => e | DDone _ => false end
  | _ => false
  end.
Definition downed (d : dpc) : bool := match d with DHook | DDelete | DRemove => true | _ => false end.

Definition holds (ns : nstate) : Prop :=
  (exists p, live ns p = true) \/
  (exists pc, flight ns = Some pc /\ owned pc = true) \/
  (exists i p d, running ns i p d /\ downed d = true).

(* facts about a pid under deactivation at position d *)
Definition tfacts (ns : nstate) (p : nat) (d : dpc) : Prop :=
  flag ns p = true /\ (d <> DHook -> live ns p = false).

Definition noflag (ns : nstate) : Prop := forall q, flag ns q = false.

Definition efacts (ns : nstate) : Prop :=
  match flight ns with
  | Some (LExists _) | Some (LGet _) | Some (LClaim _) | Some (LReget _) | Some (LActivate _ _)
  | Some LUnclaim | Some (LRbDelete _) | Some LRbRemove => noflag ns
  | Some (LSetMap p _) | Some (LPut p _) => flag ns p = true
  | _ => True
  end.

Record ninv (n : nat) (r : reg nat) (ns : nstate) : Prop := mkNinv {
  P1 : forall p, live ns p = true -> flag ns p = true;
  P2 : forall p q, flag ns p = true -> flag ns q = true -> p = q;
  P3 : forall p, flag ns p = true ->
         gmap ns = Some p \/ (exists c, flight ns = Some (LSetMap p c)) \/
         (exists i d, running ns i p d) \/ (exists c d, flight ns = Some (LRb p c d));
  P4 : forall p, flag ns p = true ->
         live ns p = true \/ (exists i d, running ns i p d) \/ (exists c d, flight ns = Some (LRb p c d));
  TD : forall i p d, running ns i p d -> tfacts ns p d;
  TL : forall p c d, flight ns = Some (LRb p c d) -> tfacts ns p d /\ is_done d = false;
  Xf : flight ns <> None -> forall i p d, ~ running ns i p d;
  Xd : forall i j p d q e, running ns i p d -> running ns j q e -> i = j;
  EF : efacts ns;
  II : holds ns -> r_get gk r = Some n
}.

Definition Inv (s : state) : Prop := forall n, ninv n (sreg s) (nodes s n).

(* ---------------------------------------------------------------- small facts *)

Lemma nth_error_set_nth_same : forall A (l : list A) i x y, nth_error l i = Some y -> nth_error (set_nth i x l) i = Some x.
Proof. induction l; destruct i; simpl; intros; try discriminate; auto. eapply IHl; eauto. Qed.

Lemma nth_error_set_nth_other : forall A (l : list A) i j x, i <> j -> nth_error (set_nth i x l) j = nth_error l j.
Proof. induction l; destruct i; destruct j; simpl; intros; auto; try congruence. Qed.

Lemma quiet_no_running : forall ns, quiet_d ns = true -> forall i p d, ~ running ns i p d.
Proof.
  unfold quiet_d, running. intros ns H i p d (A & B). rewrite forallb_forall in H.
  apply nth_error_In in A. apply H in A. simpl in A. congruence.
Qed.

Lemma not_running_quiet : forall ns, (forall i p d, ~ running ns i p d) -> quiet_d ns = true.
Proof.
  unfold quiet_d. intros ns H. apply forallb_forall. intros (p, d) I. simpl.
  destruct (is_done d) eqn:E; auto. apply In_nth_error in I. destruct I as (i & I).
  exfalso. apply (H i p d). split; auto.
Qed.

Lemma no_running0 : forall i p d, ~ running nstate0 i p d.
Proof. intros i p d (A & _). destruct i; discriminate. Qed.

Lemma inv0 : Inv state0.
Proof.
  intros n. simpl. constructor; unfold flag, live, holds, efacts, noflag, tfacts; simpl; intros;
    try discriminate; auto; try (exfalso; eapply no_running0; eauto; fail).
  destruct H as [(p & A)|[(pc & A & _)|(i & p & d & A & _)]]; try discriminate.
  exfalso; eapply no_running0; eauto.
Qed.

(* the effect of a step of node n on the registry: unchanged, or the record was absent / named n *)
Definition reg_frame (n : nat) (r r' : reg nat) : Prop :=
  r_get gk r' = r_get gk r \/ r_get gk r = Some n \/ r_get gk r = None.

Lemma other_node_ok : forall n m r r' ns, n <> m -> reg_frame n r r' -> ninv m r ns -> ninv m r' ns.
Proof.
  intros n m r r' ns Hne F [p1 p2 p3 p4 td tl xf xd ef ii]. constructor; auto.
  intros H. specialize (ii H). destruct F as [F|[F|F]]; congruence.
Qed.

(* ---------------------------------------------------------------- list facts about running deactivations *)

Lemma running_set_nth : forall ns ns' i p d d' j q e,
  nth_error (deacts ns) i = Some (p, d) ->
  deacts ns' = set_nth i (p, d') (deacts ns) ->
  running ns' j q e ->
  (j = i /\ q = p /\ e = d') \/ (j <> i /\ running ns j q e).
Proof.
  intros ns ns' i p d d' j q e H E (A & B). rewrite E in A.
  destruct (Nat.eq_dec j i) as [->|Hne].
  - rewrite (nth_error_set_nth_same _ _ _ _ _ H) in A. inversion A; subst. left; auto.
  - rewrite nth_error_set_nth_other in A by auto. right; split; auto. split; auto.
Qed.

Lemma running_set_nth_self : forall ns ns' i p d d',
  nth_error (deacts ns) i = Some (p, d) ->
  deacts ns' = set_nth i (p, d') (deacts ns) ->
  is_done d' = false -> running ns' i p d'.
Proof.
  intros ns ns' i p d d' H E D. split; auto. rewrite E. eapply nth_error_set_nth_same; eauto.
Qed.

Lemma running_app : forall ns ns' x j q e,
  deacts ns' = deacts ns ++ [x] -> running ns' j q e ->
  running ns j q e \/ (j = length (deacts ns) /\ x = (q, e)).
Proof.
  intros ns ns' x j q e E (A & B). rewrite E in A.
  destruct (lt_dec j (length (deacts ns))) as [L|L].
  - rewrite nth_error_app1 in A by auto. left; split; auto.
  - rewrite nth_error_app2 in A by lia. right.
    destruct (j - length (deacts ns)) as [|k] eqn:K; simpl in A.
    + inversion A; subst. split; auto. lia.
    + destruct k; discriminate.
Qed.

Lemma running_app_self : forall ns ns' q e,
  deacts ns' = deacts ns ++ [(q, e)] -> is_done e = false -> running ns' (length (deacts ns)) q e.
Proof.
  intros ns ns' q e E D. split; auto. rewrite E. rewrite nth_error_app2 by lia.
  rewrite Nat.sub_diag. reflexivity.
Qed.

Lemma running_same : forall ns ns' j q e, deacts ns' = deacts ns -> running ns' j q e -> running ns j q e.
Proof. unfold running; intros ns ns' j q e E H; rewrite E in H; auto. Qed.

(* ---------------------------------------------------------------- per-label preservation (node-local) *)

Ltac dinv H := destruct H as [hP1 hP2 hP3 hP4 hTD hTL hXf hXd hEF hII].
Ltac unf := unfold efacts, tfacts, noflag, flag, live in *; simpl in *.

Lemma start_ninv : forall n r ns,
  ninv n r ns -> flight ns = None -> quiet_d ns = true ->
  ninv n r (set_flight ns (Some LLookup)).
Proof.
  intros n r ns H F Q. dinv H. pose proof (quiet_no_running _ Q) as NR.
  constructor; intros; unf; auto.
  - destruct (hP3 _ H) as [A|[(c & A)|[A|(c & d & A)]]]; auto; congruence.
  - destruct (hP4 _ H) as [A|[A|(c & d & A)]]; auto; congruence.
  - apply (hTD i). eapply running_same; eauto.
  - discriminate.
  - intros R. eapply NR. eapply running_same; [|exact R]. reflexivity.
  - eapply hXd; eapply running_same; eauto.
  - apply hII. destruct H as [A|[(pc & A & B)|(i & p & d & A & B)]]; [left; auto| |].
    + simpl in A. inversion A; subst; discriminate.
    + right; right. exists i, p, d. split; auto.
Qed.
