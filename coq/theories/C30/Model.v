(* C30 — executable model of the grain activation protocol of actor/grain_engine.go and
   grainPID.deactivate (actor/grain_pid.go), over the shared registry M-REGISTRY.

   One grain identity (registry key gk), any number of nodes (nat). Per node:
     pf/nxt   the grainPID objects created so far: p_flag = pid.activated, p_live = "OnActivate has
              succeeded and OnDeactivate has not been entered" (what an instrumented grain observes)
     gmap     the entry of the identity in the node's local `grains` map
     flight   the single-flight leader of runGrainActivation (x.grainActivation.Do): at most one per
              node; later callers join it and share its result, so they take no step of their own
     deacts   deactivations running OFF the flight (passivationTry on the manager goroutine, pill
              handlers on the grain's turn): grainPID.deactivate is not serialized with the flight
   Every line of the Go code between two shared-memory/registry operations is one step; `ok=false`
   injects a failure at the operation about to be executed (registry error, OnActivate/OnDeactivate error).

   Leader program (ensureGrainProcess slow path):
     LLookup    grains.Get: found&active -> done | found&inactive -> reuse pid | absent -> new pid
     LExists    getGrainOwner: GrainExists           LGet    getGrainOwner: GetGrain
     LClaim     tryClaimGrain: PutGrainIfAbsent      LReget  tryClaimGrain: GetGrain after ErrGrainAlreadyExists
                                                             (NotFound => (false,nil,nil): the caller goes on WITHOUT a claim)
     LActivate  pid.activate (OnActivate; activated=true)    LUnclaim RemoveGrain after a failed activation with a claim
     LSetMap    finalize: grains.Set             LPut    finalize: PutGrain (plain, overwriting put)
     LRb        finalize rollback: process.deactivate inline; LRbDelete/LRbRemove when that fails
   deactivate program: DHook OnDeactivate | DDelete grains.Delete(key) | DRemove RemoveGrain | DClear activated=false *)
From Coq Require Import List Arith Bool.
From GV Require Import C30.Registry.
Import ListNotations.

Definition gk : nat := 0.

Record pidst := mkPid { p_flag : bool; p_live : bool }.

Inductive dpc := DHook | DDelete | DRemove | DClear (err : bool) | DDone (err : bool).

Inductive lpc :=
| LLookup
| LExists (p : nat) | LGet (p : nat) | LClaim (p : nat) | LReget (p : nat)
| LActivate (p : nat) (claimed : bool)
| LUnclaim
| LSetMap (p : nat) (claimed : bool)
| LPut (p : nat) (claimed : bool)
| LRb (p : nat) (claimed : bool) (d : dpc)
| LRbDelete (claimed : bool)
| LRbRemove.

Inductive lres := ROk | RMismatch | RErr.

Record nstate := mkN {
  pf : nat -> pidst;
  nxt : nat;
  gmap : option nat;
  flight : option lpc;
  lastres : option lres;
  deacts : list (nat * dpc)
}.

Record state := mkS { sreg : reg nat; nodes : nat -> nstate }.

Definition nstate0 : nstate := mkN (fun _ => mkPid false false) 0 None None None [].
Definition state0 : state := mkS r_empty (fun _ => nstate0).

Definition set_pid (ns : nstate) (p : nat) (v : pidst) : nstate :=
  mkN (fun q => if Nat.eqb q p then v else pf ns q) (nxt ns) (gmap ns) (flight ns) (lastres ns) (deacts ns).
Definition set_gmap (ns : nstate) (g : option nat) : nstate :=
  mkN (pf ns) (nxt ns) g (flight ns) (lastres ns) (deacts ns).
Definition set_flight (ns : nstate) (f : option lpc) : nstate :=
  mkN (pf ns) (nxt ns) (gmap ns) f (lastres ns) (deacts ns).
Definition set_done (ns : nstate) (r : lres) : nstate :=
  mkN (pf ns) (nxt ns) (gmap ns) None (Some r) (deacts ns).
Definition set_deacts (ns : nstate) (d : list (nat * dpc)) : nstate :=
  mkN (pf ns) (nxt ns) (gmap ns) (flight ns) (lastres ns) d.
Definition alloc (ns : nstate) : nstate :=
  mkN (fun q => if Nat.eqb q (nxt ns) then mkPid false false else pf ns q) (S (nxt ns)) (gmap ns) (flight ns) (lastres ns) (deacts ns).

Definition upd (s : state) (n : nat) (r : reg nat) (ns : nstate) : state :=
  mkS r (fun m => if Nat.eqb m n then ns else nodes s m).

(* ---- grainPID.deactivate, one step *)
Definition dstep (p : nat) (d : dpc) (ok : bool) (r : reg nat) (ns : nstate) : reg nat * nstate * dpc :=
  match d with
  | DHook => (r, set_pid ns p (mkPid (p_flag (pf ns p)) false), if ok then DDelete else DClear true)
  | DDelete => (r, set_gmap ns None, DRemove)
  | DRemove => if ok then (r_remove gk r, ns, DClear false) else (r, ns, DClear true)
  | DClear e => (r, set_pid ns p (mkPid false (p_live (pf ns p))), DDone e)
  | DDone e => (r, ns, DDone e)
  end.

Definition is_done (d : dpc) : bool := match d with DDone _ => true | _ => false end.

(* ---- the single-flight leader, one step; inl = next pc, inr = result returned to all callers *)
(* fx = true models the proposed repair of tryClaimGrain (fixes/C30-claim-retry.diff): when the owner record has vanished
   after a lost claim the claim is attempted again instead of going on without one *)
Definition lstep (fx : bool) (me : nat) (pc : lpc) (ok : bool) (r : reg nat) (ns : nstate) : reg nat * nstate * (lpc + lres) :=
  match pc with
  | LLookup =>
      match gmap ns with
      | Some p => if p_flag (pf ns p) then (r, ns, inr ROk) else (r, ns, inl (LExists p))
      | None => (r, alloc ns, inl (LExists (nxt ns)))
      end
  | LExists p =>
      if negb ok then (r, ns, inr RErr)
      else if r_exists gk r then (r, ns, inl (LGet p)) else (r, ns, inl (LClaim p))
  | LGet p =>
      if negb ok then (r, ns, inr RErr)
      else match r_get gk r with
           | None => (r, ns, inl (LClaim p))
           | Some o => if Nat.eqb o me then (r, ns, inl (LActivate p false)) else (r, ns, inr RMismatch)
           end
  | LClaim p =>
      if negb ok then (r, ns, inr RErr)
      else let '(r', won) := r_put_if_absent gk me r in
           if won then (r', ns, inl (LActivate p true)) else (r, ns, inl (LReget p))
  | LReget p =>
      if negb ok then (r, ns, inr RErr)
      else match r_get gk r with
           | None => if fx then (r, ns, inl (LClaim p))   (* repaired: claim again *)
                     else (r, ns, inl (LActivate p false))   (* claim lost, then the owner record is gone: no claim, activates anyway *)
           | Some o => if Nat.eqb o me then (r, ns, inl (LActivate p false)) else (r, ns, inr RMismatch)
           end
  | LActivate p c =>
      if ok then (r, set_pid ns p (mkPid true true), inl (LSetMap p c))
      else (r, ns, if c then inl LUnclaim else inr RErr)
  | LUnclaim => ((if ok then r_remove gk r else r), ns, inr RErr)
  | LSetMap p c => (r, set_gmap ns (Some p), inl (LPut p c))
  | LPut p c => if ok then (r_put gk me r, ns, inr ROk) else (r, ns, inl (LRb p c DHook))
  | LRb p c d =>
      let '(r', ns', d') := dstep p d ok r ns in
      match d' with
      | DDone e => if e then (r', ns', inl (LRbDelete c)) else (r', ns', inr RErr)
      | _ => (r', ns', inl (LRb p c d'))
      end
  | LRbDelete c => (r, set_gmap ns None, if c then inl LRbRemove else inr RErr)
  | LRbRemove => ((if ok then r_remove gk r else r), ns, inr RErr)
  end.

Inductive label :=
| Start (n : nat)                       (* a caller becomes the single-flight leader on node n *)
| Lead (n : nat) (ok : bool)            (* the leader of n executes its next operation *)
| DeactStart (n : nat) (p : nat)        (* passivation / pill: deactivate(pid p) begins (gate: pid.isActive()) *)
| Deact (n : nat) (i : nat) (ok : bool) (* the i-th deactivation of node n executes its next operation *).

Fixpoint set_nth {A} (i : nat) (x : A) (l : list A) : list A :=
  match l, i with
  | [], _ => []
  | _ :: t, 0 => x :: t
  | h :: t, S j => h :: set_nth j x t
  end.

Definition step (fx : bool) (s : state) (l : label) : option state :=
  match l with
  | Start n =>
      let ns := nodes s n in
      match flight ns with
      | None => Some (upd s n (sreg s) (set_flight ns (Some LLookup)))
      | Some _ => None
      end
  | Lead n ok =>
      let ns := nodes s n in
      match flight ns with
      | None => None
      | Some pc =>
          let '(r', ns', nx) := lstep fx n pc ok (sreg s) ns in
          Some (upd s n r' (match nx with inl pc' => set_flight ns' (Some pc') | inr res => set_done ns' res end))
      end
  | DeactStart n p =>
      let ns := nodes s n in
      if p_flag (pf ns p) then Some (upd s n (sreg s) (set_deacts ns (deacts ns ++ [(p, DHook)]))) else None
  | Deact n i ok =>
      let ns := nodes s n in
      match nth_error (deacts ns) i with
      | Some (p, d) =>
          if is_done d then None
          else let '(r', ns', d') := dstep p d ok (sreg s) ns in
               Some (upd s n r' (set_deacts ns' (set_nth i (p, d') (deacts ns'))))
      | None => None
      end
  end.

Fixpoint run (fx : bool) (s : state) (ls : list label) : option state :=
  match ls with
  | [] => Some s
  | l :: t => match step fx s l with Some s' => run fx s' t | None => None end
  end.

(* ---- what the property talks about *)
Definition is_live (s : state) (n p : nat) : Prop := p_live (pf (nodes s n) p) = true.

(* at most one node holds an active instance (and that node holds one instance) *)
Definition at_most_one_active (s : state) : Prop :=
  forall n m p q, is_live s n p -> is_live s m q -> n = m /\ p = q.

(* the registry names the node that holds the instance *)
Definition registry_names_holder (s : state) : Prop :=
  forall n p, is_live s n p -> r_get gk (sreg s) = Some n.

Definition quiescent (s : state) : Prop :=
  forall n, flight (nodes s n) = None /\ forallb (fun x => is_done (snd x)) (deacts (nodes s n)) = true.

(* executable versions over the pids allocated on the first nn nodes *)
Definition live_pids (ns : nstate) : list nat := filter (fun p => p_live (pf ns p)) (seq 0 (nxt ns)).
Definition live_nodes (nn : nat) (s : state) : list (nat * nat) :=
  flat_map (fun n => map (fun p => (n, p)) (live_pids (nodes s n))) (seq 0 nn).

(* ---- the guard of C30_partial: the two schedule shapes on which the protocol is unsound *)
Definition quiet_d (ns : nstate) : bool := forallb (fun x => is_done (snd x)) (deacts ns).

(* a leader that lost the claim finds the owner record gone and continues without a claim *)
Definition claimless (s : state) (l : label) : bool :=
  match l with
  | Lead n true =>
      match flight (nodes s n) with
      | Some (LReget _) => match r_get gk (sreg s) with None => true | Some _ => false end
      | _ => false
      end
  | _ => false
  end.

(* a deactivation runs concurrently with the node's own activation flight (or with another deactivation) *)
Definition overlap (s : state) (l : label) : bool :=
  match l with
  | Start n => negb (quiet_d (nodes s n))
  | DeactStart n _ => negb (quiet_d (nodes s n)) || match flight (nodes s n) with Some _ => true | None => false end
  | _ => false
  end.

Definition guard (fx : bool) (s : state) (l : label) : bool := (fx || negb (claimless s l)) && negb (overlap s l).

Fixpoint run_g (fx : bool) (s : state) (ls : list label) : option state :=
  match ls with
  | [] => Some s
  | l :: t => if guard fx s l then match step fx s l with Some s' => run_g fx s' t | None => None end else None
  end.

(* ================================================================== conformance interface
   The harness sees the real engine only at its scheduling points (registry operations, OnActivate,
   OnDeactivate): one harness step releases a thread, which then runs up to its next such point. *)

Definition hook_d (d : dpc) : bool := match d with DHook | DRemove => true | _ => false end.
Definition hook_l (pc : lpc) : bool :=
  match pc with
  | LExists _ | LGet _ | LClaim _ | LReget _ | LActivate _ _ | LUnclaim | LPut _ _ | LRbRemove => true
  | LRb _ _ d => hook_d d
  | _ => false
  end.

Fixpoint settle_l (fx : bool) (fuel : nat) (n : nat) (s : state) : state :=
  match fuel with
  | 0 => s
  | S f =>
      match flight (nodes s n) with
      | Some pc => if hook_l pc then s else match step fx s (Lead n true) with Some s' => settle_l fx f n s' | None => s end
      | None => s
      end
  end.

Fixpoint settle_d (fx : bool) (fuel : nat) (n i : nat) (s : state) : state :=
  match fuel with
  | 0 => s
  | S f =>
      match nth_error (deacts (nodes s n)) i with
      | Some (_, d) => if hook_d d || is_done d then s
                       else match step fx s (Deact n i true) with Some s' => settle_d fx f n i s' | None => s end
      | None => s
      end
  end.

Inductive hlabel :=
| HStart (n : nat) | HLead (n : nat) (ok : bool)
| HDStartMap (n : nat) | HDStartThr (n i : nat)
| HDeact (n i : nat) (ok : bool).

(* the micro labels a harness step stands for begin with this one *)
Definition hfirst (s : state) (h : hlabel) : option label :=
  match h with
  | HStart n => Some (Start n)
  | HLead n ok => Some (Lead n ok)
  | HDStartMap n => match gmap (nodes s n) with Some p => Some (DeactStart n p) | None => None end
  | HDStartThr n i => match nth_error (deacts (nodes s n)) i with Some (p, _) => Some (DeactStart n p) | None => None end
  | HDeact n i ok => Some (Deact n i ok)
  end.

Definition hstep (fx : bool) (s : state) (h : hlabel) : option state :=
  match hfirst s h with
  | None => None
  | Some l =>
      match step fx s l with
      | None => None
      | Some s' =>
          Some (match h with
                | HStart n | HLead n _ => settle_l fx 8 n s'
                | HDeact n i _ => settle_d fx 8 n i s'
                | _ => s'
                end)
      end
  end.

Definition code_d (d : dpc) : nat :=
  match d with DHook => 7 | DRemove => 5 | DDone false => 10 | DDone true => 11 | _ => 99 end.
Definition code_l (pc : lpc) : nat :=
  match pc with
  | LExists _ => 1 | LGet _ => 2 | LClaim _ => 3 | LReget _ => 2 | LActivate _ _ => 4
  | LUnclaim => 5 | LPut _ _ => 6 | LRbRemove => 5
  | LRb _ _ d => code_d d
  | _ => 99
  end.
Definition b2n (b : bool) : nat := if b then 1 else 0.

Definition observe_node (ns : nstate) : list nat :=
  [ match gmap ns with None => 0 | Some p => if p_flag (pf ns p) then 2 else 1 end;
    match gmap ns with None => 0 | Some p => b2n (p_live (pf ns p)) end;
    length (live_pids ns);
    match flight ns with None => 0 | Some pc => code_l pc end;
    match lastres ns with None => 0 | Some ROk => 1 | Some RMismatch => 2 | Some RErr => 3 end;
    length (deacts ns) ]
  ++ flat_map (fun x => [code_d (snd x); b2n (p_flag (pf ns (fst x)))]) (deacts ns).

Definition observe (nn : nat) (s : state) : list nat :=
  (match r_get gk (sreg s) with None => 0 | Some o => S o end)
  :: flat_map (fun n => observe_node (nodes s n)) (seq 0 nn).

Fixpoint list_eqb (a b : list nat) : bool :=
  match a, b with
  | [], [] => true
  | x :: a', y :: b' => Nat.eqb x y && list_eqb a' b'
  | _, _ => false
  end.

(* which guard clause the harness step breaks (all its micro steps after the first are local) *)
Definition hclaimless (s : state) (h : hlabel) : bool :=
  match hfirst s h with Some l => claimless s l | None => false end.
Definition hoverlap (s : state) (h : hlabel) : bool :=
  match hfirst s h with Some l => overlap s l | None => false end.

(* replay a harness trace: (index of first disagreement or None, number of claim-less steps, number of
   overlapping starts, max number of live instances seen, first quiescent step at which a live instance
   is not named by the registry) *)
Definition quiescent_b (nn : nat) (s : state) : bool :=
  forallb (fun n => match flight (nodes s n) with None => true | Some _ => false end && quiet_d (nodes s n)) (seq 0 nn).
Definition unnamed_holder_b (nn : nat) (s : state) : bool :=
  existsb (fun np => match r_get gk (sreg s) with Some o => negb (Nat.eqb o (fst np)) | None => true end) (live_nodes nn s).

Fixpoint conform (fx : bool) (nn : nat) (s : state) (tr : list (hlabel * list nat)) (i : nat) (nc no mx : nat) (uq : option nat)
  : option nat * nat * nat * nat * option nat :=
  match tr with
  | [] => (None, nc, no, mx, uq)
  | (h, o) :: t =>
      let nc' := nc + b2n (hclaimless s h) in
      let no' := no + b2n (hoverlap s h) in
      match hstep fx s h with
      | None => (Some i, nc', no', mx, uq)
      | Some s' =>
          let mx' := Nat.max mx (length (live_nodes nn s')) in
          let uq' := match uq with Some _ => uq | None => if quiescent_b nn s' && unnamed_holder_b nn s' then Some i else None end in
          if list_eqb (observe nn s') o then conform fx nn s' t (S i) nc' no' mx' uq' else (Some i, nc', no', mx', uq')
      end
  end.
