(* C30 — the partial theorem: every guarded execution keeps the invariant, hence at most one live
   instance and the registry names its node. *)
From Coq Require Import List Arith Bool Lia.
From GV Require Import C30.Registry C30.Model C30.Proofs C30.Inv C30.InvD C30.InvL.
Import ListNotations.

Lemma upd_same : forall s n r ns, nodes (upd s n r ns) n = ns.
Proof. intros; simpl. rewrite Nat.eqb_refl; auto. Qed.
Lemma upd_other : forall s n r ns m, m <> n -> nodes (upd s n r ns) m = nodes s m.
Proof. intros; simpl. destruct (Nat.eqb_spec m n); [contradiction|auto]. Qed.

Lemma inv_upd : forall s n r' ns',
  Inv s -> ninv n r' ns' -> reg_frame n (sreg s) r' -> Inv (upd s n r' ns').
Proof.
  intros s n r' ns' I N F m. destruct (Nat.eq_dec m n) as [->|Hne].
  - rewrite upd_same. exact N.
  - rewrite upd_other by auto. simpl sreg. eapply other_node_ok; eauto.
Qed.

Lemma frame_refl : forall n r, reg_frame n r r.
Proof. intros; left; auto. Qed.

Lemma inv_step : forall fx s l s', Inv s -> guard fx s l = true -> step fx s l = Some s' -> Inv s'.
Proof.
  intros fx s l s' I G S. unfold guard in G. apply andb_true_iff in G. destruct G as (GC & GO).
  apply negb_true_iff in GO.
  destruct l as [n|n ok|n p|n i ok]; simpl in S.
  - (* Start *)
    destruct (flight (nodes s n)) eqn:F; [discriminate|]. inversion S; subst; clear S.
    simpl in GO. apply negb_false_iff in GO.
    apply inv_upd; auto using frame_refl. apply start_ninv; auto.
  - (* Lead *)
    destruct (flight (nodes s n)) as [pc|] eqn:F; [|discriminate].
    destruct (lstep fx n pc ok (sreg s) (nodes s n)) as [[r' ns1] nx] eqn:LS. inversion S; subst; clear S.
    assert (CG : fx = true \/ claimless_pc pc ok (sreg s) = false).
    { destruct fx; [left; auto|right]. simpl in GC. apply negb_true_iff in GC.
      destruct pc; simpl; auto. destruct ok; simpl; auto. simpl in GC. rewrite F in GC. exact GC. }
    destruct (lead_ninv _ _ _ _ _ _ _ _ _ (I n) F CG LS) as (A & B).
    apply inv_upd; auto.
  - (* DeactStart *)
    destruct (p_flag (pf (nodes s n) p)) eqn:FP; [|discriminate]. inversion S; subst; clear S.
    simpl in GO. apply orb_false_iff in GO. destruct GO as (Q & FL). apply negb_false_iff in Q.
    destruct (flight (nodes s n)) eqn:F; [discriminate|].
    apply inv_upd; auto using frame_refl. apply dstart_ninv; auto.
  - (* Deact *)
    destruct (nth_error (deacts (nodes s n)) i) as [[p d]|] eqn:N; [|discriminate].
    destruct (is_done d) eqn:D; [discriminate|].
    destruct (dstep p d ok (sreg s) (nodes s n)) as [[r' ns1] d'] eqn:DS. inversion S; subst; clear S.
    destruct (deact_ninv _ _ _ _ _ _ _ _ _ _ (I n) N D DS) as (A & B).
    apply inv_upd; auto.
Qed.

Lemma inv_run_g : forall fx ls s s', Inv s -> run_g fx s ls = Some s' -> Inv s'.
Proof.
  induction ls as [|l t IH]; simpl; intros s s' I R.
  - inversion R; subst; auto.
  - destruct (guard fx s l) eqn:G; [|discriminate]. destruct (step fx s l) as [s1|] eqn:S; [|discriminate].
    eapply IH; [|exact R]. eapply inv_step; eauto.
Qed.

Lemma inv_safe : forall s, Inv s -> at_most_one_active s /\ registry_names_holder s.
Proof.
  intros s I.
  assert (NH : registry_names_holder s).
  { intros n p L. destruct (I n) as [_ _ _ _ _ _ _ _ _ ii]. apply ii. left. exists p. exact L. }
  split; auto.
  intros n m p q L1 L2. pose proof (NH _ _ L1) as A. pose proof (NH _ _ L2) as B.
  assert (n = m) by congruence. subst m. split; auto.
  destruct (I n) as [p1 p2 _ _ _ _ _ _ _ _]. apply p2; apply p1; assumption.
Qed.

Theorem partial_safe : forall fx ls s,
  run_g fx state0 ls = Some s -> at_most_one_active s /\ registry_names_holder s.
Proof. intros fx ls s R. apply inv_safe. eapply inv_run_g; [apply inv0|exact R]. Qed.

(* the guard is satisfiable by non-trivial executions: a full activation on node 0, a mismatch on node 1,
   a deactivation and a re-activation elsewhere, with failures injected *)
Definition guarded_example : list label :=
  [ Start 0; Lead 0 true; Lead 0 true; Lead 0 true; Lead 0 true; Lead 0 true; Lead 0 true;
    Start 1; Lead 1 true; Lead 1 true; Lead 1 true;
    DeactStart 0 0; Deact 0 0 true; Deact 0 0 true; Deact 0 0 true; Deact 0 0 true;
    Start 2; Lead 2 true; Lead 2 true; Lead 2 true; Lead 2 false; Lead 2 true;
    Start 1; Lead 1 true; Lead 1 true; Lead 1 true; Lead 1 true; Lead 1 true; Lead 1 false; Lead 1 false; Lead 1 true; Lead 1 true; Lead 1 true;
    Start 2; Lead 2 true; Lead 2 true; Lead 2 true; Lead 2 true; Lead 2 true; Lead 2 true ].

Example guarded_example_runs :
  match run_g false state0 guarded_example with
  | Some s => (live_nodes 3 s, r_get gk (sreg s), lastres (nodes s 1), lastres (nodes s 2))
  | None => ([(9, 9)], None, None, None)
  end = ([(2, 1)], Some 2, Some RErr, Some ROk).
Proof. vm_compute. reflexivity. Qed.

Lemma partial_nonvacuous :
  exists s, run_g false state0 guarded_example = Some s /\ is_live s 2 1 /\ r_get gk (sreg s) = Some 2.
Proof.
  destruct (run_g false state0 guarded_example) as [s|] eqn:E; [|vm_compute in E; discriminate].
  exists s. split; auto. generalize guarded_example_runs. rewrite E. intros X. inversion X as [[L R1 R2 R3]].
  split; auto. apply (in_live_nodes 3). rewrite L. simpl; auto.
Qed.

(* a guarded run equals the unguarded run (the guard only filters) *)
Lemma run_g_run : forall fx ls s s', run_g fx s ls = Some s' -> run fx s ls = Some s'.
Proof.
  induction ls as [|l t IH]; simpl; intros s s' R; auto.
  destruct (guard fx s l); [|discriminate]. destruct (step fx s l); [|discriminate]. auto.
Qed.

(* with the repair of tryClaimGrain the guard is only the overlap clause *)
Lemma guard_repaired : forall s l, guard true s l = negb (overlap s l).
Proof. intros; unfold guard; simpl; reflexivity. Qed.

(* ... and the claim-less witness schedule is no longer a violation: the re-read that finds the record gone leads back
   to the claim, which node 1 wins; node 2 then finds node 1's record *)
Lemma witness_claimless_repaired :
  match run true state0 (firstn 11 witness_claimless) with
  | Some s => flight (nodes s 1)
  | None => None
  end = Some (LClaim 0).
Proof. vm_compute. reflexivity. Qed.
