(* C30 — invariant preservation for the leader label (Lead): one case per program point of the flight. *)
From Coq Require Import List Arith Bool Lia.
From GV Require Import C30.Registry C30.Model C30.Inv.
Import ListNotations.

Definition fin (ns : nstate) (nx : lpc + lres) : nstate :=
  match nx with inl pc' => set_flight ns (Some pc') | inr res => set_done ns res end.

Definition simple (f : option lpc) : Prop :=
  match f with Some (LSetMap _ _) | Some (LPut _ _) | Some (LRb _ _ _) => False | _ => True end.

(* a node without any activated pid and without running deactivation satisfies the invariant as soon
   as its flight, if past the ownership decision, is backed by the registry *)
Lemma noflag_ninv : forall n r ns,
  noflag ns -> (forall q, live ns q = false) -> (forall i p d, ~ running ns i p d) ->
  simple (flight ns) ->
  ((exists pc, flight ns = Some pc /\ owned pc = true) -> r_get gk r = Some n) ->
  ninv n r ns.
Proof.
  intros n r ns NF NL NR SI OW. unfold noflag in NF.
  constructor; intros.
  - rewrite NL in H; discriminate.
  - rewrite NF in H; discriminate.
  - rewrite NF in H; discriminate.
  - rewrite NF in H; discriminate.
  - exfalso; eapply NR; eauto.
  - rewrite H in SI. contradiction.
  - intros R; eapply NR; eauto.
  - exfalso; eapply NR; eauto.
  - unfold efacts. destruct (flight ns) as [[]|]; simpl in SI; auto; contradiction.
  - destruct H as [(q & A)|[A|(i & p & d & A & _)]]; auto.
    + rewrite NL in A; discriminate.
    + exfalso; eapply NR; eauto.
Qed.

Lemma fin_running : forall ns nx j q e, running (fin ns nx) j q e -> running ns j q e.
Proof. intros ns nx j q e H. destruct nx; exact H. Qed.
Lemma fin_pf : forall ns nx, pf (fin ns nx) = pf ns.
Proof. destruct nx; reflexivity. Qed.
Lemma fin_gmap : forall ns nx, gmap (fin ns nx) = gmap ns.
Proof. destruct nx; reflexivity. Qed.
Lemma fin_flight : forall ns nx, flight (fin ns nx) = match nx with inl pc => Some pc | inr _ => None end.
Proof. destruct nx; reflexivity. Qed.

Definition claimless_pc (pc : lpc) (ok : bool) (r : reg nat) : bool :=
  match pc with
  | LReget _ => ok && match r_get gk r with None => true | Some _ => false end
  | _ => false
  end.

Ltac nf_goal NF NL NR :=
  apply noflag_ninv;
  [ unfold noflag, flag; simpl; auto
  | unfold live; simpl; auto
  | intros ? ? ? R; eapply NR; exact R
  | simpl; auto
  | simpl; first [ intros _; solve [assumption | congruence]
                 | let X := fresh in let Y := fresh in intros (? & X & Y); inversion X; subst; simpl in Y; try discriminate; auto ] ].

Ltac invS S x y z := let a := fresh in let b := fresh in let c := fresh in injection S as a b c; subst x y z.

Lemma lead_ninv : forall fx n r ns pc ok r' ns1 nx,
  ninv n r ns -> flight ns = Some pc -> fx = true \/ claimless_pc pc ok r = false ->
  lstep fx n pc ok r ns = (r', ns1, nx) ->
  ninv n r' (fin ns1 nx) /\ reg_frame n r r'.
Proof.
  intros fx n r ns pc ok r' ns1 nx H F G S.
  pose proof H as H0. dinv H.
  assert (NR : forall i p d, ~ running ns i p d) by (apply hXf; congruence).
  assert (NLF : noflag ns -> forall q, p_live (pf ns q) = false).
  { intros NF q. destruct (p_live (pf ns q)) eqn:E; auto. apply hP1 in E. rewrite (NF q) in E. discriminate. }
  unfold efacts in hEF. rewrite F in hEF.
  destruct pc; simpl in S.
  - (* LLookup *)
    destruct (gmap ns) as [p|] eqn:GM.
    + destruct (p_flag (pf ns p)) eqn:FP; invS S r' ns1 nx; (split; [|left; auto]).
      * (* found active: return it *)
        constructor; intros; unfold tfacts, flag, live in *; simpl pf in *; simpl gmap in *; simpl flight in *.
        -- auto.
        -- eauto.
        -- destruct (hP3 _ H) as [A|[(c & A)|[(i & d & A)|(c & d & A)]]]; try congruence; [left; congruence|exfalso; eapply NR; eauto].
        -- destruct (hP4 _ H) as [A|[(i & d & A)|(c & d & A)]]; auto; try congruence. exfalso; eapply NR; eauto.
        -- exfalso; eapply NR; eauto.
        -- congruence.
        -- congruence.
        -- exfalso; eapply NR; eauto.
        -- exact I.
        -- apply hII. destruct H as [(q & A)|[(pc & A & B)|(i & q & e & A & B)]].
           ++ left; exists q; exact A.
           ++ simpl in A; congruence.
           ++ exfalso; eapply NR; eauto.
      * (* found inactive: reuse the pid *)
        assert (NF : noflag ns).
        { intros q. unfold flag. destruct (p_flag (pf ns q)) eqn:E; auto.
          destruct (hP3 _ E) as [A|[(c & A)|[(i & d & A)|(c & d & A)]]]; try congruence. exfalso; eapply NR; eauto. }
        pose proof (NLF NF) as NL. nf_goal NF NL NR.
    + (* absent: allocate a new pid *)
      invS S r' ns1 nx. split; [|left; auto].
      assert (NF : noflag ns).
      { intros q. unfold flag. destruct (p_flag (pf ns q)) eqn:E; auto.
        destruct (hP3 _ E) as [A|[(c & A)|[(i & d & A)|(c & d & A)]]]; try congruence. exfalso; eapply NR; eauto. }
      pose proof (NLF NF) as NL.
      apply noflag_ninv.
      * intros q. unfold flag; simpl. destruct (Nat.eqb q (nxt ns)); auto. apply NF.
      * intros q. unfold live; simpl. destruct (Nat.eqb q (nxt ns)); auto.
      * intros ? ? ? R; eapply NR; exact R.
      * simpl; auto.
      * simpl. intros (? & A & B); inversion A; subst; discriminate.
  - (* LExists *)
    pose proof (NLF hEF) as NL.
    destruct ok; simpl in S; [destruct (r_exists gk r)|]; invS S r' ns1 nx; (split; [|left; auto]); nf_goal hEF NL NR.
  - (* LGet *)
    pose proof (NLF hEF) as NL.
    destruct ok; simpl in S; [destruct (r_get gk r) as [o|] eqn:RG; [destruct (Nat.eqb_spec o n)|]|];
      invS S r' ns1 nx; (split; [|left; auto]); nf_goal hEF NL NR.
  - (* LClaim *)
    pose proof (NLF hEF) as NL.
    destruct ok; simpl in S.
    + destruct (r_put_if_absent gk n r) as [r2 won] eqn:PIA. destruct won; invS S r' ns1 nx.
      * apply r_pia_won in PIA. destruct PIA as (A & B & _).
        split; [|right; right; auto]. nf_goal hEF NL NR.
      * split; [|left; auto]. nf_goal hEF NL NR.
    + invS S r' ns1 nx. split; [|left; auto]. nf_goal hEF NL NR.
  - (* LReget *)
    pose proof (NLF hEF) as NL. simpl in G.
    destruct ok; simpl in S, G.
    + destruct (r_get gk r) as [o|] eqn:RG.
      * destruct (Nat.eqb_spec o n); invS S r' ns1 nx; (split; [|left; auto]); nf_goal hEF NL NR.
      * destruct fx; [|destruct G; discriminate].
        invS S r' ns1 nx. split; [|left; auto]. nf_goal hEF NL NR.
    + invS S r' ns1 nx. split; [|left; auto]. nf_goal hEF NL NR.
  - (* LActivate *)
    pose proof (NLF hEF) as NL.
    assert (NF : forall q, p_flag (pf ns q) = false) by exact hEF.
    assert (OW : r_get gk r = Some n) by (apply hII; right; left; eexists; split; [exact F|reflexivity]).
    destruct ok.
    + invS S r' ns1 nx. split; [|left; auto].
      assert (FE : forall q, p_flag (pf (set_pid ns p (mkPid true true)) q) = true -> q = p).
      { intros q; simpl. destruct (Nat.eqb_spec q p); auto. intros E; rewrite NF in E; discriminate. }
      assert (LE : forall q, p_live (pf (set_pid ns p (mkPid true true)) q) = true -> q = p).
      { intros q; simpl. destruct (Nat.eqb_spec q p); auto. intros E; rewrite NL in E; discriminate. }
      assert (PP : pf (set_pid ns p (mkPid true true)) p = mkPid true true) by (simpl; rewrite Nat.eqb_refl; auto).
      constructor; intros; unfold tfacts, flag, live in *; simpl flight in *; simpl gmap in *;
        change (pf (fin (set_pid ns p (mkPid true true)) (inl (LSetMap p claimed)))) with (pf (set_pid ns p (mkPid true true))) in *.
      * apply LE in H. subst. rewrite PP. auto.
      * apply FE in H. apply FE in H1. congruence.
      * apply FE in H. subst. right; left. eauto.
      * apply FE in H. subst. left. rewrite PP. auto.
      * exfalso; eapply NR; eauto.
      * congruence.
      * intros R; eapply NR; exact R.
      * exfalso; eapply NR; eauto.
      * unfold efacts, flag; simpl. rewrite Nat.eqb_refl. auto.
      * exact OW.
    + destruct claimed; invS S r' ns1 nx; (split; [|left; auto]); nf_goal hEF NL NR.
  - (* LUnclaim *)
    pose proof (NLF hEF) as NL.
    assert (OW : r_get gk r = Some n) by (apply hII; right; left; eexists; split; [exact F|reflexivity]).
    invS S r' ns1 nx. split; [|right; left; auto]. nf_goal hEF NL NR.
  - (* LSetMap *)
    assert (OW : r_get gk r = Some n) by (apply hII; right; left; eexists; split; [exact F|reflexivity]).
    invS S r' ns1 nx. split; [|left; auto].
    constructor; intros; unfold tfacts, flag, live in *; simpl pf in *; simpl gmap in *; simpl flight in *.
    + auto.
    + eauto.
    + left. f_equal. symmetry. apply hP2; auto.
    + destruct (hP4 _ H) as [A|[(i & d & A)|(c & d & A)]]; auto; try congruence. exfalso; eapply NR; eauto.
    + exfalso; eapply NR; eauto.
    + congruence.
    + intros R; eapply NR; exact R.
    + exfalso; eapply NR; eauto.
    + unfold efacts; simpl. exact hEF.
    + exact OW.
  - (* LPut *)
    assert (OW : r_get gk r = Some n) by (apply hII; right; left; eexists; split; [exact F|reflexivity]).
    destruct ok; invS S r' ns1 nx.
    + split; [|right; left; auto].
      constructor; intros; unfold tfacts, flag, live in *; simpl pf in *; simpl gmap in *; simpl flight in *.
      * auto.
      * eauto.
      * destruct (hP3 _ H) as [A|[(c & A)|[(i & d & A)|(c & d & A)]]]; auto; try congruence. exfalso; eapply NR; eauto.
      * destruct (hP4 _ H) as [A|[(i & d & A)|(c & d & A)]]; auto; try congruence. exfalso; eapply NR; eauto.
      * exfalso; eapply NR; eauto.
      * congruence.
      * congruence.
      * exfalso; eapply NR; eauto.
      * exact I.
      * apply r_get_put_same.
    + split; [|left; auto].
      constructor; intros; unfold tfacts, flag, live in *; simpl pf in *; simpl gmap in *; simpl flight in *.
      * auto.
      * eauto.
      * assert (p0 = p) by (apply hP2; auto). subst. right; right; right. eauto.
      * assert (p0 = p) by (apply hP2; auto). subst. right; right. eauto.
      * exfalso; eapply NR; eauto.
      * inversion H; subst. split; [split; [auto|congruence]|reflexivity].
      * intros R; eapply NR; exact R.
      * exfalso; eapply NR; eauto.
      * exact I.
      * exact OW.
  - (* LRb: the rollback runs process.deactivate inline *)
    destruct (hTL _ _ _ F) as ((FP & LP) & ND). unfold flag, live in FP, LP.
    destruct d; simpl in S; try discriminate.
    + (* DHook *)
      assert (OW : r_get gk r = Some n) by (apply hII; right; left; eexists; split; [exact F|reflexivity]).
      assert (E1 : r' = r /\ ns1 = set_pid ns p (mkPid (p_flag (pf ns p)) false)
                   /\ nx = inl (LRb p claimed (if ok then DDelete else DClear true))) by (destruct ok; inversion S; auto).
      destruct E1 as (-> & -> & ->). clear S. split; [|left; auto].
      set (d' := if ok then DDelete else DClear true).
      assert (D' : is_done d' = false /\ d' <> DHook /\ owned (LRb p claimed d') = true) by (subst d'; destruct ok; repeat split; auto; discriminate).
      destruct D' as (D1 & D2 & D3).
      assert (FE : forall q, p_flag (pf (set_pid ns p (mkPid (p_flag (pf ns p)) false)) q) = p_flag (pf ns q)).
      { intros q; simpl. destruct (Nat.eqb_spec q p); subst; auto. }
      assert (LE : forall q, p_live (pf (set_pid ns p (mkPid (p_flag (pf ns p)) false)) q) = true -> q <> p /\ p_live (pf ns q) = true).
      { intros q; simpl. destruct (Nat.eqb_spec q p); subst; simpl; intros; [discriminate|auto]. }
      assert (LEp : p_live (pf (set_pid ns p (mkPid (p_flag (pf ns p)) false)) p) = false) by (simpl; rewrite Nat.eqb_refl; auto).
      constructor; intros; unfold tfacts, flag, live in *; simpl flight in *; simpl gmap in *;
        change (pf (fin (set_pid ns p (mkPid (p_flag (pf ns p)) false)) (inl (LRb p claimed d')))) with (pf (set_pid ns p (mkPid (p_flag (pf ns p)) false))) in *.
      * rewrite FE. apply LE in H. destruct H. auto.
      * rewrite !FE in *. eauto.
      * rewrite FE in H. assert (p0 = p) by (apply hP2; auto). subst. right; right; right. eauto.
      * rewrite FE in H. assert (p0 = p) by (apply hP2; auto). subst. right; right. eauto.
      * exfalso; eapply NR; eauto.
      * inversion H; subst. rewrite FE. split; [split; auto|auto].
      * intros R; eapply NR; exact R.
      * exfalso; eapply NR; eauto.
      * exact I.
      * exact OW.
    + (* DDelete *)
      assert (OW : r_get gk r = Some n) by (apply hII; right; left; eexists; split; [exact F|reflexivity]).
      invS S r' ns1 nx. split; [|left; auto].
      constructor; intros; unfold tfacts, flag, live in *; simpl pf in *; simpl gmap in *; simpl flight in *.
      * auto.
      * eauto.
      * assert (p0 = p) by (apply hP2; auto). subst. right; right; right. eauto.
      * assert (p0 = p) by (apply hP2; auto). subst. right; right. eauto.
      * exfalso; eapply NR; eauto.
      * inversion H; subst. split; [split; [auto|intros _; apply LP; discriminate]|reflexivity].
      * intros R; eapply NR; exact R.
      * exfalso; eapply NR; eauto.
      * exact I.
      * exact OW.
    + (* DRemove *)
      assert (OW : r_get gk r = Some n) by (apply hII; right; left; eexists; split; [exact F|reflexivity]).
      assert (LPf : p_live (pf ns p) = false) by (apply LP; discriminate).
      assert (E1 : r' = (if ok then r_remove gk r else r) /\ ns1 = ns /\ nx = inl (LRb p claimed (DClear (negb ok)))) by (destruct ok; inversion S; auto).
      destruct E1 as (-> & -> & ->). clear S. split; [|right; left; auto].
      constructor; intros; unfold tfacts, flag, live in *; simpl pf in *; simpl gmap in *; simpl flight in *.
      * auto.
      * eauto.
      * assert (p0 = p) by (apply hP2; auto). subst. right; right; right. eauto.
      * assert (p0 = p) by (apply hP2; auto). subst. right; right. eauto.
      * exfalso; eapply NR; eauto.
      * inversion H; subst. split; [split; [auto|auto]|reflexivity].
      * intros R; eapply NR; exact R.
      * exfalso; eapply NR; eauto.
      * exact I.
      * destruct H as [(q & A)|[(pc & A & B)|(i & q & e & A & B)]].
        -- exfalso. assert (A' : p_live (pf ns q) = true) by exact A. assert (q = p) by (apply hP2; auto). subst. congruence.
        -- simpl in A. inversion A; subst. simpl in B. destruct ok; simpl in B; [discriminate|exact OW].
        -- exfalso; eapply NR; eauto.
    + (* DClear *)
      assert (LPf : p_live (pf ns p) = false) by (apply LP; discriminate).
      assert (NF : forall q, p_flag (pf (set_pid ns p (mkPid false (p_live (pf ns p)))) q) = false).
      { intros q; simpl. destruct (Nat.eqb_spec q p); subst; simpl; auto.
        destruct (p_flag (pf ns q)) eqn:E; auto. exfalso. apply n0. apply hP2; auto. }
      assert (NL : forall q, p_live (pf (set_pid ns p (mkPid false (p_live (pf ns p)))) q) = false).
      { intros q; simpl. destruct (Nat.eqb_spec q p); subst; simpl; auto.
        destruct (p_live (pf ns q)) eqn:E; auto. exfalso. apply n0. apply hP2; auto. }
      destruct err; invS S r' ns1 nx; (split; [|left; auto]).
      * assert (OW : r_get gk r = Some n) by (apply hII; right; left; eexists; split; [exact F|reflexivity]).
        apply noflag_ninv; [exact NF|exact NL|intros ? ? ? R; eapply NR; exact R|simpl; auto|intros _; exact OW].
      * apply noflag_ninv; [exact NF|exact NL|intros ? ? ? R; eapply NR; exact R|simpl; auto|].
        simpl. intros (? & A & _); discriminate.
  - (* LRbDelete *)
    pose proof (NLF hEF) as NL.
    assert (OW : r_get gk r = Some n) by (apply hII; right; left; eexists; split; [exact F|reflexivity]).
    destruct claimed; invS S r' ns1 nx; (split; [|left; auto]); nf_goal hEF NL NR.
  - (* LRbRemove *)
    pose proof (NLF hEF) as NL.
    assert (OW : r_get gk r = Some n) by (apply hII; right; left; eexists; split; [exact F|reflexivity]).
    invS S r' ns1 nx. split; [|right; left; auto]. nf_goal hEF NL NR.
Qed.
