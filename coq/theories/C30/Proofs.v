(* C30 — proofs over C30/Model.v.
   1. Refutations (vm_compute witnesses, replayed on the real engine by the harness):
        witness_claimless   3 nodes, ONE injected activation failure: the loser of the claim re-reads the
                            owner record after the winner rolled its claim back, gets NotFound and
                            activates without a claim; a third node then claims properly: two live instances,
                            and the claim-less node's plain put overwrites the rightful owner's record.
        witness_late_remove 2 nodes, NO failure: deactivate() on node 0 has deleted the local entry but not
                            yet removed the registry record; a send on node 0 re-activates (record still names
                            node 0); the late RemoveGrain then deletes the record of the NEW activation: at
                            quiescence a live instance is not named by the registry, and node 1 can claim.
   2. inv_step / C30 partial: for every execution that takes neither a claim-less step nor overlaps a
      deactivation with the same node's flight (guard), at most one instance is live, and whenever an
      instance is live the registry names its node (any number of nodes, any length, any failures). *)
From Coq Require Import List Arith Bool Lia.
From GV Require Import C30.Registry C30.Model.
Import ListNotations.

(* ================================================================== refutation witnesses *)

Definition witness_claimless : list label :=
  [ Start 0; Lead 0 true; Lead 0 true;   (* node 0: lookup (new pid 0), GrainExists = false *)
    Start 1; Lead 1 true; Lead 1 true;   (* node 1: lookup (new pid 0), GrainExists = false *)
    Lead 0 true;                     (* node 0: PutGrainIfAbsent wins *)
    Lead 1 true;                     (* node 1: PutGrainIfAbsent loses (ErrGrainAlreadyExists) *)
    Lead 0 false;                    (* node 0: OnActivate FAILS (the one injected failure) *)
    Lead 0 true;                     (* node 0: RemoveGrain (rollback of its claim) *)
    Lead 1 true;                     (* node 1: GetGrain = NotFound -> (false,nil,nil): goes on without a claim *)
    Start 2; Lead 2 true; Lead 2 true; Lead 2 true;   (* node 2: lookup, exists=false, claim wins *)
    Lead 2 true; Lead 2 true; Lead 2 true;            (* node 2: OnActivate ok, grains.Set, PutGrain *)
    Lead 1 true;                     (* node 1: OnActivate ok: SECOND live instance *)
    Lead 1 true; Lead 1 true ].      (* node 1: grains.Set, PutGrain overwrites node 2's record *)

Definition witness_late_remove : list label :=
  [ Start 0; Lead 0 true; Lead 0 true; Lead 0 true; Lead 0 true; Lead 0 true; Lead 0 true;
                                     (* node 0 activates pid 0 normally: registry names node 0 *)
    DeactStart 0 0; Deact 0 0 true; Deact 0 0 true;   (* passivation: OnDeactivate, grains.Delete ... preempted *)
    Start 0; Lead 0 true; Lead 0 true; Lead 0 true;   (* a send on node 0: new pid 1, exists=true, GetGrain = node 0 (itself) *)
    Lead 0 true; Lead 0 true; Lead 0 true;            (* OnActivate ok, grains.Set, PutGrain *)
    Deact 0 0 true; Deact 0 0 true ]. (* the preempted deactivate resumes: RemoveGrain deletes the NEW record; activated=false *)

Definition witness_late_remove_2 : list label :=
  witness_late_remove ++
  [ Start 1; Lead 1 true; Lead 1 true; Lead 1 true; Lead 1 true; Lead 1 true; Lead 1 true ].

Definition count_fail (ls : list label) : nat :=
  length (filter (fun l => match l with Lead _ false | Deact _ _ false => true | _ => false end) ls).

Definition final_live (nn : nat) (ls : list label) : option (list (nat * nat)) :=
  match run false state0 ls with Some s => Some (live_nodes nn s) | None => None end.

Lemma witness_claimless_eval :
  final_live 3 witness_claimless = Some [(1, 0); (2, 0)] /\ count_fail witness_claimless = 1
  /\ (match run false state0 witness_claimless with Some s => r_get gk (sreg s) | None => None end) = Some 1.
Proof. vm_compute. auto. Qed.

Lemma witness_late_remove_eval :
  final_live 2 witness_late_remove = Some [(0, 1)] /\ count_fail witness_late_remove = 0
  /\ (match run false state0 witness_late_remove with Some s => r_get gk (sreg s) | None => Some 99 end) = None
  /\ final_live 2 witness_late_remove_2 = Some [(0, 1); (1, 0)].
Proof. vm_compute. auto. Qed.

Lemma in_live_nodes : forall nn s n p, In (n, p) (live_nodes nn s) -> is_live s n p.
Proof.
  intros nn s n p H. unfold live_nodes in H. apply in_flat_map in H. destruct H as (n' & _ & H).
  apply in_map_iff in H. destruct H as (p' & E & H). inversion E; subst.
  unfold live_pids in H. apply filter_In in H. destruct H as (_ & H). exact H.
Qed.

Theorem refuted_at_most_one :
  exists ls s, run false state0 ls = Some s /\ count_fail ls = 1 /\ ~ at_most_one_active s.
Proof.
  exists witness_claimless.
  destruct (run false state0 witness_claimless) as [s|] eqn:E; [|vm_compute in E; discriminate].
  exists s. split; auto. split; [vm_compute; auto|].
  intros H.
  assert (L : live_nodes 3 s = [(1, 0); (2, 0)]).
  { generalize witness_claimless_eval. unfold final_live. rewrite E. intros (A & _). inversion A; auto. }
  assert (A : is_live s 1 0) by (apply (in_live_nodes 3); rewrite L; simpl; auto).
  assert (B : is_live s 2 0) by (apply (in_live_nodes 3); rewrite L; simpl; auto).
  destruct (H 1 2 0 0 A B) as (C & _). discriminate.
Qed.

Lemma run_app : forall fx a b s, run fx s (a ++ b) = match run fx s a with Some s' => run fx s' b | None => None end.
Proof. induction a; simpl; intros; auto. destruct (step fx s a); auto. Qed.

Lemma quiescent_dec_sound : forall s nn,
  (forall n, nn <= n -> nodes s n = nstate0) ->
  forallb (fun n => match flight (nodes s n) with None => true | Some _ => false end && quiet_d (nodes s n)) (seq 0 nn) = true ->
  quiescent s.
Proof.
  intros s nn Hz H n. destruct (le_lt_dec nn n) as [L|L].
  - rewrite (Hz n L). simpl. auto.
  - rewrite forallb_forall in H. specialize (H n). rewrite in_seq in H.
    assert (X : 0 <= n < 0 + nn) by lia. apply H in X. apply andb_true_iff in X. destruct X as (A & B).
    destruct (flight (nodes s n)); try discriminate. split; auto.
Qed.

(* no failure at all: at quiescence a live instance exists that the registry does not name *)
Theorem refuted_registry_names_holder :
  exists ls s, run false state0 ls = Some s /\ count_fail ls = 0 /\ quiescent s /\ ~ registry_names_holder s.
Proof.
  exists witness_late_remove.
  destruct (run false state0 witness_late_remove) as [s|] eqn:E; [|vm_compute in E; discriminate].
  exists s. split; auto. split; [vm_compute; auto|].
  generalize witness_late_remove_eval. unfold final_live. rewrite E. intros (A & _ & B & _).
  split.
  - vm_compute in E. inversion E; subst. intros n.
    destruct n as [|n]; simpl; auto.
  - intros H. inversion A as [L].
    assert (X : is_live s 0 1) by (apply (in_live_nodes 2); rewrite L; simpl; auto).
    apply H in X. rewrite B in X. discriminate.
Qed.

(* the same schedule continued by a send on node 1: two live instances with no failure injected *)
Theorem refuted_at_most_one_no_failure :
  exists ls s, run false state0 ls = Some s /\ count_fail ls = 0 /\ ~ at_most_one_active s.
Proof.
  exists witness_late_remove_2.
  destruct (run false state0 witness_late_remove_2) as [s|] eqn:E; [|vm_compute in E; discriminate].
  exists s. split; auto. split; [vm_compute; auto|].
  generalize witness_late_remove_eval. unfold final_live. rewrite E. intros (_ & _ & _ & A). inversion A as [L].
  intros H.
  assert (X : is_live s 0 1) by (apply (in_live_nodes 2); rewrite L; simpl; auto).
  assert (Y : is_live s 1 0) by (apply (in_live_nodes 2); rewrite L; simpl; auto).
  destruct (H 0 1 1 0 X Y) as (C & _). discriminate.
Qed.

(* each witness breaks exactly one clause of the guard *)
Fixpoint guard_profile (s : state) (ls : list label) : nat * nat :=
  match ls with
  | [] => (0, 0)
  | l :: t =>
      let '(a, b) := match step false s l with Some s' => guard_profile s' t | None => (0, 0) end in
      ((if claimless s l then 1 else 0) + a, (if overlap s l then 1 else 0) + b)
  end.

Lemma witness_profiles :
  guard_profile state0 witness_claimless = (1, 0) /\ guard_profile state0 witness_late_remove = (0, 1).
Proof. vm_compute. auto. Qed.
