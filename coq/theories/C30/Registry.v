(* M-REGISTRY — the cluster registry as a linearizable key-value map.

   The registry of internal/cluster (an Olric distributed map) is modelled as ONE shared association
   list; `exists / get / put / putIfAbsent / remove` are each ONE atomic step (r_apply), issued by any
   number of nodes in any interleaving. Linearizability and the atomicity of the NX put are the
   contract of olric/memberlist: modelled, not verified (trusted base).

   Used by C30 (grain records, value = owning node) and C36 (actor records). Executable, no axioms. *)
From Coq Require Import List Arith Bool.
Import ListNotations.

Section Registry.
  Context {V : Type}.

  Definition reg := list (nat * V).

  Definition r_empty : reg := [].

  Fixpoint r_get (k : nat) (r : reg) : option V :=
    match r with
    | [] => None
    | (k', v) :: t => if Nat.eqb k k' then Some v else r_get k t
    end.

  Definition r_exists (k : nat) (r : reg) : bool :=
    match r_get k r with Some _ => true | None => false end.

  Fixpoint r_remove (k : nat) (r : reg) : reg :=
    match r with
    | [] => []
    | (k', v) :: t => if Nat.eqb k k' then r_remove k t else (k', v) :: r_remove k t
    end.

  (* plain put: overwrites unconditionally *)
  Definition r_put (k : nat) (v : V) (r : reg) : reg := (k, v) :: r_remove k r.

  (* NX put: one atomic test-and-set; the boolean says whether this caller won *)
  Definition r_put_if_absent (k : nat) (v : V) (r : reg) : reg * bool :=
    if r_exists k r then (r, false) else (r_put k v r, true).

  (* the operations as labels of one atomic step each *)
  Inductive rop := RExists (k : nat) | RGet (k : nat) | RPut (k : nat) (v : V)
                 | RPutIfAbsent (k : nat) (v : V) | RRemove (k : nat).
  Inductive rres := ResBool (b : bool) | ResVal (o : option V) | ResUnit.

  Definition r_apply (r : reg) (o : rop) : reg * rres :=
    match o with
    | RExists k => (r, ResBool (r_exists k r))
    | RGet k => (r, ResVal (r_get k r))
    | RPut k v => (r_put k v r, ResUnit)
    | RPutIfAbsent k v => let '(r', b) := r_put_if_absent k v r in (r', ResBool b)
    | RRemove k => (r_remove k r, ResUnit)
    end.

  (* ---- the map laws *)

  Lemma r_get_remove_same : forall k r, r_get k (r_remove k r) = None.
  Proof.
    induction r as [|[k' v] t IH]; simpl; auto.
    destruct (Nat.eqb k k') eqn:E; simpl; auto. rewrite E; auto.
  Qed.

  Lemma r_get_remove_other : forall k k' r, k <> k' -> r_get k (r_remove k' r) = r_get k r.
  Proof.
    induction r as [|[k2 v] t IH]; simpl; intros; auto.
    destruct (Nat.eqb k' k2) eqn:E.
    - apply Nat.eqb_eq in E; subst. destruct (Nat.eqb k k2) eqn:E2; auto.
      apply Nat.eqb_eq in E2; congruence.
    - simpl. destruct (Nat.eqb k k2); auto.
  Qed.

  Lemma r_get_put_same : forall k v r, r_get k (r_put k v r) = Some v.
  Proof. intros; unfold r_put; simpl; rewrite Nat.eqb_refl; auto. Qed.

  Lemma r_get_put_other : forall k k' v r, k <> k' -> r_get k (r_put k' v r) = r_get k r.
  Proof.
    intros; unfold r_put; simpl. destruct (Nat.eqb k k') eqn:E.
    - apply Nat.eqb_eq in E; congruence.
    - apply r_get_remove_other; auto.
  Qed.

  Lemma r_exists_get : forall k r, r_exists k r = true <-> exists v, r_get k r = Some v.
  Proof.
    unfold r_exists; intros; destruct (r_get k r); split; intros H; eauto; try discriminate.
    destruct H; discriminate.
  Qed.

  Lemma r_exists_false : forall k r, r_exists k r = false <-> r_get k r = None.
  Proof. unfold r_exists; intros; destruct (r_get k r); split; intros; congruence. Qed.

  (* NX put: the winner finds the key absent and owns it afterwards; a loser changes nothing *)
  Lemma r_pia_won : forall k v r r', r_put_if_absent k v r = (r', true) ->
    r_get k r = None /\ r_get k r' = Some v /\ (forall k', k' <> k -> r_get k' r' = r_get k' r).
  Proof.
    unfold r_put_if_absent; intros k v r r' H. destruct (r_exists k r) eqn:E; inversion H; subst.
    split; [apply r_exists_false; auto|]. split; [apply r_get_put_same|].
    intros; apply r_get_put_other; auto.
  Qed.

  Lemma r_pia_lost : forall k v r r', r_put_if_absent k v r = (r', false) ->
    r' = r /\ exists w, r_get k r = Some w.
  Proof.
    unfold r_put_if_absent; intros k v r r' H. destruct (r_exists k r) eqn:E; inversion H; subst.
    split; auto. apply r_exists_get; auto.
  Qed.

  Lemma r_pia_spec : forall k v r,
    r_put_if_absent k v r = match r_get k r with Some _ => (r, false) | None => (r_put k v r, true) end.
  Proof. unfold r_put_if_absent, r_exists; intros; destruct (r_get k r); auto. Qed.

  (* two concurrent NX puts on the same key: exactly one wins, whatever the order *)
  Lemma r_pia_exclusive : forall k v1 v2 r r1 r2 b1 b2,
    r_put_if_absent k v1 r = (r1, b1) -> r_put_if_absent k v2 r1 = (r2, b2) -> b1 && b2 = false.
  Proof.
    intros k v1 v2 r r1 r2 b1 b2 H1 H2. destruct b1; auto. destruct b2; auto.
    apply r_pia_won in H1. apply r_pia_won in H2. destruct H1 as (_ & A & _). destruct H2 as (B & _).
    congruence.
  Qed.
  (* Contract of the store that the protocol models rely on: a record PERSISTS until it is overwritten or removed --
     the passage of time alone never deletes it (no expiry on grain/actor records), and operations on other keys do
     not touch it. The harness checks this on the real cluster code (no expiry option on the writes; a claim still
     blocks a later NX put after the clock has advanced). *)
  Definition touches (k : nat) (o : rop) : bool :=
    match o with
    | RPut k' _ | RPutIfAbsent k' _ | RRemove k' => Nat.eqb k k'
    | _ => false
    end.

  Lemma r_persist : forall k v r o, r_get k r = Some v -> touches k o = false -> r_get k (fst (r_apply r o)) = Some v.
  Proof.
    intros k v r o H T. destruct o as [k'|k'|k' v'|k' v'|k']; cbn [r_apply fst touches] in *; auto.
    - apply Nat.eqb_neq in T. rewrite r_get_put_other; auto.
    - unfold r_put_if_absent. destruct (r_exists k' r); cbn [fst]; auto.
      apply Nat.eqb_neq in T. rewrite r_get_put_other; auto.
    - apply Nat.eqb_neq in T. rewrite r_get_remove_other; auto.
  Qed.

  Lemma r_persist_many : forall k v ops r, r_get k r = Some v -> forallb (fun o => negb (touches k o)) ops = true ->
    r_get k (fold_left (fun r o => fst (r_apply r o)) ops r) = Some v.
  Proof.
    induction ops as [|o t IH]; simpl; intros r H F; auto.
    apply andb_true_iff in F. destruct F as (A & B). apply negb_true_iff in A. apply IH; auto. apply r_persist; auto.
  Qed.

  (* a held claim keeps every later NX put out, whatever happens to other keys in between *)
  Lemma r_claim_blocks : forall k v w ops r, r_get k r = Some v -> forallb (fun o => negb (touches k o)) ops = true ->
    snd (r_put_if_absent k w (fold_left (fun r o => fst (r_apply r o)) ops r)) = false.
  Proof.
    intros k v w ops r H F. pose proof (r_persist_many k v ops r H F) as P.
    unfold r_put_if_absent, r_exists. rewrite P. reflexivity.
  Qed.
End Registry.

Arguments reg V : clear implicits.

Example registry_smoke :
  let r0 : reg nat := r_empty in
  let '(r1, w1) := r_put_if_absent 7 1 r0 in
  let '(r2, w2) := r_put_if_absent 7 2 r1 in
  (w1, w2, r_get 7 r2, r_get 7 (r_put 7 3 r2), r_exists 7 (r_remove 7 r2)) = (true, false, Some 1, Some 3, false).
Proof. reflexivity. Qed.
