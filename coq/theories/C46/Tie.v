(* C46 — executable helpers used by the check (vm_compute on generated cases). No proofs. *)
From Coq Require Import ZArith List Bool.
From GV Require Import C46.Model.
Import ListNotations.
Open Scope Z_scope.

Definition b2z (b : bool) : Z := if b then 1 else 0.
Definition enc_jout (m : jout) : list Z :=
  match m with
  | JElem v => [10; v]
  | JTuple t => 13 :: Z.of_nat (length t) :: t
  | JComplete => [11]
  | JError => [12]
  end.
Definition enc_hout (m : hout) : list Z :=
  match m with
  | HToSlot i x => 30 :: Z.of_nat i :: enc_jout x
  | HPull n => [20; n]
  | HCancelUp => [21]
  end.

Fixpoint zl_eqb (a b : list Z) : bool :=
  match a, b with
  | [], [] => true
  | x :: a', y :: b' => (x =? y) && zl_eqb a' b'
  | _, _ => false
  end.
Fixpoint zll_eqb (a b : list (list Z)) : bool :=
  match a, b with
  | [], [] => true
  | x :: a', y :: b' => zl_eqb x y && zll_eqb a' b'
  | _, _ => false
  end.

Section Steps.
  Context {S M O : Type} (recv : S -> M -> S * list O) (alive : S -> bool) (snap : S -> list Z) (enc : O -> list Z).
  Fixpoint run_steps (s : S) (script : list M) : list (list Z) :=
    match script with
    | [] => []
    | m :: r =>
      if alive s then
        let '(s', out) := recv s m in
        (b2z (alive s') :: snap s' ++ [-7] ++ concat (map enc out)) :: run_steps s' r
      else [0] :: run_steps s r
    end.
  Definition steps_from (s0 : S) (wire : list O) (script : list M) : list (list Z) :=
    concat (map enc wire) :: (b2z (alive s0) :: snap s0 ++ [-7]) :: run_steps s0 script.
End Steps.

Definition snap_merge (s : merge_st) := [m_demand s; Z.of_nat (length (m_buf s)); Z.of_nat (m_done s)].
Definition snap_concat (s : concat_st) :=
  [c_demand s; Z.of_nat (length (c_buf s)); Z.of_nat (c_current s); b2z (c_done s)].
Definition snap_zip (s : zip_st) :=
  z_demand s :: map (fun b => Z.of_nat (length b)) (z_bufs s) ++ map b2z (z_done s).
Definition snap_hub (s : hub_st) :=
  h_pending s :: Z.of_nat (h_cancelled s) :: Z.of_nat (h_next s) :: h_demand s.

Definition wire_of (n : nat) : list jout := if Nat.eqb n 0 then [JComplete] else [].

Definition steps_merge (n : nat) (script : list fmsg) :=
  steps_from merge_recv m_alive snap_merge enc_jout (merge_init n) (wire_of n) script.
Definition steps_concat (n : nat) (script : list fmsg) :=
  steps_from concat_recv c_alive snap_concat enc_jout (concat_init n) (wire_of n) script.
Definition steps_zip (n : nat) (script : list fmsg) :=
  steps_from zip_recv z_alive snap_zip enc_jout (zip_init n) (wire_of n) script.
Definition steps_hub (k : hkind) (n : nat) (script : list hmsg) :=
  steps_from (hub_recv k) h_alive snap_hub enc_hout (hub_init n) [] script.

Definition steps_merge_ns (n : nat) (script : list fmsg) :=
  steps_from merge_recv m_alive (fun _ => []) enc_jout (merge_init n) (wire_of n) script.
Definition steps_concat_ns (n : nat) (script : list fmsg) :=
  steps_from concat_recv c_alive (fun _ => []) enc_jout (concat_init n) (wire_of n) script.
Definition steps_zip_ns (n : nat) (script : list fmsg) :=
  steps_from zip_recv z_alive (fun _ => []) enc_jout (zip_init n) (wire_of n) script.
Definition steps_hub_ns (k : hkind) (n : nat) (script : list hmsg) :=
  steps_from (hub_recv k) h_alive (fun _ => []) enc_hout (hub_init n) [] script.

(* ---- the FIFO queue of stream/queue.go against its list model ---- *)
Inductive qop := QPush (v : Z) | QPop.
(* observation per op: pop -> the popped value (or -1 when empty, the harness never pops an empty queue),
   followed by the number of live elements *)
Fixpoint qrun (q : list Z) (ops : list qop) : list Z :=
  match ops with
  | [] => []
  | QPush v :: r => Z.of_nat (length (q ++ [v])) :: qrun (q ++ [v]) r
  | QPop :: r => match q with
                 | x :: q' => x :: Z.of_nat (length q') :: qrun q' r
                 | [] => (-1) :: 0 :: qrun [] r
                 end
  end.

(* ---- black-box verdicts ---- *)
Fixpoint zll_all {A} (f : nat -> A -> bool) (i : nat) (l : list A) : bool :=
  match l with [] => true | x :: r => f i x && zll_all f (S i) r end.

(* sources are tagged by the harness: every value v of source i satisfies v mod 16 = i *)
Definition tag (v : Z) : nat := Z.to_nat (v mod 16).
Definition merge_ok (srcs : list (list Z)) (out : list Z) : bool :=
  Nat.eqb (length out) (length (concat srcs)) &&
  zll_all (fun i s => zl_eqb (filter (fun v => Nat.eqb (tag v) i) out) s) 0 srcs.
Definition concat_ok (srcs : list (list Z)) (out : list Z) : bool := zl_eqb out (concat srcs).
Definition zip_ok (srcs : list (list Z)) (out : list (list Z)) : bool :=
  zll_eqb out (match srcs with [] => [] | _ => zip_spec (length (hd [] srcs)) srcs end).
Definition broadcast_ok (input : list Z) (branches : list (list Z)) : bool :=
  forallb (fun b => zl_eqb b input) branches.
(* balance: the branch sequences partition the input, each in source order (inputs are strictly increasing) *)
Fixpoint sorted (l : list Z) : bool :=
  match l with x :: ((y :: _) as r) => (x <? y) && sorted r | _ => true end.
Fixpoint insert (x : Z) (l : list Z) : list Z :=
  match l with [] => [x] | y :: r => if x <=? y then x :: l else y :: insert x r end.
Definition sort (l : list Z) : list Z := fold_right insert [] l.
Definition balance_ok (input : list Z) (branches : list (list Z)) : bool :=
  forallb sorted branches && zl_eqb (sort (concat branches)) input.
Definition partition_ok (md : Z) (input : list Z) (branches : list (list Z)) : bool :=
  zll_all (fun i b => zl_eqb b (filter (fun v => Z.of_nat i =? v mod md) input)) 0 branches.
