(* C46 — the FIFO queue of stream/queue.go (the buffer of Merge, Concat and the per-slot buffers of Zip):
   backing slice [data], read index [head], pop compacts once the dead prefix reaches half the slice.
   Its abstraction (the live elements) behaves as a plain list. *)
From Coq Require Import ZArith List Bool Lia.
Import ListNotations.

Record gqueue := { q_data : list Z; q_head : nat }.
Definition q_empty_queue : gqueue := {| q_data := []; q_head := 0 |}.

Definition q_push (q : gqueue) (v : Z) : gqueue := {| q_data := q_data q ++ [v]; q_head := q_head q |}.
Definition q_len (q : gqueue) : nat := length (q_data q) - q_head q.
Definition q_is_empty (q : gqueue) : bool := length (q_data q) <=? q_head q.

(* pop: the caller checks empty first *)
Definition q_pop (q : gqueue) : Z * gqueue :=
  let v := nth (q_head q) (q_data q) 0%Z in
  let h := S (q_head q) in
  if length (q_data q) <=? h * 2
  then (v, {| q_data := skipn h (q_data q); q_head := 0 |})
  else (v, {| q_data := q_data q; q_head := h |}).

(* the abstraction *)
Definition q_contents (q : gqueue) : list Z := skipn (q_head q) (q_data q).

Lemma q_contents_empty : q_contents q_empty_queue = [].
Proof. reflexivity. Qed.

Lemma q_len_contents q : q_len q = length (q_contents q).
Proof. unfold q_len, q_contents. now rewrite skipn_length. Qed.

Lemma q_empty_contents q : q_is_empty q = true <-> q_contents q = [].
Proof.
  unfold q_is_empty, q_contents. rewrite Nat.leb_le. split.
  - intros H. apply skipn_all2. exact H.
  - intros H. apply (f_equal (@length Z)) in H. rewrite skipn_length in H. simpl in H. lia.
Qed.

Lemma q_push_contents q v : q_head q <= length (q_data q) -> q_contents (q_push q v) = q_contents q ++ [v].
Proof.
  unfold q_contents, q_push. simpl. intros H. rewrite skipn_app.
  replace (q_head q - length (q_data q)) with 0 by lia. reflexivity.
Qed.

Lemma skipn_S_nth (l : list Z) n : n < length l -> skipn n l = nth n l 0%Z :: skipn (S n) l.
Proof.
  revert n. induction l as [|x r IH]; intros n H; simpl in *; [lia|].
  destruct n; [reflexivity|]. simpl. apply IH. lia.
Qed.

Lemma q_pop_contents q : q_is_empty q = false ->
  q_contents q = fst (q_pop q) :: q_contents (snd (q_pop q)) /\
  q_head (snd (q_pop q)) <= length (q_data (snd (q_pop q))).
Proof.
  unfold q_is_empty, q_contents, q_pop. intros H. apply Nat.leb_gt in H.
  destruct (length (q_data q) <=? S (q_head q) * 2) eqn:E; simpl.
  - split; [apply skipn_S_nth; exact H|lia].
  - split; [apply skipn_S_nth; exact H|lia].
Qed.

Lemma q_push_wf q v : q_head q <= length (q_data q) -> q_head (q_push q v) <= length (q_data (q_push q v)).
Proof. unfold q_push. simpl. rewrite app_length. simpl. lia. Qed.

(* any sequence of operations: the queue returns exactly what a list-backed FIFO returns *)
Inductive gop := GPush (v : Z) | GPop.

Fixpoint g_run (q : gqueue) (ops : list gop) : list Z :=
  match ops with
  | [] => []
  | GPush v :: r => g_run (q_push q v) r
  | GPop :: r => if q_is_empty q then g_run q r else fst (q_pop q) :: g_run (snd (q_pop q)) r
  end.

Fixpoint l_run (l : list Z) (ops : list gop) : list Z :=
  match ops with
  | [] => []
  | GPush v :: r => l_run (l ++ [v]) r
  | GPop :: r => match l with [] => l_run [] r | x :: l' => x :: l_run l' r end
  end.

Theorem queue_is_fifo : forall ops q, q_head q <= length (q_data q) ->
  g_run q ops = l_run (q_contents q) ops.
Proof.
  induction ops as [|o r IH]; intros q Hw; simpl; [reflexivity|].
  destruct o as [v|].
  - rewrite IH by (apply q_push_wf; exact Hw). rewrite q_push_contents by exact Hw. reflexivity.
  - destruct (q_is_empty q) eqn:E.
    + apply q_empty_contents in E. rewrite E. rewrite IH by exact Hw. rewrite E. reflexivity.
    + destruct (q_pop_contents q E) as [C W]. rewrite C. rewrite IH by exact W. reflexivity.
Qed.

Corollary queue_is_fifo_from_empty ops : g_run q_empty_queue ops = l_run [] ops.
Proof. apply (queue_is_fifo ops q_empty_queue). simpl. lia. Qed.
