(* C46 — Broadcast, Balance, Partition hubs: invariants over every interleaving of branch demand and
   upstream deliveries, for every branch count. *)
From Coq Require Import ZArith List Bool Lia.
From GV Require Import C46.Model C46.FanIn.
Import ListNotations.
Open Scope Z_scope.

Definition zsum (l : list Z) : Z := fold_right Z.add 0 l.

(* ---------- helpers about the all-active slot table ---------- *)
Lemma active_all n k : filter (fun i => nth i (repeat true (k + n)) false) (seq k n) = seq k n.
Proof.
  revert k. induction n as [|n IH]; intros k; simpl; [reflexivity|].
  rewrite nth_repeat by lia. f_equal. replace (k + S n)%nat with (S k + n)%nat by lia. apply IH.
Qed.

Lemma total_all dem : total_demand_aux (repeat true (length dem)) dem = zsum dem.
Proof. induction dem as [|d r IH]; simpl; [reflexivity|]. rewrite IH. reflexivity. Qed.

Lemma mda_nonneg : forall dem res, 0 <= res -> Forall (fun d => 0 <= d) dem ->
  let r := min_demand_aux (repeat true (length dem)) dem res in
  r <= res /\ Forall (fun d => r <= d) dem /\ 0 <= r.
Proof.
  induction dem as [|d t IH]; intros res Hr Hd; simpl; [split; [lia|split; [constructor|lia]]|].
  inversion Hd; subst.
  replace (res <? 0) with false by (symmetry; apply Z.ltb_ge; lia). simpl.
  destruct (d <? res) eqn:E.
  - apply Z.ltb_lt in E. destruct (IH d H1 H2) as [A [B C]]. split; [lia|]. split; [constructor; [lia|exact B]|exact C].
  - apply Z.ltb_ge in E. destruct (IH res Hr H2) as [A [B C]]. split; [lia|]. split; [constructor; [lia|exact B]|exact C].
Qed.

Lemma min_demand_le s : h_active s = repeat true (length (h_demand s)) -> Forall (fun d => 0 <= d) (h_demand s) ->
  0 <= min_demand s /\ Forall (fun d => min_demand s <= d) (h_demand s).
Proof.
  intros Ha Hd. unfold min_demand. rewrite Ha. destruct (h_demand s) as [|d t] eqn:E; simpl.
  - split; [lia|constructor].
  - inversion Hd; subst. destruct (mda_nonneg t d H1 H2) as [A [B C]].
    set (r := min_demand_aux (repeat true (length t)) t d) in *.
    destruct (r <=? 0) eqn:Er.
    + split; [lia|]. constructor; [lia|]. eapply Forall_impl; [|exact H2]. simpl. intros; lia.
    + apply Z.leb_gt in Er. split; [lia|]. constructor; [lia|exact B].
Qed.

Lemma zsum_upd dem i f : (i < length dem)%nat -> zsum (upd dem i f) = zsum dem - nth i dem 0 + f (nth i dem 0).
Proof.
  revert i. induction dem as [|d t IH]; intros [|i] H; simpl in *; try lia.
  rewrite IH by lia. lia.
Qed.

Lemma Forall_upd {A} (P : A -> Prop) l i f : Forall P l -> (forall x, P x -> P (f x)) -> Forall P (upd l i f).
Proof.
  revert i. induction l as [|x r IH]; intros [|i] H Hf; simpl; auto; inversion H; subst; constructor; auto.
Qed.

Lemma Forall_nth {A} (P : A -> Prop) l i d : Forall P l -> (i < length l)%nat -> P (nth i l d).
Proof. revert i. induction l as [|x r IH]; intros [|i] H Hi; simpl in *; try lia; inversion H; subst; auto. apply IH; auto; lia. Qed.

(* decrementing every slot *)
Lemma upd_at_app {A} (pre : list A) d t f : upd (pre ++ d :: t) (length pre) f = pre ++ f d :: t.
Proof. induction pre as [|x r IH]; simpl; [reflexivity|]. now rewrite IH. Qed.
Lemma upd_past {A} (l : list A) i f : (length l <= i)%nat -> upd l i f = l.
Proof. revert i. induction l as [|x r IH]; intros [|i] H; simpl in *; try lia; auto. rewrite IH by lia. reflexivity. Qed.

Lemma dec_from : forall n pre dem,
  fold_left (fun d i => upd d i (fun x => x - 1)) (seq (length pre) n) (pre ++ dem) =
  pre ++ map (fun x => x - 1) (firstn n dem) ++ skipn n dem.
Proof.
  induction n as [|n IH]; intros pre dem; simpl; [reflexivity|].
  destruct dem as [|d t].
  - rewrite upd_past by (rewrite app_length; simpl; lia).
    clear IH. rewrite !app_nil_r.
    assert (G : forall m k l, (length l <= k)%nat -> fold_left (fun d i => upd d i (fun x => x - 1)) (seq k m) l = l).
    { induction m as [|m IHm]; intros k l Hk; simpl; [reflexivity|]. rewrite upd_past by lia. apply IHm. lia. }
    rewrite G by lia. reflexivity.
  - rewrite upd_at_app. specialize (IH (pre ++ [d - 1]) t). rewrite app_length in IH. simpl in IH.
    rewrite Nat.add_1_r in IH. rewrite <- app_assoc in IH. simpl in IH. rewrite IH. rewrite <- app_assoc. reflexivity.
Qed.

Lemma dec_all_full dem : fold_left (fun d i => upd d i (fun x => x - 1)) (seq 0 (length dem)) dem = map (fun x => x - 1) dem.
Proof.
  pose proof (dec_from (length dem) [] dem) as H. simpl in H. rewrite H, firstn_all, skipn_all, app_nil_r. reflexivity.
Qed.

Lemma proj_tagged i v : forall n k, proj i (map (fun j => (j, v)) (seq k n)) = if ((k <=? i) && (i <? k + n))%nat then [v] else [].
Proof.
  induction n as [|n IH]; intros k.
  - simpl. destruct (Nat.leb_spec k i); destruct (Nat.ltb_spec i (k + 0)); simpl; auto; lia.
  - change (seq k (S n)) with (k :: seq (S k) n). unfold proj in *. cbn [map filter fst].
    destruct (Nat.eqb_spec k i) as [->|Hne]; cbn [map snd].
    + rewrite IH.
      destruct (Nat.leb_spec (S i) i); [lia|]. cbn [andb].
      destruct (Nat.leb_spec i i); [|lia]. destruct (Nat.ltb_spec i (i + S n)); [|lia]. reflexivity.
    + rewrite IH.
      destruct (Nat.leb_spec (S k) i); destruct (Nat.ltb_spec i (S k + n)); destruct (Nat.leb_spec k i);
        destruct (Nat.ltb_spec i (k + S n)); cbn [andb]; auto; lia.
Qed.

(* balance: some slot with demand is found whenever the demands sum to something positive *)
Lemma choose_none : forall fuel n start act dem, choose fuel n start act dem = None ->
  forall j, (j < fuel)%nat -> nth ((start + j) mod n) act false && (nth ((start + j) mod n) dem 0 >? 0) = false.
Proof.
  induction fuel as [|f IH]; intros n start act dem H j Hj; [lia|]. simpl in H.
  destruct (nth (start mod n) act false && (nth (start mod n) dem 0 >? 0)) eqn:E; [discriminate|].
  destruct j as [|j].
  - rewrite Nat.add_0_r. exact E.
  - replace (start + S j)%nat with (S start + j)%nat by lia. apply (IH _ _ _ _ H). lia.
Qed.

Lemma choose_some : forall fuel n start act dem c, choose fuel n start act dem = Some c ->
  (n <> 0)%nat -> (c < n)%nat /\ nth c act false = true /\ nth c dem 0 > 0.
Proof.
  induction fuel as [|f IH]; intros n start act dem c H Hn; [discriminate|]. simpl in H.
  destruct (nth (start mod n) act false && (nth (start mod n) dem 0 >? 0)) eqn:E.
  - inversion H; subst. apply andb_prop in E. destruct E as [E1 E2]. split; [apply Nat.mod_upper_bound; exact Hn|].
    split; [exact E1|]. apply Z.gtb_lt in E2. lia.
  - eapply IH; eauto.
Qed.

Lemma zsum_pos_exists dem : Forall (fun d => 0 <= d) dem -> 0 < zsum dem -> exists i, (i < length dem)%nat /\ nth i dem 0 > 0.
Proof.
  induction dem as [|d t IH]; intros H Hs; simpl in *; [lia|]. inversion H; subst.
  destruct (Z_lt_le_dec 0 d) as [Hd|Hd].
  - exists O. simpl. split; lia.
  - destruct (IH H3 ltac:(lia)) as [i [Hi Hv]]. exists (S i). simpl. split; [lia|exact Hv].
Qed.

Lemma choose_finds n start dem : (0 < n)%nat -> (start < n)%nat -> length dem = n -> Forall (fun d => 0 <= d) dem -> 0 < zsum dem ->
  exists c, choose n n start (repeat true n) dem = Some c.
Proof.
  intros Hn Hst Hl Hd Hs. destruct (choose n n start (repeat true n) dem) as [c|] eqn:E; [eauto|]. exfalso.
  destruct (zsum_pos_exists dem Hd Hs) as [i [Hi Hv]]. rewrite Hl in Hi.
  (* index i is visited at step j = (i + n - start) mod n *)
  set (j := ((i + (n - start)) mod n)%nat).
  assert (Hj : (j < n)%nat) by (apply Nat.mod_upper_bound; lia).
  pose proof (choose_none _ _ _ _ _ E j Hj) as Hc.
  assert (Hidx : ((start + j) mod n = i)%nat).
  { unfold j. rewrite Nat.add_mod_idemp_r by lia. replace (start + (i + (n - start)))%nat with (i + 1 * n)%nat by lia.
    rewrite Nat.mod_add by lia. apply Nat.mod_small. exact Hi. }
  rewrite Hidx, nth_repeat in Hc by exact Hi. simpl in Hc. apply Z.gtb_ltb in Hc || idtac.
  destruct (nth i dem 0 >? 0) eqn:G; [discriminate|]. apply Z.gtb_ltb in G || idtac.
  assert (~ nth i dem 0 > 0). { intros X. apply Z.gt_lt in X. apply Z.gtb_lt in X. congruence. }
  contradiction.
Qed.

(* ---------- the invariant ---------- *)
Definition pulls (o : list hout) : Z := fold_right (fun x a => match x with HPull m => m + a | _ => a end) 0 o.

Definition bound (k : hkind) (s : hub_st) : Prop :=
  match k with
  | Balance => h_pending s <= zsum (h_demand s)
  | _ => Forall (fun d => h_pending s <= d) (h_demand s)
  end.

Definition route_ok (k : hkind) (n : nat) (cons : list Z) (routed : list (nat * Z)) : Prop :=
  match k with
  | Broadcast => forall i, (i < n)%nat -> proj i routed = cons
  | Balance => map snd routed = cons /\ Forall (fun x => (fst x < n)%nat) routed
  | Partition md => routed = map (fun v => (Z.to_nat (v mod md), v)) cons
  end.

Definition kind_ok (k : hkind) (n : nat) : Prop :=
  (1 <= n)%nat /\ match k with Partition md => 0 < md <= Z.of_nat n | _ => True end.

Definition HInv (k : hkind) (n : nat) (input : list Z) (x : henv * hub_st) : Prop :=
  let '(e, s) := x in
  h_n s = n /\ length (h_demand s) = n /\ h_active s = repeat true n /\ h_dropped s = [] /\
  Forall (fun d => 0 <= d) (h_demand s) /\ (h_next s < n)%nat /\
  (exists cons, input = cons ++ e_rest e /\ route_ok k n cons (h_routed s)) /\
  (h_alive s = true -> h_pending s = e_granted e /\ 0 <= h_pending s /\ bound k s /\ e_completed e = false) /\
  (h_alive s = false -> e_completed e = true /\ e_rest e = []).

(* maybePull keeps everything and re-establishes the bound *)
Lemma hub_pull_inv k n s s' o : hub_pull k s = (s', o) ->
  length (h_demand s) = n -> h_active s = repeat true n -> Forall (fun d => 0 <= d) (h_demand s) ->
  0 <= h_pending s -> bound k s ->
  h_n s' = h_n s /\ h_demand s' = h_demand s /\ h_active s' = h_active s /\ h_dropped s' = h_dropped s /\
  h_next s' = h_next s /\ h_routed s' = h_routed s /\ h_alive s' = h_alive s /\
  h_pending s' = h_pending s + pulls o /\ 0 <= h_pending s' /\ bound k s'.
Proof.
  intros H Hl Ha Hd Hp Hb. unfold hub_pull in H.
  destruct (h_pending s >? 0) eqn:E.
  - inversion H; subst s' o. simpl. repeat split; auto; lia.
  - apply Z.gtb_ltb in E || idtac. assert (Hp0 : h_pending s = 0).
    { destruct (Z_lt_le_dec 0 (h_pending s)) as [X|X]; [|lia]. apply Z.gtb_lt in X. congruence. }
    set (m := match k with Balance => total_demand s | _ => min_demand s end) in *.
    destruct (m <=? 0) eqn:Em.
    + inversion H; subst s' o. simpl. repeat split; auto; lia.
    + apply Z.leb_gt in Em. inversion H; subst s' o; clear H. simpl.
      repeat split; auto; try lia.
      unfold bound. simpl.
      rewrite <- Hl in Ha.
      destruct k; simpl in *.
      * destruct (min_demand_le s Ha Hd) as [_ X]. exact X.
      * unfold m, total_demand. rewrite Ha, total_all. lia.
      * destruct (min_demand_le s Ha Hd) as [_ X]. exact X.
Qed.

Lemma hinv_init k n input : kind_ok k n -> HInv k n input ({| e_rest := input; e_granted := 0; e_completed := false |}, hub_init n).
Proof.
  intros [Hn Hk]. unfold HInv, hub_init. simpl. rewrite repeat_length.
  assert (Hz : Forall (fun d => 0 <= d) (repeat 0 n)) by (clear; induction n; simpl; constructor; auto; lia).
  repeat split; auto; try lia.
  - exists []. split; [reflexivity|]. destruct k; simpl; auto.
  - unfold bound. destruct k; simpl; auto.
    clear -n. induction n; simpl; lia.
Qed.

Lemma hinv_build k n input e s cons :
  h_n s = n -> length (h_demand s) = n -> h_active s = repeat true n -> h_dropped s = [] ->
  Forall (fun d => 0 <= d) (h_demand s) -> (h_next s < n)%nat ->
  input = cons ++ e_rest e -> route_ok k n cons (h_routed s) ->
  (h_alive s = true -> h_pending s = e_granted e /\ 0 <= h_pending s /\ bound k s /\ e_completed e = false) ->
  (h_alive s = false -> e_completed e = true /\ e_rest e = []) ->
  HInv k n input (e, s).
Proof. intros. unfold HInv. repeat (split; [assumption|]). split; [exists cons; auto|]. split; assumption. Qed.

Lemma nonneg_dec dem c p : Forall (fun d => 0 <= d) dem -> (c < length dem)%nat -> 1 <= p -> p <= nth c dem 0 ->
  Forall (fun d => 0 <= d) (upd dem c (fun x => x - 1)).
Proof.
  revert c. induction dem as [|d t IH]; intros c H Hc Hp Hg; simpl in *; [lia|].
  inversion H; subst. destruct c; simpl in *.
  - constructor; [lia|assumption].
  - constructor; [assumption|]. apply IH; auto; lia.
Qed.

Lemma bound_dec dem c p : Forall (fun d => p <= d) dem -> Forall (fun d => p - 1 <= d) (upd dem c (fun x => x - 1)).
Proof.
  revert c. induction dem as [|d t IH]; intros c H; simpl; [constructor|].
  inversion H; subst. destruct c; simpl.
  - constructor; [lia|]. eapply Forall_impl; [|exact H3]. simpl. intros; lia.
  - constructor; [lia|]. apply IH. exact H3.
Qed.

Lemma pulls_slots v l o :
  fold_right (fun x a => match x with HPull m => m + a | _ => a end) 0 (map (fun i => HToSlot i (JElem v)) l ++ o) =
  fold_right (fun x a => match x with HPull m => m + a | _ => a end) 0 o.
Proof. induction l; simpl; auto. Qed.

Ltac hsplit c := refine (conj _ (conj _ (conj _ (conj _ (conj _ (conj _ (conj (ex_intro _ c (conj _ _)) (conj _ _)))))))).

Lemma hub_step_inv k n input x y : kind_ok k n -> HInv k n input x -> hub_step k x y -> HInv k n input y.
Proof.
  intros [Hn Hk] Hi Hs. destruct x as [e s]. destruct Hi as [In [Il [Ia [Idr [Id [Inx [[cons [Ic Ir]] [Ial Idead]]]]]]]].
  revert Ic. inversion Hs; subst; clear Hs; intros Ic.
  - (* branch demand *)
    unfold hub_recv. destruct (h_alive s) eqn:Alive; simpl.
    + destruct (Ial eq_refl) as [Hp [Hp0 [Hb Hcm]]].
      match goal with |- context [hub_pull k ?st] => destruct (hub_pull k st) as [s' o] eqn:Hpl end.
      assert (Hd' : Forall (fun d => 0 <= d) (upd (h_demand s) i (fun d => d + n0))).
      { apply Forall_upd; auto. intros; lia. }
      destruct (hub_pull_inv k (h_n s) _ _ _ Hpl) as [A1 [A2 [A3 [A4 [A5 [A6 [A7 [A8 [A9 A10]]]]]]]]]; simpl; auto.
      * rewrite upd_length. exact Il.
      * unfold bound in *. simpl. destruct k; simpl in *.
        -- apply Forall_upd; auto. intros; lia.
        -- rewrite zsum_upd by lia. lia.
        -- apply Forall_upd; auto. intros; lia.
      * cbv beta iota. simpl in A1, A2, A3, A4, A5, A6, A7, A8, A9, A10. unfold pulls in A8. hsplit cons; simpl.
        -- congruence.
        -- rewrite A2, upd_length. exact Il.
        -- congruence.
        -- congruence.
        -- rewrite A2. exact Hd'.
        -- rewrite A5. exact Inx.
        -- exact Ic.
        -- rewrite A6. exact Ir.
        -- intros _. split; [rewrite A8; simpl; lia|]. split; [exact A9|]. split; [exact A10|exact Hcm].
        -- intros F. congruence.
    + cbv beta iota. hsplit cons; simpl; auto; try (intros F; congruence); try (intros _; apply Idead; reflexivity).
  - (* an element arrives from upstream *)
    assert (Alive : h_alive s = true).
    { destruct (h_alive s) eqn:A; auto. destruct (Idead eq_refl) as [X _]. congruence. }
    destruct (Ial Alive) as [Hp [Hp0 [Hb Hcm]]].
    assert (Hpos : 1 <= h_pending s) by lia.
    assert (Hcons : input = (cons ++ [v]) ++ r) by (rewrite <- app_assoc; simpl; rewrite <- H1; exact Ic).
    unfold hub_recv. rewrite Alive. simpl.
    destruct k.
    + (* broadcast *)
      assert (Hact : active_slots s = seq 0 (h_n s)).
      { unfold active_slots. rewrite Ia. apply (active_all (h_n s) 0). }
      rewrite Hact.
      assert (Hne : seq 0 (h_n s) <> []) by (destruct (h_n s); [lia|discriminate]).
      assert (Hdec : fold_left (fun d i => upd d i (fun x => x - 1)) (seq 0 (h_n s)) (h_demand s) =
                     map (fun x => x - 1) (h_demand s)) by (rewrite <- Il; apply dec_all_full).
      rewrite Hdec.
      match goal with |- context [hub_pull Broadcast ?st] => destruct (hub_pull Broadcast st) as [s' o] eqn:Hpl end.
      assert (Hd' : Forall (fun d => 0 <= d) (map (fun x => x - 1) (h_demand s))).
      { apply Forall_map. simpl in Hb. eapply Forall_impl; [|exact Hb]. simpl. intros; lia. }
      destruct (hub_pull_inv Broadcast (h_n s) _ _ _ Hpl) as [A1 [A2 [A3 [A4 [A5 [A6 [A7 [A8 [A9 A10]]]]]]]]]; simpl; auto.
      * rewrite map_length. exact Il.
      * lia.
      * simpl in *. apply Forall_map. eapply Forall_impl; [|exact Hb]. simpl. intros; lia.
      * cbv beta iota. simpl in A1, A2, A3, A4, A5, A6, A7, A8, A9, A10. unfold pulls in A8. hsplit (cons ++ [v]); simpl.
        -- congruence.
        -- rewrite A2, map_length. exact Il.
        -- congruence.
        -- rewrite A4. destruct (seq 0 (h_n s)); [congruence|exact Idr].
        -- rewrite A2. exact Hd'.
        -- rewrite A5. exact Inx.
        -- exact Hcons.
        -- rewrite A6. intros i Hi. rewrite proj_app, (Ir i Hi), proj_tagged.
           simpl. replace (i <? h_n s)%nat with true by (symmetry; apply Nat.ltb_lt; exact Hi). reflexivity.
        -- intros _. rewrite pulls_slots. split; [rewrite A8; simpl; lia|]. split; [exact A9|]. split; [exact A10|reflexivity].
        -- intros F. congruence.
    + (* balance *)
      destruct (choose_finds (h_n s) (h_next s) (h_demand s)) as [c Hc]; auto; try lia.
      { simpl in Hb. lia. }
      rewrite Ia, Hc.
      destruct (choose_some _ _ _ _ _ _ Hc ltac:(lia)) as [Hcn [_ Hcd]].
      match goal with |- context [hub_pull Balance ?st] => destruct (hub_pull Balance st) as [s' o] eqn:Hpl end.
      assert (Hd' : Forall (fun d => 0 <= d) (upd (h_demand s) c (fun x => x - 1))).
      { apply (nonneg_dec _ _ 1); auto; lia. }
      destruct (hub_pull_inv Balance (h_n s) _ _ _ Hpl) as [A1 [A2 [A3 [A4 [A5 [A6 [A7 [A8 [A9 A10]]]]]]]]]; simpl; auto.
      * rewrite upd_length. exact Il.
      * lia.
      * simpl in *. rewrite zsum_upd by lia. lia.
      * cbv beta iota. simpl in A1, A2, A3, A4, A5, A6, A7, A8, A9, A10. unfold pulls in A8. hsplit (cons ++ [v]); simpl.
        -- congruence.
        -- rewrite A2, upd_length. exact Il.
        -- congruence.
        -- congruence.
        -- rewrite A2. exact Hd'.
        -- rewrite A5. simpl. apply Nat.mod_upper_bound. lia.
        -- exact Hcons.
        -- rewrite A6. destruct Ir as [R1 R2]. split.
           ++ rewrite map_app, R1. reflexivity.
           ++ apply Forall_app. split; [exact R2|]. constructor; [exact Hcn|constructor].
        -- intros _. split; [rewrite A8; simpl; lia|]. split; [exact A9|]. split; [exact A10|reflexivity].
        -- intros F. congruence.
    + (* partition *)
      simpl in Hk.
      assert (Hm : 0 <= v mod m < m) by (apply Z.mod_pos_bound; lia).
      assert (Hslot : (Z.to_nat (v mod m) < h_n s)%nat) by lia.
      replace (0 <=? v mod m) with true by (symmetry; apply Z.leb_le; lia).
      replace (v mod m <? Z.of_nat (h_n s)) with true by (symmetry; apply Z.ltb_lt; lia).
      rewrite Ia, nth_repeat by exact Hslot. simpl.
      match goal with |- context [hub_pull (Partition m) ?st] => destruct (hub_pull (Partition m) st) as [s' o] eqn:Hpl end.
      assert (Hge : h_pending s <= nth (Z.to_nat (v mod m)) (h_demand s) 0).
      { simpl in Hb. apply (Forall_nth (fun d => h_pending s <= d)); auto. lia. }
      assert (Hd' : Forall (fun d => 0 <= d) (upd (h_demand s) (Z.to_nat (v mod m)) (fun x => x - 1))).
      { apply (nonneg_dec _ _ (h_pending s)); auto; lia. }
      destruct (hub_pull_inv (Partition m) (h_n s) _ _ _ Hpl) as [A1 [A2 [A3 [A4 [A5 [A6 [A7 [A8 [A9 A10]]]]]]]]]; simpl; auto.
      * rewrite upd_length. exact Il.
      * lia.
      * simpl in *. apply bound_dec. exact Hb.
      * cbv beta iota. simpl in A1, A2, A3, A4, A5, A6, A7, A8, A9, A10. unfold pulls in A8. hsplit (cons ++ [v]); simpl.
        -- congruence.
        -- rewrite A2, upd_length. exact Il.
        -- congruence.
        -- congruence.
        -- rewrite A2. exact Hd'.
        -- rewrite A5. exact Inx.
        -- exact Hcons.
        -- rewrite A6, map_app, <- Ir. reflexivity.
        -- intros _. split; [rewrite A8; simpl; lia|]. split; [exact A9|]. split; [exact A10|reflexivity].
        -- intros F. congruence.
  - (* upstream completes *)
    unfold hub_recv. destruct (h_alive s) eqn:Alive; simpl.
    + hsplit cons; simpl; auto; try (rewrite H1 in Ic; exact Ic); try discriminate.
    + hsplit cons; simpl; auto; try (rewrite H1 in Ic; exact Ic); try (intros F; congruence).
Qed.

Theorem hub_reach_inv k n input x : kind_ok k n -> hub_reach k n input x -> HInv k n input x.
Proof. intros K R. induction R; [apply hinv_init; exact K|eapply hub_step_inv; eauto]. Qed.

(* ---------- exported statements ---------- *)
(* nothing is ever dropped, no slot is served beyond its demand, and what has been routed is exactly what the
   junction promises for the consumed prefix of the input; once upstream has completed that prefix is the
   whole input *)
Theorem hub_spec k n input e s : kind_ok k n -> hub_reach k n input (e, s) ->
  h_dropped s = [] /\ Forall (fun d => 0 <= d) (h_demand s) /\
  (exists cons, input = cons ++ e_rest e /\ route_ok k n cons (h_routed s)) /\
  (e_completed e = true -> route_ok k n input (h_routed s)).
Proof.
  intros K R. destruct (hub_reach_inv _ _ _ _ K R) as [In [Il [Ia [Idr [Id [Inx [[cons [Ic Ir]] [Ial Idead]]]]]]]].
  split; [exact Idr|]. split; [exact Id|]. split; [exists cons; auto|].
  intros Hc. destruct (h_alive s) eqn:Alive.
  - destruct (Ial eq_refl) as [_ [_ [_ X]]]. congruence.
  - destruct (Idead eq_refl) as [_ Hr]. rewrite Hr, app_nil_r in Ic. subst. exact Ir.
Qed.
