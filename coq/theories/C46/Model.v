(* C46 — executable model of goakt's stream junctions:
     fan-in source actors   mergeSourceActor (stage_source.go), concatSourceActor (stage_concat.go),
                            zipNSourceActor (stage_zipn.go)
     fan-out hub actors     broadcastHubActor, balanceHubActor, partitionHubActor (stage_*.go)
   Each actor is a handler [state -> message -> state * outputs] mirroring the Go Receive method; the
   environment (sub-pipelines feeding a fan-in actor, the upstream pipeline and the branch slots of a
   hub) is an explicit transition system, so the theorems quantify over every interleaving, every
   number of branches and every source length. No proofs here. *)
From Coq Require Import ZArith List Bool.
Import ListNotations.
Open Scope Z_scope.

(* what a junction actor sends downstream *)
Inductive jout := JElem (v : Z) | JTuple (t : list Z) | JComplete | JError.

(* ------------------------------------------------------------------------------------------ *)
(* fan-in: messages from the sub-pipeline sinks and from downstream                            *)
(* ------------------------------------------------------------------------------------------ *)
Inductive fmsg :=
| FReq (n : Z)                (* streamRequest from downstream *)
| FVal (slot : nat) (v : Z)   (* mergeSubValue *)
| FDone (slot : nat)          (* mergeSubDone *)
| FCancel.                    (* streamCancel *)

(* --- mergeSourceActor: one shared FIFO buffer. The slot tag kept with every buffered value is a
       ghost (the Go actor stores the bare value); it lets the theorems speak about per-source order *)
Record merge_st := {
  m_n : nat;                      (* len(subStages) *)
  m_buf : list (nat * Z);
  m_demand : Z;
  m_done : nat;                   (* doneCount *)
  m_alive : bool;
  m_out : list (nat * Z);         (* ghost: elements sent downstream, in order, with their source *)
  m_completed : nat }.            (* ghost: number of streamComplete sent *)

Definition merge_init (n : nat) : merge_st :=
  {| m_n := n; m_buf := []; m_demand := 0; m_done := 0; m_alive := negb (Nat.eqb n 0);
     m_out := []; m_completed := if Nat.eqb n 0 then 1%nat else 0%nat |}.

(* tryFlush *)
Definition merge_flush (s : merge_st) : merge_st * list jout :=
  let k := Nat.min (Z.to_nat (m_demand s)) (length (m_buf s)) in
  let out := firstn k (m_buf s) in
  let buf' := skipn k (m_buf s) in
  let fin := (m_n s <=? m_done s)%nat && (match buf' with [] => true | _ => false end) in
  ({| m_n := m_n s; m_buf := buf'; m_demand := m_demand s - Z.of_nat k; m_done := m_done s;
      m_alive := negb fin; m_out := m_out s ++ out;
      m_completed := (m_completed s + if fin then 1 else 0)%nat |},
   map (fun x => JElem (snd x)) out ++ (if fin then [JComplete] else [])).

Definition merge_recv (s : merge_st) (m : fmsg) : merge_st * list jout :=
  if negb (m_alive s) then (s, []) else
  match m with
  | FReq n => merge_flush {| m_n := m_n s; m_buf := m_buf s; m_demand := m_demand s + n; m_done := m_done s;
                             m_alive := m_alive s; m_out := m_out s; m_completed := m_completed s |}
  | FVal i v => merge_flush {| m_n := m_n s; m_buf := m_buf s ++ [(i, v)]; m_demand := m_demand s; m_done := m_done s;
                               m_alive := m_alive s; m_out := m_out s; m_completed := m_completed s |}
  | FDone _ => merge_flush {| m_n := m_n s; m_buf := m_buf s; m_demand := m_demand s; m_done := S (m_done s);
                              m_alive := m_alive s; m_out := m_out s; m_completed := m_completed s |}
  | FCancel => ({| m_n := m_n s; m_buf := m_buf s; m_demand := m_demand s; m_done := m_done s;
                   m_alive := false; m_out := m_out s; m_completed := S (m_completed s) |}, [JComplete])
  end.

(* --- concatSourceActor: sub-pipeline i+1 is spawned when sub-pipeline i reports done --- *)
Record concat_st := {
  c_n : nat;
  c_buf : list Z;
  c_demand : Z;
  c_current : nat;                (* number of sub-pipelines spawned so far (Go: current+1) *)
  c_done : bool;
  c_alive : bool;
  c_out : list Z;                 (* ghost *)
  c_completed : nat }.

Definition concat_init (n : nat) : concat_st :=
  {| c_n := n; c_buf := []; c_demand := 0; c_current := if Nat.eqb n 0 then 0%nat else 1%nat; c_done := false;
     c_alive := negb (Nat.eqb n 0); c_out := []; c_completed := if Nat.eqb n 0 then 1%nat else 0%nat |}.

Definition concat_flush (s : concat_st) : concat_st * list jout :=
  let k := Nat.min (Z.to_nat (c_demand s)) (length (c_buf s)) in
  let out := firstn k (c_buf s) in
  let buf' := skipn k (c_buf s) in
  let fin := c_done s && (match buf' with [] => true | _ => false end) in
  ({| c_n := c_n s; c_buf := buf'; c_demand := c_demand s - Z.of_nat k; c_current := c_current s;
      c_done := c_done s; c_alive := negb fin; c_out := c_out s ++ out;
      c_completed := (c_completed s + if fin then 1 else 0)%nat |},
   map JElem out ++ (if fin then [JComplete] else [])).

Definition concat_recv (s : concat_st) (m : fmsg) : concat_st * list jout :=
  if negb (c_alive s) then (s, []) else
  match m with
  | FReq n => concat_flush {| c_n := c_n s; c_buf := c_buf s; c_demand := c_demand s + n; c_current := c_current s;
                              c_done := c_done s; c_alive := c_alive s; c_out := c_out s; c_completed := c_completed s |}
  | FVal _ v => concat_flush {| c_n := c_n s; c_buf := c_buf s ++ [v]; c_demand := c_demand s; c_current := c_current s;
                                c_done := c_done s; c_alive := c_alive s; c_out := c_out s; c_completed := c_completed s |}
  | FDone _ =>
    if (c_current s <? c_n s)%nat
    then ({| c_n := c_n s; c_buf := c_buf s; c_demand := c_demand s; c_current := S (c_current s);
             c_done := c_done s; c_alive := c_alive s; c_out := c_out s; c_completed := c_completed s |}, [])
    else concat_flush {| c_n := c_n s; c_buf := c_buf s; c_demand := c_demand s; c_current := c_current s;
                         c_done := true; c_alive := c_alive s; c_out := c_out s; c_completed := c_completed s |}
  | FCancel => ({| c_n := c_n s; c_buf := c_buf s; c_demand := c_demand s; c_current := c_current s;
                   c_done := c_done s; c_alive := false; c_out := c_out s; c_completed := S (c_completed s) |}, [JComplete])
  end.

(* --- zipNSourceActor: one FIFO per slot --- *)
Record zip_st := {
  z_bufs : list (list Z);
  z_done : list bool;
  z_demand : Z;
  z_alive : bool;
  z_out : list (list Z);          (* ghost: tuples sent downstream *)
  z_completed : nat }.

Definition zip_init (n : nat) : zip_st :=
  {| z_bufs := repeat [] n; z_done := repeat false n; z_demand := 0; z_alive := negb (Nat.eqb n 0);
     z_out := []; z_completed := if Nat.eqb n 0 then 1%nat else 0%nat |}.

Definition all_ready (bufs : list (list Z)) : bool := forallb (fun b => match b with [] => false | _ => true end) bufs.
Definition heads (bufs : list (list Z)) : list Z := map (fun b => hd 0 b) bufs.
Definition tails (bufs : list (list Z)) : list (list Z) := map (@tl Z) bufs.

(* the emit loop of tryEmit *)
Fixpoint zip_emit (fuel : nat) (bufs : list (list Z)) (demand : Z) : list (list Z) * Z * list (list Z) :=
  match fuel with
  | O => (bufs, demand, [])
  | S f =>
    if (demand >? 0) && all_ready bufs
    then let '(b', d', out) := zip_emit f (tails bufs) (demand - 1) in (b', d', heads bufs :: out)
    else (bufs, demand, [])
  end.

Fixpoint some_exhausted (bufs : list (list Z)) (done : list bool) : bool :=
  match bufs, done with
  | b :: bs, d :: ds => (d && (match b with [] => true | _ => false end)) || some_exhausted bs ds
  | _, _ => false
  end.

Definition min_len (bufs : list (list Z)) : nat := fold_right (fun b m => Nat.min (length b) m) (length (hd [] bufs)) bufs.

Definition zip_try (s : zip_st) : zip_st * list jout :=
  let '(b', d', out) := zip_emit (S (min_len (z_bufs s))) (z_bufs s) (z_demand s) in
  let fin := some_exhausted b' (z_done s) in
  ({| z_bufs := b'; z_done := z_done s; z_demand := d'; z_alive := negb fin; z_out := z_out s ++ out;
      z_completed := (z_completed s + if fin then 1 else 0)%nat |},
   map JTuple out ++ (if fin then [JComplete] else [])).

Fixpoint upd {A} (l : list A) (i : nat) (f : A -> A) : list A :=
  match l, i with
  | [], _ => []
  | x :: r, O => f x :: r
  | x :: r, S j => x :: upd r j f
  end.

Definition zip_recv (s : zip_st) (m : fmsg) : zip_st * list jout :=
  if negb (z_alive s) then (s, []) else
  match m with
  | FReq n => zip_try {| z_bufs := z_bufs s; z_done := z_done s; z_demand := z_demand s + n; z_alive := z_alive s;
                         z_out := z_out s; z_completed := z_completed s |}
  | FVal i v => zip_try {| z_bufs := upd (z_bufs s) i (fun b => b ++ [v]); z_done := z_done s; z_demand := z_demand s;
                           z_alive := z_alive s; z_out := z_out s; z_completed := z_completed s |}
  | FDone i => zip_try {| z_bufs := z_bufs s; z_done := upd (z_done s) i (fun _ => true); z_demand := z_demand s;
                          z_alive := z_alive s; z_out := z_out s; z_completed := z_completed s |}
  | FCancel => ({| z_bufs := z_bufs s; z_done := z_done s; z_demand := z_demand s; z_alive := false;
                   z_out := z_out s; z_completed := S (z_completed s) |}, [JComplete])
  end.

(* --- the environment of a fan-in actor: what each sub-pipeline still has to deliver ---
   [Some l]: the sub-pipeline will deliver l (in order) and then report done; [None]: it has reported done.
   (The sub-pipeline sinks Tell from one goroutine each: FIFO per slot, any interleaving across slots.) *)
Definition feeds := list (option (list Z)).

Inductive feed_step : feeds -> fmsg -> feeds -> Prop :=
| fs_val : forall fs i v l, nth_error fs i = Some (Some (v :: l)) ->
    feed_step fs (FVal i v) (upd fs i (fun _ => Some l))
| fs_done : forall fs i, nth_error fs i = Some (Some []) ->
    feed_step fs (FDone i) (upd fs i (fun _ => None))
| fs_req : forall fs n, 0 < n -> feed_step fs (FReq n) fs.

(* reachable states of (environment, actor) for a handler [recv] *)
Section FanIn.
  Context {S : Type} (recv : S -> fmsg -> S * list jout).
  Inductive fan_reach (srcs : list (list Z)) (s0 : S) : feeds -> S -> Prop :=
  | fr_init : fan_reach srcs s0 (map Some srcs) s0
  | fr_step : forall fs s m fs', fan_reach srcs s0 fs s -> feed_step fs m fs' ->
      fan_reach srcs s0 fs' (fst (recv s m)).
End FanIn.

(* Concat spawns sub-pipeline i+1 only when sub-pipeline i has reported done, so its feeds are strictly
   sequential: the environment is the list of segments still to be delivered; only the first one (the
   sub-pipeline spawned last) is active. The slot number carried by the messages is ignored by the actor. *)
Inductive cfeed_step : list (list Z) -> fmsg -> list (list Z) -> Prop :=
| cfs_val : forall i v l r, cfeed_step ((v :: l) :: r) (FVal i v) (l :: r)
| cfs_done : forall i r, cfeed_step ([] :: r) (FDone i) r
| cfs_req : forall segs n, 0 < n -> cfeed_step segs (FReq n) segs.

Inductive concat_reach (srcs : list (list Z)) : list (list Z) -> concat_st -> Prop :=
| cr_init : concat_reach srcs srcs (concat_init (length srcs))
| cr_step : forall segs s m segs', concat_reach srcs segs s -> cfeed_step segs m segs' ->
    concat_reach srcs segs' (fst (concat_recv s m)).

(* ------------------------------------------------------------------------------------------ *)
(* fan-out hubs                                                                                *)
(* ------------------------------------------------------------------------------------------ *)
Inductive hmsg :=
| HDemand (slot : nat) (n : Z)   (* slotDemand *)
| HElem (v : Z)                  (* streamElement from the upstream sub-pipeline *)
| HComplete                      (* streamComplete from upstream *)
| HError                         (* streamError from upstream *)
| HCancel (slot : nat).          (* slotCancel *)

(* what the hub sends: to a slot, or a request to its upstream *)
Inductive hout := HToSlot (slot : nat) (m : jout) | HPull (n : Z) | HCancelUp.

Inductive hkind := Broadcast | Balance | Partition (m : Z).   (* Partition routes v to slot (v mod m) - out of range when m > n *)

Record hub_st := {
  h_n : nat;
  h_active : list bool;            (* slots[i] != nil *)
  h_demand : list Z;
  h_pending : Z;
  h_cancelled : nat;
  h_next : nat;                    (* balance: nextSlot *)
  h_alive : bool;
  h_routed : list (nat * Z);       (* ghost: (slot, element) in the order sent *)
  h_dropped : list Z }.            (* ghost: elements sent to nobody *)

Definition hub_init (n : nat) : hub_st :=
  {| h_n := n; h_active := repeat true n; h_demand := repeat 0 n; h_pending := 0; h_cancelled := 0; h_next := 0;
     h_alive := true; h_routed := []; h_dropped := [] |}.

Fixpoint min_demand_aux (act : list bool) (dem : list Z) (res : Z) : Z :=
  match act, dem with
  | a :: act', d :: dem' =>
    if a then min_demand_aux act' dem' (if (res <? 0) || (d <? res) then d else res)
    else min_demand_aux act' dem' res
  | _, _ => res
  end.
Definition min_demand (s : hub_st) : Z :=
  let r := min_demand_aux (h_active s) (h_demand s) (-1) in if r <=? 0 then 0 else r.

Fixpoint total_demand_aux (act : list bool) (dem : list Z) : Z :=
  match act, dem with
  | a :: act', d :: dem' => (if a then d else 0) + total_demand_aux act' dem'
  | _, _ => 0
  end.
Definition total_demand (s : hub_st) : Z := total_demand_aux (h_active s) (h_demand s).

Definition set_hub (s : hub_st) act dem pend canc next alive routed dropped : hub_st :=
  {| h_n := h_n s; h_active := act; h_demand := dem; h_pending := pend; h_cancelled := canc; h_next := next;
     h_alive := alive; h_routed := routed; h_dropped := dropped |}.

(* maybePull *)
Definition hub_pull (k : hkind) (s : hub_st) : hub_st * list hout :=
  if h_pending s >? 0 then (s, []) else
  let m := match k with Balance => total_demand s | _ => min_demand s end in
  if m <=? 0 then (s, []) else
  (set_hub s (h_active s) (h_demand s) m (h_cancelled s) (h_next s) (h_alive s) (h_routed s) (h_dropped s), [HPull m]).

(* balance: first slot from nextSlot on (cyclically) that is active and has demand *)
Fixpoint choose (fuel : nat) (n : nat) (start : nat) (act : list bool) (dem : list Z) : option nat :=
  match fuel with
  | O => None
  | S f =>
    let idx := (start mod n)%nat in
    if nth idx act false && (nth idx dem 0 >? 0) then Some idx else choose f n (S start) act dem
  end.

Definition active_slots (s : hub_st) : list nat :=
  filter (fun i => nth i (h_active s) false) (seq 0 (h_n s)).

Definition hub_recv (k : hkind) (s : hub_st) (m : hmsg) : hub_st * list hout :=
  if negb (h_alive s) then (s, []) else
  match m with
  | HDemand i n =>
    hub_pull k (set_hub s (h_active s) (upd (h_demand s) i (fun d => d + n)) (h_pending s) (h_cancelled s)
                        (h_next s) (h_alive s) (h_routed s) (h_dropped s))
  | HElem v =>
    match k with
    | Broadcast =>
      let tgt := active_slots s in
      let dem' := fold_left (fun d i => upd d i (fun x => x - 1)) tgt (h_demand s) in
      let '(s', o) := hub_pull k (set_hub s (h_active s) dem' (h_pending s - 1) (h_cancelled s) (h_next s) (h_alive s)
                                          (h_routed s ++ map (fun i => (i, v)) tgt)
                                          (match tgt with [] => h_dropped s ++ [v] | _ => h_dropped s end)) in
      (s', map (fun i => HToSlot i (JElem v)) tgt ++ o)
    | Balance =>
      match choose (h_n s) (h_n s) (h_next s) (h_active s) (h_demand s) with
      | Some c =>
        let '(s', o) := hub_pull k (set_hub s (h_active s) (upd (h_demand s) c (fun x => x - 1)) (h_pending s - 1)
                                            (h_cancelled s) ((c + 1) mod h_n s)%nat (h_alive s)
                                            (h_routed s ++ [(c, v)]) (h_dropped s)) in
        (s', HToSlot c (JElem v) :: o)
      | None =>
        hub_pull k (set_hub s (h_active s) (h_demand s) (h_pending s - 1) (h_cancelled s) (h_next s) (h_alive s)
                            (h_routed s) (h_dropped s ++ [v]))
      end
    | Partition md =>
      let slot := v mod md in
      if (0 <=? slot) && (slot <? Z.of_nat (h_n s)) && nth (Z.to_nat slot) (h_active s) false then
        let c := Z.to_nat slot in
        let '(s', o) := hub_pull k (set_hub s (h_active s) (upd (h_demand s) c (fun x => x - 1)) (h_pending s - 1)
                                            (h_cancelled s) (h_next s) (h_alive s)
                                            (h_routed s ++ [(c, v)]) (h_dropped s)) in
        (s', HToSlot c (JElem v) :: o)
      else
        hub_pull k (set_hub s (h_active s) (h_demand s) (h_pending s - 1) (h_cancelled s) (h_next s) (h_alive s)
                            (h_routed s) (h_dropped s ++ [v]))
    end
  | HComplete =>
    (set_hub s (h_active s) (h_demand s) (h_pending s) (h_cancelled s) (h_next s) false (h_routed s) (h_dropped s),
     map (fun i => HToSlot i JComplete) (active_slots s))
  | HError =>
    (set_hub s (h_active s) (h_demand s) (h_pending s) (h_cancelled s) (h_next s) false (h_routed s) (h_dropped s),
     map (fun i => HToSlot i JError) (active_slots s))
  | HCancel i =>
    let act' := upd (h_active s) i (fun _ => false) in
    let canc := S (h_cancelled s) in
    if (h_n s <=? canc)%nat
    then (set_hub s act' (h_demand s) (h_pending s) canc (h_next s) false (h_routed s) (h_dropped s), [HCancelUp])
    else hub_pull k (set_hub s act' (h_demand s) (h_pending s) canc (h_next s) (h_alive s) (h_routed s) (h_dropped s))
  end.

(* --- the environment of a hub: a demand-respecting upstream pipeline over [input], and branch slots that
       signal positive demand at any time (no branch cancels) --- *)
Record henv := { e_rest : list Z;      (* what the upstream source still has *)
                 e_granted : Z;        (* requested by the hub, not yet delivered *)
                 e_completed : bool }.

Inductive hub_step (k : hkind) : henv * hub_st -> henv * hub_st -> Prop :=
| hs_demand : forall e s i n, (i < h_n s)%nat -> 0 < n ->
    hub_step k (e, s) (let '(s', o) := hub_recv k s (HDemand i n) in
                       ({| e_rest := e_rest e;
                           e_granted := e_granted e + fold_right (fun x a => match x with HPull m => m + a | _ => a end) 0 o;
                           e_completed := e_completed e |}, s'))
| hs_elem : forall e s v r, e_rest e = v :: r -> 0 < e_granted e -> e_completed e = false ->
    hub_step k (e, s) (let '(s', o) := hub_recv k s (HElem v) in
                       ({| e_rest := r;
                           e_granted := e_granted e - 1 + fold_right (fun x a => match x with HPull m => m + a | _ => a end) 0 o;
                           e_completed := false |}, s'))
| hs_complete : forall e s, e_rest e = [] -> e_completed e = false ->
    hub_step k (e, s) ({| e_rest := []; e_granted := e_granted e; e_completed := true |}, fst (hub_recv k s HComplete)).

Inductive hub_reach (k : hkind) (n : nat) (input : list Z) : henv * hub_st -> Prop :=
| hr_init : hub_reach k n input ({| e_rest := input; e_granted := 0; e_completed := false |}, hub_init n)
| hr_step : forall x y, hub_reach k n input x -> hub_step k x y -> hub_reach k n input y.

(* ------------------------------------------------------------------------------------------ *)
(* specifications as list functions (used by the black-box tie)                                *)
(* ------------------------------------------------------------------------------------------ *)
Definition proj (i : nat) (l : list (nat * Z)) : list Z := map snd (filter (fun x => Nat.eqb (fst x) i) l).

Fixpoint zip_spec (fuel : nat) (srcs : list (list Z)) : list (list Z) :=
  match fuel with
  | O => []
  | S f => if all_ready srcs then heads srcs :: zip_spec f (tails srcs) else []
  end.
