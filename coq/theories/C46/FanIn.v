(* C46 — Merge, Concat, Zip: invariants over every interleaving of the sub-pipeline feeds. *)
From Coq Require Import ZArith List Bool Lia.
From GV Require Import C46.Model.
Import ListNotations.
Open Scope Z_scope.

Definition prefix {A} (a b : list A) : Prop := exists c, b = a ++ c.

(* ---------- list helpers ---------- *)
Lemma upd_length {A} (l : list A) i f : length (upd l i f) = length l.
Proof. revert i. induction l as [|x r IH]; intros [|i]; simpl; auto. Qed.

Lemma nth_error_upd_same {A} (l : list A) i f x : nth_error l i = Some x -> nth_error (upd l i f) i = Some (f x).
Proof.
  revert i. induction l as [|y r IH]; intros [|i] H; simpl in *; try discriminate.
  - inversion H; reflexivity.
  - apply IH; exact H.
Qed.

Lemma nth_error_upd_other {A} (l : list A) i j f : i <> j -> nth_error (upd l i f) j = nth_error l j.
Proof.
  revert i j. induction l as [|y r IH]; intros [|i] [|j] H; simpl; auto; try congruence;
    try (apply IH; congruence).
Qed.

Lemma nth_upd_same {A} (l : list A) i f d : (i < length l)%nat -> nth i (upd l i f) d = f (nth i l d).
Proof. revert i. induction l as [|y r IH]; intros [|i] H; simpl in *; try lia; auto; try (apply IH; lia). Qed.

Lemma nth_upd_other {A} (l : list A) i j f d : i <> j -> nth j (upd l i f) d = nth j l d.
Proof.
  revert i j. induction l as [|y r IH]; intros [|i] [|j] H; simpl; auto; try congruence;
    try (apply IH; congruence).
Qed.

Lemma proj_app i a b : proj i (a ++ b) = proj i a ++ proj i b.
Proof. unfold proj. now rewrite filter_app, map_app. Qed.

(* ---------- Merge ---------- *)
Definition rest_of (fs : feeds) (i : nat) : list Z :=
  match nth_error fs i with Some (Some l) => l | _ => [] end.
Definition count_none (fs : feeds) : nat := length (filter (fun o => match o with None => true | Some _ => false end) fs).

Lemma filter_length_le {A} (f : A -> bool) l : (length (filter f l) <= length l)%nat.
Proof. induction l as [|x r IH]; simpl; [lia|]. destruct (f x); simpl; lia. Qed.

Lemma count_none_le fs : (count_none fs <= length fs)%nat.
Proof. unfold count_none. apply filter_length_le. Qed.

Lemma count_none_all fs : count_none fs = length fs -> forall i, rest_of fs i = [].
Proof.
  unfold count_none, rest_of. induction fs as [|o r IH]; intros H i; [destruct i; reflexivity|].
  simpl in H. destruct o as [l|].
  - pose proof (filter_length_le (fun o => match o with None => true | Some _ => false end) r). simpl in H. lia.
  - destruct i; simpl; [reflexivity|]. apply IH. simpl in H. lia.
Qed.

Lemma count_none_upd_some fs i l l' : nth_error fs i = Some (Some l) ->
  count_none (upd fs i (fun _ => Some l')) = count_none fs.
Proof.
  unfold count_none. revert i. induction fs as [|o r IH]; intros [|i] H; simpl in *; try discriminate.
  - inversion H; subst. reflexivity.
  - destruct o; simpl; rewrite (IH _ H); reflexivity.
Qed.

Lemma count_none_upd_none fs i l : nth_error fs i = Some (Some l) ->
  count_none (upd fs i (fun _ => None)) = S (count_none fs).
Proof.
  unfold count_none. revert i. induction fs as [|o r IH]; intros [|i] H; simpl in *; try discriminate.
  - inversion H; subst. reflexivity.
  - destruct o; simpl; rewrite (IH _ H); reflexivity.
Qed.

Definition MInv (srcs : list (list Z)) (fs : feeds) (s : merge_st) : Prop :=
  let n := length srcs in
  length fs = n /\ m_n s = n /\
  Forall (fun x => (fst x < n)%nat) (m_out s ++ m_buf s) /\
  (m_alive s = true -> m_completed s = O /\ m_done s = count_none fs /\
     forall i, (i < n)%nat -> proj i (m_out s ++ m_buf s) ++ rest_of fs i = nth i srcs []) /\
  (m_alive s = false -> m_completed s = 1%nat /\ forall i, (i < n)%nat -> proj i (m_out s) = nth i srcs []).

Lemma rest_of_init srcs i : (i < length srcs)%nat -> rest_of (map Some srcs) i = nth i srcs [].
Proof.
  unfold rest_of. revert i. induction srcs as [|x r IH]; intros [|i] H; simpl in *; try lia; auto. apply IH. lia.
Qed.

Lemma merge_init_inv srcs : MInv srcs (map Some srcs) (merge_init (length srcs)).
Proof.
  unfold MInv. rewrite map_length. split; [reflexivity|]. split; [reflexivity|]. simpl.
  split; [constructor|]. destruct srcs as [|x r]; simpl.
  - split; [discriminate|]. intros _. split; [reflexivity|]. intros i H. lia.
  - split; [|discriminate]. intros _. split; [reflexivity|]. split.
    + unfold count_none. simpl. induction r; simpl; auto.
    + intros i H. apply (rest_of_init (x :: r)). exact H.
Qed.

(* tryFlush keeps out ++ buf and completes only when everything is done and delivered *)
Lemma merge_flush_inv srcs fs s :
  let n := length srcs in
  length fs = n -> m_n s = n -> m_completed s = O ->
  Forall (fun x => (fst x < n)%nat) (m_out s ++ m_buf s) ->
  m_done s = count_none fs ->
  (forall i, (i < n)%nat -> proj i (m_out s ++ m_buf s) ++ rest_of fs i = nth i srcs []) ->
  MInv srcs fs (fst (merge_flush s)).
Proof.
  intros n Hl Hn Hc Ht Hd Hp. unfold merge_flush. simpl.
  set (k := Nat.min (Z.to_nat (m_demand s)) (length (m_buf s))).
  assert (Hsplit : (m_out s ++ firstn k (m_buf s)) ++ skipn k (m_buf s) = m_out s ++ m_buf s)
    by (rewrite <- app_assoc, firstn_skipn; reflexivity).
  unfold MInv. simpl. fold n. split; [exact Hl|]. split; [exact Hn|].
  split; [rewrite Hsplit; exact Ht|].
  destruct ((m_n s <=? m_done s)%nat && match skipn k (m_buf s) with [] => true | _ => false end) eqn:Hfin; simpl.
  - apply andb_prop in Hfin. destruct Hfin as [Hge Hnil]. apply Nat.leb_le in Hge.
    split; [discriminate|]. intros _. split; [lia|]. intros i Hi.
    destruct (skipn k (m_buf s)) eqn:Hs; [|discriminate].
    assert (Hall : count_none fs = length fs) by (pose proof (count_none_le fs); lia).
    specialize (Hp i Hi). rewrite (count_none_all fs Hall i), app_nil_r in Hp.
    rewrite <- Hp, <- Hsplit, app_nil_r. reflexivity.
  - split; [|discriminate]. intros _. split; [lia|]. split; [exact Hd|]. rewrite Hsplit. exact Hp.
Qed.

Lemma merge_step_inv srcs fs s m fs' :
  MInv srcs fs s -> feed_step fs m fs' -> MInv srcs fs' (fst (merge_recv s m)).
Proof.
  intros [Hl [Hn [Ht [Ha Hd]]]] Hs. unfold merge_recv.
  assert (Hl' : length fs' = length srcs) by (inversion Hs; subst; rewrite ?upd_length; exact Hl).
  destruct (m_alive s) eqn:Alive; simpl.
  - destruct (Ha eq_refl) as [Hc [Hdn Hp]]. inversion Hs; subst.
    + (* value from slot i *)
      assert (Hi : (i < length srcs)%nat) by (rewrite <- Hl; apply nth_error_Some; congruence).
      apply merge_flush_inv; simpl; auto.
      * rewrite app_assoc. apply Forall_app. split; [exact Ht|]. constructor; [exact Hi|constructor].
      * rewrite Hdn. symmetry. eapply count_none_upd_some; eauto.
      * intros j Hj. rewrite app_assoc, proj_app. specialize (Hp j Hj).
        destruct (Nat.eq_dec i j) as [<-|Hne].
        -- unfold rest_of in *. rewrite (nth_error_upd_same _ _ _ _ H). rewrite H in Hp.
           unfold proj at 2. simpl. rewrite Nat.eqb_refl. simpl. rewrite <- app_assoc. exact Hp.
        -- unfold rest_of in *. rewrite (nth_error_upd_other _ _ _ _ Hne).
           unfold proj at 2. simpl. replace (i =? j)%nat with false by (symmetry; apply Nat.eqb_neq; exact Hne).
           simpl. rewrite app_nil_r. exact Hp.
    + (* slot i done *)
      apply merge_flush_inv; simpl; auto.
      * rewrite Hdn. symmetry. eapply count_none_upd_none; eauto.
      * intros j Hj. specialize (Hp j Hj). unfold rest_of in *.
        destruct (Nat.eq_dec i j) as [<-|Hne].
        -- rewrite (nth_error_upd_same _ _ _ _ H). rewrite H in Hp. exact Hp.
        -- rewrite (nth_error_upd_other _ _ _ _ Hne). exact Hp.
    + (* demand *)
      apply merge_flush_inv; simpl; auto.
  - (* a stopped actor ignores everything *)
    unfold MInv. split; [exact Hl'|]. split; [exact Hn|]. split; [exact Ht|].
    split; [intros F; congruence|intros _; apply Hd; reflexivity].
Qed.

Theorem merge_reach_inv srcs fs s :
  fan_reach merge_recv srcs (merge_init (length srcs)) fs s -> MInv srcs fs s.
Proof. induction 1; [apply merge_init_inv|eapply merge_step_inv; eauto]. Qed.

(* the statement exported: at any time every source's delivered elements are a prefix of that source, every
   delivered element belongs to one of the sources, completion is signalled at most once, and when it is,
   every source has been delivered completely and in its own order *)
Theorem merge_spec srcs fs s :
  fan_reach merge_recv srcs (merge_init (length srcs)) fs s ->
  (m_completed s <= 1)%nat /\
  Forall (fun x => (fst x < length srcs)%nat) (m_out s) /\
  (forall i, (i < length srcs)%nat -> prefix (proj i (m_out s)) (nth i srcs [])) /\
  (m_completed s = 1%nat -> forall i, (i < length srcs)%nat -> proj i (m_out s) = nth i srcs []).
Proof.
  intros R. destruct (merge_reach_inv _ _ _ R) as [Hl [Hn [Ht [Ha Hd]]]].
  apply Forall_app in Ht. destruct Ht as [Ht _].
  destruct (m_alive s) eqn:Alive.
  - destruct (Ha eq_refl) as [Hc [_ Hp]]. split; [lia|]. split; [exact Ht|]. split.
    + intros i Hi. specialize (Hp i Hi). rewrite proj_app, <- app_assoc in Hp. eexists. symmetry. exact Hp.
    + intros F. congruence.
  - destruct (Hd eq_refl) as [Hc Hp]. split; [lia|]. split; [exact Ht|]. split.
    + intros i Hi. exists []. rewrite app_nil_r. symmetry. apply Hp. exact Hi.
    + intros _. exact Hp.
Qed.

(* ---------- Concat ---------- *)
Definition CInv (srcs segs : list (list Z)) (s : concat_st) : Prop :=
  let n := length srcs in
  c_n s = n /\
  (c_alive s = true -> c_completed s = O /\ c_out s ++ c_buf s ++ concat segs = concat srcs /\
     (c_done s = false -> (c_current s + length segs = n + 1)%nat /\ (1 <= c_current s)%nat) /\
     (c_done s = true -> segs = [])) /\
  (c_alive s = false -> c_completed s = 1%nat /\ c_out s = concat srcs).

Lemma concat_init_inv srcs : CInv srcs srcs (concat_init (length srcs)).
Proof.
  unfold CInv, concat_init. destruct srcs as [|x r]; simpl.
  - split; [reflexivity|]. split; [discriminate|]. auto.
  - split; [reflexivity|]. split; [|discriminate]. intros _. split; [reflexivity|]. split; [reflexivity|].
    split; [intros _; lia|discriminate].
Qed.

Lemma concat_flush_inv srcs segs s :
  c_n s = length srcs -> c_completed s = O ->
  c_out s ++ c_buf s ++ concat segs = concat srcs ->
  (c_done s = false -> (c_current s + length segs = length srcs + 1)%nat /\ (1 <= c_current s)%nat) ->
  (c_done s = true -> segs = []) ->
  CInv srcs segs (fst (concat_flush s)).
Proof.
  intros Hn Hc He Hd Hdt. unfold concat_flush. simpl.
  set (k := Nat.min (Z.to_nat (c_demand s)) (length (c_buf s))).
  assert (Hsplit : (c_out s ++ firstn k (c_buf s)) ++ skipn k (c_buf s) ++ concat segs = concat srcs).
  { rewrite <- app_assoc, (app_assoc (firstn k (c_buf s))), firstn_skipn. exact He. }
  unfold CInv. simpl. split; [exact Hn|].
  destruct (c_done s && match skipn k (c_buf s) with [] => true | _ => false end) eqn:Hfin; simpl.
  - apply andb_prop in Hfin. destruct Hfin as [Hdone Hnil].
    split; [discriminate|]. intros _. split; [lia|].
    destruct (skipn k (c_buf s)); [|discriminate]. rewrite (Hdt Hdone) in Hsplit. simpl in Hsplit.
    rewrite app_nil_r in Hsplit. exact Hsplit.
  - split; [|discriminate]. intros _. split; [lia|]. split; [exact Hsplit|]. split; assumption.
Qed.

Lemma concat_step_inv srcs segs s m segs' :
  CInv srcs segs s -> cfeed_step segs m segs' -> CInv srcs segs' (fst (concat_recv s m)).
Proof.
  intros [Hn [Ha Hd]] Hs. unfold concat_recv. destruct (c_alive s) eqn:Alive; simpl.
  - destruct (Ha eq_refl) as [Hc [He [Hnd Hdt]]]. inversion Hs; subst.
    + (* value *)
      apply concat_flush_inv; simpl.
      * exact Hn.
      * exact Hc.
      * rewrite <- He. simpl. rewrite <- !app_assoc. reflexivity.
      * intros F. destruct (Hnd F) as [H1 H2]. simpl in *. split; lia.
      * intros F. specialize (Hdt F). discriminate.
    + (* the active sub-pipeline is done *)
      destruct (c_done s) eqn:Hdone; [specialize (Hdt eq_refl); discriminate|].
      destruct (Hnd eq_refl) as [H1 H2]. simpl in H1.
      destruct (Nat.ltb_spec (c_current s) (c_n s)) as [Hlt|Hge]; cbv iota.
      * unfold CInv. simpl. split; [exact Hn|]. split; [|discriminate].
        intros _. split; [exact Hc|]. split; [exact He|]. split; [intros _; lia|discriminate].
      * apply concat_flush_inv; simpl.
        -- exact Hn.
        -- exact Hc.
        -- exact He.
        -- discriminate.
        -- intros _. destruct segs' as [|x r]; [reflexivity|]. simpl in H1. lia.
    + (* demand *)
      apply concat_flush_inv; simpl; assumption.
  - unfold CInv. split; [exact Hn|]. split; [intros F; congruence|intros _; apply Hd; reflexivity].
Qed.

Theorem concat_reach_inv srcs segs s : concat_reach srcs segs s -> CInv srcs segs s.
Proof. induction 1; [apply concat_init_inv|eapply concat_step_inv; eauto]. Qed.

Theorem concat_spec srcs segs s : concat_reach srcs segs s ->
  (c_completed s <= 1)%nat /\ prefix (c_out s) (concat srcs) /\
  (c_completed s = 1%nat -> c_out s = concat srcs).
Proof.
  intros R. destruct (concat_reach_inv _ _ _ R) as [Hn [Ha Hd]]. destruct (c_alive s) eqn:Alive.
  - destruct (Ha eq_refl) as [Hc [He _]]. split; [lia|]. split; [eexists; symmetry; exact He|]. intros F; congruence.
  - destruct (Hd eq_refl) as [Hc He]. split; [lia|]. split; [exists []; rewrite app_nil_r; auto|auto].
Qed.

(* ---------- Zip ---------- *)
Definition col (i : nat) (out : list (list Z)) : list Z := map (fun t => nth i t 0) out.

Lemma col_nth i out : forall k, nth k (col i out) 0 = nth i (nth k out []) 0.
Proof.
  induction out as [|t r IH]; intros [|k]; simpl; auto; destruct i; reflexivity.
Qed.

Lemma all_ready_nth bufs i : all_ready bufs = true -> (i < length bufs)%nat ->
  nth i bufs [] = nth i (heads bufs) 0 :: nth i (tails bufs) [].
Proof.
  unfold all_ready, heads, tails. revert i. induction bufs as [|b r IH]; intros i H Hi; simpl in *; [lia|].
  apply andb_prop in H. destruct H as [Hb Hr]. destruct i.
  - destruct b; [discriminate|reflexivity].
  - apply IH; [exact Hr|lia].
Qed.

Lemma heads_length bufs : length (heads bufs) = length bufs.
Proof. unfold heads. apply map_length. Qed.
Lemma tails_length bufs : length (tails bufs) = length bufs.
Proof. unfold tails. apply map_length. Qed.

Lemma zip_emit_spec : forall fuel bufs d b' d' out, zip_emit fuel bufs d = (b', d', out) ->
  length b' = length bufs /\ Forall (fun t => length t = length bufs) out /\
  forall i, (i < length bufs)%nat -> col i out ++ nth i b' [] = nth i bufs [].
Proof.
  induction fuel as [|f IH]; intros bufs d b' d' out H; simpl in H.
  - inversion H; subst. split; [reflexivity|]. split; [constructor|]. intros; reflexivity.
  - destruct ((d >? 0) && all_ready bufs) eqn:Hc.
    + destruct (zip_emit f (tails bufs) (d - 1)) as [[b1 d1] o1] eqn:Hr. inversion H; subst; clear H.
      apply andb_prop in Hc. destruct Hc as [_ Hrdy].
      destruct (IH _ _ _ _ _ Hr) as [I1 [I2 I3]]. rewrite tails_length in *.
      split; [exact I1|]. split; [constructor; [apply heads_length|exact I2]|].
      intros i Hi. simpl. rewrite (I3 i Hi). symmetry. apply all_ready_nth; assumption.
    + inversion H; subst. split; [reflexivity|]. split; [constructor|]. intros; reflexivity.
Qed.

Lemma some_exhausted_spec bufs done : some_exhausted bufs done = true ->
  exists j, (j < length bufs)%nat /\ nth j done false = true /\ nth j bufs [] = [].
Proof.
  revert done. induction bufs as [|b r IH]; intros [|d ds] H; simpl in H; try discriminate.
  apply orb_prop in H. destruct H as [H|H].
  - apply andb_prop in H. destruct H as [Hd Hb]. exists O. simpl. split; [lia|]. split; [exact Hd|].
    destruct b; [reflexivity|discriminate].
  - destruct (IH _ H) as [j [Hj [H1 H2]]]. exists (S j). simpl. split; [lia|auto].
Qed.

Definition ZInv (srcs : list (list Z)) (fs : feeds) (s : zip_st) : Prop :=
  let n := length srcs in
  length fs = n /\ Forall (fun t => length t = n) (z_out s) /\
  (z_alive s = true -> z_completed s = O /\ length (z_bufs s) = n /\ length (z_done s) = n /\
     (forall i, (i < n)%nat -> col i (z_out s) ++ nth i (z_bufs s) [] ++ rest_of fs i = nth i srcs []) /\
     (forall i, (i < n)%nat -> nth i (z_done s) false = true -> rest_of fs i = [])) /\
  (z_alive s = false -> z_completed s = 1%nat /\
     (forall i, (i < n)%nat -> prefix (col i (z_out s)) (nth i srcs [])) /\
     (n = O \/ exists j, (j < n)%nat /\ col j (z_out s) = nth j srcs [])).

Lemma nth_repeat {A} (x : A) n i d : (i < n)%nat -> nth i (repeat x n) d = x.
Proof. revert i. induction n; intros [|i] H; simpl; try lia; auto. apply IHn. lia. Qed.

Lemma zip_init_inv srcs : ZInv srcs (map Some srcs) (zip_init (length srcs)).
Proof.
  unfold ZInv, zip_init. rewrite map_length. split; [reflexivity|]. simpl. split; [constructor|].
  destruct srcs as [|x r] eqn:E.
  - simpl. split; [discriminate|]. intros _. split; [reflexivity|]. split; [intros; lia|left; reflexivity].
  - rewrite <- E. assert (Hn : (length srcs =? 0)%nat = false) by (subst; reflexivity). rewrite Hn. simpl.
    split; [|discriminate]. intros _. split; [reflexivity|]. rewrite !repeat_length. split; [reflexivity|]. split; [reflexivity|].
    split.
    + intros i Hi. rewrite nth_repeat by exact Hi. simpl. apply rest_of_init. exact Hi.
    + intros i Hi. rewrite nth_repeat by exact Hi. discriminate.
Qed.

Lemma zip_try_inv srcs fs s :
  let n := length srcs in
  length fs = n -> Forall (fun t => length t = n) (z_out s) -> z_completed s = O ->
  length (z_bufs s) = n -> length (z_done s) = n ->
  (forall i, (i < n)%nat -> col i (z_out s) ++ nth i (z_bufs s) [] ++ rest_of fs i = nth i srcs []) ->
  (forall i, (i < n)%nat -> nth i (z_done s) false = true -> rest_of fs i = []) ->
  ZInv srcs fs (fst (zip_try s)).
Proof.
  intros n Hl Ht Hc Hb Hdl Hp Hdn. unfold zip_try.
  destruct (zip_emit (S (min_len (z_bufs s))) (z_bufs s) (z_demand s)) as [[b' d'] out] eqn:He. simpl.
  destruct (zip_emit_spec _ _ _ _ _ _ He) as [E1 [E2 E3]]. rewrite Hb in *.
  assert (Hcol : forall i, (i < n)%nat -> col i (z_out s ++ out) ++ nth i b' [] ++ rest_of fs i = nth i srcs []).
  { intros i Hi. unfold col. rewrite map_app, <- app_assoc. fold (col i out). fold (col i (z_out s)).
    rewrite (app_assoc (col i out)), (E3 i Hi). apply Hp. exact Hi. }
  unfold ZInv. simpl. fold n. split; [exact Hl|]. split; [apply Forall_app; split; assumption|].
  destruct (some_exhausted b' (z_done s)) eqn:Hfin; simpl.
  - split; [discriminate|]. intros _. split; [lia|]. split.
    + intros i Hi. eexists. symmetry. apply Hcol. exact Hi.
    + right. destruct (some_exhausted_spec _ _ Hfin) as [j [Hj [H1 H2]]]. rewrite E1 in Hj. exists j. split; [exact Hj|].
      specialize (Hcol j Hj). rewrite H2, (Hdn j Hj H1), !app_nil_r in Hcol. exact Hcol.
  - split; [|discriminate]. intros _. split; [lia|]. split; [exact E1|]. split; [exact Hdl|]. split; assumption.
Qed.

Lemma zip_step_inv srcs fs s m fs' :
  ZInv srcs fs s -> feed_step fs m fs' -> ZInv srcs fs' (fst (zip_recv s m)).
Proof.
  intros [Hl [Ht [Ha Hd]]] Hs. unfold zip_recv.
  assert (Hl' : length fs' = length srcs) by (inversion Hs; subst; rewrite ?upd_length; exact Hl).
  destruct (z_alive s) eqn:Alive; simpl.
  - destruct (Ha eq_refl) as [Hc [Hb [Hdl [Hp Hdn]]]]. inversion Hs; subst.
    + (* value from slot i *)
      assert (Hi : (i < length srcs)%nat) by (rewrite <- Hl; apply nth_error_Some; congruence).
      apply zip_try_inv; simpl; auto.
      * rewrite upd_length. exact Hb.
      * intros j Hj. specialize (Hp j Hj). unfold rest_of in *.
        destruct (Nat.eq_dec i j) as [<-|Hne].
        -- rewrite (nth_error_upd_same _ _ _ _ H), nth_upd_same by lia. rewrite H in Hp.
           rewrite <- app_assoc. exact Hp.
        -- rewrite (nth_error_upd_other _ _ _ _ Hne), nth_upd_other by exact Hne. exact Hp.
      * intros j Hj Hdj. specialize (Hdn j Hj Hdj). unfold rest_of in *.
        destruct (Nat.eq_dec i j) as [<-|Hne].
        -- rewrite H in Hdn. discriminate.
        -- rewrite (nth_error_upd_other _ _ _ _ Hne). exact Hdn.
    + (* slot i done *)
      assert (Hi : (i < length srcs)%nat) by (rewrite <- Hl; apply nth_error_Some; congruence).
      apply zip_try_inv; simpl; auto.
      * rewrite upd_length. exact Hdl.
      * intros j Hj. specialize (Hp j Hj). unfold rest_of in *.
        destruct (Nat.eq_dec i j) as [<-|Hne].
        -- rewrite (nth_error_upd_same _ _ _ _ H). rewrite H in Hp. exact Hp.
        -- rewrite (nth_error_upd_other _ _ _ _ Hne). exact Hp.
      * intros j Hj Hdj. unfold rest_of in *.
        destruct (Nat.eq_dec i j) as [<-|Hne].
        -- rewrite (nth_error_upd_same _ _ _ _ H). reflexivity.
        -- rewrite (nth_error_upd_other _ _ _ _ Hne). rewrite nth_upd_other in Hdj by exact Hne. apply Hdn; assumption.
    + apply zip_try_inv; simpl; auto.
  - unfold ZInv. split; [exact Hl'|]. split; [exact Ht|]. split; [intros F; congruence|intros _; apply Hd; reflexivity].
Qed.

Theorem zip_reach_inv srcs fs s :
  fan_reach zip_recv srcs (zip_init (length srcs)) fs s -> ZInv srcs fs s.
Proof. induction 1; [apply zip_init_inv|eapply zip_step_inv; eauto]. Qed.

(* positional statement: tuple k holds the k-th element of every source; at completion the number of tuples
   is the length of the shortest source *)
Theorem zip_spec_thm srcs fs s :
  fan_reach zip_recv srcs (zip_init (length srcs)) fs s ->
  let n := length srcs in
  (z_completed s <= 1)%nat /\
  Forall (fun t => length t = n) (z_out s) /\
  (forall i k, (i < n)%nat -> (k < length (z_out s))%nat ->
      nth i (nth k (z_out s) []) 0 = nth k (nth i srcs []) 0) /\
  (forall i, (i < n)%nat -> (length (z_out s) <= length (nth i srcs []))%nat) /\
  (z_completed s = 1%nat -> n = O \/ exists j, (j < n)%nat /\ length (z_out s) = length (nth j srcs [])).
Proof.
  intros R n. destruct (zip_reach_inv _ _ _ R) as [Hl [Ht [Ha Hd]]]. fold n in Ht, Ha, Hd.
  assert (Hpre : forall i, (i < n)%nat -> prefix (col i (z_out s)) (nth i srcs [])).
  { intros i Hi. destruct (z_alive s) eqn:Alive.
    - destruct (Ha eq_refl) as [_ [_ [_ [Hp _]]]]. eexists. symmetry. apply Hp. exact Hi.
    - destruct (Hd eq_refl) as [_ [Hp _]]. apply Hp. exact Hi. }
  assert (Hcl : forall i, length (col i (z_out s)) = length (z_out s)) by (intros; unfold col; apply map_length).
  split; [destruct (z_alive s) eqn:Alive; [destruct (Ha eq_refl); lia|destruct (Hd eq_refl); lia]|].
  split; [exact Ht|]. split; [|split].
  - intros i k Hi Hk. destruct (Hpre i Hi) as [c Hc]. rewrite Hc, app_nth1 by (rewrite Hcl; exact Hk).
    rewrite col_nth. reflexivity.
  - intros i Hi. destruct (Hpre i Hi) as [c Hc]. rewrite Hc, app_length, Hcl. lia.
  - intros Hc. destruct (z_alive s) eqn:Alive; [destruct (Ha eq_refl); lia|].
    destruct (Hd eq_refl) as [_ [_ [H0|[j [Hj Hcj]]]]]; [left; exact H0|right].
    exists j. split; [exact Hj|]. rewrite <- Hcj, Hcl. reflexivity.
Qed.
