(* C46 — proofs (placeholder, extended below). *)
From Coq Require Import ZArith List Bool Lia.
From GV Require Import C46.Model.
Import ListNotations.
Open Scope Z_scope.

Lemma merge_init_out n : m_out (merge_init n) = [].
Proof. reflexivity. Qed.
