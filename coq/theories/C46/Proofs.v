(* C46 — the statements exported to Properties/C46.v, with examples. *)
From Coq Require Import ZArith List Bool Lia.
From GV Require Import C46.Model C46.FanIn C46.FanOut.
Import ListNotations.
Open Scope Z_scope.

(* examples: non-trivial reachable states *)
Example ex_merge : exists fs s,
  fan_reach merge_recv [[0; 16]; [1]] (merge_init 2) fs s /\ m_completed s = 1%nat /\ map snd (m_out s) = [1; 0; 16].
Proof.
  eexists. eexists. split.
  - eapply fr_step. eapply fr_step. eapply fr_step. eapply fr_step. eapply fr_step. eapply fr_step. apply fr_init.
    + apply (fs_req _ 5). lia.
    + apply (fs_val _ 1%nat 1 []). reflexivity.
    + apply (fs_val _ 0%nat 0 [16]). reflexivity.
    + apply (fs_done _ 1%nat). reflexivity.
    + apply (fs_val _ 0%nat 16 []). reflexivity.
    + apply (fs_done _ 0%nat). reflexivity.
  - vm_compute. auto.
Qed.

Example ex_balance : exists e s,
  hub_reach Balance 2 [7; 8; 9] (e, s) /\ h_routed s = [(0%nat, 7); (1%nat, 8)] /\ e_rest e = [9].
Proof.
  pose proof (hr_init Balance 2 [7; 8; 9]) as R0.
  match type of R0 with hub_reach _ _ _ (?e, ?s) =>
    pose proof (hr_step _ _ _ _ _ R0 (hs_demand Balance e s 0%nat 1 ltac:(simpl; lia) ltac:(lia))) as R1 end.
  vm_compute in R1.
  match type of R1 with hub_reach _ _ _ (?e, ?s) =>
    pose proof (hr_step _ _ _ _ _ R1 (hs_demand Balance e s 1%nat 2 ltac:(simpl; lia) ltac:(lia))) as R2 end.
  vm_compute in R2.
  match type of R2 with hub_reach _ _ _ (?e, ?s) =>
    pose proof (hr_step _ _ _ _ _ R2 (hs_elem Balance e s 7 [8; 9] eq_refl ltac:(simpl; lia) eq_refl)) as R3 end.
  vm_compute in R3.
  match type of R3 with hub_reach _ _ _ (?e, ?s) =>
    pose proof (hr_step _ _ _ _ _ R3 (hs_elem Balance e s 8 [9] eq_refl ltac:(simpl; lia) eq_refl)) as R4 end.
  vm_compute in R4.
  eexists. eexists. split; [exact R4|]. vm_compute. auto.
Qed.

Example ex_kind_ok : kind_ok (Partition 3) 3 /\ kind_ok Broadcast 1 /\ kind_ok Balance 5.
Proof. unfold kind_ok. simpl. repeat split; lia. Qed.
