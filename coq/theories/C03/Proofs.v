(* C03/Proofs.v — per-sender FIFO for any number of senders and any interleaving.

   System: sender threads t = 0,1,2,... each running the program Tell (t,0); Tell (t,1); ... ;
   every Tell is the two atomic steps of C04/Contract.v (reserve = linearisation point, publish);
   a refused reserve (bounded mailbox) drops the message (dead letter).  The mailbox is a FAMILY of
   reservation queues indexed by a sender key: one key for UnboundedMailbox / segmented / ring
   mailboxes, the sender-PID key for UnboundedFairMailbox (several threads may share a key).  The
   consumer may take the published head of ANY sub-queue — a superset of the fair mailbox's
   round-robin service, so the order theorem covers every service discipline. *)
From Coq Require Import List Bool Arith Lia Sorted ZArith.
Import ListNotations.
From GV Require Import C04.Contract C03.Model.

Local Open Scope nat_scope.
Definition Msg := (nat * nat)%type.   (* (sender thread, sequence number) *)

Definition Msg_eq_dec : forall a b : Msg, {a = b} + {a <> b}.
Proof. decide equality; apply Nat.eq_dec. Defined.

Section System.
  Variable key : nat -> nat.            (* sender thread -> sub-queue *)
  Variable cap : option nat.            (* capacity of each sub-queue *)

  Record sys := mkSys {
    boxes : nat -> rq_state Msg;        (* sub-queue per key, reservation order *)
    nextseq : nat -> nat;               (* per thread: the next message it will Tell *)
    inflight : nat -> option nat;       (* per thread: reserved, not yet published *)
    handled : list Msg                  (* what the actor has processed, in order *)
  }.

  Definition upd {A} (f : nat -> A) (k : nat) (v : A) : nat -> A := fun x => if x =? k then v else f x.

  Definition init : sys := mkSys (fun _ => []) (fun _ => 0) (fun _ => None) [].

  Inductive step : sys -> sys -> Prop :=
  | st_tell_reserve s t q' :
      inflight s t = None ->
      rq_reserve cap (boxes s (key t)) (t, nextseq s t) = Some q' ->
      step s (mkSys (upd (boxes s) (key t) q') (upd (nextseq s) t (S (nextseq s t)))
                    (upd (inflight s) t (Some (nextseq s t))) (handled s))
  | st_tell_refused s t :
      inflight s t = None ->
      rq_reserve cap (boxes s (key t)) (t, nextseq s t) = None ->
      step s (mkSys (boxes s) (upd (nextseq s) t (S (nextseq s t))) (inflight s) (handled s))
  | st_tell_publish s t q :
      inflight s t = Some q ->
      step s (mkSys (upd (boxes s) (key t) (complete Msg_eq_dec (t, q) (boxes s (key t))))
                    (nextseq s) (upd (inflight s) t None) (handled s))
  | st_handle s k m r :
      boxes s k = (m, true) :: r ->
      step s (mkSys (upd (boxes s) k r) (nextseq s) (inflight s) (handled s ++ [m])).

  Inductive reach : sys -> Prop :=
  | r_init : reach init
  | r_step s s' : reach s -> step s s' -> reach s'.

  (* sequence numbers of thread t in a list of messages *)
  Definition seqs (t : nat) (l : list Msg) : list nat := map snd (filter (fun m => fst m =? t) l).

  Lemma seqs_app t a b : seqs t (a ++ b) = seqs t a ++ seqs t b.
  Proof. unfold seqs. now rewrite filter_app, map_app. Qed.

  (* everything of thread t that is processed or still queued, in processing-then-queue order *)
  Definition line (s : sys) (t : nat) : list Msg := handled s ++ map fst (boxes s (key t)).

  Definition inv (s : sys) : Prop :=
    (forall k m, In m (map fst (boxes s k)) -> key (fst m) = k) /\
    (forall t, StronglySorted lt (seqs t (line s t)) /\ Forall (fun q => q < nextseq s t) (seqs t (line s t))).

  Lemma sorted_snoc l x : StronglySorted lt l -> Forall (fun q => q < x) l -> StronglySorted lt (l ++ [x]).
  Proof.
    induction l as [|a r IH]; simpl; intros Hs Hf; [repeat constructor|].
    inversion Hs; subst. inversion Hf; subst. constructor; [apply IH; assumption|].
    apply Forall_app; split; [assumption|repeat constructor; assumption].
  Qed.

  Lemma inv_init : inv init.
  Proof. split; [intros k m []|]. intros t; split; unfold line, seqs; simpl; constructor. Qed.

  Lemma reserve_some (q : rq_state Msg) (m : Msg) q' : rq_reserve cap q m = Some q' -> q' = q ++ [(m, false)].
  Proof. unfold rq_reserve. destruct cap as [c|]; [destruct (length q <? c)|]; congruence. Qed.

  Lemma inv_step s s' : inv s -> step s s' -> inv s'.
  Proof.
    intros [Hk Hl] Hs. inversion Hs; subst; clear Hs.
    - (* reserve *)
      apply reserve_some in H0. subst q'. split.
      + intros k m. unfold upd; simpl. destruct (Nat.eqb_spec k (key t)) as [->|Hne].
        * rewrite map_app, in_app_iff. simpl. intros [Hin|[<-|[]]]; [apply Hk; exact Hin | reflexivity].
        * apply Hk.
      + intros t'. unfold line; simpl. unfold upd.
        destruct (Nat.eqb_spec (key t') (key t)) as [Ek|Nk].
        * rewrite map_app. simpl. rewrite app_assoc, seqs_app. fold (line s t').
          replace (handled s ++ map fst (boxes s (key t))) with (line s t') by (unfold line; now rewrite Ek).
          destruct (Hl t') as [Hs Hf].
          destruct (Nat.eqb_spec t' t) as [->|Nt].
          -- unfold seqs at 2 4. simpl. rewrite Nat.eqb_refl. simpl. split.
             ++ apply sorted_snoc; assumption.
             ++ apply Forall_app; split; [eapply Forall_impl; [|exact Hf]; simpl; lia | repeat constructor; lia].
          -- unfold seqs at 2 4. simpl. destruct (Nat.eqb_spec t t'); [congruence|]. simpl.
             rewrite !app_nil_r. split; assumption.
        * destruct (Nat.eqb_spec t' t) as [->|Nt]; [congruence|]. apply Hl.
    - (* refused: only nextseq of t grows *)
      split; [exact Hk|]. intros t'. unfold line; simpl. destruct (Hl t') as [Hs Hf]. split; [exact Hs|].
      unfold upd. destruct (Nat.eqb_spec t' t) as [->|Nt]; [|exact Hf].
      eapply Forall_impl; [|exact Hf]. simpl; lia.
    - (* publish: the flag changes, the messages do not *)
      split.
      + intros k m. unfold upd; simpl. destruct (Nat.eqb_spec k (key t)) as [->|Hne]; [|apply Hk].
        rewrite complete_fst. apply Hk.
      + intros t'. unfold line; simpl. unfold upd.
        destruct (Nat.eqb_spec (key t') (key t)) as [Ek|Nk]; [|apply Hl].
        rewrite complete_fst. rewrite <- Ek. apply Hl.
    - (* handle the published head of sub-queue k *)
      split.
      + intros k' m'. unfold upd; simpl. destruct (Nat.eqb_spec k' k) as [->|Hne]; [|apply Hk].
        intros Hin. apply Hk. rewrite H. simpl. right. exact Hin.
      + intros t'. unfold line; simpl. unfold upd.
        destruct (Nat.eqb_spec (key t') k) as [Ek|Nk].
        * (* same concatenation *)
          replace ((handled s ++ [m]) ++ map fst r) with (line s t').
          -- apply Hl.
          -- unfold line. rewrite Ek, H. simpl. now rewrite <- app_assoc.
        * (* m belongs to another key, hence to another thread *)
          assert (Hm : key (fst m) = k) by (apply Hk; rewrite H; simpl; now left).
          rewrite <- app_assoc. rewrite seqs_app. rewrite seqs_app. unfold seqs at 2 5. simpl.
          destruct (Nat.eqb_spec (fst m) t') as [Em|Nm]; [subst t'; congruence|]. simpl.
          rewrite <- seqs_app. apply Hl.
  Qed.

  Lemma reach_inv s : reach s -> inv s.
  Proof. induction 1; [apply inv_init | eapply inv_step; eauto]. Qed.

  (* The handled messages of any one sender thread are in send order, whatever the other
     senders and the consumer do. *)
  Theorem per_sender_fifo s t : reach s -> StronglySorted lt (seqs t (handled s)).
  Proof.
    intros Hr. destruct (reach_inv s Hr) as [_ Hl]. destruct (Hl t) as [Hs _].
    unfold line in Hs. rewrite seqs_app in Hs.
    clear - Hs. induction (seqs t (handled s)) as [|a l IH]; simpl in *; [constructor|].
    inversion Hs; subst. constructor; [apply IH; assumption|].
    apply Forall_app in H2. tauto.
  Qed.

  (* ... and nothing is processed twice or invented: each is a message the sender has already sent *)
  Theorem handled_were_sent s t q : reach s -> In (t, q) (handled s) -> q < nextseq s t.
  Proof.
    intros Hr Hin. destruct (reach_inv s Hr) as [_ Hl]. destruct (Hl t) as [_ Hf].
    rewrite Forall_forall in Hf. apply Hf. unfold line. rewrite seqs_app, in_app_iff. left.
    unfold seqs. apply in_map_iff. exists (t, q). split; [reflexivity|].
    apply filter_In. split; [exact Hin | simpl; apply Nat.eqb_refl].
  Qed.

  Theorem handled_once s t : reach s -> NoDup (seqs t (handled s)).
  Proof.
    intros Hr. pose proof (per_sender_fifo s t Hr) as H.
    induction H as [|a l Hs IH Hf]; constructor; [|exact IH].
    intros Hin. rewrite Forall_forall in Hf. specialize (Hf _ Hin). lia.
  Qed.
End System.

(* Non-vacuity: two senders sharing a key, one with a message in flight, the other processed. *)
Example reachable_interleaving :
  exists s, reach (fun _ => 0) None s /\ handled s = [(1, 0)] /\ inflight s 0 = Some 1 /\ nextseq s 1 = 1.
Proof.
  eexists. split.
  - eapply r_step. eapply r_step. eapply r_step. eapply r_step. eapply r_step. eapply r_step. apply r_init.
    + apply st_tell_reserve with (t := 1); reflexivity.
    + apply st_tell_publish with (t := 1) (q := 0); reflexivity.
    + apply st_handle with (k := 0) (m := (1, 0)) (r := []); reflexivity.
    + apply st_tell_reserve with (t := 0); reflexivity.
    + apply st_tell_publish with (t := 0) (q := 0); reflexivity.
    + apply st_tell_reserve with (t := 0); reflexivity.
  - simpl. repeat split.
Qed.

(* ------------------------------------------------------------------------------------------ *)
(* Two mailboxes.  PID.doReceive puts a message either into the SYSTEM mailbox or into the user mailbox,
   and every turn drains the system mailbox first (runTurn).  A sender program is a sequence of sends of
   different kinds (Tell, the AsyncRequest envelope of ctx.Request, the AsyncResponse envelope of
   ctx.Response, control messages such as PoisonPill); [to_system] is the routing decision.
   What holds for EVERY routing: the messages of one sender that are routed to the user mailbox are
   handled in send order, whatever else is sent.  Hence send order is kept between exactly those kinds
   that doReceive routes to the user mailbox — with isControlMessage these include Tell, Request and
   Response; routing the Request envelope to the system mailbox breaks it ([request_overtakes_tell]). *)
Section Routing.
  Variable kind_of : nat -> nat -> nat.     (* sender thread, sequence number -> kind of that message *)
  Variable to_system : nat -> bool.         (* doReceive: does this kind go to the system mailbox? *)

  Record rsys := mkR { usr : list Msg; sysq : list Msg; rnext : nat -> nat; rhandled : list Msg }.

  Definition is_user (m : Msg) : bool := negb (to_system (kind_of (fst m) (snd m))).

  Inductive rstep : rsys -> rsys -> Prop :=
  | rs_send_user s t : to_system (kind_of t (rnext s t)) = false ->
      rstep s (mkR (usr s ++ [(t, rnext s t)]) (sysq s) (fun x => if x =? t then S (rnext s t) else rnext s x) (rhandled s))
  | rs_send_system s t : to_system (kind_of t (rnext s t)) = true ->
      rstep s (mkR (usr s) (sysq s ++ [(t, rnext s t)]) (fun x => if x =? t then S (rnext s t) else rnext s x) (rhandled s))
  | rs_handle_system s m r : sysq s = m :: r ->
      rstep s (mkR (usr s) r (rnext s) (rhandled s ++ [m]))
  | rs_handle_user s m r : sysq s = [] -> usr s = m :: r ->
      rstep s (mkR r [] (rnext s) (rhandled s ++ [m])).

  Inductive rreach : rsys -> Prop :=
  | rr_init : rreach (mkR [] [] (fun _ => 0) [])
  | rr_step s s' : rreach s -> rstep s s' -> rreach s'.

  Definition useq (t : nat) (l : list Msg) : list nat :=
    map snd (filter (fun m => (fst m =? t) && is_user m) l).

  Lemma useq_app t a b : useq t (a ++ b) = useq t a ++ useq t b.
  Proof. unfold useq. now rewrite filter_app, map_app. Qed.

  Definition rinv (s : rsys) : Prop :=
    (forall m, In m (usr s) -> is_user m = true) /\
    (forall m, In m (sysq s) -> is_user m = false) /\
    forall t, StronglySorted lt (useq t (rhandled s ++ usr s)) /\
              Forall (fun q => q < rnext s t) (useq t (rhandled s ++ usr s)).

  Lemma rinv_step s s' : rinv s -> rstep s s' -> rinv s'.
  Proof.
    intros [Hu [Hs Hl]] H. inversion H; subst; clear H; unfold rinv; cbn [usr sysq rnext rhandled].
    - (* a send routed to the user mailbox *)
      assert (Hm : is_user (t, rnext s t) = true) by (unfold is_user; cbn [fst snd]; now rewrite H0).
      split; [|split; [exact Hs|]].
      + intros m Hin. apply in_app_or in Hin. destruct Hin as [Hin|[<-|[]]]; [apply Hu; exact Hin | exact Hm].
      + intros t'. rewrite app_assoc, useq_app. destruct (Hl t') as [S1 F1].
        unfold useq at 2 4. cbn [filter fst snd]. rewrite Hm, andb_true_r.
        destruct (Nat.eqb_spec t t') as [->|Ne]; cbn [map].
        * rewrite Nat.eqb_refl. split.
          -- apply sorted_snoc; assumption.
          -- apply Forall_app; split; [eapply Forall_impl; [|exact F1]; simpl; lia | repeat constructor; lia].
        * rewrite !app_nil_r. destruct (Nat.eqb_spec t' t); [congruence|]. split; assumption.
    - (* a send routed to the system mailbox: invisible to the user-routed order *)
      assert (Hm : is_user (t, rnext s t) = false) by (unfold is_user; cbn [fst snd]; now rewrite H0).
      split; [exact Hu|]. split.
      + intros m Hin. apply in_app_or in Hin. destruct Hin as [Hin|[<-|[]]]; [apply Hs; exact Hin | exact Hm].
      + intros t'. destruct (Hl t') as [S1 F1]. split; [exact S1|].
        destruct (Nat.eqb_spec t' t) as [->|Ne]; [|exact F1].
        eapply Forall_impl; [|exact F1]. simpl; lia.
    - (* the turn takes a system message first *)
      assert (Hm : is_user m = false) by (apply Hs; rewrite H0; now left).
      split; [exact Hu|]. split; [intros x Hx; apply Hs; rewrite H0; now right|].
      intros t'. rewrite <- app_assoc, useq_app, useq_app. unfold useq at 2 5. cbn [filter].
      rewrite Hm, andb_false_r. cbn [map app]. rewrite <- useq_app. apply Hl.
    - (* ... and a user message only when the system mailbox is empty: head of the FIFO user mailbox *)
      split; [intros x Hx; apply Hu; rewrite H1; now right|]. split; [intros x []|].
      intros t'. replace ((rhandled s ++ [m]) ++ r) with (rhandled s ++ usr s) by (rewrite H1, <- app_assoc; reflexivity).
      apply Hl.
  Qed.

  Lemma rreach_inv s : rreach s -> rinv s.
  Proof.
    induction 1; [|eapply rinv_step; eauto].
    split; [intros m []|]. split; [intros m []|]. intros t. unfold useq. simpl. split; constructor.
  Qed.

  Theorem user_routed_fifo s t : rreach s -> StronglySorted lt (useq t (rhandled s)).
  Proof.
    intros Hr. destruct (rreach_inv s Hr) as [_ [_ Hl]]. destruct (Hl t) as [S1 _].
    rewrite useq_app in S1. clear - S1.
    induction (useq t (rhandled s)) as [|a l IH]; simpl in *; [constructor|].
    inversion S1; subst. constructor; [apply IH; assumption|]. apply Forall_app in H2. tauto.
  Qed.
End Routing.

(* kinds: 0 = Tell, 1 = the AsyncRequest envelope of ctx.Request.  With the routing of the code (both go to
   the user mailbox) the whole send order of a sender is kept ... *)
Corollary tell_and_request_in_send_order kind_of s t :
  rreach kind_of (fun _ => false) s ->
  StronglySorted lt (map snd (filter (fun m => fst m =? t) (rhandled s))).
Proof.
  intros Hr. pose proof (user_routed_fifo kind_of (fun _ => false) s t Hr) as H.
  unfold useq, is_user in H. cbn [negb] in H.
  erewrite filter_ext in H; [exact H|]. intros a. cbn. now rewrite andb_true_r.
Qed.

(* ... and if the Request envelope were routed to the system mailbox, a Request overtakes the Tell the
   same sender issued before it. *)
Theorem request_overtakes_tell :
  exists s, rreach (fun _ q => if q =? 1 then 1 else 0) (fun k => k =? 1) s /\ rhandled s = [(0, 1); (0, 0)].
Proof.
  set (ko := fun (_ q : nat) => if q =? 1 then 1 else 0). set (ts := fun k : nat => k =? 1).
  eexists. split.
  - eapply rr_step. eapply rr_step. eapply rr_step. eapply rr_step. apply rr_init.
    + apply (rs_send_user ko ts _ 0). reflexivity.
    + apply (rs_send_system ko ts _ 0). reflexivity.
    + eapply (rs_handle_system ko ts). reflexivity.
    + eapply (rs_handle_user ko ts); reflexivity.
  - reflexivity.
Qed.

(* ------------------------------------------------------------------------------------------ *)
(* stash / unstash on the actor model *)
Open Scope Z_scope.

Lemma arun_app f1 f2 s : arun (f1 + f2) s = arun f2 (arun f1 s).
Proof.
  revert s; induction f1 as [|f IH]; intros s; simpl; [reflexivity|].
  destruct (astep s) eqn:E; [apply IH|].
  (* stuck: stays stuck *)
  clear IH. induction f2 as [|g IHg]; simpl; [reflexivity|]. now rewrite E.
Qed.

Lemma arun_S f s : arun (S f) s = match astep s with None => s | Some s' => arun f s' end.
Proof. reflexivity. Qed.

(* a queue of plain sends with stashing off is processed in order *)
Lemma arun_sends ids : forall st lg,
  arun (length ids) (mkAst (map Send ids) st false lg) = mkAst [] st false (lg ++ map (fun i => (0, i)) ids).
Proof.
  induction ids as [|i r IH]; intros st lg; simpl; [now rewrite app_nil_r|].
  rewrite IH. now rewrite <- app_assoc.
Qed.

(* with stashing on they all go to the stash box, in arrival order *)
Lemma arun_sends_stashing ids : forall st lg,
  arun (length ids) (mkAst (map Send ids) st true lg) = mkAst [] (st ++ ids) true (lg ++ map (fun i => (1, i)) ids).
Proof.
  induction ids as [|i r IH]; intros st lg; simpl; [now rewrite !app_nil_r|].
  rewrite IH. now rewrite <- !app_assoc.
Qed.

(* UnstashAll re-delivers the whole stash box, oldest first, behind what is already queued *)
Theorem unstash_all_in_order queued box lg :
  arun (S (length queued + length box)) (mkAst (UnstashAll :: map Send queued) box false lg)
  = mkAst [] [] false (lg ++ map (fun i => (0, i)) queued ++ map (fun i => (0, i)) box).
Proof.
  rewrite arun_S. cbn [astep amb astash astashing alog]. rewrite <- (map_app Send).
  replace (length queued + length box)%nat with (length (queued ++ box)) by now rewrite app_length.
  rewrite arun_sends. now rewrite map_app.
Qed.

(* Unstash re-delivers exactly the oldest stashed message and keeps the rest in order *)
Theorem unstash_one_oldest queued i box lg :
  arun (S (S (length queued))) (mkAst (UnstashOne :: map Send queued) (i :: box) false lg)
  = mkAst [] box false (lg ++ map (fun j => (0, j)) queued ++ [(0, i)]).
Proof.
  rewrite arun_S. cbn [astep amb astash astashing alog].
  replace (map Send queued ++ [Send i]) with (map Send (queued ++ [i])) by now rewrite map_app.
  replace (S (length queued)) with (length (queued ++ [i])) by (rewrite app_length; simpl; lia).
  rewrite arun_sends. now rewrite map_app.
Qed.

(* a whole stash generation: k messages arrive while stashing, then the actor stops stashing and
   unstashes: they are processed exactly once, in arrival order *)
Theorem stash_generation ids lg :
  arun (length ids + S (S (length ids)))
       (mkAst (map Send ids ++ [StashOff; UnstashAll]) [] true lg)
  = mkAst [] [] false (lg ++ map (fun i => (1, i)) ids ++ map (fun i => (0, i)) ids).
Proof.
  assert (G : forall st lg0,
    arun (length ids) (mkAst (map Send ids ++ [StashOff; UnstashAll]) st true lg0)
    = mkAst [StashOff; UnstashAll] (st ++ ids) true (lg0 ++ map (fun i => (1, i)) ids)).
  { induction ids as [|i r IH]; intros st lg0; simpl; [now rewrite !app_nil_r|].
    rewrite IH. now rewrite <- !app_assoc. }
  rewrite arun_app. rewrite G. simpl app.
  rewrite arun_S. cbn [astep amb astash astashing alog].
  rewrite arun_S. cbn [astep amb astash astashing alog]. simpl app.
  rewrite arun_sends. now rewrite <- app_assoc.
Qed.
