(* C03/Model.v — executable model of an actor's message processing with a FIFO mailbox and a stash box
   (actor/stash.go: stash appends a clone to the stash box; unstash pops the oldest and re-enters it
   through doReceive, i.e. at the TAIL of the mailbox; unstashAll drains the box in order).
   checks/C03.py queues op sequences behind a gate message on real actors and compares the
   processing log with [actor_log]. *)
From Coq Require Import ZArith List Bool.
Import ListNotations.
Open Scope Z_scope.

(* Req: the payload of ctx.Request (an AsyncRequest envelope). doReceive routes it to the USER mailbox,
   like a Tell, so it is one more FIFO entry; the receiver answers it when it is processed. *)
Inductive aop := Send (id : Z) | Req (id : Z) | StashOn | StashOff | UnstashAll | UnstashOne.

Record ast := mkAst {
  amb : list aop;          (* the mailbox, FIFO *)
  astash : list Z;         (* the stash box, oldest first *)
  astashing : bool;        (* the test actor's mode: stash every Send *)
  alog : list (Z * Z)      (* (0,id) processed, (1,id) stashed *)
}.

Definition astep (s : ast) : option ast :=
  match amb s with
  | [] => None
  | o :: mb =>
      Some match o with
           | Send i =>
               if astashing s then mkAst mb (astash s ++ [i]) true (alog s ++ [(1, i)])
               else mkAst mb (astash s) false (alog s ++ [(0, i)])
           | Req i =>
               if astashing s then mkAst mb (astash s ++ [i]) true (alog s ++ [(1, i)])
               else mkAst mb (astash s) false (alog s ++ [(0, i)])
           | StashOn => mkAst mb (astash s) true (alog s)
           | StashOff => mkAst mb (astash s) false (alog s)
           | UnstashAll => mkAst (mb ++ map Send (astash s)) [] (astashing s) (alog s)
           | UnstashOne =>
               match astash s with
               | [] => mkAst mb [] (astashing s) (alog s)
               | i :: r => mkAst (mb ++ [Send i]) r (astashing s) (alog s)
               end
           end
  end.

Fixpoint arun (fuel : nat) (s : ast) : ast :=
  match fuel with
  | O => s
  | S f => match astep s with None => s | Some s' => arun f s' end
  end.

(* the harness appends a flush (stash off; unstash all) and waits until the mailbox is empty *)
Definition actor_log (ops : list aop) : list (Z * Z) :=
  let n := S (S (length ops)) in
  alog (arun (n * n + n) (mkAst (ops ++ [StashOff; UnstashAll]) [] false [])).

(* the receiver acknowledges every message it processes (Response for a Request, Tell otherwise): what
   the sender sees, in order, when replies travel FIFO too *)
Definition reply_log (ops : list aop) : list Z :=
  map snd (filter (fun e => fst e =? 0) (actor_log ops)).
