(* C48 — executable model of internal/xsync/ttlmap.go (TTLMap[K,V]).

   The model mirrors the data structure that exists:
     items : key -> index into order     (Go map[K]int)            -> gmap key nat
     order : append-only slice of entries (key, value, expireAt)   -> list entry
     head  : index of the oldest not-yet-evicted slot              -> nat
   and the methods Set / Get / Delete / Reset / Len / ActiveLen with the private
   evict / maybeCompact exactly as written (loops become structural recursion over the
   slice region they walk).  Keys, values and unix-nanosecond times are unbounded Z; the clock
   reading made by an operation is an argument of the step ([now]).

   No proofs here: this file must keep compiling (and evaluating, for the tie) even when a
   proof breaks. *)
From Coq Require Import ZArith.
From stdpp Require Import gmap.
Open Scope Z_scope.

(* keys are positive numbers (any countable key type embeds; the harness instantiates the generic
   Go map at int64 and uses keys >= 1) *)
Notation key := positive.

Record entry := Entry { ekey : key; evalue : Z; eexp : Z }.

Record st := St { items : gmap key nat; order : list entry; head : nat }.

Definition init : st := St ∅ [] 0.

(* operations of the public API; every operation carries the reading of the map's clock that it
   makes (Delete, Reset and Len make none: the reading is then ignored) *)
Inductive op :=
| OSet (k : key) (v : Z)
| OGet (k : key)
| ODelete (k : key)
| OReset
| OLen
| OActiveLen.

Inductive res :=
| RUnit
| RVal (o : option Z)      (* Get: Some v = (v, true); None = (zero, false) *)
| RNat (n : nat).

(* the specification state: a finite map from key to (value, expireAt) *)
Notation spec := (gmap key (Z * Z)).

Section TTL.
  Variable ttl : Z.

  (* Set, first half: refresh in place when the key is mapped, append otherwise *)
  Definition set_raw (now : Z) (k : key) (v : Z) (s : st) : st :=
    let exp := now + ttl in
    match items s !! k with
    | Some idx =>
        match order s !! idx with
        | Some old => St (items s) (<[idx := Entry (ekey old) v exp]> (order s)) (head s)
        | None => s                                   (* index out of range: Go would panic *)
        end
    | None =>
        St (<[k := length (order s)]> (items s)) (order s ++ [Entry k v exp]) (head s)
    end.

  (* evict: `for s.head < len(s.order)` walking the region order[head:] *)
  Fixpoint evict_go (now : Z) (region : list entry) (it : gmap key nat) (h : nat) : gmap key nat * nat :=
    match region with
    | [] => (it, h)
    | e :: rest =>
        if now <? eexp e then (it, h)
        else
          let it' := match it !! ekey e with
                     | Some idx => if Nat.eqb idx h then delete (ekey e) it else it
                     | None => it
                     end in
          evict_go now rest it' (S h)
    end.

  Definition evict (now : Z) (s : st) : st :=
    let '(it, h) := evict_go now (drop (head s) (order s)) (items s) (head s) in
    St it (order s) h.

  (* slow path of maybeCompact: keep slot i iff items[order[i].key] == i *)
  Fixpoint keep_mapped (it : gmap key nat) (i : nat) (region : list entry) : list entry :=
    match region with
    | [] => []
    | e :: rest =>
        match it !! ekey e with
        | Some idx => if Nat.eqb idx i then e :: keep_mapped it (S i) rest else keep_mapped it (S i) rest
        | None => keep_mapped it (S i) rest
        end
    end.

  (* `for i := range s.order { s.items[s.order[i].key] = i }` *)
  Fixpoint reindex (l : list entry) (i : nat) (it : gmap key nat) : gmap key nat :=
    match l with
    | [] => it
    | e :: rest => reindex rest (S i) (<[ekey e := i]> it)
    end.

  (* the slow path literally: `for i := s.head; i < len(s.order); i++ { if mapped { s.order[n] = s.order[i]; n++ } }`
     writing into the prefix of the SAME slice; [keep_mapped] above is its functional reading (proved equal
     whenever head > 0, which the guard of maybeCompact ensures) *)
  Fixpoint compact_inplace (it : gmap key nat) (fuel i n : nat) (arr : list entry) : list entry * nat :=
    match fuel with
    | O => (arr, n)
    | S f =>
        match arr !! i with
        | None => (arr, n)
        | Some e =>
            match it !! ekey e with
            | Some idx =>
                if Nat.eqb idx i then compact_inplace it f (S i) (S n) (<[n := e]> arr)
                else compact_inplace it f (S i) n arr
            | None => compact_inplace it f (S i) n arr
            end
        end
    end.

  Definition slow_inplace (s : st) : list entry :=
    let '(arr, n) := compact_inplace (items s) (length (order s) - head s) (head s) 0 (order s) in
    take n arr.

  Definition compact_guard (s : st) : bool :=
    Nat.eqb (head s) 0 || Nat.ltb (head s) (Nat.div (length (order s)) 2).

  Definition fast_path (s : st) : bool :=
    Nat.eqb (size (items s)) (length (order s) - head s).

  Definition maybe_compact (s : st) : st :=
    if compact_guard s then s
    else
      let region := drop (head s) (order s) in
      let kept := if fast_path s then region else keep_mapped (items s) (head s) region in
      St (reindex kept 0 (items s)) kept 0.

  Definition set_op (now : Z) (k : key) (v : Z) (s : st) : st :=
    maybe_compact (evict now (set_raw now k v s)).

  Definition get_op (now : Z) (k : key) (s : st) : option Z * st :=
    match items s !! k with
    | Some idx =>
        match order s !! idx with
        | Some e =>
            if now <? eexp e then (Some (evalue e), s)
            else (None, St (delete k (items s)) (order s) (head s))
        | None => (None, s)                           (* index out of range: Go would panic *)
        end
    | None => (None, s)
    end.

  Definition delete_op (k : key) (s : st) : st := St (delete k (items s)) (order s) (head s).

  Definition reset_op (s : st) : st := St ∅ [] 0.

  Definition len_op (s : st) : nat := size (items s).

  Definition entry_live (now : Z) (s : st) (idx : nat) : bool :=
    match order s !! idx with Some e => now <? eexp e | None => false end.

  (* ActiveLen: count the live mappings, drop the expired ones from the index *)
  Definition active_len_op (now : Z) (s : st) : nat * st :=
    let live := filter (fun p : key * nat => entry_live now s (snd p) = true) (items s) in
    (size live, St live (order s) (head s)).

  Definition step (now : Z) (o : op) (s : st) : st * res :=
    match o with
    | OSet k v => (set_op now k v s, RUnit)
    | OGet k => let '(r, s') := get_op now k s in (s', RVal r)
    | ODelete k => (delete_op k s, RUnit)
    | OReset => (reset_op s, RUnit)
    | OLen => (s, RNat (len_op s))
    | OActiveLen => let '(n, s') := active_len_op now s in (s', RNat n)
    end.

  (* a history is a chronological list of (clock reading, operation) *)
  Fixpoint run (h : list (Z * op)) (s : st) : st :=
    match h with
    | [] => s
    | (now, o) :: rest => run rest (fst (step now o s))
    end.

  (* ---------------------------------------------------------------- the specification *)


  Definition spec_step (now : Z) (o : op) (m : spec) : spec :=
    match o with
    | OSet k v => <[k := (v, now + ttl)]> m
    | ODelete k => delete k m
    | OReset => ∅
    | _ => m
    end.

  Definition spec_get (now : Z) (k : key) (m : spec) : option Z :=
    match m !! k with
    | Some (v, e) => if now <? e then Some v else None
    | None => None
    end.

  Fixpoint spec_run (h : list (Z * op)) (m : spec) : spec :=
    match h with
    | [] => m
    | (now, o) :: rest => spec_run rest (spec_step now o m)
    end.

  (* the property read literally off a history (most recent operation first): the last Set of k
     that no later Delete k / Reset follows, as (value, time of that Set) *)
  Fixpoint last_set (k : key) (rh : list (Z * op)) : option (Z * Z) :=
    match rh with
    | [] => None
    | (t, o) :: older =>
        match o with
        | OSet k' v => if Pos.eqb k' k then Some (v, t) else last_set k older
        | ODelete k' => if Pos.eqb k' k then None else last_set k older
        | OReset => None
        | _ => last_set k older
        end
    end.

  Definition literal_get (now : Z) (k : key) (h : list (Z * op)) : option Z :=
    match last_set k (rev h) with
    | Some (v, t) => if now - t <? ttl then Some v else None
    | None => None
    end.

  (* clock readings never decrease along the history and are bounded below by [lo] *)
  Fixpoint mono (lo : Z) (h : list (Z * op)) : Prop :=
    match h with
    | [] => True
    | (t, _) :: rest => lo <= t /\ mono t rest
    end.

  Fixpoint last_time (lo : Z) (h : list (Z * op)) : Z :=
    match h with
    | [] => lo
    | (t, _) :: rest => last_time t rest
    end.

  (* ---------------------------------------------------------------- observation for the tie *)

  (* position-weighted sums: cheap to evaluate, sensitive to content and to position *)
  Definition order_digest (l : list entry) : Z :=
    snd (fold_left (fun '(i, h) e => (i + 1, h + i * (Zpos (ekey e) * 7919 + evalue e * 104729 + eexp e))) l (1, 0)).

  Definition items_digest (it : gmap key nat) : Z :=
    map_fold (fun k idx acc => acc + (Zpos k * 1009 + Z.of_nat idx + 1) * (Zpos k * 1009 + Z.of_nat idx + 1)) 0 it.

  (* what the harness reads off the real object after every operation *)
  Definition observe (s : st) : Z * Z * Z * Z * Z :=
    (Z.of_nat (size (items s)), Z.of_nat (length (order s)), Z.of_nat (head s),
     items_digest (items s), order_digest (order s)).

  Definition res_code (r : res) : Z * Z :=
    match r with
    | RUnit => (0, 0)
    | RVal None => (1, 0)
    | RVal (Some v) => (2, v)
    | RNat n => (3, Z.of_nat n)
    end.

  (* two numbers per step for the tie: the result and the sizes packed into bit fields
     (values < 2^20, sizes < 2^12), and the two digests folded into 61 bits *)
  Definition step_code (r : res) (s : st) : Z * Z :=
    let '(c1, c2) := res_code r in
    let '(o1, o2, o3, o4, o5) := observe s in
    (c1 + 4 * c2 + 4194304 * o1 + 17179869184 * o2 + 70368744177664 * o3,
     Z.land (o4 + 3 * o5) 2305843009213693951).

  (* packed operation: ((now * 2^20 + v) * 2^12 + k) * 8 + code, code 0=Set 1=Get 2=Delete 3=Reset
     4=Len 5=ActiveLen; 1 <= k < 2^12, 0 <= v < 2^20, 0 <= now *)
  Definition decode_op (z : Z) : Z * op :=
    let code := z mod 8 in
    let z1 := z / 8 in
    let k := Z.to_pos (z1 mod 4096) in
    let z2 := z1 / 4096 in
    let v := z2 mod 1048576 in
    let now := z2 / 1048576 in
    (now, if code =? 0 then OSet k v else if code =? 1 then OGet k else if code =? 2 then ODelete k
          else if code =? 3 then OReset else if code =? 4 then OLen else OActiveLen).

  (* run a history, compare the code of (result, observable state) after every operation with the
     one the implementation produced (two numbers per step); return the index of the first
     disagreement *)
  Fixpoint first_mismatch (i : nat) (h : list Z) (obs : list Z) (s : st) : option nat :=
    match h, obs with
    | z :: rest, a :: b :: orest =>
        let '(now, o) := decode_op z in
        let '(s', r') := step now o s in
        let '(a', b') := step_code r' s' in
        if (a' =? a) && (b' =? b) then first_mismatch (S i) rest orest s' else Some i
    | [], [] => None
    | _, _ => Some i
    end.
End TTL.
