(* C48 — proofs about the TTL map model (C48/Model.v).

   Structure:
     WF      structural invariant of (items, order, head)
     view    abstraction function: the finite map key -> (value, expireAt) the structure denotes
     set_raw / evict / maybe_compact / get / delete / reset / active_len lemmas on WF and view
     R       simulation relation with the specification map, parameterised by a clock watermark
     run_R   R is preserved along every history whose clock never decreases
     literal the specification map equals the property's sentence read off the history *)
From Coq Require Import ZArith Lia.
From stdpp Require Import gmap.
From GV Require Import C48.Model.
Open Scope Z_scope.

Definition ent_val (e : entry) : Z * Z := (evalue e, eexp e).

Definition WF (s : st) : Prop :=
  (head s ≤ length (order s))%nat ∧
  ∀ k i, items s !! k = Some i →
         (head s ≤ i)%nat ∧ ∃ e, order s !! i = Some e ∧ ekey e = k.

Definition view (s : st) : gmap key (Z * Z) :=
  omap (λ i, ent_val <$> (order s !! i)) (items s).

Lemma view_lookup s k :
  view s !! k = items s !! k ≫= (λ i, ent_val <$> (order s !! i)).
Proof. unfold view. apply lookup_omap. Qed.

Lemma view_Some s k x :
  WF s → view s !! k = Some x ↔
  ∃ i e, items s !! k = Some i ∧ order s !! i = Some e ∧ ent_val e = x.
Proof.
  intros [_ Hwf]. rewrite view_lookup. split.
  - destruct (items s !! k) as [i|] eqn:Hi; simpl; [|done].
    destruct (order s !! i) as [e|] eqn:He; simpl; [|done].
    intros [= <-]. eauto.
  - intros (i & e & -> & He & <-). simpl. by rewrite He.
Qed.

Lemma view_None s k : WF s → view s !! k = None ↔ items s !! k = None.
Proof.
  intros [_ Hwf]. rewrite view_lookup. split.
  - destruct (items s !! k) as [i|] eqn:Hi; simpl; [|done].
    destruct (Hwf _ _ Hi) as (_ & e & He & _). by rewrite He.
  - by intros ->.
Qed.

Lemma WF_init : WF init.
Proof. split; [simpl; lia|]. intros k i. simpl. by rewrite lookup_empty. Qed.

Lemma view_init : view init = ∅.
Proof. unfold view. simpl. apply omap_empty. Qed.

(* two keys never share a slot *)
Lemma WF_inj s k1 k2 i :
  WF s → items s !! k1 = Some i → items s !! k2 = Some i → k1 = k2.
Proof.
  intros [_ Hwf] H1 H2.
  destruct (Hwf _ _ H1) as (_ & e1 & He1 & <-).
  destruct (Hwf _ _ H2) as (_ & e2 & He2 & <-). congruence.
Qed.

Section TTL.
  Variable ttl : Z.

  (* ------------------------------------------------------------------ Set, first half *)
  Lemma set_raw_WF now k v s : WF s → WF (set_raw ttl now k v s).
  Proof.
    intros Hs. pose proof Hs as [Hh Hwf]. unfold set_raw.
    destruct (items s !! k) as [idx|] eqn:Hk.
    - destruct (Hwf _ _ Hk) as (Hge & old & Hold & Hkey). rewrite Hold.
      split; simpl; [by rewrite insert_length|].
      intros k' i Hi. destruct (Hwf _ _ Hi) as (Hge' & e & He & Hke). split; [done|].
      destruct (decide (i = idx)) as [->|Hne].
      + eexists. split; [apply list_lookup_insert; by eapply lookup_lt_Some|]. simpl. congruence.
      + exists e. by rewrite list_lookup_insert_ne.
    - split; simpl; [rewrite app_length; simpl; lia|].
      intros k' i. destruct (decide (k' = k)) as [->|Hne].
      + rewrite lookup_insert. intros [= <-]. split; [done|].
        eexists. split; [apply list_lookup_middle; done|done].
      + rewrite lookup_insert_ne by done. intros Hi.
        destruct (Hwf _ _ Hi) as (Hge' & e & He & Hke). split; [done|].
        exists e. split; [|done]. rewrite lookup_app_l; [done|]. by eapply lookup_lt_Some.
  Qed.

  Lemma set_raw_view now k v s :
    WF s → view (set_raw ttl now k v s) = <[k := (v, now + ttl)]> (view s).
  Proof.
    intros Hs. pose proof Hs as [Hh Hwf]. apply map_eq. intros k'.
    rewrite view_lookup. unfold set_raw.
    destruct (items s !! k) as [idx|] eqn:Hk.
    - destruct (Hwf _ _ Hk) as (Hge & old & Hold & Hkey). rewrite Hold. simpl.
      destruct (decide (k' = k)) as [->|Hne].
      + rewrite lookup_insert, Hk. simpl.
        rewrite list_lookup_insert by (by eapply lookup_lt_Some). done.
      + rewrite lookup_insert_ne by done. rewrite view_lookup.
        destruct (items s !! k') as [i|] eqn:Hi; simpl; [|done].
        rewrite list_lookup_insert_ne; [done|].
        intros ->. apply Hne. by eapply WF_inj.
    - simpl. destruct (decide (k' = k)) as [->|Hne].
      + rewrite !lookup_insert. simpl. by rewrite list_lookup_middle.
      + rewrite !lookup_insert_ne by done. rewrite view_lookup.
        destruct (items s !! k') as [i|] eqn:Hi; simpl; [|done].
        destruct (Hwf _ _ Hi) as (_ & e & He & _).
        rewrite lookup_app_l; [done|]. by eapply lookup_lt_Some.
  Qed.

  (* ------------------------------------------------------------------ evict *)
  Lemma evict_go_spec now ord : ∀ region it h it' h',
    region = drop h ord →
    WF (St it ord h) →
    evict_go now region it h = (it', h') →
    WF (St it' ord h') ∧
    (h ≤ h')%nat ∧
    ∀ k, it' !! k = it !! k ∨
         (it' !! k = None ∧ ∃ i e, it !! k = Some i ∧ ord !! i = Some e ∧ eexp e <= now).
  Proof.
    induction region as [|e rest IH]; intros it h it' h' Hreg Hs Hev; simpl in Hev.
    - inversion Hev; subst. split; [done|]. split; [lia|]. intros k. by left.
    - destruct (now <? eexp e) eqn:Hlive.
      + inversion Hev; subst. split; [done|]. split; [lia|]. intros k. by left.
      + apply Z.ltb_ge in Hlive.
        assert (Hh : ord !! h = Some e).
        { rewrite <-(Nat.add_0_r h), <-lookup_drop, <-Hreg. done. }
        assert (Hrest : rest = drop (S h) ord).
        { erewrite drop_S in Hreg by exact Hh. congruence. }
        set (it1 := match it !! ekey e with
                    | Some idx => if Nat.eqb idx h then delete (ekey e) it else it
                    | None => it end) in *.
        assert (Hsub : ∀ k, it1 !! k = it !! k ∨ (it1 !! k = None ∧ it !! k = Some h ∧ k = ekey e)).
        { intros k. subst it1. destruct (it !! ekey e) as [idx|] eqn:Hidx; [|by left].
          destruct (Nat.eqb_spec idx h) as [->|Hne]; [|by left].
          destruct (decide (k = ekey e)) as [->|Hk].
          - right. by rewrite lookup_delete.
          - left. by rewrite lookup_delete_ne. }
        assert (Hs1 : WF (St it1 ord (S h))).
        { destruct Hs as [Hlen Hwf]. simpl in *. split; simpl.
          - apply lookup_lt_Some in Hh. lia.
          - intros k i Hi.
            assert (Hi0 : it !! k = Some i).
            { destruct (Hsub k) as [Heq|(Hn & _)]; congruence. }
            destruct (Hwf _ _ Hi0) as (Hge & e0 & He0 & Hk0). split; [|eauto].
            destruct (decide (i = h)) as [->|]; [|lia]. exfalso.
            assert (e0 = e) by congruence. subst e0. subst k.
            subst it1. rewrite Hi0 in Hi. rewrite Nat.eqb_refl in Hi.
            by rewrite lookup_delete in Hi. }
        destruct (IH it1 (S h) it' h' Hrest Hs1 Hev) as (Hwf' & Hle & Hks).
        split; [done|]. split; [lia|]. intros k.
        destruct (Hks k) as [Heq|(Hn & i & e1 & Hi & He1 & Hexp)].
        * destruct (Hsub k) as [Heq1|(Hn1 & Hh1 & ->)]; [left; congruence|].
          right. split; [congruence|]. exists h, e. done.
        * right. split; [done|]. exists i, e1.
          destruct (Hsub k) as [Heq1|(Hn1 & _)]; [|congruence]. split; [congruence|done].
  Qed.

  Lemma evict_spec now s :
    WF s →
    WF (evict now s) ∧ order (evict now s) = order s ∧ (head s ≤ head (evict now s))%nat ∧
    ∀ k, view (evict now s) !! k = view s !! k ∨
         (view (evict now s) !! k = None ∧ ∃ v e, view s !! k = Some (v, e) ∧ e <= now).
  Proof.
    intros Hs. unfold evict.
    destruct (evict_go now (drop (head s) (order s)) (items s) (head s)) as [it' h'] eqn:Hev.
    destruct s as [it ord h]. simpl in *.
    destruct (evict_go_spec now ord _ it h it' h' eq_refl Hs Hev) as (Hwf' & Hle & Hks).
    split; [done|]. split; [done|]. split; [done|]. intros k.
    rewrite !view_lookup. simpl.
    destruct (Hks k) as [->|(-> & i & e & -> & He & Hexp)]; [by left|].
    right. split; [done|]. exists (evalue e), (eexp e). simpl. rewrite He. done.
  Qed.

  (* ------------------------------------------------------------------ maybeCompact *)
  Lemma elem_of_keep_mapped it : ∀ l i e,
    e ∈ keep_mapped it i l ↔ ∃ j, l !! j = Some e ∧ it !! ekey e = Some (i + j)%nat.
  Proof.
    induction l as [|x l IH]; intros i e; simpl.
    - rewrite elem_of_nil. split; [done|]. by intros (j & Hj & _).
    - assert (Hrest : e ∈ keep_mapped it (S i) l ↔
                      ∃ j, (x :: l) !! S j = Some e ∧ it !! ekey e = Some (i + S j)%nat).
      { rewrite IH. split; intros (j & Hj & Hm); exists j; (split; [done|]).
        - by replace (i + S j)%nat with (S i + j)%nat by lia.
        - by replace (S i + j)%nat with (i + S j)%nat by lia. }
      assert (Hsplit : (∃ j, (x :: l) !! j = Some e ∧ it !! ekey e = Some (i + j)%nat) ↔
                       (x = e ∧ it !! ekey e = Some i) ∨
                       (∃ j, (x :: l) !! S j = Some e ∧ it !! ekey e = Some (i + S j)%nat)).
      { split.
        - intros ([|j] & Hj & Hm); [left|right; eauto].
          simpl in Hj. inversion Hj; subst. by rewrite Nat.add_0_r in Hm.
        - intros [[-> Hm]|(j & Hj & Hm)]; [exists 0%nat|exists (S j)]; [|done].
          by rewrite Nat.add_0_r. }
      rewrite Hsplit, <-Hrest.
      destruct (it !! ekey x) as [idx|] eqn:Hx.
      + destruct (Nat.eqb_spec idx i) as [->|Hne].
        * rewrite elem_of_cons. split.
          -- intros [->|Hin]; [left; done|by right].
          -- intros [[-> _]|Hin]; [by left|by right].
        * split; [by right|]. intros [[-> Hm]|Hin]; [congruence|done].
      + split; [by right|]. intros [[-> Hm]|Hin]; [congruence|done].
  Qed.

  Lemma keep_mapped_NoDup it : ∀ l i, NoDup (ekey <$> keep_mapped it i l).
  Proof.
    induction l as [|x l IH]; intros i; simpl; [constructor|].
    destruct (it !! ekey x) as [idx|] eqn:Hx; [|apply IH].
    destruct (Nat.eqb_spec idx i) as [->|Hne]; [|apply IH].
    rewrite fmap_cons. constructor; [|apply IH].
    rewrite elem_of_list_fmap. intros (e & Hk & Hin).
    apply elem_of_keep_mapped in Hin as (j & _ & Hm). rewrite <-Hk, Hx in Hm.
    inversion Hm. lia.
  Qed.

  Lemma keep_mapped_all it : ∀ l i,
    (∀ j e, l !! j = Some e → it !! ekey e = Some (i + j)%nat) →
    keep_mapped it i l = l.
  Proof.
    induction l as [|x l IH]; intros i Hall; simpl; [done|].
    rewrite (Hall 0%nat x eq_refl), Nat.add_0_r, Nat.eqb_refl. f_equal.
    apply IH. intros j e Hj. replace (S i + j)%nat with (i + S j)%nat by lia. by apply Hall.
  Qed.

  Lemma reindex_notin : ∀ l i it k,
    (∀ e, e ∈ l → ekey e ≠ k) → reindex l i it !! k = it !! k.
  Proof.
    induction l as [|x l IH]; intros i it k Hn; simpl; [done|].
    rewrite IH by (intros e He; apply Hn; by right).
    rewrite lookup_insert_ne; [done|]. apply Hn. by left.
  Qed.

  Lemma reindex_in : ∀ l i it j e,
    NoDup (ekey <$> l) → l !! j = Some e → reindex l i it !! ekey e = Some (i + j)%nat.
  Proof.
    induction l as [|x l IH]; intros i it j e Hnd Hj; [done|].
    rewrite fmap_cons in Hnd. apply NoDup_cons in Hnd as [Hx Hnd]. simpl.
    destruct j as [|j]; simpl in Hj.
    - inversion Hj; subst. rewrite reindex_notin.
      + by rewrite lookup_insert, Nat.add_0_r.
      + intros e' He' Heq. apply Hx. rewrite elem_of_list_fmap. eauto.
    - rewrite (IH (S i) _ j e Hnd Hj). f_equal. lia.
  Qed.

  (* the counting lemma behind the fast path: when the number of mapped keys equals the length of
     the region, every slot of the region is the live mapping of its key *)
  Lemma fast_path_all_mapped s :
    WF s → size (items s) = (length (order s) - head s)%nat →
    ∀ j e, drop (head s) (order s) !! j = Some e → items s !! ekey e = Some (head s + j)%nat.
  Proof.
    intros Hs Hsz j e Hj. pose proof Hs as [Hh Hwf].
    set (idxs := (map_to_list (items s)).*2).
    assert (Hnd : NoDup idxs).
    { apply NoDup_fmap_2_strong; [|apply NoDup_map_to_list].
      intros [k1 i1] [k2 i2] H1 H2 Heq. simpl in Heq. subst i2.
      apply elem_of_map_to_list in H1, H2. f_equal. by eapply WF_inj. }
    assert (Hin : ∀ i, i ∈ idxs → i ∈ seq (head s) (length (order s) - head s)).
    { intros i Hi. apply elem_of_list_fmap in Hi as ([k i'] & -> & Hki). simpl.
      apply elem_of_map_to_list in Hki. destruct (Hwf _ _ Hki) as (Hge & e0 & He0 & _).
      apply lookup_lt_Some in He0. apply elem_of_seq. lia. }
    assert (Hperm : idxs ≡ₚ seq (head s) (length (order s) - head s)).
    { apply submseteq_Permutation_length_le; [|by apply NoDup_submseteq].
      rewrite seq_length. unfold idxs. rewrite fmap_length.
      unfold size, map_size in Hsz. lia. }
    rewrite lookup_drop in Hj.
    assert (Hi : (head s + j)%nat ∈ idxs).
    { rewrite Hperm. apply elem_of_seq. apply lookup_lt_Some in Hj. lia. }
    apply elem_of_list_fmap in Hi as ([k i'] & Heq & Hki). simpl in Heq. subst i'.
    apply elem_of_map_to_list in Hki. destruct (Hwf _ _ Hki) as (_ & e0 & He0 & Hk0).
    assert (e0 = e) by congruence. subst e0. by rewrite Hk0.
  Qed.

  Lemma fast_path_no_holes s :
    WF s → fast_path s = true →
    keep_mapped (items s) (head s) (drop (head s) (order s)) = drop (head s) (order s).
  Proof.
    intros Hs Hf. apply keep_mapped_all. apply fast_path_all_mapped; [done|].
    unfold fast_path in Hf. by apply Nat.eqb_eq in Hf.
  Qed.

  (* the in-place loop of the slow path computes the functional filter: writes go to positions below the
     read cursor, so no slot is overwritten before it is read *)
  Lemma compact_inplace_spec it : ∀ fuel i n arr,
    (n < i)%nat → fuel = (length arr - i)%nat →
    let '(arr', n') := compact_inplace it fuel i n arr in
    take n' arr' = take n arr ++ keep_mapped it i (drop i arr).
  Proof.
    induction fuel as [|f IH]; intros i n arr Hni Hf; simpl.
    - rewrite drop_ge by lia. simpl. by rewrite app_nil_r.
    - destruct (arr !! i) as [e|] eqn:Hi.
      2: { apply lookup_ge_None_1 in Hi. lia. }
      pose proof (lookup_lt_Some _ _ _ Hi) as Hlt.
      rewrite (drop_S _ _ _ Hi). simpl.
      assert (Hskip : let '(arr', n') := compact_inplace it f (S i) n arr in
                      take n' arr' = take n arr ++ keep_mapped it (S i) (drop (S i) arr)).
      { apply IH; lia. }
      destruct (it !! ekey e) as [idx|]; [|exact Hskip].
      destruct (Nat.eqb idx i); [|exact Hskip].
      specialize (IH (S i) (S n) (<[n:=e]> arr) ltac:(lia) ltac:(rewrite insert_length; lia)).
      destruct (compact_inplace it f (S i) (S n) (<[n:=e]> arr)) as [arr' n'].
      rewrite IH. rewrite drop_insert_gt by lia.
      assert (Hn : <[n:=e]> arr !! n = Some e) by (apply list_lookup_insert; lia).
      rewrite (take_S_r _ _ _ Hn), take_insert by lia. by rewrite <-app_assoc.
  Qed.

  Lemma slow_inplace_keep_mapped s :
    (0 < head s)%nat →
    slow_inplace s = keep_mapped (items s) (head s) (drop (head s) (order s)).
  Proof.
    intros Hh. unfold slow_inplace.
    pose proof (compact_inplace_spec (items s) (length (order s) - head s) (head s) 0 (order s) Hh eq_refl) as H.
    destruct (compact_inplace _ _ _ _ _) as [arr n]. by rewrite H, take_0.
  Qed.

  Lemma maybe_compact_eq s :
    WF s → compact_guard s = false →
    let kept := keep_mapped (items s) (head s) (drop (head s) (order s)) in
    maybe_compact s = St (reindex kept 0 (items s)) kept 0.
  Proof.
    intros Hs Hg. unfold maybe_compact. rewrite Hg.
    destruct (fast_path s) eqn:Hf; [|done]. by rewrite fast_path_no_holes.
  Qed.

  Lemma maybe_compact_spec s :
    WF s → WF (maybe_compact s) ∧ view (maybe_compact s) = view s.
  Proof.
    intros Hs. destruct (compact_guard s) eqn:Hg.
    { unfold maybe_compact. by rewrite Hg. }
    rewrite maybe_compact_eq by done. cbv zeta.
    set (kept := keep_mapped (items s) (head s) (drop (head s) (order s))).
    pose proof Hs as [Hh Hwf].
    pose proof (keep_mapped_NoDup (items s) (drop (head s) (order s)) (head s)) as Hnd.
    fold kept in Hnd.
    (* every kept entry is the live mapping of its key, at a known position of order *)
    assert (Hkept : ∀ j e, kept !! j = Some e →
              ∃ i, items s !! ekey e = Some i ∧ order s !! i = Some e).
    { intros j e Hj. apply elem_of_list_lookup_2 in Hj.
      apply elem_of_keep_mapped in Hj as (j' & Hj' & Hm). rewrite lookup_drop in Hj'. eauto. }
    (* every mapped key has its entry among the kept ones *)
    assert (Hmapped : ∀ k i, items s !! k = Some i →
              ∃ j e, kept !! j = Some e ∧ ekey e = k ∧ order s !! i = Some e).
    { intros k i Hi. destruct (Hwf _ _ Hi) as (Hge & e & He & Hk).
      assert (Hin : e ∈ kept).
      { apply elem_of_keep_mapped. exists (i - head s)%nat. rewrite lookup_drop.
        replace (head s + (i - head s))%nat with i by lia. split; [done|]. by rewrite Hk. }
      apply elem_of_list_lookup_1 in Hin as (j & Hj). eauto. }
    (* the rebuilt index *)
    assert (Hre : ∀ k j, reindex kept 0 (items s) !! k = Some j ↔
              ∃ e, kept !! j = Some e ∧ ekey e = k).
    { intros k j. split.
      - intros Hj. destruct (items s !! k) as [i|] eqn:Hi.
        + destruct (Hmapped _ _ Hi) as (j' & e & Hj' & Hk & _).
          pose proof (reindex_in kept 0 (items s) j' e Hnd Hj') as Hr.
          rewrite Hk in Hr. simpl in Hr. assert (j = j') by congruence. subst. eauto.
        + rewrite reindex_notin in Hj; [congruence|].
          intros e He Hk. apply elem_of_list_lookup_1 in He as (j' & Hj').
          destruct (Hkept _ _ Hj') as (i & Hi' & _). congruence.
      - intros (e & Hj & <-). by rewrite (reindex_in kept 0 (items s) j e Hnd Hj). }
    split.
    - split; simpl; [lia|]. intros k j Hj. apply Hre in Hj. split; [lia|done].
    - apply map_eq. intros k. rewrite !view_lookup. simpl.
      destruct (items s !! k) as [i|] eqn:Hi; simpl.
      + destruct (Hmapped _ _ Hi) as (j & e & Hj & Hk & He).
        assert (Hr : reindex kept 0 (items s) !! k = Some j) by (apply Hre; eauto).
        rewrite Hr. simpl. by rewrite Hj, He.
      + destruct (reindex kept 0 (items s) !! k) as [j|] eqn:Hr; [|done]. exfalso.
        apply Hre in Hr as (e & Hj & Hk). destruct (Hkept _ _ Hj) as (i & Hi' & _). congruence.
  Qed.

  (* ------------------------------------------------------------------ Set as a whole *)
  Lemma set_op_spec now k v s :
    WF s →
    WF (set_op ttl now k v s) ∧
    ∀ k', view (set_op ttl now k v s) !! k' = <[k := (v, now + ttl)]> (view s) !! k' ∨
          (view (set_op ttl now k v s) !! k' = None ∧
           ∃ v' e, <[k := (v, now + ttl)]> (view s) !! k' = Some (v', e) ∧ e <= now).
  Proof.
    intros Hs. unfold set_op.
    pose proof (set_raw_WF now k v s Hs) as H1.
    pose proof (set_raw_view now k v s Hs) as V1.
    destruct (evict_spec now _ H1) as (H2 & _ & _ & V2).
    destruct (maybe_compact_spec _ H2) as (H3 & V3).
    split; [done|]. intros k'. rewrite V3, <-V1. apply V2.
  Qed.

  (* ------------------------------------------------------------------ Get / Delete / Reset / ActiveLen *)
  Lemma view_delete_items s k :
    view (St (delete k (items s)) (order s) (head s)) = delete k (view s).
  Proof. unfold view. simpl. apply omap_delete. Qed.

  Lemma WF_delete_items s k : WF s → WF (St (delete k (items s)) (order s) (head s)).
  Proof.
    intros [Hh Hwf]. split; [done|]. simpl. intros k' i Hi.
    apply lookup_delete_Some in Hi as [_ Hi]. by apply Hwf.
  Qed.

  Lemma get_op_WF now k s : WF s → WF (snd (get_op now k s)).
  Proof.
    intros Hs. unfold get_op. destruct (items s !! k) as [idx|]; [|done].
    destruct (order s !! idx) as [e|]; [|done].
    destruct (now <? eexp e); [done|]. by apply WF_delete_items.
  Qed.

  Lemma get_op_view now k s :
    WF s →
    fst (get_op now k s) = (view s !! k) ≫= (λ '(v, e), if now <? e then Some v else None) ∧
    (view (snd (get_op now k s)) = view s ∨
     (view (snd (get_op now k s)) = delete k (view s) ∧
      ∃ v e, view s !! k = Some (v, e) ∧ e <= now)).
  Proof.
    intros Hs. pose proof Hs as [Hh Hwf]. unfold get_op. rewrite view_lookup.
    destruct (items s !! k) as [idx|] eqn:Hk; simpl; [|by split; [|left]].
    destruct (Hwf _ _ Hk) as (_ & e & He & _). rewrite He. simpl.
    destruct (now <? eexp e) eqn:Hl; simpl; [by split; [|left]|].
    split; [done|]. right. rewrite view_delete_items. split; [done|].
    exists (evalue e), (eexp e). simpl. rewrite ?He. simpl.
    apply Z.ltb_ge in Hl. done.
  Qed.

  Lemma active_len_WF now s : WF s → WF (snd (active_len_op now s)).
  Proof.
    intros [Hh Hwf]. split; [done|]. simpl. intros k i Hi.
    apply map_filter_lookup_Some in Hi as [Hi _]. by apply Hwf.
  Qed.

  Lemma active_len_view now s k :
    WF s →
    view (snd (active_len_op now s)) !! k =
      match view s !! k with
      | Some (v, e) => if now <? e then Some (v, e) else None
      | None => None
      end.
  Proof.
    intros Hs. pose proof Hs as [Hh Hwf]. rewrite !view_lookup. simpl.
    destruct (items s !! k) as [i|] eqn:Hi; simpl.
    - destruct (Hwf _ _ Hi) as (_ & e & He & _). rewrite He. simpl.
      destruct (now <? eexp e) eqn:Hl.
      + assert (Hf : filter (λ p : key * nat, entry_live now s p.2 = true) (items s) !! k = Some i).
        { apply map_filter_lookup_Some. split; [done|]. simpl. unfold entry_live. by rewrite He. }
        rewrite Hf. simpl. by rewrite He.
      + assert (Hf : filter (λ p : key * nat, entry_live now s p.2 = true) (items s) !! k = None).
        { apply map_filter_lookup_None. right. intros i' Hi'. simpl.
          assert (i' = i) by congruence. subst. unfold entry_live. rewrite He. congruence. }
        by rewrite Hf.
    - assert (Hf : filter (λ p : key * nat, entry_live now s p.2 = true) (items s) !! k = None).
      { apply map_filter_lookup_None. by left. }
      by rewrite Hf.
  Qed.

  (* ------------------------------------------------------------------ simulation *)

  (* [lo] is a lower bound for every later clock reading.  Entries of the specification that the
     structure no longer carries have expired by [lo] (so no later Get can see them). *)
  Definition R (lo : Z) (s : st) (m : spec) : Prop :=
    WF s ∧
    ∀ k, match view s !! k with
         | Some x => m !! k = Some x
         | None => ∀ v e, m !! k = Some (v, e) → e <= lo
         end.

  Lemma R_init lo : R lo init ∅.
  Proof.
    split; [apply WF_init|]. intros k. rewrite view_init, lookup_empty.
    intros v e Hm. by rewrite ?lookup_empty in Hm.
  Qed.

  Lemma R_mono lo lo' s m : R lo s m → lo <= lo' → R lo' s m.
  Proof.
    intros [Hs Hr] Hle. split; [done|]. intros k. specialize (Hr k).
    destruct (view s !! k); [done|]. intros v e Hm. specialize (Hr v e Hm). lia.
  Qed.

  Lemma step_R lo now o s m :
    R lo s m → lo <= now → R now (fst (step ttl now o s)) (spec_step ttl now o m).
  Proof.
    intros HR Hle. apply (R_mono _ now) in HR; [|done]. clear lo Hle.
    destruct HR as [Hs Hr]. destruct o as [k v|k|k| | |]; simpl.
    - (* Set *)
      destruct (set_op_spec now k v s Hs) as (Hs' & Hv). split; [done|].
      intros k'. specialize (Hv k').
      assert (Hins : match <[k:=(v, now + ttl)]> (view s) !! k' with
                     | Some x => <[k:=(v, now + ttl)]> m !! k' = Some x
                     | None => ∀ v0 e, <[k:=(v, now + ttl)]> m !! k' = Some (v0, e) → e <= now
                     end).
      { destruct (decide (k' = k)) as [->|Hne].
        - by rewrite !lookup_insert.
        - rewrite lookup_insert_ne by done. specialize (Hr k').
          destruct (view s !! k'); simpl; by rewrite lookup_insert_ne. }
      destruct Hv as [->|(-> & v' & e & Hx & Hexp)]; [done|].
      rewrite Hx in Hins. intros v0 e0 Hm. rewrite Hins in Hm. inversion Hm; subst. done.
    - (* Get *)
      destruct (get_op now k s) as [r s'] eqn:Hg. simpl.
      pose proof (get_op_WF now k s Hs) as Hs'. pose proof (get_op_view now k s Hs) as [_ Hv].
      rewrite Hg in Hs', Hv. simpl in *. split; [done|]. intros k'.
      destruct Hv as [->|(-> & v & e & Hk & Hexp)]; [apply Hr|].
      destruct (decide (k' = k)) as [->|Hne].
      + rewrite lookup_delete. intros v0 e0 Hm. specialize (Hr k). rewrite Hk in Hr.
        rewrite Hr in Hm. inversion Hm; subst. done.
      + rewrite lookup_delete_ne by done. apply Hr.
    - (* Delete *)
      split; [by apply WF_delete_items|]. intros k'. unfold delete_op. rewrite view_delete_items.
      destruct (decide (k' = k)) as [->|Hne].
      + rewrite !lookup_delete. intros v e. done.
      + rewrite !lookup_delete_ne by done. apply Hr.
    - (* Reset *)
      split; [apply WF_init|]. intros k'. unfold reset_op. fold init. rewrite view_init, lookup_empty.
      intros v e Hm. by rewrite ?lookup_empty in Hm.
    - (* Len *) done.
    - (* ActiveLen *)
      change (R now (snd (active_len_op now s)) m).
      split; [by apply active_len_WF|]. intros k'. rewrite active_len_view by done.
      specialize (Hr k'). destruct (view s !! k') as [[v e]|] eqn:Hk; [|done].
      destruct (now <? e) eqn:Hl; [done|]. apply Z.ltb_ge in Hl.
      intros v0 e0 Hm. rewrite Hr in Hm. inversion Hm; subst. done.
  Qed.

  Lemma run_R : ∀ h lo s m,
    R lo s m → mono lo h → R (last_time lo h) (run ttl h s) (spec_run ttl h m).
  Proof.
    induction h as [|[t o] h IH]; intros lo s m HR Hm; simpl; [done|].
    destruct Hm as [Hle Hm]. apply IH; [|done]. by eapply step_R.
  Qed.

  Lemma get_R lo now k s m :
    R lo s m → lo <= now → fst (get_op now k s) = spec_get now k m.
  Proof.
    intros [Hs Hr] Hle. destruct (get_op_view now k s Hs) as [-> _].
    unfold spec_get. specialize (Hr k). destruct (view s !! k) as [[v e]|]; simpl.
    - by rewrite Hr.
    - destruct (m !! k) as [[v e]|] eqn:Hm; [|done].
      specialize (Hr v e eq_refl). destruct (now <? e) eqn:Hl; [|done].
      apply Z.ltb_lt in Hl. lia.
  Qed.

  (* ------------------------------------------------------------------ the sentence of the property *)
  Lemma spec_run_app h1 h2 m : spec_run ttl (h1 ++ h2) m = spec_run ttl h2 (spec_run ttl h1 m).
  Proof. revert m. induction h1 as [|[t o] h1 IH]; intros m; simpl; [done|]. apply IH. Qed.

  Lemma spec_run_last_set k : ∀ h,
    spec_run ttl h ∅ !! k = (λ '(v, t), (v, t + ttl)) <$> last_set k (rev h).
  Proof.
    induction h as [|[t o] h IH] using rev_ind; [simpl; by rewrite lookup_empty|].
    rewrite spec_run_app, rev_app_distr. simpl.
    destruct o as [k' v|k'|k'| | |]; simpl; try done.
    - destruct (Pos.eqb_spec k' k) as [->|Hne].
      + by rewrite lookup_insert.
      + by rewrite lookup_insert_ne.
    - destruct (Pos.eqb_spec k' k) as [->|Hne].
      + by rewrite lookup_delete.
      + by rewrite lookup_delete_ne.
  Qed.

  Lemma spec_get_literal now k h : spec_get now k (spec_run ttl h ∅) = literal_get ttl now k h.
  Proof.
    unfold spec_get, literal_get. rewrite spec_run_last_set.
    destruct (last_set k (rev h)) as [[v t]|]; simpl; [|done].
    destruct (now <? t + ttl) eqn:H1, (now - t <? ttl) eqn:H2; try done.
    - apply Z.ltb_lt in H1. apply Z.ltb_ge in H2. lia.
    - apply Z.ltb_ge in H1. apply Z.ltb_lt in H2. lia.
  Qed.

  Theorem get_agrees_with_history h lo now k :
    mono lo h → last_time lo h <= now →
    fst (get_op now k (run ttl h init)) = literal_get ttl now k h.
  Proof.
    intros Hm Hle. rewrite <-spec_get_literal.
    eapply get_R; [|exact Hle]. apply run_R; [apply R_init|done].
  Qed.

  (* ------------------------------------------------------------------ ActiveLen counts the live keys *)
  Lemma size_view s : WF s → size (view s) = size (items s).
  Proof.
    intros Hs. pose proof Hs as [_ Hwf].
    set (g := λ i : nat, match order s !! i with Some e => ent_val e | None => (0, 0) end).
    assert (Heq : view s = g <$> items s).
    { apply map_eq. intros k. rewrite view_lookup, lookup_fmap.
      destruct (items s !! k) as [i|] eqn:Hi; simpl; [|done].
      destruct (Hwf _ _ Hi) as (_ & e & He & _). unfold g. by rewrite He. }
    rewrite Heq. apply map_size_fmap.
  Qed.

  Definition live_at (now : Z) (kv : key * (Z * Z)) : Prop := now < kv.2.2.
  Global Instance live_at_dec now kv : Decision (live_at now kv).
  Proof. unfold live_at. apply _. Defined.

  Lemma active_len_count now s :
    WF s → fst (active_len_op now s) = size (filter (live_at now) (view s)).
  Proof.
    intros Hs.
    assert (Hv : view (snd (active_len_op now s)) = filter (live_at now) (view s)).
    { apply map_eq. intros k. rewrite active_len_view by done.
      destruct (view s !! k) as [[v e]|] eqn:Hk.
      - destruct (now <? e) eqn:Hl; symmetry.
        + apply map_filter_lookup_Some. split; [done|]. unfold live_at. simpl. by apply Z.ltb_lt.
        + apply map_filter_lookup_None. right. intros x Hx. unfold live_at. simpl.
          rewrite Hk in Hx. inversion Hx; subst. simpl. apply Z.ltb_ge in Hl. lia.
      - symmetry. apply map_filter_lookup_None. by left. }
    rewrite <-Hv, size_view by (by apply active_len_WF). done.
  Qed.

  Lemma R_live_filter lo now s m :
    R lo s m → lo <= now → filter (live_at now) (view s) = filter (live_at now) m.
  Proof.
    intros [Hs Hr] Hle. apply map_eq. intros k. specialize (Hr k).
    destruct (view s !! k) as [x|] eqn:Hk.
    - destruct (decide (live_at now (k, x))) as [Hl|Hl].
      + transitivity (Some x); [|symmetry]; by apply map_filter_lookup_Some.
      + transitivity (@None (Z * Z)); [|symmetry]; apply map_filter_lookup_None; right;
          intros y Hy; congruence.
    - transitivity (@None (Z * Z)); [apply map_filter_lookup_None; by left|symmetry].
      apply map_filter_lookup_None. destruct (m !! k) as [[v e]|] eqn:Hm; [right|by left].
      intros y Hy. inversion Hy; subst. unfold live_at. simpl. specialize (Hr v e eq_refl). lia.
  Qed.

  Theorem active_len_counts_live h lo now :
    mono lo h → last_time lo h <= now →
    fst (active_len_op now (run ttl h init)) = size (filter (live_at now) (spec_run ttl h ∅)).
  Proof.
    intros Hm Hle.
    pose proof (run_R h lo init ∅ (R_init lo) Hm) as HR.
    rewrite active_len_count by apply HR. f_equal. by eapply R_live_filter.
  Qed.
End TTL.

(* ------------------------------------------------------------------ why the clock hypothesis is needed *)
(* ttl = 10: Set 1 at 20; Set 2 at 35 evicts key 1 (expired at 30); a clock that steps back to 25
   then asks for key 1: the history says "set 5 ticks ago, live", the map has forgotten it. *)
Definition backward_history : list (Z * op) := [(20, OSet 1 7); (35, OSet 2 8)].

Lemma backward_clock_revives :
  fst (get_op 25 1 (run 10 backward_history init)) = None ∧
  literal_get 10 25 1 backward_history = Some 7.
Proof. split; vm_compute; reflexivity. Qed.

(* ------------------------------------------------------------------ the hypotheses are satisfiable *)
(* a history that reaches in-place refresh, a Get-deleted hole, eviction and a slow-path compaction *)
Definition example_history : list (Z * op) :=
  [(0, OSet 1 1); (0, OSet 2 2); (1, OSet 3 3); (8, OSet 4 4); (11, OGet 3); (11, OSet 5 5); (11, OGet 4); (12, OSet 3 6)].

Lemma example_history_mono : mono 0 example_history.
Proof. simpl. lia. Qed.

Lemma example_history_state :
  let s := run 10 example_history init in
  (size (items s), length (order s), head s) = (3%nat, 3%nat, 0%nat) ∧
  fst (get_op 12 3 s) = Some 6 ∧ fst (get_op 12 1 s) = None ∧ fst (get_op 12 4 s) = Some 4.
Proof. vm_compute. repeat split; reflexivity. Qed.
