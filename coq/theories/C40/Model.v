(* C40: executable model of internal/ddata/crdt_codec.go (EncodeCRDT / DecodeCRDT), of the value
   serializer contract (internal/ddata/crdt_serializer.go) and of internal/codec EncodeCRDTKey /
   DecodeCRDTKey, over the CRDT model of C38.  Definitions only.

   Protobuf messages are records of lists (repeated fields and proto maps are unordered collections of
   entries; proto.Marshal/Unmarshal is the identity on them — trusted library).  Element, key and
   register values travel as bytes produced by the value serializer: modelled as an injective partial
   function, defined on every value except the nil interface (index 0), which it rejects. *)
From stdpp Require Import gmap.
From Coq Require Import ZArith.
From GV Require Import C38.Model C38.Exec.

(* the serializer: Serialize(nil) fails, every other supported value round-trips *)
Definition ser (v : N) : option N := if decide (v = 0%N) then None else Some v.
Definition deser (b : N) : option N := Some b.

Definition pbmap := list (N * N).                       (* map<string,uint64> *)
Record pb_orset := PBS { pbs_entries : list (N * list (N * N)); pbs_clock : pbmap }.

Inductive pbdata :=
| PG (state : pbmap)
| PPN (inc dec : pbmap)
| PF (enabled : bool)
| PL (val : N) (ts : Z) (node : N)
| PMV (entries : list (N * N * N)) (clock : pbmap)      (* value bytes, node, counter *)
| PS (s : pb_orset)
| PM (entries : list (N * pbdata)) (keyset : option pb_orset)
| PUnknown.                                             (* a oneof this build does not know / empty oneof *)

(* ---- ORSet raw state <-> entries grouped by element (RawState / ORSetFromRawState) *)
Definition dots_of_elem (E : gset (N * (N * N))) (x : N) : list (N * N) :=
  snd <$> elements (filter (λ e : N * (N * N), e.1 = x) E).
Definition raw_entries (E : gset (N * (N * N))) : list (N * list (N * N)) :=
  (λ x, (x, dots_of_elem E x)) <$> elements (set_map fst E : gset N).
Definition of_raw_entries (l : list (N * list (N * N))) : gset (N * (N * N)) :=
  ⋃ ((λ xe : N * list (N * N), list_to_set ((λ d, (xe.1, d)) <$> xe.2)) <$> l).

(* mapM over option *)
Fixpoint omapM {A B} (f : A → option B) (l : list A) : option (list B) :=
  match l with
  | [] => Some []
  | x :: r => match f x, omapM f r with Some y, Some ys => Some (y :: ys) | _, _ => None end
  end.

Definition enc_orset_entries (E : gset (N * (N * N))) (c : gmap N N) : option pb_orset :=
  es ← omapM (λ xe : N * list (N * N), b ← ser xe.1; Some (b, xe.2)) (raw_entries E);
  Some (PBS es (map_to_list c)).
Definition dec_orset_entries (p : pb_orset) : option (gset (N * (N * N)) * gmap N N) :=
  es ← omapM (λ be : N * list (N * N), x ← deser be.1; Some (x, be.2)) (pbs_entries p);
  Some (of_raw_entries es, list_to_map (pbs_clock p)).

(* ---- level-0 values *)
Definition encode0 (v : val0) : option pbdata :=
  match v with
  | VG c => Some (PG (map_to_list (g_state c)))
  | VPN c => Some (PPN (map_to_list (g_state (p_inc c))) (map_to_list (g_state (p_dec c))))
  | VF x => Some (PF (f_enabled x))
  | VL r => b ← ser (l_val r); Some (PL b (l_ts r) (l_node r))
  | VMV r =>
      es ← omapM (λ kv : (N * N) * N, b ← ser kv.2; Some (b, kv.1.1, kv.1.2)) (map_to_list (mv_entries r));
      Some (PMV es (map_to_list (mv_clock r)))
  | VS s => PS <$> enc_orset_entries (s_entries s) (s_clock s)
  end.

Definition decode0 (p : pbdata) : option val0 :=
  match p with
  | PG st => Some (VG (GC (list_to_map st) ∅))
  | PPN i d => Some (VPN (PN (GC (list_to_map i) ∅) (GC (list_to_map d) ∅)))
  | PF en => Some (VF (if en then f_enable f_new else f_new))     (* crdt.NewFlag().Enable(): dirty *)
  | PL b ts n => v ← deser b; Some (VL (LW v ts n false))
  | PMV es c =>
      l ← omapM (λ e : N * N * N, v ← deser e.1.1; Some ((e.1.2, e.2), v)) es;
      Some (VMV (MV (list_to_map l) (list_to_map c) false))
  | PS s => '(E, c) ← dec_orset_entries s; Some (VS (ORS E c ∅ ∅))
  | PM _ _ | PUnknown => None
  end.

(* ---- ORMap over any nested value codec *)
Section mapcodec.
  Context {V : Type} (venc : V → option pbdata) (vdec : pbdata → option V).
  Definition encode_map (m : ormap V) : option pbdata :=
    ks ← enc_orset_entries (s_entries (m_keys m)) (s_clock (m_keys m));
    es ← omapM (λ kv : N * V, d ← venc kv.2; b ← ser kv.1; Some (b, d)) (map_to_list (m_vals m));
    Some (PM es (Some ks)).
  Definition decode_map (p : pbdata) : option (ormap V) :=
    match p with
    | PM es ks =>
        kc ← match ks with Some s => dec_orset_entries s | None => Some (∅, ∅) end;
        vs ← omapM (λ e : N * pbdata, k ← deser e.1; d ← vdec e.2; Some (k, d)) es;
        Some (ORM (ORS kc.1 kc.2 ∅ ∅) (list_to_map vs) false)
    | _ => None
    end.
End mapcodec.

Definition encode1 := encode_map encode0.
Definition decode1 := decode_map decode0.
Definition encode2 := encode_map encode1.
Definition decode2 := decode_map decode1.

Definition encode (v : val) : option pbdata :=
  match v with V0 x => encode0 x | V1 m => encode1 m | V2 m => encode2 m end.
(* DecodeCRDT needs no type hint; the harness knows the nesting level of what it encoded *)
Definition decode_like (v : val) (p : pbdata) : option val :=
  match v with V0 _ => V0 <$> decode0 p | V1 _ => V1 <$> decode1 p | V2 _ => V2 <$> decode2 p end.

(* what the harness records for a written slot: None when encoding fails, else [tag,value,core] and the delta state of the decoded value *)
Definition codec_rt (v : val) : option tree :=
  p ← encode v; d ← decode_like v p; Some (T [dump_vc d; vaux d]).

(* ---- keys: EncodeCRDTKey shifts the data type by one (0 = UNSPECIFIED); DecodeCRDTKey rejects 0 and > 7 *)
Definition encode_key (id : N) (dtype : N) : N * N := (id, (dtype + 1)%N).
Definition decode_key (k : option (N * N)) : option (N * N) :=
  match k with
  | None => None
  | Some (id, e) => if decide (e = 0 ∨ 7 < e)%N then None else Some (id, (e - 1)%N)
  end.

(* ---- the harness view: after every op, round-trip the value the op wrote *)
Definition wslot (o : op) : option nat :=
  match o with
  | ONew d _ | OInc d _ _ _ | ODec d _ _ _ | OEnable d _ | OLset d _ _ _ _ | OMvset d _ _ _ | OAdd d _ _ _
  | ORem d _ _ | OMset d _ _ _ _ | OMrem d _ _ | OMget d _ _ | OMerge d _ _ | OClone d _ | ODelta d _
  | OCompact d _ | OFold d _ _ => Some d
  | OReset s => Some s
  | OLaws _ _ _ => None
  end.
Definition rt_tree (v : option val) : tree :=
  match v with
  | None => T []
  | Some x => match codec_rt x with None => T [L 0] | Some t => T [L 1; t] end
  end.
Fixpoint run_rt (m : slots) (p : list op) : list tree :=
  match p with
  | [] => []
  | o :: r => let '(m', _) := exec m o in
              rt_tree (match wslot o with Some d => sget m' d | None => None end) :: run_rt m' r
  end.
Definition check_rt (p : list op) (want : list tree) : option nat := first_diff 0 (run_rt [] p) want.
