(* C40: CRDT values survive encoding. *)
From stdpp Require Import gmap.
From Coq Require Import ZArith Lia.
From GV Require Import C38.Model C38.Exec C40.Model.

(* ------------------------------------------------------------------ serializer contract and mapM *)
Lemma ser_Some v b : ser v = Some b → b = v ∧ v ≠ 0%N.
Proof. unfold ser. destruct (decide (v = 0%N)); [discriminate|]. intros [= <-]. auto. Qed.
Lemma ser_ok v : v ≠ 0%N → ser v = Some v.
Proof. intros H. unfold ser. destruct (decide _); [contradiction|reflexivity]. Qed.

Lemma omapM_Some_inv {A B} (f : A → option B) l l' :
  omapM f l = Some l' → Forall2 (λ x y, f x = Some y) l l'.
Proof.
  revert l'. induction l as [|x l IH]; intros l'; simpl.
  - intros [= <-]. constructor.
  - destruct (f x) eqn:E; [|discriminate]. destruct (omapM f l) eqn:E2; [|discriminate].
    intros [= <-]. constructor; [exact E|]. apply IH. reflexivity.
Qed.
Lemma omapM_Forall2 {A B} (f : A → option B) l l' :
  Forall2 (λ x y, f x = Some y) l l' → omapM f l = Some l'.
Proof. induction 1 as [|x y l l' H _ IH]; simpl; [reflexivity|]. rewrite H, IH. reflexivity. Qed.
Lemma omapM_total {A B} (f : A → option B) (g : A → B) l :
  (∀ x, x ∈ l → f x = Some (g x)) → omapM f l = Some (g <$> l).
Proof.
  induction l as [|x l IH]; intros H; simpl; [reflexivity|].
  rewrite (H x) by left. rewrite IH; [reflexivity|]. intros y Hy. apply H. right. exact Hy.
Qed.
Lemma omapM_None_ex {A B} (f : A → option B) l : omapM f l = None → ∃ x, x ∈ l ∧ f x = None.
Proof.
  induction l as [|x l IH]; simpl; [discriminate|].
  destruct (f x) eqn:E; [|intros _; exists x; split; [left|exact E]].
  destruct (omapM f l) eqn:E2; [discriminate|]. intros _. destruct (IH eq_refl) as [y [Hy Hf]].
  exists y. split; [right; exact Hy|exact Hf].
Qed.
(* a decoder that inverts the encoder element-wise inverts it on lists *)
Lemma omapM_inverse {A B} (f : A → option B) (g : B → option A) l l' :
  (∀ x y, f x = Some y → g y = Some x) → omapM f l = Some l' → omapM g l' = Some l.
Proof.
  intros Hinv H. apply omapM_Some_inv in H. apply omapM_Forall2.
  induction H as [|x y l l' H _ IH]; constructor; [apply Hinv, H|exact IH].
Qed.

(* ------------------------------------------------------------------ ORSet raw state *)
Lemma elem_of_of_raw_entries l (e : N * (N * N)) :
  e ∈ of_raw_entries l ↔ ∃ xe, xe ∈ l ∧ e.1 = xe.1 ∧ e.2 ∈ xe.2.
Proof.
  unfold of_raw_entries. rewrite elem_of_union_list. split.
  - intros [X [HX He]]. apply elem_of_list_fmap in HX as [xe [-> Hxe]]. exists xe. split; [exact Hxe|].
    apply elem_of_list_to_set, elem_of_list_fmap in He as [d [-> Hd]]. simpl. auto.
  - intros [xe (Hxe & H1 & H2)]. eexists. split; [apply elem_of_list_fmap; exists xe; split; [reflexivity|exact Hxe]|].
    apply elem_of_list_to_set, elem_of_list_fmap. exists e.2. split; [|exact H2].
    destruct e as [x d]. simpl in *. subst. reflexivity.
Qed.
Lemma of_raw_entries_raw (E : gset (N * (N * N))) : of_raw_entries (raw_entries E) = E.
Proof.
  apply set_eq; intros e. rewrite elem_of_of_raw_entries. unfold raw_entries, dots_of_elem. split.
  - intros [xe (Hxe & H1 & H2)]. apply elem_of_list_fmap in Hxe as [x [-> Hx]]. simpl in *.
    apply elem_of_list_fmap in H2 as [e' [He' Hin]]. apply elem_of_elements, elem_of_filter in Hin as [Hf Hin].
    destruct e as [a d], e' as [a' d']. simpl in *. subst. exact Hin.
  - intros He. exists (e.1, snd <$> elements (filter (λ e' : N * (N * N), e'.1 = e.1) E)). split; [|split; [reflexivity|]].
    + apply elem_of_list_fmap. exists e.1. split; [reflexivity|]. apply elem_of_elements, elem_of_map. exists e. auto.
    + simpl. apply elem_of_list_fmap. exists e. split; [reflexivity|]. apply elem_of_elements, elem_of_filter. auto.
Qed.

Lemma enc_orset_entries_rt E c p :
  enc_orset_entries E c = Some p → dec_orset_entries p = Some (E, c).
Proof.
  unfold enc_orset_entries, dec_orset_entries. destruct (omapM _ (raw_entries E)) as [es|] eqn:He; simpl; [|discriminate].
  intros [= <-]. simpl.
  assert (es = raw_entries E) as ->.
  { apply omapM_Some_inv in He. clear -He. induction He as [|x y l l' H _ IH]; [reflexivity|].
    f_equal; [|exact IH]. destruct (ser x.1) eqn:Es; simpl in H; [|discriminate]. injection H as <-.
    apply ser_Some in Es as [-> _]. destruct x; reflexivity. }
  rewrite (omapM_total _ (λ be, be)); [|intros [x ds] _; reflexivity]. simpl.
  rewrite list_fmap_id, of_raw_entries_raw, list_to_map_to_list. reflexivity.
Qed.
Lemma enc_orset_entries_ok E c : (∀ e, e ∈ E → e.1 ≠ 0%N) → is_Some (enc_orset_entries E c).
Proof.
  intros H. unfold enc_orset_entries.
  rewrite (omapM_total _ (λ xe, xe)); [simpl; eauto|].
  intros [x ds] Hx. simpl. unfold raw_entries in Hx. apply elem_of_list_fmap in Hx as [y [[= -> ->] Hy]].
  apply elem_of_elements, elem_of_map in Hy as [e [-> He]]. rewrite ser_ok by (apply H, He). reflexivity.
Qed.

(* ------------------------------------------------------------------ level-0 values *)
(* what arrives: same replicated state, delta bookkeeping as the decoder builds it *)
Definition wire0 (v : val0) : val0 :=
  match v with
  | VF x => VF (if f_enabled x then FL true true else FL false false)
  | _ => reset0 v
  end.

Lemma mv_entries_rt (m : gmap (N * N) N) es :
  omapM (λ kv : (N * N) * N, b ← ser kv.2; Some (b, kv.1.1, kv.1.2)) (map_to_list m) = Some es →
  omapM (λ e : N * N * N, v ← deser e.1.1; Some ((e.1.2, e.2), v)) es = Some (map_to_list m).
Proof.
  apply omapM_inverse. intros [[n c] v] [[b n'] c']. simpl.
  destruct (ser v) eqn:E; simpl; [|discriminate]. intros [= <- <- <-]. apply ser_Some in E as [-> _]. reflexivity.
Qed.

Theorem roundtrip0 v p : encode0 v = Some p → decode0 p = Some (wire0 v).
Proof.
  destruct v as [c|c|x|r|r|s]; simpl.
  - intros [= <-]. simpl. rewrite list_to_map_to_list. destruct c; reflexivity.
  - intros [= <-]. simpl. rewrite !list_to_map_to_list. destruct c as [[] []]; reflexivity.
  - intros [= <-]. simpl. destruct x as [[] ?]; reflexivity.
  - destruct (ser (l_val r)) eqn:E; simpl; [|discriminate]. intros [= <-]. simpl.
    apply ser_Some in E as [-> _]. destruct r; reflexivity.
  - destruct (omapM _ _) as [es|] eqn:E; simpl; [|discriminate]. intros [= <-]. unfold decode0.
    rewrite (mv_entries_rt _ _ E). simpl. rewrite !list_to_map_to_list. destruct r; reflexivity.
  - destruct (enc_orset_entries _ _) as [q|] eqn:E; simpl; [|discriminate]. intros [= <-]. unfold decode0.
    rewrite (enc_orset_entries_rt _ _ _ E). simpl. destruct s; reflexivity.
Qed.

(* no nil element / register value: encoding succeeds *)
Definition no_nil0 (v : val0) : Prop :=
  match v with
  | VL r => l_val r ≠ 0%N
  | VMV r => ∀ d x, mv_entries r !! d = Some x → x ≠ 0%N
  | VS s => ∀ e, e ∈ s_entries s → e.1 ≠ 0%N
  | _ => True
  end.
Theorem encode0_total v : no_nil0 v → is_Some (encode0 v).
Proof.
  destruct v as [c|c|x|r|r|s]; simpl; intros H; eauto.
  - rewrite ser_ok by exact H. simpl. eauto.
  - rewrite (omapM_total _ (λ kv : (N * N) * N, (kv.2, kv.1.1, kv.1.2))); [simpl; eauto|].
    intros [d x] Hx. apply elem_of_map_to_list in Hx. simpl. rewrite ser_ok by (eapply H; eauto). reflexivity.
  - destruct (enc_orset_entries_ok (s_entries s) (s_clock s) H) as [q ->]. simpl. eauto.
Qed.
(* and it fails only because of one *)
Theorem encode0_fails_only_on_nil v : encode0 v = None → ¬ no_nil0 v.
Proof. intros E H. destruct (encode0_total v H) as [p Hp]. congruence. Qed.

(* merging the decoded value is merging the original *)
Theorem merge0_wire_r a b : merge0 a (wire0 b) = merge0 a b.
Proof.
  destruct a as [a|a|a|a|a|a], b as [b|b|b|b|b|b]; try reflexivity; simpl.
  - destruct b as [[] ?]; reflexivity.
  - destruct b as [v ts n d]. unfold l_merge, l_reset, l_wins; simpl. destruct (_ || _); reflexivity.
Qed.
Theorem merge0_wire_l a b : core0 (merge0 (wire0 a) b) = core0 (merge0 a b) ∧ value0 (merge0 (wire0 a) b) = value0 (merge0 a b).
Proof.
  destruct a as [a|a|a|a|a|a], b as [b|b|b|b|b|b]; try (split; reflexivity); simpl.
  all: try (destruct a as [[] ?]; split; reflexivity).
  - destruct a as [v ts n d]. unfold l_merge, l_reset, l_wins; simpl. destruct (_ || _); split; reflexivity.
Qed.
Theorem wire0_same_value v : core0 (wire0 v) = core0 v ∧ value0 (wire0 v) = value0 v ∧ tag0 (wire0 v) = tag0 v.
Proof. destruct v as [c|c|x|r|r|s]; simpl; try (repeat split; reflexivity). destruct x as [[] ?]; repeat split; reflexivity. Qed.

(* ------------------------------------------------------------------ ORMap, any nested codec *)
Section maprt.
  Context {V : Type} (venc : V → option pbdata) (vdec : pbdata → option V) (vwire : V → V).
  Context (vrt : ∀ v p, venc v = Some p → vdec p = Some (vwire v)).

  Definition wire_map (m : ormap V) : ormap V := ORM (s_reset (m_keys m)) (vwire <$> m_vals m) false.

  Theorem roundtrip_map m p : encode_map venc m = Some p → decode_map vdec p = Some (wire_map m).
  Proof.
    unfold encode_map. destruct (enc_orset_entries _ _) as [ks|] eqn:Ek; simpl; [|discriminate].
    destruct (omapM _ (map_to_list (m_vals m))) as [es|] eqn:Ee; simpl; [|discriminate].
    intros [= <-]. simpl. rewrite (enc_orset_entries_rt _ _ _ Ek). simpl.
    match goal with |- context [omapM ?f es] =>
      assert (omapM f es = Some (prod_map id vwire <$> map_to_list (m_vals m))) as -> end.
    { apply omapM_Some_inv in Ee. apply omapM_Forall2.
      induction Ee as [|[k v] [b d] l l' H _ IH]; simpl; constructor; [|exact IH].
      simpl in H. destruct (venc v) eqn:Ev; simpl in H; [|discriminate]. destruct (ser k) eqn:Es; simpl in H; [|discriminate].
      injection H as <- <-. apply ser_Some in Es as [-> _]. simpl. rewrite (vrt _ _ Ev). reflexivity. }
    simpl. unfold wire_map, s_reset. f_equal. f_equal.
    rewrite list_to_map_fmap, list_to_map_to_list. reflexivity.
  Qed.

  Theorem encode_map_total m :
    (∀ e, e ∈ s_entries (m_keys m) → e.1 ≠ 0%N) → (∀ k v, m_vals m !! k = Some v → k ≠ 0%N ∧ is_Some (venc v)) →
    is_Some (encode_map venc m).
  Proof.
    intros Hk Hv. unfold encode_map. destruct (enc_orset_entries_ok _ (s_clock (m_keys m)) Hk) as [ks ->]. simpl.
    destruct (omapM _ (map_to_list (m_vals m))) as [es|] eqn:E; simpl; [eauto|].
    apply omapM_None_ex in E as [[k v] [Hin Hf]]. apply elem_of_map_to_list in Hin. destruct (Hv _ _ Hin) as [Hk0 [d Hd]].
    simpl in Hf. rewrite Hd in Hf. simpl in Hf. rewrite ser_ok in Hf by exact Hk0. discriminate.
  Qed.
End maprt.

(* ORMap merge sees only the keys' entries/clock and the nested values through vmerge *)
Section mapmerge.
  Context {V : Type} (vmerge : V → V → V) (vwire : V → V).
  Context (vmerge_wire_r : ∀ a b, vmerge a (vwire b) = vmerge a b).
  (* nested values that arrive alone (only the sender holds the key) are cloned as they are:
     equality up to the nested delta bookkeeping, stated on the part merge reads *)
  Theorem m_merge_wire_keys (a b : ormap V) :
    m_keys (m_merge vmerge a (wire_map vwire b)) = m_keys (m_merge vmerge a b).
  Proof. reflexivity. Qed.
  Theorem m_merge_wire_vals (a b : ormap V) k :
    is_Some (m_vals a !! k) →
    m_vals (m_merge vmerge a (wire_map vwire b)) !! k = m_vals (m_merge vmerge a b) !! k.
  Proof.
    intros [x Hx]. unfold m_merge. cbn [m_vals m_keys wire_map].
    set (ks := s_merge (m_keys a) (s_reset (m_keys b))).
    assert (ks = s_merge (m_keys a) (m_keys b)) as Hks by reflexivity.
    destruct (decide (k ∈ s_elements ks)) as [Hin|Hnin].
    - destruct (m_vals b !! k) as [y|] eqn:Hy.
      + rewrite (map_filter_lookup_Some_2 _ _ k (vmerge x y)); [|rewrite lookup_union_with, Hx, lookup_fmap, Hy; simpl; f_equal; apply vmerge_wire_r|exact Hin].
        symmetry. apply map_filter_lookup_Some_2; [rewrite lookup_union_with, Hx, Hy; reflexivity|rewrite <- Hks; exact Hin].
      + rewrite (map_filter_lookup_Some_2 _ _ k x); [|rewrite lookup_union_with, Hx, lookup_fmap, Hy; reflexivity|exact Hin].
        symmetry. apply map_filter_lookup_Some_2; [rewrite lookup_union_with, Hx, Hy; reflexivity|rewrite <- Hks; exact Hin].
    - rewrite map_filter_lookup_None_2; [|right; intros ? _; exact Hnin].
      symmetry. apply map_filter_lookup_None_2. right. intros ? _. rewrite <- Hks. exact Hnin.
  Qed.
End mapmerge.

(* ------------------------------------------------------------------ keys and unknown types *)
Theorem key_roundtrip id t : (t ≤ 6)%N → decode_key (Some (encode_key id t)) = Some (id, t).
Proof.
  intros H. unfold encode_key, decode_key. destruct (decide _) as [[?|?]|_]; [lia|lia|]. f_equal. f_equal. lia.
Qed.
Theorem key_unknown_rejected id e : (e = 0 ∨ 7 < e)%N → decode_key (Some (id, e)) = None.
Proof. intros H. unfold decode_key. destruct (decide _); [reflexivity|contradiction]. Qed.
Theorem key_nil_rejected : decode_key None = None.
Proof. reflexivity. Qed.
Theorem data_unknown_rejected : decode0 PUnknown = None ∧ decode1 PUnknown = None ∧ decode2 PUnknown = None.
Proof. repeat split. Qed.

(* ------------------------------------------------------------------ examples *)
Example c40_example_rt :
  let s := s_remove (s_add (s_add (s_add s_new 1 1) 1 2) 4 3) 2 in
  let m := m_set merge0 (m_set merge0 m_new 1 5 (VS s)) 4 6 (VG (g_inc g_new 1 7)) in
  ((λ x, dump (Some (V1 x))) <$> (encode1 m ≫= decode1)) = Some (dump (Some (V1 (wire_map wire0 m)))) ∧
  is_Some (encode1 m).
Proof. vm_compute. split; [reflexivity|eauto]. Qed.
Example c40_example_nil : encode0 (VL l_new) = None ∧ encode0 (VS (s_add s_new 1 0)) = None.
Proof. vm_compute. split; reflexivity. Qed.
