(* C47 — any number of callers of Execute interleaved at the granularity of the breaker's atomic
   operations (atomic loads of state/openUntil, transitionTo under its mutex, the non-blocking send on
   semCh, buckets.add under its mutex, the receive from semCh).

   Shared state: (state, openUntil, sem).  What record() does to the state (toOpen/toClosed, decided on
   totals read earlier) is over-approximated by an arbitrary change of state/openUntil, also allowed to
   the environment at any time — the bound does not depend on it.  The clock reading of each step is
   arbitrary.  Callers may be spawned at any step: the set of threads is unbounded.

   Invariant (all reachable configurations): the counter equals the number of callers holding a token,
   is at most cap, every caller running the protected function without a token saw state Closed, so at
   most cap callers admitted by a non-closed breaker run the protected function at the same time. *)
From Coq Require Import ZArith Lia.
From stdpp Require Import list.
From GV Require Import C47.Model.
Open Scope Z_scope.

Inductive pc :=
| PStart                       (* about to load state *)
| PBranch (seen : bstate)      (* state loaded *)
| PCheckClock                  (* saw Open: compare the clock with openUntil *)
| PToHalf                      (* timeout passed: transitionTo(HalfOpen) *)
| PSemTry                      (* select { case semCh <- struct{}{}: ... default: ... } *)
| PInCall (tok : bool) (seen : bstate)   (* inside the protected function *)
| PRecording (tok : bool)      (* buckets.add + transition *)
| PReleasing (tok : bool)      (* deferred release *)
| PRejected
| PDone.

Record shared := SH { s_st : bstate; s_until : Z; s_sem : nat }.

Definition holds (p : pc) : nat :=
  match p with
  | PInCall true _ | PRecording true | PReleasing true => 1
  | _ => 0
  end.

Fixpoint nholders (ts : list pc) : nat :=
  match ts with [] => 0 | p :: r => holds p + nholders r end.

Definition probing (p : pc) : nat :=
  match p with PInCall true _ => 1 | _ => 0 end.

Fixpoint nprobing (ts : list pc) : nat :=
  match ts with [] => 0 | p :: r => probing p + nprobing r end.

Section Conc.
  Variable cap : nat.

  Inductive cstep : shared * list pc -> shared * list pc -> Prop :=
  | CSpawn sh ts : cstep (sh, ts) (sh, ts ++ [PStart])
  | CHavoc sh ts st' u' : cstep (sh, ts) (SH st' u' (s_sem sh), ts)
  | CLoad sh ts i :
      ts !! i = Some PStart ->
      cstep (sh, ts) (sh, <[i := PBranch (s_st sh)]> ts)
  | CBranch sh ts i seen :
      ts !! i = Some (PBranch seen) ->
      cstep (sh, ts) (sh, <[i := match seen with
                                 | Closed => PInCall false Closed
                                 | Open => PCheckClock
                                 | HalfOpen => PSemTry
                                 end]> ts)
  | CClock sh ts i (now : Z) :
      ts !! i = Some PCheckClock ->
      cstep (sh, ts) (sh, <[i := if now <? s_until sh then PRejected else PToHalf]> ts)
  | CToHalf sh ts i :
      ts !! i = Some PToHalf ->
      cstep (sh, ts) (SH HalfOpen (s_until sh) (s_sem sh), <[i := PSemTry]> ts)
  | CSemOk sh ts i :
      ts !! i = Some PSemTry -> (s_sem sh < cap)%nat ->
      cstep (sh, ts) (SH (s_st sh) (s_until sh) (S (s_sem sh)), <[i := PInCall true (s_st sh)]> ts)
  | CSemFull sh ts i :
      ts !! i = Some PSemTry -> (cap <= s_sem sh)%nat ->
      cstep (sh, ts) (sh, <[i := PRejected]> ts)
  | CReturn sh ts i tok seen (cancelled : bool) :
      ts !! i = Some (PInCall tok seen) ->
      cstep (sh, ts) (sh, <[i := if cancelled then PReleasing tok else PRecording tok]> ts)
  | CRecord sh ts i tok st' u' :
      ts !! i = Some (PRecording tok) ->
      cstep (sh, ts) (SH st' u' (s_sem sh), <[i := PReleasing tok]> ts)
  | CRelease sh ts i tok :
      ts !! i = Some (PReleasing tok) ->
      cstep (sh, ts) (SH (s_st sh) (s_until sh) (if tok then Nat.pred (s_sem sh) else s_sem sh), <[i := PDone]> ts).

  Inductive reach : shared * list pc -> Prop :=
  | reach_init st0 u0 : reach (SH st0 u0 0, [])
  | reach_step c c' : reach c -> cstep c c' -> reach c'.

  Definition Inv (c : shared * list pc) : Prop :=
    s_sem (fst c) = nholders (snd c) /\
    (s_sem (fst c) <= cap)%nat /\
    forall i seen, snd c !! i = Some (PInCall false seen) -> seen = Closed.

  Lemma nholders_app a b : nholders (a ++ b) = (nholders a + nholders b)%nat.
  Proof. induction a; simpl; lia. Qed.

  Lemma nholders_insert : forall ts i old new,
    ts !! i = Some old -> (nholders (<[i := new]> ts) + holds old = nholders ts + holds new)%nat.
  Proof.
    induction ts as [|p ts IH]; intros i old new Hi; [done|].
    destruct i as [|i]; simpl in *.
    - inversion Hi; subst. lia.
    - specialize (IH i old new Hi). lia.
  Qed.

  Lemma nprobing_le : forall ts, (nprobing ts <= nholders ts)%nat.
  Proof. induction ts as [|p ts IH]; simpl; [lia|]. destruct p as [| | | | |[] ?|[]|[]| |]; simpl; lia. Qed.

  Lemma incall_insert (ts : list pc) (i : nat) new (j : nat) seen :
    (forall k s, ts !! k = Some (PInCall false s) -> s = Closed) ->
    (forall s, new = PInCall false s -> s = Closed) ->
    <[i := new]> ts !! j = Some (PInCall false seen) -> seen = Closed.
  Proof.
    intros Hall Hnew Hj. destruct (decide (i = j)) as [->|Hne].
    - destruct (decide (j < length ts)%nat).
      + rewrite list_lookup_insert in Hj by done. inversion Hj. by eapply Hnew.
      + rewrite list_insert_ge in Hj by lia. by eapply Hall.
    - rewrite list_lookup_insert_ne in Hj by done. by eapply Hall.
  Qed.

  Ltac ins new :=
    match goal with H : ?ts !! ?i = Some _ |- _ =>
      pose proof (nholders_insert ts i _ new H) as Hn; simpl in Hn end.

  Lemma Inv_step c c' : Inv c -> cstep c c' -> Inv c'.
  Proof.
    intros (Hs & Hc & Hin) Hst. inversion Hst; subst; simpl in *; unfold Inv; simpl.
    - (* spawn *) rewrite nholders_app. simpl. split; [lia|]. split; [done|].
      intros i seen Hi. apply lookup_app_Some in Hi as [Hi|[_ Hi]]; [by eapply Hin|].
      destruct (i - length ts)%nat as [|n]; simpl in Hi; [done|]. by destruct n.
    - (* havoc *) done.
    - ins ((PBranch (s_st sh))).
      split; [lia|]. split; [done|]. intros j seen. apply incall_insert; [done|]. intros; done.
    - ins ((match seen with Closed => PInCall false Closed | Open => PCheckClock | HalfOpen => PSemTry end)).
      simpl in Hn. split; [destruct seen; simpl in *; lia|]. split; [done|].
      intros j seen'. apply incall_insert; [done|]. destruct seen; intros s [=]; done.
    - ins ((if now <? s_until sh then PRejected else PToHalf)).
      simpl in Hn. split; [destruct (now <? s_until sh); simpl in *; lia|]. split; [done|].
      intros j seen'. apply incall_insert; [done|]. destruct (now <? s_until sh); intros s [=].
    - ins (PSemTry).
      split; [lia|]. split; [done|]. intros j seen'. apply incall_insert; [done|]. intros s [=].
    - ins ((PInCall true (s_st sh))).
      split; [lia|]. split; [lia|]. intros j seen'. apply incall_insert; [done|]. intros s [=].
    - ins (PRejected).
      split; [lia|]. split; [done|]. intros j seen'. apply incall_insert; [done|]. intros s [=].
    - ins ((if cancelled then PReleasing tok else PRecording tok)).
      split; [destruct cancelled, tok; simpl in *; lia|]. split; [done|].
      intros j seen'. apply incall_insert; [done|]. destruct cancelled; intros s [=].
    - ins ((PReleasing tok)).
      split; [destruct tok; simpl in *; lia|]. split; [done|].
      intros j seen'. apply incall_insert; [done|]. intros s [=].
    - ins (PDone).
      split; [destruct tok; simpl in *; lia|]. split; [destruct tok; lia|].
      intros j seen'. apply incall_insert; [done|]. intros s [=].
  Qed.

  Theorem reach_Inv c : reach c -> Inv c.
  Proof.
    induction 1 as [st0 u0|c c' _ IH Hst].
    - split; [done|]. split; simpl; [lia|]. intros i seen Hi. done.
    - by eapply Inv_step.
  Qed.

  (* at most cap callers admitted by a non-closed breaker run the protected function concurrently,
     for any number of callers, any interleaving, any clock readings *)
  Theorem concurrent_probes_bounded sh ts :
    reach (sh, ts) ->
    (nprobing ts <= cap)%nat /\
    forall i seen, ts !! i = Some (PInCall false seen) -> seen = Closed.
  Proof.
    intros Hr. destruct (reach_Inv _ Hr) as (Hs & Hc & Hin). simpl in *. split; [|done].
    pose proof (nprobing_le ts). lia.
  Qed.
End Conc.
