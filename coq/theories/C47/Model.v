(* C47 — executable model of the circuit breaker (breaker/breaker.go, bucket.go, state.go, options.go).

   bucketWindow: ring [buf] of (succ, fail, start) buckets, [cursor], [lastUpdate];
                 advanceLocked / hardResetLocked / add / totalsLocked / snapshot / reset as written.
   CircuitBreaker: state, openUntil, the half-open semaphore channel as a counter [sem] (its
                 capacity is halfOpenMaxCalls), lastFailure/lastSuccess; tryAcquire, record,
                 transitionTo, release as written.
   Events are the things a caller of Execute does: start a call (tryAcquire), finish it with an
   outcome (record unless the caller cancelled, then release the token if one was taken), or read
   Metrics (which advances the window).  Every event carries the reading of the options clock it
   makes; an event is atomic (see C47/Conc.v for the finer interleaving of the semaphore).

   The rate test `float64(fail)/float64(total) >= failureRate` is the section variable [reached];
   [reached_q p q] is the exact rational comparison fail/total >= p/q used for execution.

   No proofs here. *)
From Coq Require Import ZArith.
From stdpp Require Import list.
Open Scope Z_scope.

Inductive bstate := Closed | Open | HalfOpen.

Definition bstate_code (s : bstate) : Z :=
  match s with Closed => 0 | Open => 1 | HalfOpen => 2 end.

Definition bstate_eqb (a b : bstate) : bool := bstate_code a =? bstate_code b.

(* a bucket: successes, failures, start time *)
Notation bucket := (Z * Z * Z)%type.

Record bwin := BW { buf : list bucket; cursor : nat; lastUpdate : Z }.

Record breaker := BR {
  st : bstate;
  openUntil : Z;
  sem : nat;                 (* len(semCh): half-open tokens currently held *)
  win : bwin;
  lastFailure : Z;
  lastSuccess : Z }.

Inductive outcome := OK | Fail | Cancel.

Inductive event :=
| EStart                               (* Execute ... tryAcquire *)
| EDone (o : outcome) (tok : bool)     (* fn returned: record (unless Cancel); release iff tok *)
| EMetrics.                            (* Metrics(): snapshot advances the window *)

(* what an event returns: (allowed, acquired) for EStart, the window totals (succ, fail) for EMetrics *)
Inductive output :=
| OAcq (allowed acquired : bool)
| OTot (succ fail : Z)
| ONone.

(* newBuckets: bucket duration from the window and the bucket count *)
Definition mk_num (n : Z) : Z := if n <? 1 then 1 else n.
Definition mk_bn (window n : Z) : Z :=
  let d := Z.quot window (mk_num n) in if d <=? 0 then 1 else d.

Section Breaker.
  Variable bn : Z.                 (* bucketDur in ns, > 0 *)
  Variable num : nat.              (* number of buckets, >= 1 *)
  Variable minReq : Z.             (* minRequests *)
  Variable openTimeout : Z.
  Variable cap : nat.              (* halfOpenMaxCalls = cap(semCh) *)
  Variable reached : Z -> Z -> bool.   (* fail total |-> float64(fail)/float64(total) >= failureRate *)

  (* ---------------------------------------------------------------- bucketWindow *)
  Definition hard_reset (now : Z) (w : bwin) : bwin :=
    BW (map (fun _ => (0, 0, now)) (buf w)) 0 now.

  Definition new_window (now : Z) : bwin :=
    hard_reset now (BW (replicate num (0, 0, 0)) 0 0).

  (* one iteration of the rotation loop *)
  Definition rotate (w : bwin) : bwin :=
    let c := Nat.modulo (S (cursor w)) num in
    let lu := lastUpdate w + bn in
    BW (<[c := (0, 0, lu)]> (buf w)) c lu.

  Definition advance (now : Z) (w : bwin) : bwin :=
    let elapsed := now - lastUpdate w in
    if elapsed <? bn then w
    else
      let steps := Z.quot elapsed bn in
      if steps >=? Z.of_nat num then hard_reset now w
      else Nat.iter (Z.to_nat steps) rotate w.

  Definition totals (w : bwin) : Z * Z :=
    fold_left (fun '(s, f) '(bs, bf, _) => (s + bs, f + bf)) (buf w) (0, 0).

  Definition bump (success : bool) (b : bucket) : bucket :=
    let '(s, f, t) := b in if success then (s + 1, f, t) else (s, f + 1, t).

  Definition add (now : Z) (success : bool) (w : bwin) : bwin * (Z * Z) :=
    let w1 := advance now w in
    let w2 := BW (alter (bump success) (cursor w1) (buf w1)) (cursor w1) (lastUpdate w1) in
    (w2, totals w2).

  Definition snapshot (now : Z) (w : bwin) : bwin * (Z * Z) :=
    let w1 := advance now w in (w1, totals w1).

  (* ---------------------------------------------------------------- CircuitBreaker *)
  Definition new_breaker (now : Z) : breaker := BR Closed 0 0 (new_window now) 0 0.

  Definition transition (target : bstate) (now : Z) (b : breaker) : breaker :=
    if bstate_eqb (st b) target then b
    else match target with
         | Open => BR Open (now + openTimeout) (sem b) (win b) (lastFailure b) (lastSuccess b)
         | HalfOpen | Closed =>
             BR target (openUntil b) (sem b) (hard_reset now (win b)) (lastFailure b) (lastSuccess b)
         end.

  (* the non-blocking send on semCh *)
  Definition sem_try (b : breaker) : breaker * (bool * bool) :=
    if Nat.ltb (sem b) cap
    then (BR (st b) (openUntil b) (S (sem b)) (win b) (lastFailure b) (lastSuccess b), (true, true))
    else (b, (false, false)).

  Definition try_acquire (now : Z) (b : breaker) : breaker * (bool * bool) :=
    match st b with
    | Closed => (b, (true, false))
    | Open => if now <? openUntil b then (b, (false, false))
              else sem_try (transition HalfOpen now b)
    | HalfOpen => sem_try b
    end.

  Definition release (b : breaker) : breaker :=
    BR (st b) (openUntil b) (Nat.pred (sem b)) (win b) (lastFailure b) (lastSuccess b).

  Definition record (now : Z) (success : bool) (b : breaker) : breaker :=
    let '(w, (succ, fail)) := add now success (win b) in
    let b1 := BR (st b) (openUntil b) (sem b) w
                 (if success then lastFailure b else now) (if success then now else lastSuccess b) in
    let total := succ + fail in
    if total <? minReq then b1
    else if reached fail total then transition Open now b1
    else match st b1 with
         | HalfOpen => transition Closed now b1
         | _ => b1
         end.

  Definition step (now : Z) (e : event) (b : breaker) : breaker * output :=
    match e with
    | EStart => let '(b', (al, ac)) := try_acquire now b in (b', OAcq al ac)
    | EDone o tok =>
        let b1 := match o with
                  | OK => record now true b
                  | Fail => record now false b
                  | Cancel => b
                  end in
        (if tok then release b1 else b1, ONone)
    | EMetrics =>
        let '(w, (s, f)) := snapshot now (win b) in
        (BR (st b) (openUntil b) (sem b) w (lastFailure b) (lastSuccess b), OTot s f)
    end.

  Fixpoint run (h : list (Z * event)) (b : breaker) : breaker :=
    match h with
    | [] => b
    | (now, e) :: rest => run rest (fst (step now e b))
    end.

  (* the trace of a history: every event with what it returned *)
  Fixpoint trace (h : list (Z * event)) (b : breaker) : list (Z * event * output) :=
    match h with
    | [] => []
    | (now, e) :: rest => let '(b', o) := step now e b in (now, e, o) :: trace rest b'
    end.

  (* ---------------------------------------------------------------- observation for the tie *)
  Definition buf_digest (l : list bucket) : Z :=
    snd (fold_left (fun '(i, h) '(s, f, t) => (i + 1, h + i * (s * 7919 + f * 104729 + t))) l (1, 0)).

  (* (state, sem, cursor | openUntil | lastUpdate | digest of buckets | lastFailure, lastSuccess, output) *)
  Definition out_code (o : output) : Z :=
    match o with
    | OAcq al ac => 1 + (if al then 2 else 0) + (if ac then 4 else 0)
    | OTot s f => 8 + 16 * (s + 4096 * f)
    | ONone => 0
    end.

  Definition observe (b : breaker) (o : output) : list Z :=
    [ bstate_code (st b) + 4 * Z.of_nat (sem b) + 1024 * Z.of_nat (cursor (win b));
      openUntil b; lastUpdate (win b);
      Z.land (buf_digest (buf (win b))) 2305843009213693951;
      lastFailure b; lastSuccess b; out_code o ].

  Fixpoint list_eqb (a b : list Z) : bool :=
    match a, b with
    | [], [] => true
    | x :: a', y :: b' => (x =? y) && list_eqb a' b'
    | _, _ => false
    end.

  (* packed event: code + 8 * now;  code 0=Start, 1=Metrics, 2..7 = Done with
     outcome (OK,Fail,Cancel) x tok(false,true): 2 + 2*outcome + tok *)
  Definition decode_event (z : Z) : Z * event :=
    let c := z mod 8 in
    (z / 8,
     if c =? 0 then EStart else if c =? 1 then EMetrics
     else let o := (c - 2) / 2 in
          EDone (if o =? 0 then OK else if o =? 1 then Fail else Cancel) ((c - 2) mod 2 =? 1)).

  (* compare with what the implementation showed after every event (7 numbers per event, flat) *)
  Fixpoint first_mismatch (i : nat) (h : list Z) (obs : list Z) (b : breaker) : option nat :=
    match h with
    | z :: rest =>
        let '(now, e) := decode_event z in
        let '(b', o) := step now e b in
        if list_eqb (observe b' o) (take 7 obs) then first_mismatch (S i) rest (drop 7 obs) b' else Some i
    | [] => match obs with [] => None | _ => Some i end
    end.
End Breaker.

(* exact rational rate test: fail/total >= p/q  (q > 0, total > 0) *)
Definition reached_q (p q fail total : Z) : bool := p * total <=? q * fail.
