(* C47 — publication order inside transitionTo(Open).

   tryAcquire loads state and openUntil without the transition mutex.  transitionTo(Open) therefore
   has two atomic stores that other callers can observe separately: openUntil.Store(deadline) and
   state.Store(Open).  The code stores the deadline first.  Model: one transition at a time (the mutex),
   program counter of the transitioning caller, [ghost] = deadline of the open period that is (or is
   being) entered.  [armed_first = true] is the order in breaker.go; [false] publishes the state first.

   Invariant for the code's order: whenever Open is visible, openUntil is the deadline of that open
   period — so a lock-free reader that sees Open compares the clock with the right deadline.  For the
   other order a reachable configuration shows Open with a stale openUntil. *)
From Coq Require Import ZArith Lia.
From GV Require Import C47.Model.
Open Scope Z_scope.

Inductive tpc := TIdle | TMid (d : Z).      (* TMid: first of the two stores done *)

Record pub := PUB { p_st : bstate; p_until : Z; p_ghost : Z; p_pc : tpc }.

Section Publish.
  Variable armed_first : bool.

  Inductive pstep : pub -> pub -> Prop :=
  | PBegin s d :                      (* mutex taken, target Open, current state is not Open *)
      p_pc s = TIdle -> p_st s <> Open ->
      pstep s (if armed_first
               then PUB (p_st s) d (p_ghost s) (TMid d)          (* openUntil.Store(d) *)
               else PUB Open (p_until s) d (TMid d))             (* state.Store(Open) *)
  | PEnd s d :
      p_pc s = TMid d ->
      pstep s (if armed_first
               then PUB Open (p_until s) d TIdle                 (* state.Store(Open) *)
               else PUB (p_st s) d (p_ghost s) TIdle)            (* openUntil.Store(d) *)
  | POther s t :                      (* transitionTo(HalfOpen / Closed): one visible store *)
      p_pc s = TIdle -> t <> Open -> p_st s <> t ->
      pstep s (PUB t (p_until s) (p_ghost s) TIdle).

  Inductive preach : pub -> Prop :=
  | preach_init : preach (PUB Closed 0 0 TIdle)
  | preach_step s s' : preach s -> pstep s s' -> preach s'.
End Publish.

Definition PInv (s : pub) : Prop :=
  (p_st s = Open -> p_until s = p_ghost s) /\
  (forall d, p_pc s = TMid d -> p_until s = d /\ p_st s <> Open).

(* the order in breaker.go: Open is never visible with another deadline than its own *)
Theorem deadline_armed_before_open_visible s :
  preach true s -> p_st s = Open -> p_until s = p_ghost s.
Proof.
  intros Hr. assert (HI : PInv s); [|exact (proj1 HI)].
  induction Hr as [|s s' _ IH Hst].
  - split; simpl; [discriminate|]. intros d H. discriminate.
  - destruct IH as [I1 I2]. inversion Hst; subst; simpl.
    + split; simpl; [intros Ho; contradiction|]. intros d' [= <-]. split; [reflexivity|assumption].
    + destruct (I2 d H) as [Hu _]. split; simpl; [intros _; exact Hu|]. intros d' H'. discriminate.
    + split; simpl; [intros Ho; subst; contradiction|]. intros d H'. discriminate.
Qed.

(* publishing the state first: Open is visible while openUntil is still the previous value *)
Theorem state_first_shows_open_with_stale_deadline :
  exists s, preach false s /\ p_st s = Open /\ p_until s = 0 /\ p_ghost s = 1000.
Proof.
  exists (PUB Open 0 1000 (TMid 1000)). split; [|repeat split].
  apply (preach_step false (PUB Closed 0 0 TIdle)); [constructor|].
  apply (PBegin false (PUB Closed 0 0 TIdle) 1000); [reflexivity|discriminate].
Qed.
