(* C47 — the circuit breaker state machine: proofs over C47/Model.v, using the window refinement
   of C47/Window.v. *)
From Coq Require Import ZArith Lia ZifyBool.
From stdpp Require Import list.
From GV Require Import C47.Model C47.Window.
Open Scope Z_scope.

Lemma bstate_eqb_eq a b : bstate_eqb a b = true <-> a = b.
Proof. destruct a, b; unfold bstate_eqb; simpl; split; intros; try done. Qed.

Lemma bstate_eqb_refl a : bstate_eqb a a = true.
Proof. by apply bstate_eqb_eq. Qed.

Section Breaker.
  Variable bn : Z.
  Variable num : nat.
  Variable minReq : Z.
  Variable openTimeout : Z.
  Variable cap : nat.
  Variable reached : Z -> Z -> bool.
  Hypothesis Hbn : 0 < bn.
  Hypothesis Hnum : (0 < num)%nat.

  Notation step := (step bn num minReq openTimeout cap reached).
  Notation run := (run bn num minReq openTimeout cap reached).
  Notation trace := (trace bn num minReq openTimeout cap reached).
  Notation record := (record bn num minReq openTimeout reached).
  Notation try_acquire := (try_acquire openTimeout cap).
  Notation transition := (transition openTimeout).

  (* ---------------------------------------------------------------- small facts *)
  Lemma transition_cases target now b :
    (st b = target /\ transition target now b = b) \/
    (st b <> target /\ st (transition target now b) = target /\
     sem (transition target now b) = sem b /\
     win (transition target now b) = match target with Open => win b | _ => hard_reset now (win b) end /\
     openUntil (transition target now b) = match target with Open => now + openTimeout | _ => openUntil b end).
  Proof.
    clear Hbn Hnum.
    unfold Model.transition. destruct (bstate_eqb (st b) target) eqn:He.
    - left. by apply bstate_eqb_eq in He.
    - right. assert (st b <> target) by (intros Heq; apply bstate_eqb_eq in Heq; congruence).
      destruct target; done.
  Qed.

  Lemma sem_try_facts b :
    st (fst (sem_try cap b)) = st b /\ win (fst (sem_try cap b)) = win b /\
    openUntil (fst (sem_try cap b)) = openUntil b /\
    ((snd (sem_try cap b) = (true, true) /\ (sem b < cap)%nat /\ sem (fst (sem_try cap b)) = S (sem b)) \/
     (snd (sem_try cap b) = (false, false) /\ (cap <= sem b)%nat /\ fst (sem_try cap b) = b)).
  Proof.
    clear Hbn Hnum.
    unfold sem_try. destruct (Nat.ltb_spec (sem b) cap); simpl; repeat split; auto.
  Qed.

  (* the state after one event, as a table *)
  Definition next_state (now : Z) (e : event) (b : breaker) : bstate :=
    match e with
    | EStart => match st b with
                | Open => if now <? openUntil b then Open else HalfOpen
                | s => s
                end
    | EDone Cancel _ | EMetrics => st b
    | EDone o _ =>
        let '(s, f) := snd (add bn num now (match o with OK => true | _ => false end) (win b)) in
        if s + f <? minReq then st b
        else if reached f (s + f) then Open
        else match st b with HalfOpen => Closed | s' => s' end
    end.

  Lemma record_st now ok b :
    st (record now ok b) =
      let '(s, f) := snd (add bn num now ok (win b)) in
      if s + f <? minReq then st b
      else if reached f (s + f) then Open
      else match st b with HalfOpen => Closed | s' => s' end.
  Proof.
    clear Hbn Hnum.
    unfold Model.record. destruct (add bn num now ok (win b)) as [w [s f]] eqn:Ha. simpl.
    destruct (s + f <? minReq); [done|].
    destruct (reached f (s + f)).
    - match goal with |- st (transition Open now ?x) = _ => destruct (transition_cases Open now x) as [[H1 ->]|(_ & H2 & _)] end; done.
    - simpl. destruct (st b) eqn:Hs; done.
  Qed.

  Theorem step_state now e b : st (fst (step now e b)) = next_state now e b.
  Proof.
    clear Hbn Hnum.
    destruct e as [|o tok|]; simpl.
    - unfold Model.try_acquire. destruct (st b) eqn:Hs; simpl; [by rewrite Hs| |].
      + destruct (now <? openUntil b); simpl; [by rewrite Hs|].
        destruct (sem_try_facts (transition HalfOpen now b)) as (H1 & _).
        destruct (sem_try cap (transition HalfOpen now b)) as [b' [al ac]]. simpl in *. rewrite H1.
        destruct (transition_cases HalfOpen now b) as [[H ?]|(_ & H & _)]; congruence.
      + destruct (sem_try_facts b) as (H1 & _).
        destruct (sem_try cap b) as [b' [al ac]]. simpl in *. congruence.
    - assert (Hrel : forall x, st (if tok then release x else x) = st x) by (intros; by destruct tok).
      rewrite Hrel. destruct o; [by rewrite record_st|by rewrite record_st|done].
    - unfold snapshot. simpl. destruct (totals (advance bn num now (win b))). done.
  Qed.

  (* ---------------------------------------------------------------- the window under the breaker *)
  Definition resets (b b' : breaker) : bool :=
    negb (bstate_eqb (st b) (st b')) && negb (bstate_eqb (st b') Open).

  (* ghost: the outcomes recorded since the window was last reset by a transition *)
  Definition ghost_step (now : Z) (e : event) (b : breaker) (g : list (Z * bool)) : list (Z * bool) :=
    let g1 := match e with
              | EDone OK _ => g ++ [(now, true)]
              | EDone Fail _ => g ++ [(now, false)]
              | _ => g
              end in
    if resets b (fst (step now e b)) then [] else g1.

  Fixpoint ghost (h : list (Z * event)) (b : breaker) (g : list (Z * bool)) : list (Z * bool) :=
    match h with
    | [] => g
    | (now, e) :: rest => ghost rest (fst (step now e b)) (ghost_step now e b g)
    end.

  Fixpoint mono (lo : Z) (h : list (Z * event)) : Prop :=
    match h with [] => True | (t, _) :: rest => lo <= t /\ mono t rest end.

  Fixpoint last_time (lo : Z) (h : list (Z * event)) : Z :=
    match h with [] => lo | (t, _) :: rest => last_time t rest end.

  Definition J (b : breaker) (g : list (Z * bool)) (tl : Z) : Prop :=
    Iw bn num (win b) g /\ lastUpdate (win b) <= tl.

  Lemma J_new t0 : J (new_breaker num t0) [] t0.
  Proof.
    split; simpl; [|lia]. apply Iw_reset; [done|].
    split; simpl; [by rewrite replicate_length|lia].
  Qed.

  Lemma J_transition target now b g tl :
    J b g tl -> tl <= now ->
    J (transition target now b) (if resets b (transition target now b) then [] else g) now.
  Proof.
    intros [HI Hl] Hle. unfold resets.
    destruct (transition_cases target now b) as [[Hs ->]|(Hne & Hs & _ & Hw & _)].
    - rewrite bstate_eqb_refl. simpl. split; [done|lia].
    - rewrite Hs. assert (bstate_eqb (st b) target = false) as ->.
      { destruct (bstate_eqb (st b) target) eqn:E; [|done]. by apply bstate_eqb_eq in E. }
      simpl. destruct target; simpl; split; rewrite Hw; simpl; try lia; try done;
        apply Iw_reset; try done; apply HI.
  Qed.

  Lemma step_J now e b g tl :
    J b g tl -> tl <= now -> J (fst (step now e b)) (ghost_step now e b g) now.
  Proof.
    intros HJ Hle. pose proof HJ as [HI Hl]. unfold ghost_step.
    destruct e as [|o tok|].
    - (* Start *)
      simpl. unfold Model.try_acquire. destruct (st b) eqn:Hs.
      + simpl. unfold resets. simpl. rewrite Hs. simpl. split; [done|lia].
      + destruct (now <? openUntil b).
        * simpl. unfold resets. simpl. rewrite Hs. simpl. split; [done|lia].
        * pose proof (J_transition HalfOpen now b g tl HJ Hle) as HJ'.
          destruct (sem_try_facts (transition HalfOpen now b)) as (H1 & H2 & _).
          destruct (sem_try cap (transition HalfOpen now b)) as [b' [al ac]]. simpl in *.
          unfold resets in *. rewrite H1. unfold J in *. rewrite H2. done.
      + destruct (sem_try_facts b) as (H1 & H2 & _).
        destruct (sem_try cap b) as [b' [al ac]]. simpl in *.
        unfold resets. rewrite H1, Hs. simpl. unfold J. rewrite H2. split; [done|lia].
    - (* Done *)
      assert (Hrel : forall x g', J x g' now -> J (if tok then release x else x) g' now)
        by (intros x g'; by destruct tok).
      assert (Hrs : forall x, resets b (if tok then release x else x) = resets b x)
        by (intros x; by destruct tok).
      simpl. rewrite Hrs.
      assert (Hrec : forall ok, J (record now ok b)
                 (if resets b (record now ok b) then [] else g ++ [(now, ok)]) now).
      { intros ok. destruct (Iw_add bn num Hbn Hnum now ok (win b) g HI ltac:(lia)) as (HI' & Hcov & _).
        unfold Model.record. destruct (add bn num now ok (win b)) as [w [s f]] eqn:Ha. simpl in HI', Hcov.
        set (b1 := BR (st b) (openUntil b) (sem b) w (if ok then lastFailure b else now)
                      (if ok then now else lastSuccess b)).
        assert (HJ1 : J b1 (g ++ [(now, ok)]) now) by (split; simpl; [done|lia]).
        assert (Hst1 : st b1 = st b) by done.
        assert (Hres : forall x, resets b x = resets b1 x) by (intros; unfold resets; by rewrite Hst1).
        cbv zeta. destruct (s + f <? minReq).
        { rewrite Hres. unfold resets. rewrite bstate_eqb_refl. done. }
        destruct (reached f (s + f)).
        { rewrite Hres. apply (J_transition Open now b1 _ now HJ1). lia. }
        destruct (st b1) eqn:Hs1.
        - rewrite Hres. unfold resets. rewrite bstate_eqb_refl. done.
        - rewrite Hres. unfold resets. rewrite bstate_eqb_refl. done.
        - rewrite Hres. apply (J_transition Closed now b1 _ now HJ1). lia. }
      destruct o.
      + apply Hrel. apply Hrec.
      + apply Hrel. apply Hrec.
      + apply Hrel. unfold resets. rewrite bstate_eqb_refl. simpl. split; [done|lia].
    - (* Metrics *)
      simpl. destruct (Iw_advance bn num Hbn Hnum now (win b) g HI ltac:(lia)) as (HI' & Hcov & _).
      unfold snapshot. simpl. destruct (totals (advance bn num now (win b))) as [s f]. simpl.
      unfold resets. simpl. rewrite bstate_eqb_refl. simpl.
      split; simpl; [done|lia].
  Qed.

  Lemma run_J : forall h b g tl,
    J b g tl -> mono tl h -> J (run h b) (ghost h b g) (last_time tl h).
  Proof.
    induction h as [|[t e] h IH]; intros b g tl HJ Hm; simpl; [done|].
    destruct Hm as [Hle Hm]. apply IH; [|done]. by eapply step_J.
  Qed.

  (* the totals the breaker decides on are the outcomes recorded since the window was last reset
     whose time is at or after lastUpdate - (num-1)*bucket, for every history with a non-decreasing clock *)
  Theorem window_totals t0 h :
    mono t0 h ->
    let b := run h (new_breaker num t0) in
    let g := ghost h (new_breaker num t0) [] in
    let c := lastUpdate (win b) - (Z.of_nat num - 1) * bn in
    totals (win b) = (cntge true c g, cntge false c g).
  Proof.
    intros Hm. cbv zeta. destruct (run_J h _ [] t0 (J_new t0) Hm) as [HI _].
    by apply Iw_totals.
  Qed.

  (* after an outcome is recorded or Metrics is read at [now], the current bucket covers now: the cut-off
     lastUpdate - (num-1)*bn lies in (now - num*bn, now - (num-1)*bn] *)
  Theorem window_alignment now e b g tl :
    J b g tl -> tl <= now ->
    (match e with EStart | EDone Cancel _ => False | _ => True end) ->
    let w := win (fst (step now e b)) in lastUpdate w <= now < lastUpdate w + bn.
  Proof.
    intros [HI Hl] Hle He. cbv zeta. destruct e as [|o tok|]; [done| |].
    - assert (Hw : forall x, win (if tok then release x else x) = win x) by (intros; by destruct tok).
      simpl. rewrite Hw.
      assert (Hrec : forall ok, lastUpdate (win (record now ok b)) <= now < lastUpdate (win (record now ok b)) + bn).
      { intros ok. destruct (Iw_add bn num Hbn Hnum now ok (win b) g HI ltac:(lia)) as (_ & Hcov & _).
        unfold Model.record. destruct (add bn num now ok (win b)) as [w [s f]] eqn:Ha. simpl in Hcov.
        cbv zeta. destruct (s + f <? minReq); [done|].
        destruct (reached f (s + f)).
        { match goal with |- context [transition Open now ?x] =>
            destruct (transition_cases Open now x) as [[_ ->]|(_ & _ & _ & -> & _)] end; done. }
        simpl. destruct (st b); try done.
        match goal with |- context [transition Closed now ?x] =>
          destruct (transition_cases Closed now x) as [[_ ->]|(_ & _ & _ & -> & _)] end; simpl; [done|lia]. }
      destruct o; [apply Hrec|apply Hrec|done].
    - simpl. destruct (Iw_advance bn num Hbn Hnum now (win b) g HI ltac:(lia)) as (_ & Hcov & _).
      unfold snapshot. simpl. destruct (totals (advance bn num now (win b))). done.
  Qed.

  (* ---------------------------------------------------------------- Closed -> Open exactly when *)
  Lemma add_totals now ok w : snd (add bn num now ok w) = totals (fst (add bn num now ok w)).
  Proof. done. Qed.

  Lemma win_release (tok : bool) x : win (if tok then release x else x) = win x.
  Proof. by destruct tok. Qed.

  Lemma record_win_closed now ok b :
    st b = Closed -> win (record now ok b) = fst (add bn num now ok (win b)).
  Proof.
    intros Hs. unfold Model.record. destruct (add bn num now ok (win b)) as [w [s f]]. simpl. cbv zeta.
    destruct (s + f <? minReq); [done|]. destruct (reached f (s + f)).
    - match goal with |- context [transition Open now ?x] =>
        destruct (transition_cases Open now x) as [[_ ->]|(_ & _ & _ & -> & _)] end; done.
    - simpl. rewrite Hs. done.
  Qed.

  Theorem opens_exactly_when t0 h now o tok :
    mono t0 h -> last_time t0 h <= now ->
    let b := run h (new_breaker num t0) in
    let g := ghost h (new_breaker num t0) [] in
    st b = Closed ->
    let b' := fst (step now (EDone o tok) b) in
    let g' := ghost_step now (EDone o tok) b g in
    let c := lastUpdate (win b') - (Z.of_nat num - 1) * bn in
    let s := cntge true c g' in
    let f := cntge false c g' in
    (st b' = Open <-> o <> Cancel /\ minReq <= s + f /\ reached f (s + f) = true) /\
    (st b' = Open \/ st b' = Closed).
  Proof.
    intros Hm Hle b g Hs b' g' c s f.
    pose proof (run_J h _ [] t0 (J_new t0) Hm) as HJ. fold b g in HJ.
    pose proof (step_J now (EDone o tok) b g _ HJ Hle) as [HI' _]. fold b' g' in HI'.
    pose proof (Iw_totals bn num Hbn Hnum _ _ HI') as Htot. fold c s f in Htot.
    pose proof (step_state now (EDone o tok) b) as Hst. fold b' in Hst.
    assert (Hgen : forall ok, win b' = fst (add bn num now ok (win b)) ->
              next_state now (EDone (if ok then OK else Fail) tok) b =
              (if s + f <? minReq then Closed else if reached f (s + f) then Open else Closed)).
    { intros ok Hw. unfold next_state.
      assert (Hsnd : snd (add bn num now (match (if ok then OK else Fail) with OK => true | _ => false end) (win b)) = (s, f)).
      { replace (match (if ok then OK else Fail) with OK => true | _ => false end) with ok by (by destruct ok).
        rewrite add_totals, <-Hw. done. }
      destruct ok; simpl in *; rewrite Hsnd, Hs; done. }
    destruct o.
    - rewrite (Hgen true) in Hst by (subst b'; simpl; by rewrite win_release, record_win_closed).
      rewrite Hst. destruct (s + f <? minReq) eqn:E1; [split; [split; [done|lia]|by right]|].
      destruct (reached f (s + f)) eqn:E2; (split; [split; [intros; repeat split; try done; lia|intros (_ & _ & ?); done]|auto]).
    - rewrite (Hgen false) in Hst by (subst b'; simpl; by rewrite win_release, record_win_closed).
      rewrite Hst. destruct (s + f <? minReq) eqn:E1; [split; [split; [done|lia]|by right]|].
      destruct (reached f (s + f)) eqn:E2; (split; [split; [intros; repeat split; try done; lia|intros (_ & _ & ?); done]|auto]).
    - simpl in Hst. rewrite Hst, Hs. split; [split; [done|intros [? _]; done]|by right].
  Qed.

  (* ---------------------------------------------------------------- half-open exits *)
  Theorem halfopen_exits t0 h now o tok :
    mono t0 h -> last_time t0 h <= now ->
    let b := run h (new_breaker num t0) in
    let g := ghost h (new_breaker num t0) [] in
    st b = HalfOpen -> o <> Cancel ->
    let ok := match o with OK => true | _ => false end in
    let b' := fst (step now (EDone o tok) b) in
    (* the totals the decision is taken on: the probes' outcomes since half-open began *)
    let w1 := fst (add bn num now ok (win b)) in
    let c := lastUpdate w1 - (Z.of_nat num - 1) * bn in
    let s := cntge true c (g ++ [(now, ok)]) in
    let f := cntge false c (g ++ [(now, ok)]) in
    st b' = (if s + f <? minReq then HalfOpen else if reached f (s + f) then Open else Closed) /\
    (st b' = Closed -> totals (win b') = (0, 0)).
  Proof.
    intros Hm Hle b g Hs Ho ok b' w1 c s f.
    pose proof (run_J h _ [] t0 (J_new t0) Hm) as [HI Hl]. fold b g in HI, Hl.
    destruct (Iw_add bn num Hbn Hnum now ok (win b) g HI ltac:(lia)) as (HI1 & _). fold w1 in HI1.
    pose proof (Iw_totals bn num Hbn Hnum _ _ HI1) as Htot. fold c s f in Htot.
    assert (Hadd : snd (add bn num now ok (win b)) = (s, f)) by (rewrite <-Htot; done).
    pose proof (step_state now (EDone o tok) b) as Hst. fold b' in Hst.
    assert (Hst' : st b' = (if s + f <? minReq then HalfOpen else if reached f (s + f) then Open else Closed)).
    { rewrite Hst. unfold next_state. clear Hst HI1 Htot.
      destruct o; [| |done]; subst ok; cbv beta iota in Hadd |- *; rewrite Hadd, Hs; done. }
    split; [done|]. intros Hc.
    assert (Hrel : forall x, win (if tok then release x else x) = win x) by (intros; by destruct tok).
    assert (Hrec : st (record now ok b) = Closed -> totals (win (record now ok b)) = (0, 0)).
    { intros Hc'. revert Hc'. unfold Model.record. destruct (add bn num now ok (win b)) as [w [s0 f0]] eqn:Ha. simpl.
      cbv zeta. destruct (s0 + f0 <? minReq); [simpl; congruence|].
      destruct (reached f0 (s0 + f0)).
      { match goal with |- context [transition Open now ?x] =>
          destruct (transition_cases Open now x) as [[Hx ->]|(_ & -> & _)] end; simpl in *; congruence. }
      simpl. rewrite Hs.
      match goal with |- context [transition Closed now ?x] =>
        destruct (transition_cases Closed now x) as [[Hx _]|(_ & _ & _ & -> & _)] end; [simpl in Hx; congruence|].
      intros _. simpl. rewrite totals_sum. simpl.
      assert (Hz : forall l : list bucket, sumS (map (fun _ => (0, 0, now)) l) = 0 /\ sumF (map (fun _ => (0, 0, now)) l) = 0).
      { induction l as [|x l [IH1 IH2]]; simpl; [done|]. unfold bS, bF. simpl. lia. }
      destruct (Hz (buf w)) as [-> ->]. done. }
    assert (HrelS : forall x, st (if tok then release x else x) = st x) by (intros; by destruct tok).
    subst b'. simpl in Hc |- *. rewrite Hrel. rewrite HrelS in Hc. subst ok.
    destruct o; try done; apply Hrec; done.
  Qed.

  (* ---------------------------------------------------------------- while Open, before openUntil *)
  Fixpoint all_before (u : Z) (h : list (Z * event)) : Prop :=
    match h with [] => True | (t, _) :: rest => t < u /\ all_before u rest end.

  Fixpoint no_admission (tr : list (Z * event * output)) : Prop :=
    match tr with
    | [] => True
    | (_, EStart, o) :: rest => o = OAcq false false /\ no_admission rest
    | _ :: rest => no_admission rest
    end.

  Theorem open_rejects : forall h b,
    st b = Open -> all_before (openUntil b) h ->
    st (run h b) = Open /\ openUntil (run h b) = openUntil b /\ no_admission (trace h b).
  Proof.
    clear Hbn Hnum.
    induction h as [|[t e] h IH]; intros b Hs Hb; simpl; [done|].
    destruct Hb as [Ht Hb].
    assert (Hstep : st (fst (step t e b)) = Open /\ openUntil (fst (step t e b)) = openUntil b /\
                    (e = EStart -> snd (step t e b) = OAcq false false)).
    { destruct e as [|o tok|]; simpl.
      - unfold Model.try_acquire. rewrite Hs. destruct (Z.ltb_spec t (openUntil b)); [done|lia].
      - assert (Hrel : forall x, st (if tok then release x else x) = st x /\
                                 openUntil (if tok then release x else x) = openUntil x) by (intros; by destruct tok).
        destruct (Hrel (match o with OK => record t true b | Fail => record t false b | Cancel => b end)) as [-> ->].
        assert (Hrec : forall ok, st (record t ok b) = Open /\ openUntil (record t ok b) = openUntil b).
        { intros ok. unfold Model.record. destruct (add bn num t ok (win b)) as [w [s f]]. simpl. cbv zeta.
          destruct (s + f <? minReq); [done|]. destruct (reached f (s + f)).
          - match goal with |- context [transition Open t ?x] =>
              destruct (transition_cases Open t x) as [[_ ->]|(Hne & _)] end; [done|]. simpl in Hne. congruence.
          - simpl. rewrite Hs. done. }
        destruct o; [destruct (Hrec true)|destruct (Hrec false)|]; done.
      - unfold snapshot. simpl. destruct (totals (advance bn num t (win b))). done. }
    destruct Hstep as (H1 & H2 & H3).
    destruct (step t e b) as [b' o] eqn:Hst. simpl in *.
    destruct (IH b' H1) as (I1 & I2 & I3); [by rewrite H2|].
    split; [done|]. split; [congruence|].
    destruct e; simpl; try done. split; [by apply H3|done].
  Qed.

  (* ---------------------------------------------------------------- the half-open semaphore *)
  Lemma step_start now b :
    step now EStart b = (fst (try_acquire now b), OAcq (fst (snd (try_acquire now b))) (snd (snd (try_acquire now b)))).
  Proof.
    clear Hbn Hnum. simpl. destruct (try_acquire now b) as [b' [al ac]]. done. Qed.

  Lemma try_acquire_sem now b :
    sem (fst (try_acquire now b)) = (if snd (snd (try_acquire now b)) then S (sem b) else sem b) /\
    (snd (snd (try_acquire now b)) = true -> (sem b < cap)%nat).
  Proof.
    clear Hbn Hnum.
    unfold Model.try_acquire. destruct (st b).
    - done.
    - destruct (now <? openUntil b); [done|].
      destruct (transition_cases HalfOpen now b) as [[_ ->]|(_ & _ & Hsem & _)].
      + destruct (sem_try_facts b) as (_ & _ & _ & [(-> & ? & ->)|(-> & _ & ->)]); done.
      + destruct (sem_try_facts (transition HalfOpen now b)) as (_ & _ & _ & [(-> & ? & ->)|(-> & _ & ->)]);
          simpl; rewrite <-?Hsem; split; try done; lia.
    - destruct (sem_try_facts b) as (_ & _ & _ & [(-> & ? & ->)|(-> & _ & ->)]); done.
  Qed.

  Lemma record_sem now ok b : sem (record now ok b) = sem b.
  Proof.
    clear Hbn Hnum.
    unfold Model.record. destruct (add bn num now ok (win b)) as [w [s f]]. simpl. cbv zeta.
    destruct (s + f <? minReq); [done|]. destruct (reached f (s + f)).
    - match goal with |- context [transition Open now ?x] =>
        destruct (transition_cases Open now x) as [[_ ->]|(_ & _ & -> & _)] end; done.
    - simpl. destruct (st b); done.
  Qed.

  Lemma step_done_sem now o (tok : bool) b :
    sem (fst (step now (EDone o tok) b)) = if tok then Nat.pred (sem b) else sem b.
  Proof.
    clear Hbn Hnum. simpl. destruct tok, o; simpl; rewrite ?record_sem; done. Qed.

  Lemma step_metrics_sem now b : sem (fst (step now EMetrics b)) = sem b.
  Proof.
    clear Hbn Hnum. simpl. unfold snapshot. simpl. destruct (totals (advance bn num now (win b))). done. Qed.

  Theorem sem_bounded : forall h b, (sem b <= cap)%nat -> (sem (run h b) <= cap)%nat.
  Proof.
    clear Hbn Hnum.
    induction h as [|[t e] h IH]; intros b Hb; simpl; [done|]. apply IH.
    destruct e as [|o tok|].
    - rewrite step_start. simpl. destruct (try_acquire_sem t b) as [-> Hlt].
      destruct (snd (snd (try_acquire t b))); [specialize (Hlt eq_refl)|]; lia.
    - rewrite step_done_sem. destruct tok; lia.
    - by rewrite step_metrics_sem.
  Qed.

  (* tokens handed out and not yet returned, read off the trace; None if someone returns a token
     nobody holds (the real release would block forever) *)
  Fixpoint outstanding (n : nat) (tr : list (Z * event * output)) : option nat :=
    match tr with
    | [] => Some n
    | (_, EStart, OAcq _ true) :: rest => outstanding (S n) rest
    | (_, EDone _ true, _) :: rest => match n with O => None | S m => outstanding m rest end
    | _ :: rest => outstanding n rest
    end.

  Theorem sem_counts_probes : forall h b n,
    outstanding (sem b) (trace h b) = Some n ->
    sem (run h b) = n /\ ((sem b <= cap)%nat -> (n <= cap)%nat).
  Proof.
    clear Hbn Hnum.
    intros h b n Ho.
    assert (Heq : sem (run h b) = n).
    { revert b n Ho. induction h as [|[t e] h IH]; intros b n Ho; simpl in *; [congruence|].
      destruct (step t e b) as [b' o] eqn:Hst. simpl in *. apply IH.
      destruct e as [|o0 tok|].
      - rewrite step_start in Hst. inversion Hst; subst b' o. clear Hst.
        destruct (try_acquire_sem t b) as [-> _].
        destruct (snd (snd (try_acquire t b))); done.
      - pose proof (step_done_sem t o0 tok b) as Hs. rewrite Hst in Hs. simpl in Hs. rewrite Hs.
        destruct tok; [|done]. destruct (sem b); [done|]. done.
      - pose proof (step_metrics_sem t b) as Hs. rewrite Hst in Hs. simpl in Hs. by rewrite Hs. }
    split; [done|]. intros Hb. rewrite <-Heq. by apply sem_bounded.
  Qed.

  (* a call admitted without a token was admitted by a closed breaker *)
  Theorem admitted_without_token_only_when_closed now b :
    snd (try_acquire now b) = (true, false) -> st b = Closed.
  Proof.
    clear Hbn Hnum.
    unfold Model.try_acquire. destruct (st b); [done| |].
    - destruct (now <? openUntil b); [done|].
      destruct (sem_try_facts (transition HalfOpen now b)) as (_ & _ & _ & [(-> & _)|(-> & _)]); done.
    - destruct (sem_try_facts b) as (_ & _ & _ & [(-> & _)|(-> & _)]); done.
  Qed.
End Breaker.

(* ---------------------------------------------------------------- the hypotheses are satisfiable *)
(* window 40ns in 4 buckets, minRequests 4, rate 1/2, open timeout 50, one half-open probe:
   two failures out of four trip it at 1003; calls are rejected until 1053; the probe admitted at 1053
   and three more successes close it. *)
Definition example_history : list (Z * event) :=
  [(1000, EStart); (1000, EDone OK false); (1001, EStart); (1001, EDone Fail false);
   (1002, EStart); (1002, EDone OK false); (1003, EStart); (1003, EDone Fail false);
   (1004, EStart); (1052, EStart); (1053, EStart); (1053, EStart); (1054, EDone OK true);
   (1054, EStart); (1055, EDone OK true); (1055, EStart); (1056, EDone OK true);
   (1056, EStart); (1057, EDone OK true); (1058, EStart)].

Example example_history_mono : mono 1000 example_history.
Proof. simpl. lia. Qed.

Example example_history_walk :
  let r := run 10 4 4 50 1 (reached_q 1 2) in
  let b0 := new_breaker 4 1000 in
  st (r (firstn 8 example_history) b0) = Open /\
  openUntil (r (firstn 8 example_history) b0) = 1053 /\
  st (r (firstn 10 example_history) b0) = Open /\
  st (r (firstn 11 example_history) b0) = HalfOpen /\
  sem (r (firstn 12 example_history) b0) = 1%nat /\
  st (r (firstn 19 example_history) b0) = Closed /\
  totals (win (r (firstn 19 example_history) b0)) = (0, 0) /\
  outstanding 0 (trace 10 4 4 50 1 (reached_q 1 2) example_history b0) = Some 0%nat.
Proof. vm_compute. repeat split; reflexivity. Qed.
