(* C47 — the rolling bucket window (breaker/bucket.go) refines a timestamped list of outcomes.

   [ages w] lists the ring's buckets from the current one backwards in time.  One rotation of
   advanceLocked prepends a fresh bucket and drops the oldest; a bump touches the head.  The
   invariant [Iw] says that the bucket of age j counts exactly the outcomes whose time lies in
   [L - j*bn, L - j*bn + bn) where L = lastUpdate, and that no outcome is at or after L + bn.
   Hence the totals are the outcomes at or after L - (num-1)*bn. *)
From Coq Require Import ZArith Lia ZifyBool.
From stdpp Require Import list.
From GV Require Import C47.Model.
Open Scope Z_scope.

Definition bS (b : bucket) : Z := b.1.1.
Definition bF (b : bucket) : Z := b.1.2.

Fixpoint sumS (l : list bucket) : Z := match l with [] => 0 | b :: r => bS b + sumS r end.
Fixpoint sumF (l : list bucket) : Z := match l with [] => 0 | b :: r => bF b + sumF r end.

Lemma sumS_app l1 l2 : sumS (l1 ++ l2) = sumS l1 + sumS l2.
Proof. induction l1; simpl; lia. Qed.
Lemma sumF_app l1 l2 : sumF (l1 ++ l2) = sumF l1 + sumF l2.
Proof. induction l1; simpl; lia. Qed.
Lemma sumS_reverse l : sumS (reverse l) = sumS l.
Proof. induction l; [done|]. rewrite reverse_cons, sumS_app. simpl. lia. Qed.
Lemma sumF_reverse l : sumF (reverse l) = sumF l.
Proof. induction l; [done|]. rewrite reverse_cons, sumF_app. simpl. lia. Qed.

Lemma totals_sum w : totals w = (sumS (buf w), sumF (buf w)).
Proof.
  unfold totals.
  assert (H : forall l a b,
    fold_left (fun '(s, f) '(bs, bf, _) => (s + bs, f + bf)) l (a, b) = (a + sumS l, b + sumF l)).
  { induction l as [|[[s f] t] l IH]; intros a b; simpl.
    - f_equal; lia.
    - rewrite IH. unfold bS, bF. simpl. f_equal; lia. }
  rewrite H. done.
Qed.

(* outcomes: (time, success) *)
Definition inb (b : bool) (lo hi : Z) (o : Z * bool) : bool :=
  Bool.eqb o.2 b && (lo <=? o.1) && (o.1 <? hi).

Fixpoint cnt (b : bool) (lo hi : Z) (outs : list (Z * bool)) : Z :=
  match outs with
  | [] => 0
  | o :: r => (if inb b lo hi o then 1 else 0) + cnt b lo hi r
  end.

(* outcomes with flag b at or after c *)
Fixpoint cntge (b : bool) (c : Z) (outs : list (Z * bool)) : Z :=
  match outs with
  | [] => 0
  | o :: r => (if Bool.eqb o.2 b && (c <=? o.1) then 1 else 0) + cntge b c r
  end.

Lemma cnt_app b lo hi l1 l2 : cnt b lo hi (l1 ++ l2) = cnt b lo hi l1 + cnt b lo hi l2.
Proof. induction l1; simpl; lia. Qed.

Lemma cnt_nonneg b lo hi l : 0 <= cnt b lo hi l.
Proof. induction l; simpl; [lia|]. destruct (inb _ _ _ _); lia. Qed.

Lemma cnt_split b lo mid hi l :
  lo <= mid -> mid <= hi -> cnt b lo hi l = cnt b lo mid l + cnt b mid hi l.
Proof.
  intros H1 H2. induction l as [|[t f] l IH]; simpl; [done|]. rewrite IH. unfold inb. simpl.
  destruct (Bool.eqb f b); simpl; [|lia].
  destruct (lo <=? t) eqn:E1, (t <? hi) eqn:E2, (t <? mid) eqn:E3, (mid <=? t) eqn:E4; simpl; lia.
Qed.

Lemma cnt_zero b lo hi l :
  (forall o, o ∈ l -> o.1 < lo \/ hi <= o.1) -> cnt b lo hi l = 0.
Proof.
  induction l as [|[t f] l IH]; intros H; simpl; [done|].
  rewrite IH by (intros o Ho; apply H; by right).
  destruct (H (t, f)) as [Hl|Hh]; [by left| |]; unfold inb; simpl in *.
  - destruct (Z.leb_spec lo t); [lia|]. by rewrite andb_false_r.
  - destruct (Z.ltb_spec t hi); [lia|]. by rewrite andb_false_r.
Qed.

Lemma cnt_cntge b lo hi l :
  (forall o, o ∈ l -> o.1 < hi) -> cnt b lo hi l = cntge b lo l.
Proof.
  induction l as [|[t f] l IH]; intros H; simpl; [done|].
  rewrite IH by (intros o Ho; apply H; by right).
  pose proof (H (t, f) ltac:(by left)) as Ht. simpl in Ht. unfold inb. simpl.
  destruct (Z.ltb_spec t hi); [|lia]. by rewrite andb_true_r.
Qed.

Section Window.
  Variable bn : Z.
  Variable num : nat.
  Hypothesis Hbn : 0 < bn.
  Hypothesis Hnum : (0 < num)%nat.

  Definition WFw (w : bwin) : Prop := length (buf w) = num /\ (cursor w < num)%nat.

  Definition ages (w : bwin) : list bucket :=
    reverse (take (S (cursor w)) (buf w)) ++ reverse (drop (S (cursor w)) (buf w)).

  Lemma ages_length w : WFw w -> length (ages w) = num.
  Proof.
    intros [Hl Hc]. unfold ages. rewrite app_length, !reverse_length, <-app_length, take_drop. done.
  Qed.

  Lemma sum_ages w : sumS (ages w) = sumS (buf w) /\ sumF (ages w) = sumF (buf w).
  Proof.
    unfold ages. rewrite sumS_app, sumF_app, !sumS_reverse, !sumF_reverse, <-sumS_app, <-sumF_app, take_drop.
    done.
  Qed.

  Lemma WFw_hard_reset now w : WFw w -> WFw (hard_reset now w).
  Proof. intros [Hl Hc]. split; simpl; [by rewrite map_length|lia]. Qed.

  Lemma WFw_new now : WFw (new_window num now).
  Proof. split; simpl; [by rewrite map_length, replicate_length|lia]. Qed.

  Lemma WFw_rotate w : WFw w -> WFw (rotate bn num w).
  Proof.
    intros [Hl Hc]. split; simpl; [by rewrite insert_length|]. apply Nat.mod_upper_bound. lia.
  Qed.

  Lemma ages_rotate w :
    WFw w ->
    ages (rotate bn num w) = (0, 0, lastUpdate w + bn) :: take (num - 1) (ages w).
  Proof.
    intros [Hl Hc]. unfold ages, rotate. simpl.
    set (fresh := (0, 0, lastUpdate w + bn)). set (c := cursor w) in *. set (l := buf w) in *.
    destruct (decide (S c = num)) as [Heq|Hne].
    - rewrite Heq, Nat.mod_same by lia.
      destruct l as [|x0 tl]; [simpl in Hl; lia|]. simpl.
      rewrite drop_0. f_equal.
      rewrite (take_ge (x0 :: tl)) by (simpl in *; lia).
      rewrite (drop_ge (x0 :: tl)) by (simpl in *; lia).
      rewrite reverse_nil, app_nil_r, reverse_cons.
      replace (num - 1)%nat with (length (reverse tl)) by (rewrite reverse_length; simpl in Hl; lia).
      by rewrite take_app.
    - assert (Hlt : (S c < num)%nat) by lia.
      rewrite Nat.mod_small by lia.
      assert (Hf : <[S c := fresh]> l !! S c = Some fresh) by (apply list_lookup_insert; lia).
      rewrite (take_S_r _ _ _ Hf), take_insert by lia. rewrite reverse_snoc.
      rewrite drop_insert_gt by lia.
      destruct (lookup_lt_is_Some_2 l (S c)) as [x Hx]; [lia|].
      rewrite (drop_S _ _ _ Hx), reverse_cons.
      set (A := reverse (take (S c) l)). set (B := reverse (drop (S (S c)) l)).
      simpl. f_equal. rewrite app_assoc.
      replace (num - 1)%nat with (length (A ++ B)).
      + by rewrite take_app.
      + unfold A, B. rewrite app_length, !reverse_length, take_length, drop_length. lia.
  Qed.

  Lemma ages_bump f w x :
    WFw w -> buf w !! cursor w = Some x ->
    exists rest, ages w = x :: rest /\
      ages (BW (alter f (cursor w) (buf w)) (cursor w) (lastUpdate w)) = f x :: rest.
  Proof.
    intros [Hl Hc] Hx. unfold ages. simpl.
    set (c := cursor w) in *. set (l := buf w) in *.
    exists (reverse (take c l) ++ reverse (drop (S c) l)). split.
    - rewrite (take_S_r _ _ _ Hx), reverse_snoc. done.
    - assert (Hfx : alter f c l !! c = Some (f x)) by (by rewrite list_lookup_alter, Hx).
      rewrite (take_S_r _ _ _ Hfx), reverse_snoc, take_alter by lia.
      rewrite drop_alter by lia. done.
  Qed.

  (* ---------------------------------------------------------------- the refinement invariant *)
  Definition Iw (w : bwin) (outs : list (Z * bool)) : Prop :=
    WFw w /\
    (forall o, o ∈ outs -> o.1 < lastUpdate w + bn) /\
    forall (j : nat) bk, ages w !! j = Some bk ->
      bS bk = cnt true (lastUpdate w - Z.of_nat j * bn) (lastUpdate w - Z.of_nat j * bn + bn) outs /\
      bF bk = cnt false (lastUpdate w - Z.of_nat j * bn) (lastUpdate w - Z.of_nat j * bn + bn) outs.

  Lemma ages_hard_reset now w j bk :
    WFw w -> ages (hard_reset now w) !! j = Some bk -> bS bk = 0 /\ bF bk = 0.
  Proof.
    intros Hw Hj. apply elem_of_list_lookup_2 in Hj. unfold ages in Hj. simpl in Hj.
    rewrite elem_of_app, !elem_of_reverse in Hj.
    assert (Hin : bk ∈ map (fun _ : bucket => (0, 0, now)) (buf w)).
    { destruct Hj as [Hj|Hj].
      - apply elem_of_take in Hj as (i & Hi & _). by eapply elem_of_list_lookup_2.
      - apply elem_of_list_lookup_1 in Hj as (i & Hi). rewrite lookup_drop in Hi.
        by eapply elem_of_list_lookup_2. }
    apply elem_of_list_fmap in Hin as (y & -> & _). done.
  Qed.

  Lemma Iw_reset now w : WFw w -> Iw (hard_reset now w) [].
  Proof.
    intros Hw. split; [by apply WFw_hard_reset|]. split; [intros o Ho; by apply elem_of_nil in Ho|].
    intros j bk Hj. simpl. by eapply ages_hard_reset.
  Qed.

  (* the whole window has gone stale: realigning at now keeps the invariant with the same outcomes *)
  Lemma Iw_stale now w outs :
    Iw w outs -> lastUpdate w + Z.of_nat num * bn <= now -> Iw (hard_reset now w) outs.
  Proof.
    intros (Hw & Hlt & Hb) Hst. split; [by apply WFw_hard_reset|]. split.
    - intros o Ho. specialize (Hlt o Ho). simpl. lia.
    - intros j bk Hj. pose proof (lookup_lt_Some _ _ _ Hj) as Hjn.
      rewrite ages_length in Hjn by (by apply WFw_hard_reset).
      destruct (ages_hard_reset now w j bk Hw Hj) as [-> ->]. simpl.
      split; symmetry; apply cnt_zero; intros o Ho; left; specialize (Hlt o Ho); nia.
  Qed.

  Lemma Iw_rotate w outs : Iw w outs -> Iw (rotate bn num w) outs.
  Proof.
    intros (Hw & Hlt & Hb). split; [by apply WFw_rotate|]. split.
    - intros o Ho. specialize (Hlt o Ho). simpl. lia.
    - intros j bk. rewrite ages_rotate by done.
      replace (lastUpdate (rotate bn num w)) with (lastUpdate w + bn) by done.
      destruct j as [|j]; simpl.
      + intros [= <-]. unfold bS, bF. simpl.
        split; symmetry; apply cnt_zero; intros o Ho; left; specialize (Hlt o Ho); lia.
      + intros Hj. apply lookup_take_Some in Hj as [Hj _]. destruct (Hb j bk Hj) as [-> ->].
        split; f_equal; lia.
  Qed.

  Lemma Iw_iter k w outs :
    Iw w outs ->
    Iw (Nat.iter k (rotate bn num) w) outs /\
    lastUpdate (Nat.iter k (rotate bn num) w) = lastUpdate w + Z.of_nat k * bn.
  Proof.
    intros HI. induction k as [|k [IH1 IH2]]; simpl.
    - split; [done|lia].
    - split; [by apply Iw_rotate|]. rewrite IH2. lia.
  Qed.

  (* advanceLocked: the invariant survives and the current bucket covers now *)
  Lemma Iw_advance now w outs :
    Iw w outs -> lastUpdate w <= now ->
    Iw (advance bn num now w) outs /\
    lastUpdate (advance bn num now w) <= now < lastUpdate (advance bn num now w) + bn /\
    lastUpdate w <= lastUpdate (advance bn num now w).
  Proof.
    intros HI Hle. unfold advance.
    destruct (Z.ltb_spec (now - lastUpdate w) bn) as [Hs|Hs]; [split; [done|lia]|].
    rewrite Z.quot_div_nonneg by lia.
    pose proof (Z.div_mod (now - lastUpdate w) bn ltac:(lia)) as Hdm.
    pose proof (Z.mod_pos_bound (now - lastUpdate w) bn Hbn) as Hmb.
    set (q := (now - lastUpdate w) / bn) in *.
    assert (Hq : 0 <= q) by (apply Z.div_pos; lia).
    destruct (Z.geb_spec q (Z.of_nat num)) as [Hst|Hst].
    - split; [apply Iw_stale; [done|nia]|]. simpl. lia.
    - destruct (Iw_iter (Z.to_nat q) w outs HI) as [H1 H2]. split; [done|].
      rewrite H2, Z2Nat.id by lia. nia.
  Qed.

  Lemma Iw_add now ok w outs :
    Iw w outs -> lastUpdate w <= now ->
    Iw (fst (add bn num now ok w)) (outs ++ [(now, ok)]) /\
    lastUpdate (fst (add bn num now ok w)) <= now < lastUpdate (fst (add bn num now ok w)) + bn /\
    lastUpdate w <= lastUpdate (fst (add bn num now ok w)).
  Proof.
    intros HI Hle. destruct (Iw_advance now w outs HI Hle) as ((Hw & Hlt & Hb) & Hcov & Hmono).
    unfold add. simpl. set (w1 := advance bn num now w) in *.
    split; [|done].
    destruct (lookup_lt_is_Some_2 (buf w1) (cursor w1)) as [x Hx]; [destruct Hw; lia|].
    destruct (ages_bump (bump ok) w1 x Hw Hx) as (rest & Ha & Ha').
    split; [|split].
    - destruct Hw as [Hl Hc]. split; simpl; [by rewrite alter_length|done].
    - simpl. intros o Ho. apply elem_of_app in Ho as [Ho|Ho]; [by apply Hlt|].
      apply elem_of_list_singleton in Ho. subst o. simpl. lia.
    - simpl. intros j bk. rewrite Ha'. intros Hj. rewrite !cnt_app. simpl.
      destruct j as [|j]; simpl in Hj.
      + inversion Hj; subst bk. destruct (Hb 0%nat x) as [Hs Hf]; [by rewrite Ha|].
        simpl in Hs, Hf. rewrite Z.sub_0_r in *.
        unfold inb. simpl.
        destruct (Z.leb_spec (lastUpdate w1) now); [|lia].
        destruct (Z.ltb_spec now (lastUpdate w1 + bn)); [|lia].
        destruct x as [[xs xf] xt]. unfold bS, bF in *. simpl in *.
        destruct ok; simpl; split; lia.
      + destruct (Hb (S j) bk) as [Hs Hf]; [by rewrite Ha|]. rewrite Hs, Hf.
        unfold inb. simpl.
        destruct (Z.ltb_spec now (lastUpdate w1 - Z.of_nat (S j) * bn + bn)); [nia|].
        rewrite !andb_false_r. lia.
  Qed.

  (* the sum over all ages is the count over the whole window *)
  Lemma sum_window : forall l L outs (b : bool),
    (forall (j : nat) bk, l !! j = Some bk ->
       (if b then bS bk else bF bk) = cnt b (L - Z.of_nat j * bn) (L - Z.of_nat j * bn + bn) outs) ->
    (if b then sumS l else sumF l) = cnt b (L + bn - Z.of_nat (length l) * bn) (L + bn) outs.
  Proof.
    induction l as [|bk l IH]; intros L outs b H.
    - simpl. destruct b; symmetry; apply cnt_zero; intros; lia.
    - pose proof (H 0%nat bk eq_refl) as H0. simpl in H0. rewrite Z.sub_0_r in H0.
      assert (IH' : (if b then sumS l else sumF l) =
                    cnt b (L - bn + bn - Z.of_nat (length l) * bn) (L - bn + bn) outs).
      { apply IH. intros j bk' Hj. rewrite (H (S j) bk' Hj). f_equal; lia. }
      replace (L - bn + bn) with L in IH' by lia.
      replace (L + bn - Z.of_nat (length (bk :: l)) * bn) with (L - Z.of_nat (length l) * bn)
        by (simpl length; lia).
      rewrite (cnt_split b _ L (L + bn)) by nia.
      rewrite <-IH', <-H0. destruct b; simpl; lia.
  Qed.

  Theorem Iw_totals w outs :
    Iw w outs ->
    totals w = (cntge true (lastUpdate w - (Z.of_nat num - 1) * bn) outs,
                cntge false (lastUpdate w - (Z.of_nat num - 1) * bn) outs).
  Proof.
    intros (Hw & Hlt & Hb). rewrite totals_sum. destruct (sum_ages w) as [<- <-].
    pose proof (sum_window (ages w) (lastUpdate w) outs true) as HS.
    pose proof (sum_window (ages w) (lastUpdate w) outs false) as HF.
    simpl in HS, HF. rewrite ages_length in HS, HF by done.
    rewrite HS by (intros j bk Hj; by destruct (Hb j bk Hj)).
    rewrite HF by (intros j bk Hj; by destruct (Hb j bk Hj)).
    rewrite !cnt_cntge by done.
    replace (lastUpdate w + bn - Z.of_nat num * bn) with (lastUpdate w - (Z.of_nat num - 1) * bn) by lia.
    done.
  Qed.
End Window.
