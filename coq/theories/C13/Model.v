(* C13 — executable model of stashing as coded in
     actor/stash.go            (stash / unstash / unstashAll over stashState.box, an UnboundedMailbox used by
                                the actor alone: a FIFO list)
     actor/receive_context.go  (Stash / Unstash / UnstashAll: call the above, record the error with Err)
     actor/pools.go            (cloneContext: the clone carries the same message)
     actor/pid.go doReceive    (the re-sent clone is appended to the actor's own user mailbox)
   No proofs in this file. A message is a natural number (its identity). *)
From Coq Require Import List Bool Arith.
Import ListNotations.

Inductive action : Type := Stash | Unstash | UnstashAll.

(* what the environment does: a message arrives from outside, or the actor takes the next message
   from its mailbox and its handler makes the given calls, in order *)
Inductive event : Type :=
| Arrive (m : nat)
| Deliver (d : list action).

Inductive origin : Type := Fresh | Re.   (* sent from outside / re-sent by unstash *)

Inductive result : Type :=
| ROk
| RNoBuffer      (* gerrors.ErrStashBufferNotSet *)
| REmpty.        (* errors.New("stash buffer may be closed"): Unstash on an empty stash *)

Record state : Type := {
  hasbuf : bool;                        (* pid.stashState != nil && box != nil *)
  box : list nat;                       (* stash box, head = oldest *)
  mbox : list (nat * origin);           (* the actor's user mailbox, head = next to deliver *)
  (* history (ghost): *)
  arrived : list nat;                   (* messages sent from outside, in order *)
  stashed : list nat;                   (* successful Stash calls, in order *)
  unstashed : list nat;                 (* messages moved out of the stash, in order *)
  delivered : list (nat * origin)       (* messages handed to the handler, in order *)
}.

Definition init (buf : bool) : state :=
  {| hasbuf := buf; box := []; mbox := []; arrived := []; stashed := []; unstashed := []; delivered := [] |}.

Definition re (l : list nat) : list (nat * origin) := map (fun m => (m, Re)) l.

(* one call made by the handler of message [m] *)
Definition act (m : nat) (s : state) (a : action) : state * result :=
  if negb (hasbuf s) then (s, RNoBuffer) else
  match a with
  | Stash =>      (* state.box.Enqueue(cloneContext(ctx)) *)
      ({| hasbuf := hasbuf s; box := box s ++ [m]; mbox := mbox s; arrived := arrived s;
          stashed := stashed s ++ [m]; unstashed := unstashed s; delivered := delivered s |}, ROk)
  | Unstash =>    (* received := box.Dequeue(); nil -> error; pid.doReceive(cloneContext(received)) *)
      match box s with
      | [] => (s, REmpty)
      | h :: t =>
          ({| hasbuf := hasbuf s; box := t; mbox := mbox s ++ [(h, Re)]; arrived := arrived s;
              stashed := stashed s; unstashed := unstashed s ++ [h]; delivered := delivered s |}, ROk)
      end
  | UnstashAll => (* for !box.IsEmpty() { doReceive(cloneContext(box.Dequeue())) } *)
      ({| hasbuf := hasbuf s; box := []; mbox := mbox s ++ re (box s); arrived := arrived s;
          stashed := stashed s; unstashed := unstashed s ++ box s; delivered := delivered s |}, ROk)
  end.

(* the handler's calls; the observation after each call is (result, StashSize()) *)
Fixpoint acts (m : nat) (s : state) (d : list action) : state * list (result * nat) :=
  match d with
  | [] => (s, [])
  | a :: r =>
      let (s1, res) := act m s a in
      let (s2, rest) := acts m s1 r in
      (s2, (res, length (box s1)) :: rest)
  end.

(* output of an event: None for Arrive and for Deliver on an empty mailbox *)
Definition output : Type := option (nat * origin * list (result * nat)).

Definition step (s : state) (e : event) : state * output :=
  match e with
  | Arrive m =>
      ({| hasbuf := hasbuf s; box := box s; mbox := mbox s ++ [(m, Fresh)]; arrived := arrived s ++ [m];
          stashed := stashed s; unstashed := unstashed s; delivered := delivered s |}, None)
  | Deliver d =>
      match mbox s with
      | [] => (s, None)
      | (m, o) :: rest =>
          let s0 := {| hasbuf := hasbuf s; box := box s; mbox := rest; arrived := arrived s;
                       stashed := stashed s; unstashed := unstashed s; delivered := delivered s ++ [(m, o)] |} in
          let (s1, obs) := acts m s0 d in
          (s1, Some (m, o, obs))
      end
  end.

Fixpoint run (s : state) (es : list event) : state * list output :=
  match es with
  | [] => (s, [])
  | e :: r =>
      let (s1, o) := step s e in
      let (s2, os) := run s1 r in
      (s2, o :: os)
  end.

Definition exec (s : state) (es : list event) : state := fst (run s es).

(* projections used in the statements *)
Definition ids (l : list (nat * origin)) : list nat := map fst l.
Definition is_re (x : nat * origin) : bool := match snd x with Re => true | Fresh => false end.
Definition redelivered (s : state) : list nat := ids (filter is_re (delivered s)).
Definition re_pending (s : state) : list nat := ids (filter is_re (mbox s)).
Definition fresh_delivered (s : state) : list nat := ids (filter (fun x => negb (is_re x)) (delivered s)).
Definition fresh_pending (s : state) : list nat := ids (filter (fun x => negb (is_re x)) (mbox s)).
