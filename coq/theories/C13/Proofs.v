(* C13 — proofs about the stash model (C13/Model.v). *)
From Coq Require Import List Bool Arith Lia Permutation.
From GV Require Import C13.Model.
Import ListNotations.

(* ------------------------------------------------------------------------------------------ *)
(* list facts *)

Lemma ids_app a b : ids (a ++ b) = ids a ++ ids b.
Proof. apply map_app. Qed.

Lemma ids_re l : ids (re l) = l.
Proof. unfold ids, re. rewrite map_map. cbn. apply map_id. Qed.

Lemma filter_re_re l : filter is_re (re l) = re l.
Proof. unfold re. induction l; cbn; [reflexivity|]. rewrite IHl. reflexivity. Qed.

Lemma filter_fresh_re l : filter (fun x => negb (is_re x)) (re l) = [].
Proof. unfold re. induction l; cbn; [reflexivity|]. exact IHl. Qed.

Lemma re_app a b : re (a ++ b) = re a ++ re b.
Proof. apply map_app. Qed.

Arguments ids l : simpl never.
Arguments re l : simpl never.

(* ------------------------------------------------------------------------------------------ *)
(* the invariant *)

Record inv (s : state) : Prop := {
  inv_stash : stashed s = unstashed s ++ box s;
  inv_re : redelivered s ++ re_pending s = unstashed s;
  inv_fresh : fresh_delivered s ++ fresh_pending s = arrived s;
  inv_nobuf : hasbuf s = false -> box s = [] /\ stashed s = [] /\ unstashed s = []
}.

Lemma inv_init buf : inv (init buf).
Proof. constructor; cbn; auto. Qed.

Lemma act_hasbuf m s a : hasbuf (fst (act m s a)) = hasbuf s.
Proof. unfold act. destruct (hasbuf s) eqn:E; cbn; [|auto]. destruct a; cbn; auto. destruct (box s); cbn; auto. Qed.

Lemma act_inv m s a : inv s -> inv (fst (act m s a)).
Proof.
  intros [H1 H2 H3 H4]. unfold act. destruct (hasbuf s) eqn:E; cbn; [|constructor; auto].
  destruct a; cbn.
  - constructor; cbn; try discriminate; unfold redelivered, re_pending, fresh_delivered, fresh_pending in *; cbn; auto.
    rewrite H1, app_assoc. reflexivity.
  - destruct (box s) as [|h t] eqn:B; cbn; [constructor; auto; try (rewrite B; auto); intro; congruence|].
    constructor; cbn; try discriminate; unfold redelivered, re_pending, fresh_delivered, fresh_pending in *; cbn.
    + rewrite H1, <- app_assoc. reflexivity.
    + rewrite filter_app, ids_app. cbn. rewrite app_assoc, H2. reflexivity.
    + rewrite filter_app. cbn. rewrite app_nil_r. exact H3.
  - constructor; cbn; try discriminate; unfold redelivered, re_pending, fresh_delivered, fresh_pending in *; cbn.
    + rewrite app_nil_r. exact H1.
    + rewrite filter_app, ids_app, filter_re_re, ids_re, app_assoc, H2. reflexivity.
    + rewrite filter_app, filter_fresh_re, app_nil_r. exact H3.
Qed.

Lemma acts_inv m d : forall s, inv s -> inv (fst (acts m s d)).
Proof.
  induction d as [|a r IH]; intros s H; cbn; [exact H|].
  destruct (act m s a) as [s1 res] eqn:E1. destruct (acts m s1 r) as [s2 rest] eqn:E2. cbn.
  specialize (IH s1). rewrite E2 in IH. apply IH.
  pose proof (act_inv m s a H) as H'. rewrite E1 in H'. exact H'.
Qed.

Lemma step_inv s e : inv s -> inv (fst (step s e)).
Proof.
  intros H. destruct e as [m|d]; cbn.
  - destruct H as [H1 H2 H3 H4].
    constructor; cbn; auto; unfold redelivered, re_pending, fresh_delivered, fresh_pending in *; cbn.
    + rewrite filter_app, ids_app. cbn. rewrite app_nil_r. exact H2.
    + rewrite filter_app, ids_app. cbn. rewrite app_assoc, H3. reflexivity.
  - destruct (mbox s) as [|[m o] rest] eqn:M; cbn; [exact H|].
    match goal with |- context [acts m ?s0 d] => set (s0' := s0) end.
    assert (H0 : inv s0').
    { destruct H as [H1 H2 H3 H4]. subst s0'.
      constructor; cbn; auto; unfold redelivered, re_pending, fresh_delivered, fresh_pending in *; cbn;
        rewrite M in *; rewrite filter_app, ids_app; cbn in *; destruct o; cbn in *.
      - rewrite app_nil_r. exact H2.
      - rewrite <- app_assoc. exact H2.
      - rewrite <- app_assoc. exact H3.
      - rewrite app_nil_r. exact H3. }
    pose proof (acts_inv m d s0' H0) as H'. destruct (acts m s0' d). exact H'.
Qed.

Lemma run_inv es : forall s, inv s -> inv (exec s es).
Proof.
  unfold exec. induction es as [|e r IH]; intros s H; cbn; [exact H|].
  destruct (step s e) as [s1 o] eqn:E1. destruct (run s1 r) as [s2 os] eqn:E2. cbn.
  specialize (IH s1). rewrite E2 in IH. apply IH.
  pose proof (step_inv s e H) as H'. rewrite E1 in H'. exact H'.
Qed.

Theorem reachable_inv buf es : inv (exec (init buf) es).
Proof. apply run_inv, inv_init. Qed.

(* ------------------------------------------------------------------------------------------ *)
(* consequences *)

(* every delivery is either of a fresh or of a re-sent message: counting *)
Lemma count_partition (l : list (nat * origin)) m :
  count_occ Nat.eq_dec (ids l) m =
  count_occ Nat.eq_dec (ids (filter (fun x => negb (is_re x)) l)) m + count_occ Nat.eq_dec (ids (filter is_re l)) m.
Proof.
  unfold ids. induction l as [|[x o] l IH]; [reflexivity|].
  destruct o; cbn [filter is_re snd negb map fst]; destruct (Nat.eq_dec x m) as [e|n];
    rewrite ?(count_occ_cons_eq Nat.eq_dec _ e), ?(count_occ_cons_neq Nat.eq_dec _ n); lia.
Qed.

Theorem delivered_count buf es m :
  let s := exec (init buf) es in
  mbox s = [] ->
  count_occ Nat.eq_dec (ids (delivered s)) m =
  count_occ Nat.eq_dec (arrived s) m + count_occ Nat.eq_dec (unstashed s) m.
Proof.
  intros s Hm. destruct (reachable_inv buf es) as [_ H2 H3 _]. fold s in H2, H3.
  unfold re_pending, fresh_pending in *. rewrite Hm in *. cbn in *. rewrite app_nil_r in *.
  rewrite count_partition. unfold redelivered, fresh_delivered in *. rewrite H2, H3. reflexivity.
Qed.

(* single calls *)
Lemma unstash_oldest m s h t : hasbuf s = true -> box s = h :: t ->
  let s' := fst (act m s Unstash) in
  snd (act m s Unstash) = ROk /\ box s' = t /\ mbox s' = mbox s ++ [(h, Re)] /\ unstashed s' = unstashed s ++ [h].
Proof. intros Hb B. unfold act. rewrite Hb, B. cbn. auto. Qed.

Lemma unstash_empty m s : hasbuf s = true -> box s = [] -> act m s Unstash = (s, REmpty).
Proof. intros Hb B. unfold act. rewrite Hb, B. reflexivity. Qed.

Lemma unstashAll_in_order m s : hasbuf s = true ->
  let s' := fst (act m s UnstashAll) in
  snd (act m s UnstashAll) = ROk /\ box s' = [] /\ mbox s' = mbox s ++ re (box s) /\ unstashed s' = unstashed s ++ box s.
Proof. intros Hb. unfold act. rewrite Hb. cbn. auto. Qed.

Lemma stash_appends m s : hasbuf s = true ->
  let s' := fst (act m s Stash) in
  snd (act m s Stash) = ROk /\ box s' = box s ++ [m] /\ mbox s' = mbox s /\ stashed s' = stashed s ++ [m].
Proof. intros Hb. unfold act. rewrite Hb. cbn. auto. Qed.

Lemma nobuffer_error m s a : hasbuf s = false -> act m s a = (s, RNoBuffer).
Proof. intros Hb. unfold act. rewrite Hb. reflexivity. Qed.

(* without a buffer every call of every handler in every history reports the error *)
Definition all_results (os : list output) : list result :=
  flat_map (fun o => match o with Some (_, _, obs) => map fst obs | None => [] end) os.

Lemma acts_nobuffer m d : forall s, hasbuf s = false ->
  fst (acts m s d) = s /\ Forall (fun r => r = RNoBuffer) (map fst (snd (acts m s d))).
Proof.
  induction d as [|a r IH]; intros s Hb; cbn; [split; [reflexivity|constructor]|].
  rewrite (nobuffer_error m s a Hb). destruct (IH s Hb) as [I1 I2]. destruct (acts m s r) as [s2 rest]. cbn in *.
  split; [exact I1|]. constructor; [reflexivity|exact I2].
Qed.

Lemma run_nobuffer es : forall s, hasbuf s = false ->
  hasbuf (fst (run s es)) = false /\ Forall (fun r => r = RNoBuffer) (all_results (snd (run s es))).
Proof.
  induction es as [|e r IH]; intros s Hb; cbn; [split; [exact Hb|constructor]|].
  destruct (step s e) as [s1 o] eqn:E1.
  assert (Hb1 : hasbuf s1 = false /\ Forall (fun r => r = RNoBuffer) (match o with Some (_, _, obs) => map fst obs | None => [] end)).
  { destruct e as [m|d]; cbn in E1.
    - inversion E1; subst; cbn. split; [exact Hb|constructor].
    - destruct (mbox s) as [|[m o'] rest]; [inversion E1; subst; split; [exact Hb|constructor]|].
      match type of E1 with context [acts m ?s0 d] => set (s0' := s0) in * end.
      assert (Hb0 : hasbuf s0' = false) by exact Hb.
      destruct (acts_nobuffer m d s0' Hb0) as [A1 A2]. destruct (acts m s0' d) as [sa obs]. cbn in *.
      inversion E1; subst. split; [exact Hb0|exact A2]. }
  destruct Hb1 as [Hb1 Hf]. destruct (IH s1 Hb1) as [I1 I2]. destruct (run s1 r) as [s2 os]. cbn in *.
  split; [exact I1|]. apply Forall_app. split; assumption.
Qed.

(* with a buffer, Stash never fails *)
Lemma act_keeps_buf m s a : hasbuf (fst (act m s a)) = hasbuf s.
Proof. apply act_hasbuf. Qed.

(* ------------------------------------------------------------------------------------------ *)
(* non-vacuity *)
Example ex_run :
  let s := exec (init true)
     [Arrive 1; Arrive 2; Arrive 3; Deliver [Stash]; Deliver [Stash]; Deliver [UnstashAll]; Arrive 4;
      Deliver []; Deliver [Stash]; Deliver []; Arrive 5; Deliver [Unstash]; Deliver []] in
  ids (delivered s) = [1; 2; 3; 1; 2; 4; 5; 2] /\ stashed s = [1; 2; 2] /\ unstashed s = [1; 2; 2] /\ box s = [] /\ mbox s = [].
Proof. vm_compute. auto. Qed.

Example ex_nobuf :
  all_results (snd (run (init false) [Arrive 1; Deliver [Stash; Unstash; UnstashAll]])) = [RNoBuffer; RNoBuffer; RNoBuffer].
Proof. reflexivity. Qed.
