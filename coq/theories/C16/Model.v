(* C16 — reentrant requests complete exactly once, on the requester's turn.

   Executable model of the request machinery of one requesting actor
   (actor/reentrancy.go requestState, actor/pid.go registerRequestState / deregisterRequestState /
   completeRequest / enableReentrancyStash / dispatchOne / cancelInFlightRequests / enqueueAsyncError,
   actor/stash.go stash / unstashAll, reentrancyState.reset).

   Granularity.  Every [op] is one call of a real function, or one mutex-protected section of it, by
   one goroutine; a history is an arbitrary list of ops, so every interleaving of the goroutines
   (responders, timer goroutines, callers of Cancel, the stopping/restarting goroutine and the
   requester's own turn) at that granularity is covered.  The only function that is split is
   completeRequest:  [ODispatch] on a response does  requestStates.Get + requestState.complete
   (under the request's mutex) and [OFinish] does  deregisterRequestState + the continuation — the
   place where cancelInFlightRequests (off turn) can run in between.

   No proofs here: this file must compile even when a proof breaks. *)
From Coq Require Import ZArith List Bool Arith.
Import ListNotations.
Open Scope Z_scope.

(* what a completion carries *)
Inductive kind := KReply | KError | KTimeout | KCancel | KShutdown.

Definition kind_eqb (a b : kind) : bool :=
  match a, b with
  | KReply, KReply | KError, KError | KTimeout, KTimeout | KCancel, KCancel | KShutdown, KShutdown => true
  | _, _ => false
  end.

(* the timeout goroutine of one request (requestState.startTimeout / stopTimeoutIfSet) *)
(* TArmed: goroutine waiting, stopTimeout set.  TFired: it has enqueued the timeout, stopTimeout still set.
   TStopped: stopTimeoutIfSet ran first.  TDone: fired and stopped (in either order). *)
Inductive timer := TNone | TArmed | TFired | TStopped | TDone.

(* one requestState object; its index in [objs] stands for the correlation id *)
Record robj := mkObj {
  o_stash     : bool;          (* mode = StashNonReentrant *)
  o_completed : bool;
  o_outcome   : option kind;   (* result/err stored by the winning complete *)
  o_cb        : bool;          (* callback != nil *)
  o_calls     : nat;           (* number of continuation invocations (ghost) *)
  o_cancelreq : bool;          (* cancelRequested *)
  o_timer     : timer;
  o_dropped   : bool           (* ghost: completed by cancelInFlightRequests while a callback was set *)
}.

Inductive msg :=
| MUser (n : nat)              (* an ordinary message (anything the stash gate does not let through); n = arrival number *)
| MResp (r : nat) (k : kind).  (* *commands.AsyncResponse for correlation id r *)

(* where the requester's turn is *)
Inductive turnst :=
| TIdle
| TMid (r : nat) (c : bool) (k : kind).  (* inside completeRequest: complete won (callback captured: c), deregister not yet run *)

Inductive phase := PRun | PStopping | PCancelled | PStopped.

Record st := mkSt {
  objs      : list robj;
  table     : list nat;        (* keys of requestStates *)
  inflight  : Z;               (* inFlightCount *)
  blocking  : Z;               (* blockingCount *)
  maxif     : Z;               (* maxInFlight (fixed in the model) *)
  mbox      : list msg;        (* the requester's user mailbox *)
  stashq    : list msg;        (* stashState.box *)
  turn      : turnst;
  ph        : phase;
  nextu     : nat;             (* arrival counter of ordinary messages *)
  handled   : list nat;        (* ghost: ordinary messages in the order the handler saw them *)
  ctls      : nat;             (* ghost: control messages that reached their handler *)
  tainted   : bool;            (* ghost: cancelInFlightRequests ran while the turn was inside completeRequest *)
  overtaken : bool             (* ghost: unstashAll ran while ordinary messages waited in the mailbox, or an ordinary
                                  message was handled while held ones sat in the stash *)
}.

Inductive op :=
(* off turn (any goroutine) *)
| OArrive                         (* an ordinary message is enqueued *)
| OReply (r : nat) (k : kind)     (* a response envelope for id r is enqueued (reply, error reply, duplicate, unknown id) *)
| OTimerFire (r : nat)            (* timeout goroutine: enqueueAsyncError(ErrRequestTimeout) *)
| OCancel (r : nat)               (* RequestCall.Cancel() *)
| OStop                           (* Shutdown/passivation: stopping flag set; Request now returns ErrDead *)
| OCancelInFlight                 (* cancelInFlightRequests (doStop, restartSubtree) *)
| OReset                          (* reentrancyState.reset() in doStop's deferred pid.reset() *)
| ORestart                        (* the actor is initialised again *)
(* on the requester's turn *)
| ODispatch                       (* dequeue one message + dispatchOne up to and including requestState.complete *)
| OFinish                         (* rest of completeRequest: deregisterRequestState, then the continuation *)
| OCtl                            (* a control message (PoisonPill, Panicking, Pause/ResumePassivation) passes dispatchOne's gate *)
| ORequest (stash armed : bool)   (* Request/RequestName/RequestGrain succeeds or is rejected *)
| OThen (r : nat)                 (* RequestCall.Then *)
| ORetune.                        (* EnableReentrancy / DisableReentrancy at runtime: only the default mode of future requests
                                     changes (every modelled request carries its own mode); in-flight bookkeeping is untouched *)

Definition is_turn_op (o : op) : bool :=
  match o with
  | ODispatch | OFinish | OCtl | ORequest _ _ | OThen _ | ORetune => true
  | _ => false
  end.

(* ---- helpers *)
Definition get (l : list robj) (r : nat) : option robj := nth_error l r.

Fixpoint mapi_from (i : nat) (f : nat -> robj -> robj) (l : list robj) : list robj :=
  match l with [] => [] | x :: t => f i x :: mapi_from (S i) f t end.
Definition mapi (f : nat -> robj -> robj) (l : list robj) : list robj := mapi_from O f l.

(* apply f to the object with index r *)
Definition upd (l : list robj) (r : nat) (f : robj -> robj) : list robj :=
  mapi (fun i o => if Nat.eqb i r then f o else o) l.

Fixpoint mem (r : nat) (l : list nat) : bool :=
  match l with [] => false | x :: t => Nat.eqb x r || mem r t end.

Fixpoint remove1 (r : nat) (l : list nat) : list nat :=
  match l with [] => [] | x :: t => if Nat.eqb x r then remove1 r t else x :: remove1 r t end.

Definition is_stash (l : list robj) (r : nat) : bool :=
  match get l r with Some o => o_stash o | None => false end.

Definition is_completed (l : list robj) (r : nat) : bool :=
  match get l r with Some o => o_completed o | None => false end.

Fixpoint nstash (l : list robj) (t : list nat) : nat :=
  match t with [] => O | r :: t' => (if is_stash l r then 1 else 0)%nat + nstash l t' end.

Fixpoint users (l : list msg) : list nat :=
  match l with
  | [] => []
  | MUser n :: t => n :: users t
  | MResp _ _ :: t => users t
  end.

Definition set_completed (k : kind) (o : robj) : robj :=
  mkObj (o_stash o) true (Some k) (o_cb o) (o_calls o) (o_cancelreq o) (o_timer o) (o_dropped o).
Definition set_cb (o : robj) : robj :=
  mkObj (o_stash o) (o_completed o) (o_outcome o) true (o_calls o) (o_cancelreq o) (o_timer o) (o_dropped o).
Definition inc_calls (o : robj) : robj :=
  mkObj (o_stash o) (o_completed o) (o_outcome o) (o_cb o) (S (o_calls o)) (o_cancelreq o) (o_timer o) (o_dropped o).
Definition set_cancelreq (o : robj) : robj :=
  mkObj (o_stash o) (o_completed o) (o_outcome o) (o_cb o) (o_calls o) true (o_timer o) (o_dropped o).
Definition set_timer (t : timer) (o : robj) : robj :=
  mkObj (o_stash o) (o_completed o) (o_outcome o) (o_cb o) (o_calls o) (o_cancelreq o) t (o_dropped o).
(* stopTimeoutIfSet: closes the stop channel of a running timeout goroutine *)
Definition stop_timer (o : robj) : robj :=
  match o_timer o with TArmed => set_timer TStopped o | TFired => set_timer TDone o | _ => o end.
(* cancelInFlightRequests on one state that it wins: complete(nil, reason) discarding the callback, stopTimeoutIfSet *)
Definition shutdown_complete (o : robj) : robj :=
  mkObj (o_stash o) true (Some KShutdown) (o_cb o) (o_calls o) (o_cancelreq o)
        (match o_timer o with TArmed => TStopped | TFired => TDone | t => t end) (o_cb o).

Definition new_obj (stash armed : bool) : robj :=
  mkObj stash false None false O false (if armed then TArmed else TNone) false.

(* ---- setters of the state record *)
Definition with_objs (s : st) (l : list robj) : st :=
  mkSt l (table s) (inflight s) (blocking s) (maxif s) (mbox s) (stashq s) (turn s) (ph s) (nextu s) (handled s) (ctls s) (tainted s) (overtaken s).
Definition with_mbox (s : st) (m : list msg) : st :=
  mkSt (objs s) (table s) (inflight s) (blocking s) (maxif s) m (stashq s) (turn s) (ph s) (nextu s) (handled s) (ctls s) (tainted s) (overtaken s).
Definition with_turn (s : st) (t : turnst) : st :=
  mkSt (objs s) (table s) (inflight s) (blocking s) (maxif s) (mbox s) (stashq s) t (ph s) (nextu s) (handled s) (ctls s) (tainted s) (overtaken s).
Definition with_ph (s : st) (p : phase) : st :=
  mkSt (objs s) (table s) (inflight s) (blocking s) (maxif s) (mbox s) (stashq s) (turn s) p (nextu s) (handled s) (ctls s) (tainted s) (overtaken s).

Definition init (maxInFlight : Z) : st :=
  mkSt [] [] 0 0 maxInFlight [] [] TIdle PRun O [] O false false.

(* registerRequestState: limit check + counters + requestStates.Set.  None = ErrReentrancyInFlightLimit *)
Definition register (s : st) (stash armed : bool) : option st :=
  if (0 <? maxif s) && (maxif s <=? inflight s) then None
  else
    let id := length (objs s) in
    Some (mkSt (objs s ++ [new_obj stash armed]) (table s ++ [id])
               (inflight s + 1) (if stash then blocking s + 1 else blocking s) (maxif s)
               (mbox s) (stashq s) (turn s) (ph s) (nextu s) (handled s) (ctls s) (tainted s) (overtaken s)).

(* deregisterRequestState *)
Definition deregister (s : st) (r : nat) : st :=
  if negb (mem r (table s)) then s
  else
    let tb := remove1 r (table s) in
    let infl := inflight s - 1 in
    let ob := upd (objs s) r stop_timer in
    if is_stash (objs s) r then
      let bl := blocking s - 1 in
      if bl =? 0 then
        (* unstashAll: every stashed message is re-enqueued at the tail of the mailbox, oldest first *)
        mkSt ob tb infl bl (maxif s) (mbox s ++ stashq s) [] (turn s) (ph s) (nextu s) (handled s) (ctls s) (tainted s)
             (overtaken s || (negb (Nat.eqb (length (users (stashq s))) 0) && negb (Nat.eqb (length (users (mbox s))) 0)))
      else
        mkSt ob tb infl bl (maxif s) (mbox s) (stashq s) (turn s) (ph s) (nextu s) (handled s) (ctls s) (tainted s) (overtaken s)
    else
      mkSt ob tb infl (blocking s) (maxif s) (mbox s) (stashq s) (turn s) (ph s) (nextu s) (handled s) (ctls s) (tainted s) (overtaken s).

(* cancelInFlightRequests: for every key of the snapshot, requestState.complete(nil, reason); a state
   that was already completed (by the turn, which has not deregistered it yet) is skipped and stays
   in the map; the others are deleted, their timeout goroutines stopped. *)
Definition cancel_one (o : robj) : robj := if o_completed o then o else shutdown_complete o.
Definition cancel_objs (ob : list robj) (keys : list nat) : list robj :=
  mapi (fun i o => if mem i keys then cancel_one o else o) ob.
Definition cancel_keep (ob : list robj) (keys : list nat) : list nat := filter (is_completed ob) keys.

Definition turn_in_table (s : st) : bool :=
  match turn s with TMid r _ _ => mem r (table s) | TIdle => false end.

Section WithPolicy.
(* Does cancelInFlightRequests store 0 into both counters after its loop?  [true] is the code as it
   stands; [false] is the code with fixes/C16-cancel-inflight-no-zeroing.diff applied (the per-state
   decrements of the loop are already exact).  checks/C16.py determines which of the two the tree
   under check implements from the recorded runs. *)
Variable zeroing : bool.

Definition step (s : st) (o : op) : st :=
  match o with
  | OArrive =>
      (* Tell to an actor that is stopping or stopped returns ErrDead: nothing is enqueued *)
      match ph s with
      | PRun =>
          mkSt (objs s) (table s) (inflight s) (blocking s) (maxif s) (mbox s ++ [MUser (nextu s)]) (stashq s) (turn s) (ph s)
               (S (nextu s)) (handled s) (ctls s) (tainted s) (overtaken s)
      | _ => s
      end
  | OReply r k => match ph s with PRun => with_mbox s (mbox s ++ [MResp r k]) | _ => s end
  | OTimerFire r =>
      match get (objs s) r with
      | Some o =>
          match o_timer o with
          | TArmed => with_mbox (with_objs s (upd (objs s) r (set_timer TFired))) (mbox s ++ [MResp r KTimeout])
          | TStopped =>   (* select found both the timer and the stop channel ready and took the timer *)
              with_mbox (with_objs s (upd (objs s) r (set_timer TDone))) (mbox s ++ [MResp r KTimeout])
          | _ => s
          end
      | None => s
      end
  | OCancel r =>
      match get (objs s) r with
      | Some o =>
          if o_completed o || o_cancelreq o then s
          else with_mbox (with_objs s (upd (objs s) r set_cancelreq)) (mbox s ++ [MResp r KCancel])
      | None => s
      end
  | OStop => match ph s with PRun => with_ph s PStopping | _ => s end
  | OCancelInFlight =>
      (* the loop decrements once per state it wins ... and afterwards (zeroing) inFlightCount.Store(0); blockingCount.Store(0) *)
      let won := filter (fun r => negb (is_completed (objs s) r)) (table s) in
      mkSt (cancel_objs (objs s) (table s)) (cancel_keep (objs s) (table s))
           (if zeroing then 0 else inflight s - Z.of_nat (length won))
           (if zeroing then 0 else blocking s - Z.of_nat (nstash (objs s) won))
           (maxif s) (mbox s) (stashq s) (turn s)
           (match ph s with PStopping => PCancelled | p => p end)
           (nextu s) (handled s) (ctls s) (tainted s || (zeroing && turn_in_table s)) (overtaken s)
  | OReset =>
      match ph s with
      | PCancelled =>
          mkSt (objs s) [] 0 0 (maxif s) (mbox s) (stashq s) (turn s) PStopped (nextu s) (handled s) (ctls s) false (overtaken s)
      | _ => s
      end
  | ORestart => match ph s with PStopped => with_ph s PRun | _ => s end
  | ODispatch =>
      match turn s, mbox s with
      | TIdle, m :: rest =>
          match m with
          | MUser n =>
              if 0 <? blocking s then
                (* enableReentrancyStash = true: pid.stash *)
                mkSt (objs s) (table s) (inflight s) (blocking s) (maxif s) rest (stashq s ++ [m]) TIdle (ph s) (nextu s)
                     (handled s) (ctls s) (tainted s) (overtaken s)
              else
                mkSt (objs s) (table s) (inflight s) (blocking s) (maxif s) rest (stashq s) TIdle (ph s) (nextu s)
                     (handled s ++ [n]) (ctls s) (tainted s)
                     (overtaken s || negb (Nat.eqb (length (stashq s)) 0))   (* held messages stranded in the stash are passed *)
          | MResp r k =>
              let s1 := with_mbox s rest in
              if mem r (table s) then
                match get (objs s) r with
                | Some o =>
                    if o_completed o then s1     (* duplicate: complete returns (nil,false) *)
                    else with_turn (with_objs s1 (upd (objs s) r (set_completed k))) (TMid r (o_cb o) k)
                | None => s1
                end
              else s1                            (* unknown correlation id: dropped *)
          end
      | _, _ => s
      end
  | OFinish =>
      match turn s with
      | TMid r c k =>
          let s1 := deregister (with_turn s TIdle) r in
          if c then with_objs s1 (upd (objs s1) r inc_calls) else s1
      | TIdle => s
      end
  | OCtl =>
      match turn s with
      | TIdle => mkSt (objs s) (table s) (inflight s) (blocking s) (maxif s) (mbox s) (stashq s) TIdle (ph s) (nextu s)
                      (handled s) (S (ctls s)) (tainted s) (overtaken s)
      | _ => s
      end
  | ORequest stash armed =>
      match turn s, ph s with
      | TIdle, PRun => match register s stash armed with Some s' => s' | None => s end
      | _, _ => s
      end
  | OThen r =>
      match turn s, get (objs s) r with
      | TIdle, Some o =>
          if o_cb o then s
          else if o_completed o then with_objs s (upd (objs s) r (fun x => inc_calls (set_cb x)))
          else with_objs s (upd (objs s) r set_cb)
      | _, _ => s
      end
  | ORetune => s
  end.

Definition run (mx : Z) (ops : list op) : st := fold_left step ops (init mx).

(* ---- observation compared with the implementation after every step *)
Definition kind_code (k : option kind) : Z :=
  match k with None => 0 | Some KReply => 1 | Some KError => 2 | Some KTimeout => 3 | Some KCancel => 4 | Some KShutdown => 4 end.
(* a Cancel and a shutdown cancellation both store ErrRequestCanceled *)

(* per object: completed, outcome, callback set, continuation calls, cancelRequested, stopTimeout != nil *)
Definition obs_obj (o : robj) : Z :=
  (if o_completed o then 1 else 0) + 2 * kind_code (o_outcome o) + 16 * (if o_cb o then 1 else 0)
  + 32 * Z.of_nat (o_calls o) + 128 * (if o_cancelreq o then 1 else 0)
  + 256 * (match o_timer o with TArmed | TFired => 1 | _ => 0 end).

Definition msg_code (m : msg) : Z :=
  match m with MUser n => Z.of_nat n | MResp r k => - (1 + Z.of_nat r * 8 + kind_code (Some k)) end.

Record obs := mkObs {
  ob_table : list nat; ob_inflight : Z; ob_blocking : Z; ob_mbox : list Z; ob_stash : list Z;
  ob_handled : list nat; ob_ctls : nat; ob_objs : list Z }.

Fixpoint insert_sorted (x : nat) (l : list nat) : list nat :=
  match l with [] => [x] | y :: t => if Nat.leb x y then x :: l else y :: insert_sorted x t end.
Definition sort_nat (l : list nat) : list nat := fold_right insert_sorted [] l.

Definition observe (s : st) : obs :=
  mkObs (sort_nat (table s)) (inflight s) (blocking s) (map msg_code (mbox s)) (map msg_code (stashq s))
        (handled s) (ctls s) (map obs_obj (objs s)).

Fixpoint trace (s : st) (ops : list op) : list obs :=
  match ops with [] => [] | o :: t => let s' := step s o in observe s' :: trace s' t end.

(* ---- comparison with recorded implementation runs (used by the generated cases.v of checks/C16.py) *)
Fixpoint list_eqb {A} (eqb : A -> A -> bool) (a b : list A) : bool :=
  match a, b with
  | [], [] => true
  | x :: a', y :: b' => eqb x y && list_eqb eqb a' b'
  | _, _ => false
  end.

Definition obs_eqb (a b : obs) : bool :=
  list_eqb Nat.eqb (ob_table a) (ob_table b) && (ob_inflight a =? ob_inflight b) && (ob_blocking a =? ob_blocking b)
  && list_eqb Z.eqb (ob_mbox a) (ob_mbox b) && list_eqb Z.eqb (ob_stash a) (ob_stash b)
  && list_eqb Nat.eqb (ob_handled a) (ob_handled b) && Nat.eqb (ob_ctls a) (ob_ctls b)
  && list_eqb Z.eqb (ob_objs a) (ob_objs b).

(* expected: one entry per op; None = not observed (the whole completeRequest ran inside one real call) *)
Fixpoint first_mismatch (s : st) (ops : list op) (expected : list (option obs)) (i : Z) : Z :=
  match ops, expected with
  | o :: t, e :: et =>
      let s' := step s o in
      match e with
      | Some ob => if obs_eqb (observe s') ob then first_mismatch s' t et (i + 1) else i
      | None => first_mismatch s' t et (i + 1)
      end
  | [], [] => -1
  | _, _ => i
  end.

Fixpoint first_taint (s : st) (ops : list op) (i : Z) : Z :=
  match ops with
  | [] => -1
  | o :: t => let s' := step s o in if tainted s' then i else first_taint s' t (i + 1)
  end.

(* (first step whose observation differs or -1, first tainted step or -1, overtaken at the end) *)
Definition check_case (mx : Z) (ops : list op) (expected : list (option obs)) : Z * Z * Z :=
  (first_mismatch (init mx) ops expected 0, first_taint (init mx) ops 0,
   if overtaken (run mx ops) then 1 else 0).

End WithPolicy.
